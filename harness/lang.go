package main

// Helpers around the real lexer/parser/compiler/VM shared by the language-level checks
// (C01, C02, C04, C05, C17, C18, C20, C03).

import (
	"bytes"
	"context"
	"fmt"
	"io"
	"os"
	"strings"
	"time"

	"github.com/risor-io/risor"
	"github.com/risor-io/risor/compiler"
	"github.com/risor-io/risor/object"
	"github.com/risor-io/risor/op"
	ros "github.com/risor-io/risor/os"
	"github.com/risor-io/risor/parser"
)

func init() {
	childCommands["dev-eval"] = func(args []string) {
		src, _ := io.ReadAll(os.Stdin)
		out := EvalSrc(string(src), 10*time.Second)
		fmt.Printf("value: %s\nerror: %s\nstdout: %q\npanic: %v\n", out.Value, out.Err, out.Stdout, out.Panic)
		if len(args) > 0 && args[0] == "-code" {
			c, err := CompileSrc(string(src))
			if err != nil {
				fmt.Println("compile error:", err)
				return
			}
			for _, cc := range c.Flatten() {
				fmt.Printf("code %s: %s\n", cc.ID(), CodeText(cc))
			}
		}
	}
}

// CompileSrc parses and compiles with the default global names; panics become errors
// prefixed "PANIC:".
func CompileSrc(src string) (code *compiler.Code, err error) {
	defer func() {
		if r := recover(); r != nil {
			code, err = nil, fmt.Errorf("PANIC: %v", r)
		}
	}()
	prog, err := parser.Parse(context.Background(), src)
	if err != nil {
		return nil, err
	}
	cfg := risor.NewConfig()
	return compiler.Compile(prog, cfg.CompilerOpts()...)
}

// CodeText renders the instructions of one code object symbolically:
// NAME, NAME:a or NAME:a:b separated by spaces (what the C04/C01 oracle decodes).
func CodeText(c *compiler.Code) string {
	var sb strings.Builder
	n := c.InstructionCount()
	for i := 0; i < n; {
		info := op.GetInfo(c.Instruction(i))
		if i > 0 {
			sb.WriteByte(' ')
		}
		name := info.Name
		if name == "" {
			name = fmt.Sprintf("UNKNOWN_%d", c.Instruction(i))
		}
		sb.WriteString(name)
		for k := 1; k <= info.OperandCount && i+k < n; k++ {
			fmt.Fprintf(&sb, ":%d", c.Instruction(i+k))
		}
		i += 1 + info.OperandCount
	}
	return sb.String()
}

type EvalOut struct {
	Value  string // Inspect() of the result, "" on error
	Type   string
	Err    string
	Stdout string
	Panic  bool
	Obj    object.Object
}

// memFile is an in-memory stdout for the VirtualOS.
type memFile struct {
	ros.NilFile
	buf *bytes.Buffer
}

func (m *memFile) Write(p []byte) (int, error) { return m.buf.Write(p) }

// EvalSrc evaluates source with the default globals, stdout captured through a VirtualOS.
func EvalSrc(src string, timeout time.Duration, opts ...risor.Option) (out EvalOut) {
	ctx, cancel := context.WithTimeout(context.Background(), timeout)
	defer cancel()
	buf := &bytes.Buffer{}
	vos := ros.NewVirtualOS(ctx, ros.WithStdout(&memFile{buf: buf}))
	defer func() {
		if r := recover(); r != nil {
			out.Panic = true
			out.Err = fmt.Sprintf("PANIC: %v", r)
		}
		out.Stdout = buf.String()
	}()
	all := append([]risor.Option{risor.WithOS(vos)}, opts...)
	res, err := risor.Eval(ctx, src, all...)
	if err != nil {
		out.Err = err.Error()
		return
	}
	out.Obj = res
	out.Value = res.Inspect()
	out.Type = string(res.Type())
	return
}

// ErrClass maps an error text to the small class enum the models use.
func ErrClass(msg string) string {
	switch {
	case msg == "":
		return "ok"
	case strings.HasPrefix(msg, "PANIC"), strings.HasPrefix(msg, "panic:"):
		return "panic"
	case strings.HasPrefix(msg, "parse error"), strings.HasPrefix(msg, "syntax error"):
		return "parse"
	case strings.HasPrefix(msg, "compile error"):
		return "compile"
	case strings.HasPrefix(msg, "type error"):
		return "type"
	case strings.HasPrefix(msg, "eval error"):
		return "eval"
	case strings.HasPrefix(msg, "args error"), strings.HasPrefix(msg, "argument error"):
		return "args"
	case strings.HasPrefix(msg, "value error"):
		return "value"
	case strings.HasPrefix(msg, "index error"), strings.HasPrefix(msg, "slice error"), strings.HasPrefix(msg, "key error"):
		return "index"
	case strings.HasPrefix(msg, "context"):
		return "context"
	default:
		return "error"
	}
}
