package main

// C18 — incremental (REPL-style) evaluation equals whole-program evaluation.
//
// Every history (a list of pieces) is fed to ONE compiler and ONE VM with exactly the API calls
// of cmd/risor/repl/repl.go's getEvaluator (compiler.New once, parser.Parse, c.Compile, vm.New
// once, v.Run, v.SetIP(code.InstructionCount()) after a run-time error, v.TOS).  Whether the REPL
// moves the ip after an error is read from repl.go on every run.
//
//   Code vs Impl : the Lean REPL state machine (RisorModel/C18/Model.lean) predicts, per piece, the
//                  outcome class, the operand-stack height, whether ip sits at the end of the code,
//                  whether the main code grew, and the TRACE of top-level statements the run
//                  executed.  The harness evaluates the traced statements as ONE whole program on
//                  the real code and compares value, stdout and every global with the incremental
//                  run (the model's state is the trace; every statement semantics is a function of it).
//   Code vs Spec : the same comparison against the Spec's trace/outcomes (rejected pieces vanish,
//                  failing pieces keep what ran before the failure, whole = concatenation).
//   Fragments    : the real instructions each accepted piece added are sent to C04's verified
//                  checker (position independent, ends with exactly one value).
//   Host globals : the names the host supplies (risor.Config: builtins, default modules) are variables
//                  defined before the first piece (Model.lean `Repl.init host`).  Histories REBIND them at
//                  top level (`len = func(v) {...}`, `math = 7`, `import math as len`, ...) and read them in
//                  later pieces; after EVERY piece the value of EVERY host-supplied name (vm.Get) is compared
//                  with the whole-program evaluation of the statements executed so far, next to the user's
//                  globals: what one run leaves in a global is what the next run finds there.

import (
	"bytes"
	"context"
	"fmt"
	"go/ast"
	"go/parser"
	"go/token"
	"os"
	"sort"
	"strconv"
	"strings"
	"time"

	"github.com/risor-io/risor"
	"github.com/risor-io/risor/compiler"
	"github.com/risor-io/risor/object"
	"github.com/risor-io/risor/op"
	ros "github.com/risor-io/risor/os"
	rparser "github.com/risor-io/risor/parser"
	"github.com/risor-io/risor/vm"
)

func init() { commands["C18"] = c18_runC18 }

// ---------------------------------------------------------------- the REPL protocol, read from repl.go

func c18RepoDir() string {
	if d := os.Getenv("VERIF_REPO"); d != "" {
		return d
	}
	return "/repo"
}

// c18ReplSetsIP reports whether getEvaluator calls v.SetIP(code.InstructionCount()) in the error
// branch of `if err := v.Run(ctx); err != nil`.
func c18ReplSetsIP() (setsIP bool, found bool) {
	fset := token.NewFileSet()
	f, err := parser.ParseFile(fset, c18RepoDir()+"/cmd/risor/repl/repl.go", nil, 0)
	if err != nil {
		return true, false
	}
	ast.Inspect(f, func(n ast.Node) bool {
		is, ok := n.(*ast.IfStmt)
		if !ok || is.Init == nil {
			return true
		}
		as, ok := is.Init.(*ast.AssignStmt)
		if !ok || len(as.Rhs) != 1 {
			return true
		}
		call, ok := as.Rhs[0].(*ast.CallExpr)
		if !ok {
			return true
		}
		sel, ok := call.Fun.(*ast.SelectorExpr)
		if !ok || sel.Sel.Name != "Run" {
			return true
		}
		found = true
		ast.Inspect(is.Body, func(m ast.Node) bool {
			c, ok := m.(*ast.CallExpr)
			if !ok {
				return true
			}
			s, ok := c.Fun.(*ast.SelectorExpr)
			if ok && s.Sel.Name == "SetIP" && len(c.Args) == 1 {
				if a, ok := c.Args[0].(*ast.CallExpr); ok {
					if as, ok := a.Fun.(*ast.SelectorExpr); ok && as.Sel.Name == "InstructionCount" {
						setsIP = true
					}
				}
			}
			return true
		})
		return false
	})
	return
}

// ---------------------------------------------------------------- real runs

type c18Env struct {
	cfg    *risor.Config
	setsIP bool
	whole  map[string]*c18Obs
	frags  map[string]string
	names  []string
	// the globals the host supplies (risor.Config): sorted names, the objects handed to every VM, their kind
	host     []string
	hostVal  map[string]object.Object
	hostKind map[string]string // builtin | module | other
	hostSet  map[string]bool
	recNames bool // record vm.GlobalNames() after every piece (slot sessions)
	recTabs  bool // record the COMPILER's tables after every piece, rejected ones included (table sessions)
}

func c18NewEnv(setsIP bool, opts ...risor.Option) *c18Env {
	env := &c18Env{cfg: risor.NewConfig(opts...), setsIP: setsIP, whole: map[string]*c18Obs{}, frags: map[string]string{},
		hostVal: map[string]object.Object{}, hostKind: map[string]string{}, hostSet: map[string]bool{}}
	g := env.cfg.Globals()
	env.host = env.cfg.GlobalNames()
	sort.Strings(env.host)
	for _, n := range env.host {
		env.hostSet[n] = true
		env.hostKind[n] = "other"
		if o, ok := g[n].(object.Object); ok {
			env.hostVal[n] = o
			switch o.(type) {
			case *object.Builtin:
				env.hostKind[n] = "builtin"
			case *object.Module:
				env.hostKind[n] = "module"
			}
		}
	}
	return env
}

type c18Obs struct {
	Class   string // ok | parse | compile | fail
	Value   string
	Err     string
	Stdout  string // cumulative
	SP, IP  int
	CodeLen int
	Grew    bool
	Frag    string
	Globals map[string]string
	Halt    int // vm.halt after the piece (-1: no VM yet)
	Loaded  int // number of loaded code objects (main code + bound functions)
	Mods    int // number of entries of the import cache (vm.modules)
	GNames  []string // vm.GlobalNames(): the root symbol table in slot order (when env.recNames)
	// when env.recTabs: the main code object of the compiler after the piece (also after a rejected one)
	CNames []string // compiler.Code.GlobalNames(): the root symbol table in slot order
	Consts []string // the constants of the main code, each printed with %v
	NNames int      // number of attribute names of the main code
}

// c18Inspect never panics (a mutated tree may leave nil elements inside containers).
func c18Inspect(o object.Object) (s string) {
	if o == nil {
		return "nil"
	}
	defer func() {
		if r := recover(); r != nil {
			s = fmt.Sprintf("<Inspect panics: %v>", r)
		}
	}()
	return o.Inspect()
}

// globals reads the user's globals `names` and EVERY host-supplied global of a stopped VM.  A user
// global that is undefined, never stored or nil is left out; a host-supplied global is left out as long
// as it still holds the very object the host supplied, and recorded (also when nil) once it was rebound.
func (env *c18Env) globals(v *vm.VirtualMachine, names []string) map[string]string {
	m := map[string]string{}
	if v == nil {
		return m
	}
	for _, n := range names {
		if env.hostSet[n] {
			continue
		}
		o, err := v.Get(n)
		if err == nil && o != nil && o != object.Nil { // a declared but never stored slot reads as nil
			m[n] = c18Inspect(o)
		}
	}
	for _, n := range env.host {
		o, err := v.Get(n)
		switch {
		case err != nil:
			m[n] = "<no such global>"
		case o == nil:
			m[n] = "<empty slot>"
		case o != env.hostVal[n]:
			m[n] = c18Inspect(o)
		}
	}
	return m
}

func c18FragText(c *compiler.Code, from, to int) string {
	var sb strings.Builder
	for i := from; i < to; {
		info := op.GetInfo(c.Instruction(i))
		if i > from {
			sb.WriteByte(' ')
		}
		name := info.Name
		if name == "" {
			name = fmt.Sprintf("UNKNOWN_%d", c.Instruction(i))
		}
		sb.WriteString(name)
		for k := 1; k <= info.OperandCount && i+k < to; k++ {
			fmt.Fprintf(&sb, ":%d", c.Instruction(i+k))
		}
		i += 1 + info.OperandCount
	}
	return sb.String()
}

// c18Incremental feeds the pieces the way the REPL's evaluator does.
func (env *c18Env) incremental(pieces []string, names []string, globalsEvery bool) []*c18Obs {
	return env.incrementalCtx(pieces, names, globalsEvery, "")
}

// incrementalCtx: ctxs gives every piece its own context (one letter per piece, "" = one 8 s deadline for the
// whole history as before): b context.Background(); c cancellable, cancelled only after the history; d cancelled
// by the piece itself (printing c18CancelMarker cancels it: everything before the marker has run, the piece then
// spins until the VM notices); D cancelled before the run starts; e a 25 ms deadline (for pieces that only spin).
func (env *c18Env) incrementalCtx(pieces []string, names []string, globalsEvery bool, ctxs string) []*c18Obs {
	base, cancel := context.WithTimeout(context.Background(), 8*time.Second)
	defer cancel()
	buf := &bytes.Buffer{}
	wr := &c18Out{buf: buf}
	vos := ros.NewVirtualOS(base, ros.WithStdout(wr))
	ctx := ros.WithOS(base, vos)
	pctx := ctx
	var cancels []context.CancelFunc
	defer func() {
		for _, f := range cancels {
			f()
		}
	}()
	var c *compiler.Compiler
	var v *vm.VirtualMachine
	out := make([]*c18Obs, 0, len(pieces))
	for i, src := range pieces {
		o := &c18Obs{}
		if ctxs != "" {
			wr.onMarker = nil
			switch ctxs[i] {
			case 'b':
				ctx = ros.WithOS(context.Background(), vos)
			case 'c':
				cc, cf := context.WithCancel(context.Background())
				cancels = append(cancels, cf)
				ctx = ros.WithOS(cc, vos)
			case 'd', 'D':
				cc, cf := context.WithCancel(context.Background())
				cancels = append(cancels, cf)
				tm := time.AfterFunc(6*time.Second, cf) // safety net only: never a verdict
				cancels = append(cancels, func() { tm.Stop() })
				if ctxs[i] == 'D' {
					cf()
				} else {
					wr.onMarker = cf
				}
				ctx = ros.WithOS(cc, vos)
			case 'e':
				cc, cf := context.WithTimeout(context.Background(), 25*time.Millisecond)
				cancels = append(cancels, cf)
				ctx = ros.WithOS(cc, vos)
			}
		}
		func() {
			defer func() {
				if r := recover(); r != nil {
					o.Class, o.Err = "panic", fmt.Sprint(r)
				}
			}()
			if c == nil {
				var err error
				c, err = compiler.New(env.cfg.CompilerOpts()...)
				if err != nil {
					o.Class, o.Err = "compile", err.Error()
					return
				}
			}
			before := c.Code().InstructionCount()
			prog, err := rparser.Parse(pctx, src) // the piece's own context is the context of its RUN
			if err != nil {
				o.Class, o.Err = "parse", err.Error()
				return
			}
			code, err := c.Compile(prog)
			if err != nil {
				o.Class, o.Err = "compile", err.Error()
				return
			}
			o.Frag = c18FragText(code, before, code.InstructionCount())
			if v == nil {
				v = vm.New(code, env.cfg.VMOpts()...)
			}
			if err := c18RunGuarded(v, ctx, ctxs != "" && ctxs[i] == 'b'); err != nil {
				if err == errC18Hang {
					o.Class, o.Err = "hang", "the run did not end within 8 s under context.Background(); the VM is abandoned"
					v = nil
					return
				}
				if env.setsIP {
					v.SetIP(code.InstructionCount())
				}
				o.Class, o.Err = "fail", err.Error()
				return
			}
			o.Class = "ok"
			res, ok := v.TOS()
			if !ok || res == nil {
				o.Value = "nil"
			} else {
				o.Value = c18Inspect(res)
			}
		}()
		o.Stdout = buf.String()
		if c != nil {
			o.CodeLen = c.Code().InstructionCount()
			if env.recTabs {
				code := c.Code()
				o.CNames, o.NNames = code.GlobalNames(), code.NameCount()
				o.Consts = []string{}
				for k := 0; k < code.ConstantsCount(); k++ {
					o.Consts = append(o.Consts, fmt.Sprintf("%v", code.Constant(k)))
				}
			}
		}
		prev := 0
		if i > 0 {
			prev = out[i-1].CodeLen
		}
		o.Grew = o.CodeLen > prev
		o.SP, o.IP, o.Halt = -1, 0, -1
		if v != nil {
			st := v.VerifState()
			o.SP, o.IP, o.Halt, o.Loaded, o.Mods = st.SP, st.IP, int(st.Halt), st.LoadedCode, st.Modules
			if env.recNames {
				o.GNames = v.GlobalNames()
			}
		}
		if o.Class == "hang" {
			out = append(out, o)
			for len(out) < len(pieces) {
				out = append(out, &c18Obs{Class: "hang", Err: "after an abandoned VM", SP: -1, Halt: -1})
			}
			return out
		}
		if globalsEvery || i == len(pieces)-1 {
			o.Globals = env.globals(v, names)
		}
		out = append(out, o)
	}
	return out
}

// wholeEval evaluates a program at once (Parse, Compile, vm.New, Run, TOS — what risor.Eval does)
// and keeps the VM to read the globals.
func (env *c18Env) wholeEval(src string) *c18Obs {
	if o, ok := env.whole[src]; ok {
		return o
	}
	o := &c18Obs{Globals: map[string]string{}}
	if strings.TrimSpace(src) == "" {
		o.Class, o.Value = "ok", "nil"
		env.whole[src] = o
		return o
	}
	ctx, cancel := context.WithTimeout(context.Background(), 8*time.Second)
	defer cancel()
	buf := &bytes.Buffer{}
	vos := ros.NewVirtualOS(ctx, ros.WithStdout(&memFile{buf: buf}))
	ctx = ros.WithOS(ctx, vos)
	func() {
		defer func() {
			if r := recover(); r != nil {
				o.Class, o.Err = "panic", fmt.Sprint(r)
			}
		}()
		prog, err := rparser.Parse(ctx, src)
		if err != nil {
			o.Class, o.Err = "parse", err.Error()
			return
		}
		code, err := compiler.Compile(prog, env.cfg.CompilerOpts()...)
		if err != nil {
			o.Class, o.Err = "compile", err.Error()
			return
		}
		v := vm.New(code, env.cfg.VMOpts()...)
		err = v.Run(ctx)
		o.Globals = env.globals(v, env.names)
		if err != nil {
			o.Class, o.Err = "fail", err.Error()
			return
		}
		o.Class = "ok"
		res, ok := v.TOS()
		if !ok || res == nil {
			o.Value = "nil"
		} else {
			o.Value = c18Inspect(res)
		}
	}()
	o.Stdout = buf.String()
	if len(env.whole) > 200000 {
		env.whole = map[string]*c18Obs{}
	}
	env.whole[src] = o
	return o
}

// ---------------------------------------------------------------- abstraction of statements

type c18Stmt struct {
	Src         string
	Kind        string // gen | inserted kind
	IsExpr      bool
	Leaves      bool
	Fails       bool
	InFn        bool
	AtomicFail  bool   // inserted failing statement without any effect: left out of reference programs
	OwnFail     bool   // a generated statement that fails on its own (leak unknown)
	NeutralLeak bool   // a rejected statement whose leaked instructions push nothing in total: the model's code does not grow
	LeakUnknown bool   // a statement ended by its context: how many operands it leaves is a matter of timing
	ImplRef     string // what an AtomicFail statement contributes to the reference program of the Impl trace (its declaration survives)
	Need        int
	Leak        int
	Pre         int
	Uses        []string
	Asg         []string
	VDecl       []string
	CDecl       []string
	FDefs       []string
	Calls       []string
	Node        *N
}

type c18Piece struct {
	Bad   bool
	Raw   string
	Stmts []*c18Stmt
	Kind  string
}

func (p *c18Piece) Src() string {
	if p.Bad {
		return p.Raw
	}
	parts := make([]string, len(p.Stmts))
	for i, s := range p.Stmts {
		parts[i] = s.Src
	}
	return strings.Join(parts, "\n")
}

func c18AssignTarget(x *N) string {
	if x.K == "assign" || x.K == "postfix" {
		return strings.SplitN(x.S, " ", 2)[0]
	}
	return ""
}

// c18Abstract computes what the model needs to know about one generated top-level statement.
// G = names declared at top level anywhere in the program; sens = global-sensitive functions.
func c18Abstract(node *N, G map[string]bool, sens map[string]bool) *c18Stmt {
	s := &c18Stmt{Src: strings.TrimRight(Stmts([]*N{node}, 0), "\n"), Kind: "gen", Need: 1, Node: node}
	self := ""
	switch node.K {
	case "expr":
		if in := node.C[0]; in.K == "func" && in.S != "" {
			s.Leaves = true
			s.CDecl = []string{in.S}
			self = in.S
		} else {
			s.IsExpr, s.Leaves = true, true
		}
	case "var":
		s.VDecl = []string{node.S}
	case "const":
		s.CDecl = []string{node.S}
	case "multi":
		s.VDecl = strings.Split(node.S, ",")
	}
	seenU, seenA, seenC := map[string]bool{}, map[string]bool{}, map[string]bool{}
	Walk(node, func(x *N, path []*N) {
		name := ""
		if x.K == "id" {
			name = x.S
		}
		if t := c18AssignTarget(x); t != "" {
			name = t
			if G[t] && !seenA[t] {
				seenA[t] = true
				s.Asg = append(s.Asg, t)
			}
		}
		if name == "" || !G[name] || name == self {
			return
		}
		if !seenU[name] {
			seenU[name] = true
			s.Uses = append(s.Uses, name)
		}
		if sens[name] && !seenC[name] {
			inFunc := false
			for _, a := range path {
				if a.K == "func" {
					inFunc = true
				}
			}
			if !inFunc {
				seenC[name] = true
				s.Calls = append(s.Calls, name)
			}
		}
	}, nil)
	if self != "" && sens[self] {
		s.FDefs = []string{self}
	}
	return s
}

// c18Program: the top-level statements of a generated program, abstracted.
type c18Program struct {
	Stmts []*c18Stmt
	Names []string // every global name the histories of this program may define
	Kinds map[string]int
	Depth int
}

func c18TopNames(stmts []*N) map[string]bool {
	G := map[string]bool{}
	for _, n := range stmts {
		switch n.K {
		case "var", "const":
			G[n.S] = true
		case "multi":
			for _, x := range strings.Split(n.S, ",") {
				G[x] = true
			}
		case "expr":
			if in := n.C[0]; in.K == "func" && in.S != "" {
				G[in.S] = true
			}
		}
	}
	return G
}

func c18Sensitive(stmts []*N, G map[string]bool) map[string]bool {
	mutated := map[string]bool{}
	for _, n := range stmts {
		Walk(n, func(x *N, _ []*N) {
			if t := c18AssignTarget(x); t != "" && G[t] {
				mutated[t] = true
			}
		}, nil)
	}
	sens := map[string]bool{}
	for _, n := range stmts {
		if n.K != "expr" || n.C[0].K != "func" || n.C[0].S == "" {
			continue
		}
		f := n.C[0]
		Walk(f, func(x *N, _ []*N) {
			name := ""
			if x.K == "id" {
				name = x.S
			}
			if t := c18AssignTarget(x); t != "" {
				name = t
			}
			if name != "" && name != f.S && (mutated[name] || sens[name]) {
				sens[f.S] = true
			}
		}, nil)
	}
	return sens
}

func c18Depth(x *N) int {
	d := 0
	for _, c := range x.C {
		if k := c18Depth(c); k > d {
			d = k
		}
	}
	switch x.K {
	case "block", "if", "switch", "for3", "forcond", "forever", "forrange", "forin", "func":
		return d + 1
	}
	return d
}

// ---------------------------------------------------------------- inserted pieces

var c18Kinds = []string{"PX", "RU", "RC", "FA", "FP", "FL", "RL", "RP", "RD", "RF", "FD"}
var c18EveryPos = []string{"PX", "RU", "RC", "FA", "FP", "FL", "RL", "RP"}

func c18Ins(kind string, uniq int) []*c18Piece {
	u := strconv.Itoa(uniq)
	expr := func(src string) *c18Stmt {
		return &c18Stmt{Src: src, Kind: kind, IsExpr: true, Leaves: true, Need: 3}
	}
	undef := func() *c18Stmt {
		s := expr("undefined_zq")
		s.Uses = []string{"undefined_zq"}
		return s
	}
	failing := func(src string, leak int) *c18Stmt {
		s := expr(src)
		s.Fails, s.AtomicFail, s.Leak = true, true, leak
		return s
	}
	one := func(ss ...*c18Stmt) []*c18Piece { return []*c18Piece{{Stmts: ss, Kind: kind}} }
	switch kind {
	case "PX":
		return []*c18Piece{{Bad: true, Raw: "zz" + u + " := (1 +", Kind: kind}}
	case "RU":
		return one(undef())
	case "RC":
		s := &c18Stmt{Src: "zk = 2", Kind: kind, Need: 1, Uses: []string{"zk"}, Asg: []string{"zk"}}
		return one(s)
	case "RL":
		return one(expr(`print("leak`+u+`")`), undef())
	case "RP":
		s := expr("1 + undefined_zq")
		s.Uses, s.Pre = []string{"undefined_zq"}, 1
		return one(s)
	case "RD":
		d := &c18Stmt{Src: "zr" + u + " := 5", Kind: kind, Need: 1, VDecl: []string{"zr" + u}}
		use := expr("zr" + u)
		use.Uses = []string{"zr" + u}
		return []*c18Piece{{Stmts: []*c18Stmt{d, undef()}, Kind: kind}, {Stmts: []*c18Stmt{use}, Kind: "use"}}
	case "RF":
		s := &c18Stmt{Src: "func zf" + u + "() { undefined_zq }", Kind: kind, Leaves: true, Need: 1,
			Uses: []string{"undefined_zq"}, InFn: true, CDecl: []string{"zf" + u}}
		return one(s)
	case "FA":
		return one(failing("[1][5]", 0))
	case "FP":
		return one(expr(`print("pre`+u+`")`), failing("[1][5]", 0), expr(`print("never")`))
	case "FL":
		return one(failing("1 + [1][5]", 1))
	case "FD":
		d := &c18Stmt{Src: "zd" + u + " := [1][5]", Kind: kind, Need: 3, Fails: true, AtomicFail: true, VDecl: []string{"zd" + u}, ImplRef: "zd" + u + " := nil"}
		use := expr("zd" + u)
		use.Uses = []string{"zd" + u}
		return []*c18Piece{{Stmts: []*c18Stmt{d}, Kind: kind}, {Stmts: []*c18Stmt{use}, Kind: "use"}}
	}
	return nil
}

// the recorded findings, by the guard of C18_partial a history violates.  The former guards "leaked-code"
// (C18-rejected-piece-code-runs-later), "stuck-compiler" (C18-compiler-stuck-in-function), "capacity"
// (C18-stack-slot-per-piece) and "stale-fn" (C18-function-globals-snapshot) are gone: those defects were repaired
// in /repo, the model follows the repaired code, and a recurrence is an unlisted violation of the Spec.
var c18Finding = map[string]string{
	"decl-after-failure": "C18-failed-piece-declares",
}

// ---------------------------------------------------------------- one history

type c18History struct {
	Pieces []*c18Piece
	Names  []string
	Host   []string // host-supplied globals the statements' attributes mention: defined before the first piece
	Light  bool     // long directed history: compare classes/registers only, values at the end
	Ctxs   string   // one context letter per piece (see incrementalCtx); "" = the whole history under one deadline
}

func (h *c18History) Text() string {
	parts := make([]string, len(h.Pieces))
	for i, p := range h.Pieces {
		parts[i] = p.Src()
	}
	if h.Ctxs != "" {
		return "contexts " + h.Ctxs + " (one letter per piece: b background, c cancellable, d cancelled by the piece, D already cancelled, e 25 ms deadline)\n" + strings.Join(parts, "\n----\n")
	}
	return strings.Join(parts, "\n----\n")
}

func c18List(xs []string, num map[string]int) string {
	if len(xs) == 0 {
		return "-"
	}
	parts := make([]string, len(xs))
	for i, x := range xs {
		if _, ok := num[x]; !ok {
			num[x] = len(num) + 1
		}
		parts[i] = strconv.Itoa(num[x])
	}
	return strings.Join(parts, ".")
}

// request renders the history for the oracle (host names, pieces); ids[i] = statement with id i+1.
func (h *c18History) request() (string, string, []*c18Stmt) {
	num := map[string]int{}
	host := c18List(h.Host, num)
	var ids []*c18Stmt
	var ps []string
	for _, p := range h.Pieces {
		if p.Bad {
			ps = append(ps, "X")
			continue
		}
		var ss []string
		for _, s := range p.Stmts {
			ids = append(ids, s)
			fl := ""
			if s.IsExpr {
				fl += "e"
			}
			if s.Leaves {
				fl += "l"
			}
			if s.Fails {
				fl += "f"
			}
			if s.InFn {
				fl += "n"
			}
			if s.NeutralLeak {
				fl += "j"
			}
			if fl == "" {
				fl = "-"
			}
			ss = append(ss, strings.Join([]string{strconv.Itoa(len(ids)), fl, strconv.Itoa(s.Need), strconv.Itoa(s.Leak), strconv.Itoa(s.Pre),
				c18List(s.Uses, num), c18List(s.Asg, num), c18List(s.VDecl, num), c18List(s.CDecl, num), c18List(s.FDefs, num), c18List(s.Calls, num)}, ":"))
		}
		ps = append(ps, strings.Join(ss, ";"))
	}
	return host, strings.Join(ps, "|"), ids
}

type c18Entry struct {
	id    int
	stale bool
}

func c18ParseTrace(s string) []c18Entry {
	if s == "-" || s == "" {
		return nil
	}
	var out []c18Entry
	for _, t := range strings.Split(s, ".") {
		st := strings.HasSuffix(t, "~")
		n, _ := strconv.Atoi(strings.TrimSuffix(t, "~"))
		out = append(out, c18Entry{n, st})
	}
	return out
}

type c18Pred struct {
	Outcomes []string // ok:<v> | parse | compile | fail
	Traces   [][]c18Entry
	Regs     []string
}

func c18Split(s string) []string {
	if s == "-" {
		return nil
	}
	return strings.Split(s, "|")
}

// compare checks the real incremental run against a prediction (outcomes + traces); it returns the
// first difference ("" if none).  A trace entry marked as run against a stale globals copy (`~`) would stop the
// comparison of run-time observables with the Impl model; since the repair of C18-function-globals-snapshot the model
// never marks one (no_stale_view), so every history is compared in full.
func (h *c18History) compare(env *c18Env, real []*c18Obs, pr *c18Pred, ids []*c18Stmt, impl bool) string {
	var prog []string // reference program so far
	tainted := false
	valByID := map[int]string{}
	prevStdout := ""
	for i := range h.Pieces {
		r := real[i]
		if i >= len(pr.Outcomes) {
			return fmt.Sprintf("piece %d: the model returned %d outcomes", i, len(pr.Outcomes))
		}
		oc := pr.Outcomes[i]
		cls := strings.SplitN(oc, ":", 2)[0]
		tr := pr.Traces[i]
		ownFail := false
		lastID := 0
		for _, en := range tr {
			if en.stale {
				tainted = true
			}
			st := ids[en.id-1]
			if st.OwnFail {
				ownFail = true
			}
			if !st.AtomicFail {
				prog = append(prog, st.Src)
			} else if impl && st.ImplRef != "" {
				prog = append(prog, st.ImplRef)
			}
			lastID = en.id
		}
		skipRuntime := impl && tainted
		// class
		if cls == "parse" || cls == "compile" {
			if r.Class != cls {
				return fmt.Sprintf("piece %d: expected to be rejected (%s), real outcome %s %s", i, cls, r.Class, c18_firstLine(r.Err))
			}
			if !skipRuntime && r.Stdout != prevStdout {
				return fmt.Sprintf("piece %d: a rejected piece produced output %q", i, r.Stdout[len(prevStdout):])
			}
			prevStdout = r.Stdout
			continue
		}
		if r.Class == "parse" || r.Class == "compile" {
			return fmt.Sprintf("piece %d: expected %s, but the piece was rejected: %s", i, cls, c18_firstLine(r.Err))
		}
		if skipRuntime {
			prevStdout = r.Stdout
			continue
		}
		realCls := r.Class
		if realCls == "panic" {
			realCls = "fail"
		}
		if realCls != cls {
			return fmt.Sprintf("piece %d: expected %s, real outcome %s %s", i, cls, r.Class, c18_firstLine(r.Err))
		}
		if h.Light && i < len(h.Pieces)-1 {
			prevStdout = r.Stdout
			continue
		}
		E := env.wholeEval(strings.Join(prog, "\n"))
		wantCls := "ok"
		if ownFail {
			wantCls = "fail"
		}
		ecls := E.Class
		if ecls == "panic" {
			ecls = "fail"
		}
		if ecls != wantCls {
			return fmt.Sprintf("piece %d: the reference program (whole evaluation of the statements executed so far) ends with %s %s, expected %s", i, E.Class, c18_firstLine(E.Err), wantCls)
		}
		if r.Stdout != E.Stdout {
			return fmt.Sprintf("piece %d: stdout %q, whole-program evaluation gives %q", i, r.Stdout, E.Stdout)
		}
		prevStdout = r.Stdout
		if cls == "ok" {
			v, _ := strconv.Atoi(strings.SplitN(oc, ":", 2)[1])
			want := "nil"
			switch {
			case v == 0:
			case v == lastID:
				want = E.Value
				valByID[v] = r.Value
			default:
				want = valByID[v]
			}
			if r.Value != want {
				return fmt.Sprintf("piece %d: value %s, expected %s", i, r.Value, want)
			}
		}
		if r.Globals != nil {
			for _, n := range h.Names {
				if env.hostSet[n] {
					continue
				}
				a, b := r.Globals[n], E.Globals[n]
				if a != b {
					return fmt.Sprintf("piece %d: global %s = %s, whole-program evaluation gives %s", i, n, c18_orUndef(a), c18_orUndef(b))
				}
			}
			for _, n := range env.host {
				a, b := r.Globals[n], E.Globals[n]
				if a != b {
					return fmt.Sprintf("piece %d: host-supplied global %s (%s) = %s, whole-program evaluation gives %s", i, n, env.hostKind[n], c18_orHost(a), c18_orHost(b))
				}
			}
		}
	}
	return ""
}

func c18_firstLine(s string) string {
	if i := strings.Index(s, "\n"); i >= 0 {
		return s[:i]
	}
	return s
}

func c18_orHost(s string) string {
	if s == "" {
		return "<the host's value>"
	}
	return s
}

func c18_orUndef(s string) string {
	if s == "" {
		return "<undefined>"
	}
	return s
}

// check runs one history on the real code, asks the model and records the verdicts.
func (h *c18History) check(e *Env, env *c18Env, checkFrags bool) {
	text := h.Text()
	srcs := make([]string, len(h.Pieces))
	for i, p := range h.Pieces {
		srcs[i] = p.Src()
	}
	env.names = h.Names
	tStart := time.Now()
	real := env.incrementalCtx(srcs, h.Names, !h.Light, h.Ctxs)
	if d := time.Since(tStart); d > 3*time.Second {
		e.R.H("slow_histories", "incremental run took more than 3 s")
		if os.Getenv("C18_ONLY") != "" {
			fmt.Fprintf(os.Stderr, "SLOW %.1fs\n%s\n", d.Seconds(), text)
			for i, r := range real {
				fmt.Fprintf(os.Stderr, "  piece %d: %s %s\n", i, r.Class, c18_firstLine(r.Err))
			}
		}
	}
	hostReq, req, ids := h.request()
	var rep []string
	if h.Ctxs == "" {
		rep = strings.Split(e.O.Ask("C18", "histh", hostReq, req), "\t")
	} else {
		// the model's context kinds: b background, c cancellable, d done before the run ends
		mc := strings.NewReplacer("D", "d", "e", "d").Replace(h.Ctxs)
		rep = strings.Split(e.O.Ask("C18", "histc", hostReq, mc, req), "\t")
		if len(rep) == 9 {
			// the halt flag each piece leaves behind (vm.halt through the verif hook)
			for i, r := range real {
				if i < len(rep[8]) && r.Halt >= 0 && string(rune('0'+r.Halt)) != rep[8][i:i+1] {
					e.R.Mismatch(text, fmt.Sprintf("piece %d (context %c): vm.halt = %d after the piece", i, h.Ctxs[i], r.Halt),
						"halt flags "+rep[8], "halt flag left behind by a piece's context vs Lean Impl model (HRepl)")
					break
				}
			}
			rep = rep[:8]
		}
	}
	if len(rep) != 8 || rep[0] != "ok" {
		e.R.Mismatch(text, "-", strings.Join(rep, " "), "oracle did not answer the history request")
		return
	}
	implP := &c18Pred{Outcomes: c18Split(rep[1]), Regs: c18Split(rep[2])}
	for _, t := range c18Split(rep[3]) {
		implP.Traces = append(implP.Traces, c18ParseTrace(t))
	}
	specP := &c18Pred{Outcomes: c18Split(rep[4])}
	for _, t := range c18Split(rep[5]) {
		specP.Traces = append(specP.Traces, c18ParseTrace(t))
	}
	guards := []string{}
	if rep[6] != "-" {
		guards = strings.Split(rep[6], ",")
	}
	if (len(guards) == 0) != (rep[7] == "1") {
		e.R.Mismatch(text, "-", rep[6]+" / "+rep[7], "the model's guard and its list of violated guards disagree")
	}
	// --- Code vs Impl
	mismatch := h.compare(env, real, implP, ids, true)
	if mismatch == "" {
		mismatch = h.compareRegs(real, implP, ids)
	}
	if mismatch != "" {
		e.R.Mismatch(text, mismatch, strings.Join(rep[1:4], " "), "real incremental run vs Lean Impl model")
	}
	// --- fragments: position independent, exactly one value
	if checkFrags {
		for i, r := range real {
			if r.Class != "ok" && r.Class != "fail" {
				continue
			}
			v, ok := env.frags[r.Frag]
			if !ok {
				v = e.O.Ask("C18", "frag", r.Frag)
				env.frags[r.Frag] = v
			}
			if !strings.HasPrefix(v, "accept") {
				e.R.Mismatch(text, fmt.Sprintf("piece %d fragment: %s", i, r.Frag), v, "the instructions a piece added are not a position-independent fragment leaving exactly one value (exec_append's hypothesis)")
			}
			e.R.H("fragment_check", strings.SplitN(v, "\t", 2)[0])
		}
	}
	// --- Code vs Spec
	viol := h.compare(env, real, specP, ids, false)
	for _, g := range guards {
		e.R.H("guard_violations", g)
	}
	if len(guards) == 0 {
		e.R.H("guard_violations", "none (inside C18_partial)")
	}
	if viol != "" {
		finding := ""
		if mismatch == "" && len(guards) > 0 {
			finding = c18Finding[guards[0]]
		}
		if len(guards) > 0 {
			viol += " [outside C18_partial: " + strings.Join(guards, ",") + "]"
		}
		e.R.Spec(text, viol, finding)
		e.R.H("spec", "violated")
	} else {
		e.R.H("spec", "holds")
	}
	for i, r := range real {
		e.R.H("piece_outcomes", h.Pieces[i].Kind+"/"+r.Class)
	}
	e.R.H("pieces_per_history", fmt.Sprintf("%02d", min(len(h.Pieces), 40)))
}

// compareRegs: operand-stack height, ip at the end of the code, code growth.
func (h *c18History) compareRegs(real []*c18Obs, pr *c18Pred, ids []*c18Stmt) string {
	tainted, unknownSP := false, false
	for i := range h.Pieces {
		for _, en := range pr.Traces[i] {
			if en.stale {
				tainted = true
			}
			if ids[en.id-1].OwnFail || ids[en.id-1].LeakUnknown {
				unknownSP = true
			}
		}
		f := strings.Split(pr.Regs[i], ":")
		if len(f) != 4 {
			return "bad register field " + pr.Regs[i]
		}
		r := real[i]
		if (f[2] == "1") != r.Grew {
			return fmt.Sprintf("piece %d: main code grew=%v, model says %s", i, r.Grew, f[2])
		}
		if tainted {
			continue
		}
		cls := strings.SplitN(pr.Outcomes[i], ":", 2)[0]
		if cls == "fail" && real[i].Class != "ok" && strings.Contains(real[i].Err, "index out of range [") {
			unknownSP = true // stack overflow: sp was incremented before the panic
		}
		if (f[1] == "1") != (r.IP == r.CodeLen) {
			return fmt.Sprintf("piece %d: ip=%d code length=%d, model says ip-at-end=%s", i, r.IP, r.CodeLen, f[1])
		}
		if !unknownSP {
			if want, _ := strconv.Atoi(f[0]); want != r.SP+1 {
				return fmt.Sprintf("piece %d: operand stack holds %d values, model says %d", i, r.SP+1, want)
			}
		}
	}
	return ""
}

// ---------------------------------------------------------------- driver

func c18Partitions(n, maxPieces int) [][]int {
	// each partition = sorted cut positions in 1..n-1
	var out [][]int
	var rec func(start int, cuts []int)
	rec = func(start int, cuts []int) {
		out = append(out, append([]int{}, cuts...))
		if len(cuts) >= maxPieces-1 {
			return
		}
		for c := start; c < n; c++ {
			rec(c+1, append(cuts, c))
		}
	}
	rec(1, nil)
	return out
}

func c18Cut(stmts []*c18Stmt, cuts []int) []*c18Piece {
	var ps []*c18Piece
	prev := 0
	for _, c := range append(append([]int{}, cuts...), len(stmts)) {
		ps = append(ps, &c18Piece{Stmts: stmts[prev:c], Kind: "gen"})
		prev = c
	}
	return ps
}

// weave inserts pieces of the given kinds: at[i] = kind inserted before generated piece i
// (i = len(base) means at the end), "" = nothing.
func c18Weave(base []*c18Piece, at []string, uniq *int, endOK bool) ([]*c18Piece, []string) {
	var out []*c18Piece
	var names []string
	for i := 0; i <= len(base); i++ {
		if at[i] != "" && (i < len(base) || endOK) {
			*uniq++
			for _, p := range c18Ins(at[i], *uniq) {
				out = append(out, p)
				for _, s := range p.Stmts {
					names = append(names, s.VDecl...)
					names = append(names, s.CDecl...)
				}
			}
		}
		if i < len(base) {
			out = append(out, base[i])
		}
	}
	return out, names
}

func c18_runC18(e *Env) {
	e.R.Rule = "a case is one history: a generated program (structured generator + prelude `const zk = 7`) cut into consecutive pieces at " +
		"top-level statement boundaries (quick: every partition into <= 4 pieces; thorough: also random partitions into any number of pieces), " +
		"either clean or with inserted pieces: PX syntax error, RU undefined name, RC constant reassignment, FA/FP/FL run-time error (alone / " +
		"between prints / under a pending operand) at EVERY position, RL `print; undefined`, RP `1 + undefined`, RD `zr := 5; undefined` + later use, " +
		"RF `func f() { undefined }`, FD `zd := [1][5]` + later use at one position, and a random mix; every third program additionally gets " +
		"top-level statements that REBIND 1-2 host-supplied globals (any builtin or default module of risor.Config except print/len; to an int, " +
		"string, list, nil, function or another host value, at top level or inside a named function) and read/call them later, directly or " +
		"through a named function; plus directed " +
		"histories (for EVERY host-supplied global: rebind / read across 2-4 pieces with failing, rejected and unrelated pieces in between, " +
		"rebinding twice, to nil/false, by multiple and compound assignment, by `import m as name`, from inside a function, read through an earlier function; every " +
		"falsy value in a user's global; 1030 one-expression pieces; function-reads-global across pieces); " +
		"CONTEXT histories (every piece run with its own context: background / cancellable / cancelled by the piece itself after its first statements / " +
		"already cancelled / 25 ms deadline; pieces ended by their context followed by ordinary pieces under every context kind; vm.halt compared after every piece); " +
		"COMPILE-ONLY-STATE histories (a rejected piece of each of ~20 syntactic kinds with its compile error late in the piece x an accepted piece of each of ~20 call/" +
		"expression forms: the Call/Partial pattern of the real fragment against the Lean marks model, values/globals/stdout against the whole program); " +
		"BINDING histories (random and enumerated sessions over integer globals and functions that read/write them: declarations in any piece, first calls in any later piece, " +
		"top-level reads/writes in between: every piece's value, every global and the number of loaded code objects against the Lean generations model, values against its Spec " +
		"and the real whole-program evaluation); " +
		"IMPORT sessions (a VM with an importer — LocalImporter over a temporary directory / FSImporter over an in-memory file system — and module files with " +
		"mutable module-level state, a tick side effect and imports of each other: import under every spelling (`import m`, `import m as h`, `from m import …`), mutate " +
		"through any handle, import the same module again in later pieces, read through every handle; enumerated sessions under every partition, random sessions with " +
		"failing/rejected pieces in between; value, tick log, size of the import cache and integer globals after every piece against the Lean import-cache model and its Spec); " +
		"SHADOWING sessions (top-level blocks — for headers, if/else, switch, range bodies, nested — that declare variables with the names of top-level variables; the harness " +
		"resolves names to slots as the compiler does (checked against vm.GlobalNames after every piece) and sends the unrolled slot program to the Lean slot model; directed " +
		"programs under every partition, random programs under sampled partitions; value and vm.Get of every name after every piece; host-supplied names declared inside blocks); " +
		"TABLE sessions (the constants and the root symbol table of the shared main code under ROLLBACK: pieces over integer globals whose literals are int, string and float " +
		"constants drawn from a small pool, so that literals repeat across pieces; rejected pieces of ~16 shapes — the compile error after a fresh literal and/or after a block " +
		"variable (if / else / for-3 header / range / switch case / nested block / function literal) that carries the NAME OF A LIVE GLOBAL — at every position, followed by " +
		"accepted pieces that use the same literals and names; after EVERY piece, rejected ones included, the compiler's root symbol table, its constants, the outcome, the value " +
		"and vm.Get of every name against the Lean tables model (tabs request: tabImpl / tabSpec) and the real whole program of the accepted pieces; directed sessions and random ones). " +
		"After every piece every user global " +
		"AND every host-supplied global (vm.Get) is compared with the whole-program evaluation. Distinct by the history text; non-trivial when the history has >= 2 pieces and the program " +
		"uses >= 3 statement/expression forms beyond literals or nests >= 3 deep, and it gets past parsing"
	setsIP, found := c18ReplSetsIP()
	if !found {
		e.R.Mismatch("cmd/risor/repl/repl.go", "no `if err := v.Run(ctx); err != nil` found in getEvaluator", "Parse; Compile; Run; SetIP(end) on error; TOS", "REPL protocol")
	}
	e.R.H("repl_protocol", fmt.Sprintf("SetIP(code.InstructionCount()) after a run-time error: %v", setsIP))
	env := c18NewEnv(setsIP)
	for _, n := range env.host {
		e.R.H("host_supplied_globals", env.hostKind[n])
	}
	// the smallest histories first: they make the most readable replay
	// (the directed histories of the recorded and of the REPAIRED defects come first: if a repair is lost, the
	// first replay is the few-line history that shows it)
	c18Directed(e, env)
	c18FnGlobals(e, env)
	if os.Getenv("C18_SKIP_DIRECTED_HOST") == "" { // debugging aid: look at what the generated histories find on their own
		c18DirectedHost(e, env)
	}

	nProg, maxParts := 150, 48
	if !e.Quick {
		nProg, maxParts = 1100, 32
	}
	rng := e.Rng.Fork()
	uniq := 0
	t0 := time.Now()
	// host-supplied names the woven programs rebind: all but the two the generator and the inserted pieces call
	var hostPool []string
	for _, n := range env.host {
		if n != "print" && n != "len" {
			hostPool = append(hostPool, n)
		}
	}
	for pi := 0; pi < nProg; pi++ {
		r := rng.Fork()
		if os.Getenv("C18_PROGRESS") != "" {
			fmt.Fprintf(os.Stderr, "program %d  t=%.0fs cases=%d\n", pi, time.Since(t0).Seconds(), e.R.Evaluations)
		}
		big := !e.Quick && pi%4 == 0
		o := GenOpts{MaxStmts: 2 + r.Intn(2), MaxDepth: 2 + r.Intn(2), Budget: 40 + r.Intn(80), Funcs: r.Chance(60), Closures: true,
			Containers: true, Strings: r.Bool(), CtlHeavy: pi%4 == 0, NoCtlInSwitch: true}
		if big {
			o.MaxStmts, o.Budget = 4+r.Intn(4), 150+r.Intn(250)
		}
		p := GenProgram(r, o)
		if pi%5 == 4 {
			p = c18FnHeavy(r)
		}
		if pi%3 == 1 {
			p = c18HostWeave(r, p, hostPool)
		}
		if only := os.Getenv("C18_ONLY"); only != "" && only != strconv.Itoa(pi) {
			continue
		}
		top := append([]*N{ns("const", "zk", nInt(7))}, p.C...)
		if os.Getenv("C18_ONLY") != "" {
			fmt.Fprintf(os.Stderr, "%s\n", Stmts(top, 0))
		}
		// does the program fail on its own?  then it ends at its failing statement
		env.names = nil
		wholeSrc := Stmts(top, 0)
		w := env.wholeEval(wholeSrc)
		e.R.H("program_outcome", w.Class)
		if w.Class == "parse" || w.Class == "compile" {
			continue
		}
		if strings.Contains(w.Err, "context deadline exceeded") {
			// the generator's termination argument has a hole (appending to the list a loop iterates over)
			e.R.H("program_outcome", "discarded: does not terminate")
			continue
		}
		ownFail := -1
		if w.Class != "ok" {
			for k := 1; k <= len(top); k++ {
				if c := env.wholeEval(Stmts(top[:k], 0)).Class; c != "ok" {
					ownFail = k - 1
					top = top[:k]
					break
				}
			}
		}
		G := c18TopNames(top)
		// host-supplied names the program rebinds are globals like the declared ones (defined from the start)
		hostUsed := c18HostAssigned(top, env.hostSet)
		for _, hn := range hostUsed {
			G[hn] = true
		}
		sens := c18Sensitive(top, G)
		var stmts []*c18Stmt
		for i, nd := range top {
			s := c18Abstract(nd, G, sens)
			if i == ownFail {
				s.Fails, s.OwnFail = true, true
			}
			stmts = append(stmts, s)
		}
		names := sortedKeys(G)
		kinds := Kinds(p)
		forms := 0
		for k := range kinds {
			switch k {
			case "int", "bool", "str", "id", "prog", "block", "nil", "none", "params", "param":
			default:
				forms++
			}
		}
		nontrivialProg := forms >= 3 || c18Depth(p) >= 3
		for k := range kinds {
			e.R.H("constructs", k)
		}
		e.R.H("top_level_statements", fmt.Sprintf("%02d", len(stmts)))
		if len(hostUsed) > 0 {
			e.R.H("programs", "rebinding host-supplied globals")
			for _, hn := range hostUsed {
				e.R.H("host_globals_rebound", env.hostKind[hn]+" (generated program)")
			}
		}
		if len(sens) > 0 {
			e.R.H("programs", "with a function that reads or writes a reassigned global")
		} else {
			e.R.H("programs", "without global-sensitive functions")
		}

		var parts [][]int
		if e.Quick || !big {
			parts = c18Partitions(len(stmts), 4)
		}
		if len(parts) > maxParts || len(parts) == 0 {
			// sample: always the trivial and the finest <=4 partition, the rest random (any number of pieces in thorough)
			var sel [][]int
			for k := 0; k < maxParts; k++ {
				var cuts []int
				pcut := 15 + r.Intn(60)
				for c := 1; c < len(stmts); c++ {
					if r.Chance(pcut) {
						cuts = append(cuts, c)
					}
				}
				if e.Quick && len(cuts) > 3 {
					cuts = cuts[:3]
				}
				sel = append(sel, cuts)
			}
			parts = sel
		}
		for pn, cuts := range parts {
			base := c18Cut(stmts, cuts)
			endOK := ownFail < 0
			run := func(at []string, tag string, frags bool) {
				ps, extra := c18Weave(base, at, &uniq, endOK)
				if ownFail >= 0 {
					// nothing is compared after the piece that fails on its own: drop what follows it
					for i, p := range ps {
						if len(p.Stmts) > 0 && p.Stmts[len(p.Stmts)-1].OwnFail {
							ps = ps[:i+1]
							break
						}
					}
				}
				h := &c18History{Pieces: ps, Names: append(append([]string{}, names...), extra...), Host: hostUsed}
				e.R.Case(h.Text(), nontrivialProg && len(ps) >= 2 && w.Class != "parse")
				e.R.H("history_kind", tag)
				h.check(e, env, frags)
			}
			empty := make([]string, len(base)+1)
			run(empty, "clean", true)
			if e.Quick && pn%2 == 1 && len(parts) > 24 {
				// large programs: inserted pieces on every other partition keep quick within its budget
				continue
			}
			for _, k := range c18EveryPos {
				at := make([]string, len(base)+1)
				for i := range at {
					at[i] = k
				}
				run(at, k+" at every position", false)
			}
			for _, k := range []string{"RD", "RF", "FD"} {
				at := make([]string, len(base)+1)
				at[r.Intn(len(at))] = k
				run(at, k+" at one position", false)
			}
			at := make([]string, len(base)+1)
			for i := range at {
				if r.Chance(60) {
					at[i] = Pick(r, c18Kinds[:9])
				}
			}
			run(at, "mix", false)
		}
	}
	c18Contexts(e, env)
	c18Marks(e, env)
	c18Binding(e, env)
	c18Imports(e, setsIP)
	c18Shadow(e, env)
	c18Tables(e, env)
	c18Decls(e, env)
	// a violation inside the guard (nothing known explains it) is the most telling replay: list those first
	sort.SliceStable(e.R.SpecViolations, func(i, j int) bool {
		a, b := e.R.SpecViolations[i], e.R.SpecViolations[j]
		ka := a.Finding != "" || strings.Contains(a.Detail, "[outside ")
		kb := b.Finding != "" || strings.Contains(b.Detail, "[outside ")
		return !ka && kb
	})
	if os.Getenv("C18_DEBUG") != "" {
		for _, m := range e.R.Mismatches {
			fmt.Fprintf(os.Stderr, "MISMATCH %s | %s | %s\n%s\n\n", m.What, m.Go, m.Model, m.Case)
		}
		for _, v := range e.R.SpecViolations {
			if v.Finding == "" {
				fmt.Fprintf(os.Stderr, "SPEC %s\n%s\n\n", v.Detail, v.Case)
			}
		}
	}
	e.R.Note("whole-program reference evaluations cached: %d; fragment checks: %d distinct fragments", len(env.whole), len(env.frags))
}

// c18HostAssigned lists (sorted) the host-supplied names a program assigns to.
func c18HostAssigned(stmts []*N, host map[string]bool) []string {
	seen := map[string]bool{}
	for _, nd := range stmts {
		Walk(nd, func(x *N, _ []*N) {
			if t := c18AssignTarget(x); t != "" && host[t] {
				seen[t] = true
			}
		}, nil)
	}
	return sortedKeys(seen)
}

// c18HostWeave adds top-level statements to a generated program that REBIND host-supplied globals
// (to an int, a string, a list, nil, a function, another host-supplied value) and READ them later (as an
// expression statement, into a fresh variable, by calling them, through a named function defined before
// or after the rebinding).  The statements of one name keep their order; where they land between the
// program's own statements is random, so the partitions put rebinding and reads into the same piece,
// into adjacent pieces and into pieces further apart.
func c18HostWeave(r *RNG, p *N, pool []string) *N {
	type ins struct {
		pos, ord int
		node     *N
	}
	var all []ins
	used := map[string]bool{}
	k := 1 + r.Intn(2)
	fresh := 0
	for i := 0; i < k; i++ {
		H := Pick(r, pool)
		if used[H] {
			continue
		}
		used[H] = true
		isFunc := false
		value := func() *N {
			isFunc = false
			switch r.Intn(7) {
			case 0:
				return nInt(int64(r.Intn(50)))
			case 1:
				return nStr("h" + strconv.Itoa(r.Intn(9)))
			case 2, 3:
				isFunc = true
				return ns("func", "", n("params", ns("param", "hp")), nBlock(n("return", nInfix("+", nId("hp"), nInt(int64(1+r.Intn(9)))))))
			case 4:
				return n("nil")
			case 5:
				return n("list", nInt(int64(r.Intn(5))), nInt(2))
			}
			return nId(Pick(r, pool))
		}
		set := func() *N { return nAssign(H, "=", value()) }
		read := func() *N {
			fresh++
			name := fmt.Sprintf("hr%d_%d", i, fresh)
			switch r.Intn(4) {
			case 0:
				return n("expr", nId(H))
			case 1:
				return nVar(name, nId(H))
			case 2:
				if isFunc {
					return n("expr", nCall(nId(H), nInt(int64(r.Intn(5)))))
				}
				return n("expr", n("list", nId(H), nInt(1)))
			}
			if isFunc {
				return nVar(name, nCall(nId(H), nInt(2)))
			}
			return nVar(name, n("list", nId(H)))
		}
		fname := fmt.Sprintf("hf%d", i)
		fdef := func() *N { return n("expr", ns("func", fname, n("params"), nBlock(n("return", nId(H))))) }
		fcall := func() *N { return n("expr", nCall(nId(fname))) }
		sname := fmt.Sprintf("hs%d", i)
		sdef := func() *N {
			return n("expr", ns("func", sname, n("params"), nBlock(nAssign(H, "=", nInt(int64(60+r.Intn(9)))))))
		}
		scall := func() *N { return n("expr", nCall(nId(sname))) }
		var seq []*N
		switch r.Intn(7) {
		case 0:
			seq = []*N{set(), read(), read()}
		case 1:
			seq = []*N{set(), read(), set(), read()}
		case 2:
			seq = []*N{fdef(), set(), fcall(), read()}
		case 3:
			seq = []*N{set(), fdef(), fcall()}
		case 4:
			seq = []*N{read(), set(), read()}
		case 5:
			seq = []*N{sdef(), scall(), read()}
		default:
			seq = []*N{set(), read()}
		}
		pos := make([]int, len(seq))
		for j := range pos {
			pos[j] = r.Intn(len(p.C) + 1)
		}
		sort.Ints(pos)
		for j, nd := range seq {
			all = append(all, ins{pos[j], len(all), nd})
		}
	}
	sort.SliceStable(all, func(a, b int) bool { return all[a].pos < all[b].pos })
	var out []*N
	next := 0
	for i := 0; i <= len(p.C); i++ {
		for next < len(all) && all[next].pos == i {
			out = append(out, all[next].node)
			next++
		}
		if i < len(p.C) {
			out = append(out, p.C[i])
		}
	}
	return n("prog", out...)
}

// c18FnHeavy builds a small program around global variables and functions that read or write them
// (the generator's programs rarely call a global-touching function from a later statement).
func c18FnHeavy(r *RNG) *N {
	ga, gb := "ga", "gb"
	stmts := []*N{nVar(ga, nInt(int64(1+r.Intn(5)))), nVar(gb, nInt(int64(r.Intn(3))))}
	fn := func(name string, params []string, body ...*N) *N {
		ps := n("params")
		for _, p := range params {
			ps.C = append(ps.C, ns("param", p))
		}
		return n("expr", ns("func", name, ps, nBlock(body...)))
	}
	defined := map[string]bool{}
	k := 3 + r.Intn(6)
	for i := 0; i < k; i++ {
		switch c := r.Intn(10); {
		case c == 0 && !defined["fr"]:
			defined["fr"] = true
			stmts = append(stmts, fn("fr", []string{"p"}, n("return", nInfix("+", nId(ga), nId("p")))))
		case c == 1 && !defined["fw"]:
			defined["fw"] = true
			stmts = append(stmts, fn("fw", nil, nAssign(ga, "+=", nInt(1)), n("return", nId(ga))))
		case c == 2 && !defined["fi"]:
			defined["fi"] = true
			stmts = append(stmts, fn("fi", []string{"p"}, n("return", nInfix("*", nId("p"), nInt(2)))))
		case c == 3 && !defined["fc"]:
			defined["fc"] = true // reads a global that nothing reassigns
			stmts = append(stmts, fn("fc", nil, n("return", nInfix("+", nId("zk"), nInt(1)))))
		case c == 4:
			stmts = append(stmts, nAssign(ga, Pick(r, []string{"=", "+=", "*="}), nInt(int64(2+r.Intn(4)))))
		case c == 5:
			stmts = append(stmts, ns("postfix", gb+" ++"))
		default:
			var cands []*N
			if defined["fr"] {
				cands = append(cands, nCall(nId("fr"), nInt(int64(r.Intn(4)))))
			}
			if defined["fw"] {
				cands = append(cands, nCall(nId("fw")))
			}
			if defined["fi"] {
				cands = append(cands, nCall(nId("fi"), nId(gb)))
			}
			if defined["fc"] {
				cands = append(cands, nCall(nId("fc")))
			}
			if len(cands) == 0 {
				cands = append(cands, nInfix("+", nId(ga), nId(gb)))
			}
			x := Pick(r, cands)
			if r.Bool() {
				stmts = append(stmts, n("expr", nCall(nId("print"), x, nId(ga))))
			} else {
				stmts = append(stmts, n("expr", x))
			}
		}
	}
	stmts = append(stmts, n("expr", n("list", nId(ga), nId(gb))))
	return n("prog", stmts...)
}

// ---------------------------------------------------------------- directed histories: host-supplied globals

// c18DirectedHost: for EVERY global the host supplies (builtins and default modules of risor.Config) the
// histories that rebind it at top level in one piece and look at it from later pieces: the rebinding must be
// carried from run to run like any other global (the whole program never reloads, the REPL reloads the main
// code before every run but the first).  Plus: a user's global holding each falsy value.
func c18DirectedHost(e *Env, env *c18Env) {
	mk := func(src string, f func(*c18Stmt)) *c18Stmt {
		s := &c18Stmt{Src: src, Kind: "directed", Need: 1}
		if f != nil {
			f(s)
		}
		return s
	}
	piece := func(ss ...*c18Stmt) *c18Piece { return &c18Piece{Stmts: ss, Kind: "directed"} }
	uniq := 900000
	for _, N := range env.host {
		N := N
		run := func(tag string, extraNames []string, ps ...*c18Piece) {
			h := &c18History{Pieces: ps, Names: extraNames, Host: []string{N}}
			e.R.Case(h.Text(), true)
			e.R.H("history_kind", "directed host global: "+tag)
			e.R.H("host_globals_rebound", env.hostKind[N]+" (directed)")
			h.check(e, env, false)
		}
		set := func(val string) *c18Stmt {
			return mk(N+" = "+val, func(s *c18Stmt) { s.Uses, s.Asg = []string{N}, []string{N} })
		}
		read := func() *c18Stmt {
			return mk(N, func(s *c18Stmt) { s.IsExpr, s.Leaves, s.Uses = true, true, []string{N} })
		}
		use := func(src string, names ...string) *c18Stmt {
			return mk(src, func(s *c18Stmt) { s.IsExpr, s.Leaves, s.Uses = true, true, names })
		}
		decl := func(name, val string, uses ...string) *c18Stmt {
			return mk(name+" := "+val, func(s *c18Stmt) { s.VDecl, s.Uses = []string{name}, uses })
		}
		ins := func(kind string) *c18Piece { uniq++; return c18Ins(kind, uniq)[0] }
		run("rebind / read", nil, piece(set("7")), piece(read()))
		run("rebind to a function / call it into a variable / read the variable", []string{"zn"},
			piece(set("func(v) { return 42 }")), piece(decl("zn", N+"([3, 1, 2])", N)), piece(use("zn", "zn")))
		run("rebind / failing piece / read", nil, piece(set("7")), ins("FA"), piece(read()))
		run("rebind / rejected piece / read", nil, piece(set("7")), ins("RU"), piece(read()))
		run("rebind / syntax error / read", nil, piece(set("7")), ins("PX"), piece(read()))
		run("rebind / rebind / read", nil, piece(set("7")), piece(set(`"eight"`)), piece(read()))
		run("rebind to nil / read", nil, piece(set("nil")), piece(read()))
		run("rebind to false / unrelated piece / read", []string{"zq"}, piece(set("false")), piece(decl("zq", "1")), piece(read()))
		run("keep the host's value in a variable / rebind / read both", []string{"zo"},
			piece(decl("zo", N, N)), piece(set("[1, 2]")), piece(use("zo", "zo")), piece(read()))
		run("rebind and read in one piece / read", nil, piece(set("7"), read()), piece(read()))
		run("rebind then fail in one piece / read", nil,
			piece(set("7"), mk("[1][5]", func(s *c18Stmt) { s.IsExpr, s.Leaves, s.Fails, s.AtomicFail, s.Need = true, true, true, true, 3 })), piece(read()))
		run("multiple assignment / read", []string{"zm"}, piece(decl("zm", "0")),
			piece(mk(N+", zm = [1, 2]", func(s *c18Stmt) { s.Uses, s.Asg = []string{N, "zm"}, []string{N, "zm"} })),
			piece(use("["+N+", zm]", N, "zm")))
		run("compound rebinding across pieces", nil, piece(set("1")),
			piece(mk(N+" += 1", func(s *c18Stmt) { s.Uses, s.Asg = []string{N}, []string{N} })),
			piece(mk(N+"++", func(s *c18Stmt) { s.Uses, s.Asg = []string{N}, []string{N} })), piece(read()))
		other := "strings"
		if N == other {
			other = "math"
		}
		run("import as the host-supplied name / read", nil,
			piece(mk("import "+other+" as "+N, func(s *c18Stmt) { s.Uses, s.Asg = []string{N}, []string{N} })), piece(read()))
		run("a function rebinds the name, called in the piece that defines it / read", []string{"zs"},
			piece(mk("func zs() { "+N+" = 9 }", func(s *c18Stmt) {
				s.Leaves, s.Uses, s.Asg, s.CDecl, s.FDefs = true, []string{N}, []string{N}, []string{"zs"}, []string{"zs"}
			}), mk("zs()", func(s *c18Stmt) { s.IsExpr, s.Leaves, s.Uses, s.Calls = true, true, []string{"zs"}, []string{"zs"} })),
			piece(read()))
		// a function loaded by an earlier run sees the rebinding too (repaired finding C18-function-globals-snapshot), host-supplied or not
		run("function reads the name rebound by a later piece", []string{"zh"},
			piece(mk("func zh() { return "+N+" }", func(s *c18Stmt) {
				s.Leaves, s.Uses, s.CDecl, s.FDefs = true, []string{N}, []string{"zh"}, []string{"zh"}
			})),
			piece(set("7")),
			piece(mk("zh()", func(s *c18Stmt) { s.IsExpr, s.Leaves, s.Uses, s.Calls = true, true, []string{"zh"}, []string{"zh"} })),
			piece(read()))
	}
	// every falsy value in a user's global survives the reload as well
	for _, val := range []string{"nil", "false", "0", `""`, "[]", "{}", "0.0"} {
		h := &c18History{Names: []string{"zx"}, Pieces: []*c18Piece{
			piece(mk("zx := 5", func(s *c18Stmt) { s.VDecl = []string{"zx"} })),
			piece(mk("zx = "+val, func(s *c18Stmt) { s.Uses, s.Asg = []string{"zx"}, []string{"zx"} })),
			piece(mk("zx == "+val, func(s *c18Stmt) { s.IsExpr, s.Leaves, s.Uses = true, true, []string{"zx"} })),
			piece(mk("zx", func(s *c18Stmt) { s.IsExpr, s.Leaves, s.Uses = true, true, []string{"zx"} }))}}
		e.R.Case(h.Text(), true)
		e.R.H("history_kind", "directed: falsy value in a user's global")
		h.check(e, env, false)
	}
}

// ---------------------------------------------------------------- directed histories

func c18Directed(e *Env, env *c18Env) {
	mk := func(src string, f func(*c18Stmt)) *c18Stmt {
		s := &c18Stmt{Src: src, Kind: "directed", Need: 1}
		if f != nil {
			f(s)
		}
		return s
	}
	expr := func(s *c18Stmt) { s.IsExpr, s.Leaves = true, true }
	piece := func(ss ...*c18Stmt) *c18Piece { return &c18Piece{Stmts: ss, Kind: "directed"} }
	run := func(tag string, h *c18History) {
		e.R.Case(h.Text(), true)
		e.R.H("history_kind", "directed: "+tag)
		h.check(e, env, false)
	}
	// (1) DESIGN section 8: pr("a") / pr("x"); undefined_name / pr("b") — repaired (Compile rolls back); kept as a regression test
	undef := func() *c18Stmt {
		return mk("undefined_name", func(s *c18Stmt) { expr(s); s.Uses = []string{"undefined_name"} })
	}
	run("rejected piece's print must not run later", &c18History{Pieces: []*c18Piece{
		piece(mk(`print("a")`, expr)), piece(mk(`print("x")`, expr), undef()), piece(mk(`print("b")`, expr))}})
	// (2) the same one-expression piece fed 1030 times: before the repair of C18-stack-slot-per-piece every piece
	// left one value on the operand stack and the 1024th failed; kept as a regression test
	for _, t := range []struct {
		src  string
		need int
	}{{"1 + 1", 2}, {"7", 1}} {
		// need = the fragment's maximal height, from the verified checker on the real fragment
		one := env.incremental([]string{t.src}, nil, false)
		need := t.need
		if rep := e.O.Ask("C18", "frag", one[0].Frag); strings.HasPrefix(rep, "accept\t") {
			need, _ = strconv.Atoi(strings.TrimPrefix(rep, "accept\t"))
		} else {
			e.R.Mismatch(t.src, one[0].Frag, rep, "fragment of a one-expression piece refused by the checker")
		}
		var ps []*c18Piece
		for i := 0; i < 1030; i++ {
			ps = append(ps, piece(mk(t.src, func(s *c18Stmt) { expr(s); s.Need = need })))
		}
		run("1030 x `"+t.src+"`", &c18History{Pieces: ps, Light: true})
	}
	// (3) a function defined in one piece reads and writes the globals of the later pieces: before the repair of
	// C18-function-globals-snapshot it kept the globals array of the run that loaded it; kept as a regression test
	// (every partition of such programs: c18FnGlobals)
	fdef := mk("func zget() { return zx }", func(s *c18Stmt) {
		s.Leaves, s.Uses, s.CDecl, s.FDefs = true, []string{"zx"}, []string{"zget"}, []string{"zget"}
	})
	call := func() *c18Stmt {
		return mk("zget()", func(s *c18Stmt) { expr(s); s.Uses, s.Calls = []string{"zget"}, []string{"zget"} })
	}
	run("function reads a global reassigned by a later piece", &c18History{Names: []string{"zx", "zget"}, Pieces: []*c18Piece{
		piece(mk("zx := 1", func(s *c18Stmt) { s.VDecl = []string{"zx"} }), fdef, call()),
		piece(mk("zx = 5", func(s *c18Stmt) { s.Uses, s.Asg = []string{"zx"}, []string{"zx"} })),
		piece(call()), piece(mk("zx", func(s *c18Stmt) { expr(s); s.Uses = []string{"zx"} }))}})
	fset := mk("func zset() { zx = 9 }", func(s *c18Stmt) {
		s.Leaves, s.Uses, s.Asg, s.CDecl, s.FDefs = true, []string{"zx"}, []string{"zx"}, []string{"zset"}, []string{"zset"}
	})
	run("function writes a global read by a later piece", &c18History{Names: []string{"zx", "zset"}, Pieces: []*c18Piece{
		piece(mk("zx := 1", func(s *c18Stmt) { s.VDecl = []string{"zx"} }), fset),
		piece(mk("zset()", func(s *c18Stmt) { expr(s); s.Uses, s.Calls = []string{"zset"}, []string{"zset"} })),
		piece(mk("zx", func(s *c18Stmt) { expr(s); s.Uses = []string{"zx"} }))}})
	// (4) a compile error inside a function body: before the repair of C18-compiler-stuck-in-function it left the
	// compiler inside that function and every later piece was swallowed; kept as a regression test
	run("compile error inside a function body, then ordinary input", &c18History{Names: []string{"zx"}, Pieces: []*c18Piece{
		piece(mk("zx := 1", func(s *c18Stmt) { s.VDecl = []string{"zx"} })),
		piece(mk("func zg() { undefined_name }", func(s *c18Stmt) {
			s.Leaves, s.Uses, s.InFn, s.CDecl = true, []string{"undefined_name"}, true, []string{"zg"}
		})),
		piece(mk("zx = 7", func(s *c18Stmt) { s.Uses, s.Asg = []string{"zx"}, []string{"zx"} })),
		piece(mk(`print("hello")`, expr)), piece(mk("zx", func(s *c18Stmt) { expr(s); s.Uses = []string{"zx"} }))}})
	// (4b) a rejected piece whose first pass (collectFunctionDeclarations) has already entered a function name: the
	// name must not survive the rollback (it did before the repair: "function redefined" for the next attempt)
	run("rejected piece declared a function; the function is entered again", &c18History{Names: []string{"zf9"}, Pieces: []*c18Piece{
		piece(mk("func zf9() { return 1 }", func(s *c18Stmt) { s.Leaves, s.CDecl = true, []string{"zf9"} }), undef()),
		piece(mk("func zf9() { return 2 }", func(s *c18Stmt) { s.Leaves, s.CDecl = true, []string{"zf9"} })),
		piece(mk("zf9()", func(s *c18Stmt) { expr(s); s.Uses = []string{"zf9"} }))}})
	// (4c) a rejected piece's declaration is gone: the later use is rejected too, a later declaration of the name is accepted
	run("rejected piece declared a variable; use, declare again, use", &c18History{Names: []string{"zr9"}, Pieces: []*c18Piece{
		piece(mk("zr9 := 5", func(s *c18Stmt) { s.VDecl = []string{"zr9"} }), undef()),
		piece(mk("zr9", func(s *c18Stmt) { expr(s); s.Uses = []string{"zr9"} })),
		piece(mk("zr9 := 6", func(s *c18Stmt) { s.VDecl = []string{"zr9"} })),
		piece(mk("zr9", func(s *c18Stmt) { expr(s); s.Uses = []string{"zr9"} }))}})
	// (5) a piece that fails at run time has still declared its names
	run("failed piece's declaration stays visible", &c18History{Names: []string{"zy"}, Pieces: []*c18Piece{
		piece(mk("zy := 1 / 0", func(s *c18Stmt) {
			s.VDecl, s.Fails, s.AtomicFail, s.Need, s.ImplRef = []string{"zy"}, true, true, 2, "zy := nil"
		})),
		piece(mk("zy", func(s *c18Stmt) { expr(s); s.Uses = []string{"zy"} }))}})
}
