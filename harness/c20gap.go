package main

// C20 — line comments at line ends of texts with multi-byte runes, with positions.
//
// For a generated program B = pre ⏎ rest (B carries non-ASCII identifiers and strings, c20Uni)
// and a comment cm (optional blanks, optional block comments, then `#…` or `//…`, the texts mostly
// multi-byte) the text A = pre cm ⏎ rest is built at every line end of B in turn.  GapProps.lean
// proves about the lexer model, for EVERY pre / cm / rest:
//   lex_line_comment_at_line_end, lex_line_comment_after_blanks : A and B give the same tokens
//   lexPos_line_comment, positions_after_line_comment           : a token behind the comment has in
//       A the offset and line start |cm| RUNES larger, the same line and column; before it, all equal
// Here (request `C20 gap`): the decidable guards of those theorems are evaluated at the harness's
// line ends (they must hold: non-vacuity on real texts), the model's two verdicts are compared with
// the REAL lexer's token streams of A and B (Impl), and the Spec is evaluated on the real streams.
// Then a faulty last line is appended to both texts: the real parser's diagnostic (line, column,
// quoted line, message, caret line) must be the same for A and B, its offset |cm| larger.

import (
	"fmt"
	"strings"

	"github.com/risor-io/risor/token"
)

var c20gapTails = []string{"x := )", "f(1,", "1 +* 2", "y = = 3", "[1, 2", "if {", "q := `a", "z := \"é", "é := ]", "x.(", "a ? : b"}

func c20gapComment(r *RNG) string {
	var sb strings.Builder
	if r.Chance(60) {
		sb.WriteString(c20Blanks(r))
	}
	if r.Chance(25) {
		n := 1 + r.Intn(2)
		for k := 0; k < n; k++ {
			sb.WriteString(c20Block(r, false))
			if r.Bool() {
				sb.WriteString(c20Blanks(r))
			}
		}
	}
	body := Pick(r, c20CommentBodies)
	if r.Chance(60) { // mostly the multi-byte ones (the second half of the table)
		body = c20CommentBodies[16+r.Intn(len(c20CommentBodies)-16)]
	}
	if r.Chance(20) {
		body += Pick(r, c20CommentBodies)
	}
	if r.Bool() {
		sb.WriteString("//" + body)
	} else {
		sb.WriteString("#" + body)
	}
	return sb.String()
}

func c20gapTokRow(t token.Token) string {
	return fmt.Sprintf("%s %q %s-%s", t.Type, t.Literal, c20_posStr(t.StartPosition), c20_posStr(t.EndPosition))
}

// c20gapCompare: the Spec on the real token streams of A (with the comment) and B (without).
func c20gapCompare(ta, tb []token.Token, preLen, n int) string {
	if len(ta) != len(tb) {
		k := 0
		for k < len(ta) && k < len(tb) && ta[k].Type == tb[k].Type && ta[k].Literal == tb[k].Literal {
			k++
		}
		at := "<end>"
		if k < len(ta) {
			at = c20gapTokRow(ta[k])
		}
		bt := "<end>"
		if k < len(tb) {
			bt = c20gapTokRow(tb[k])
		}
		return fmt.Sprintf("%d tokens with the comment, %d without; first difference at token #%d: %s / without: %s", len(ta), len(tb), k, at, bt)
	}
	for i := range tb {
		x, y := ta[i], tb[i]
		if x.Type != y.Type || x.Literal != y.Literal {
			return fmt.Sprintf("token #%d is %s with the comment, %s without", i, c20gapTokRow(x), c20gapTokRow(y))
		}
		same := func(p, q token.Position) bool {
			return p.Char == q.Char && p.Line == q.Line && p.Column == q.Column && p.LineStart == q.LineStart
		}
		shifted := func(p, q token.Position) bool {
			return p.Char == q.Char+n && p.Line == q.Line && p.Column == q.Column && p.LineStart == q.LineStart+n
		}
		switch {
		case y.StartPosition.Char < preLen:
			if !same(x.StartPosition, y.StartPosition) || (y.EndPosition.Char < preLen && !same(x.EndPosition, y.EndPosition)) {
				return fmt.Sprintf("token #%d BEFORE the comment moved: %s with the comment, %s without", i, c20gapTokRow(x), c20gapTokRow(y))
			}
		case y.StartPosition.Char == preLen: // the newline that ends the line
			if x.StartPosition.Char != y.StartPosition.Char+n || x.StartPosition.Line != y.StartPosition.Line {
				return fmt.Sprintf("the newline after the comment: %s with the comment, %s without (expected %d runes further on, same line)", c20gapTokRow(x), c20gapTokRow(y), n)
			}
		default:
			if !shifted(x.StartPosition, y.StartPosition) || !shifted(x.EndPosition, y.EndPosition) {
				return fmt.Sprintf("token #%d behind the commented line: %s with the comment, %s without (expected: offsets and line start %d runes larger, same line and column)", i, c20gapTokRow(x), c20gapTokRow(y), n)
			}
		}
	}
	return ""
}

func c20_firstLine(s string) string {
	if i := strings.IndexByte(s, '\n'); i >= 0 {
		return s[:i]
	}
	return s
}

func c20GapStream(e *Env, rng *RNG) {
	e.R.Rule += "; LINE COMMENTS AT LINE ENDS (c20gap.go): generated programs with non-ASCII identifiers/strings x every line end x a comment " +
		"(blanks, block comments, `#`/`//` with mostly multi-byte text): tokens of the text with and without the comment from the real lexer " +
		"(same kinds/literals; offsets behind the comment larger by its RUNE count, same lines and columns) against the Lean verdicts and the " +
		"guards of lex_line_comment_at_line_end/_after_blanks; then a faulty last line: same diagnostic with and without the comment; " +
		"distinct by the text, non-trivial when the program is and the comment or the text before it has a multi-byte rune"
	nProg, perProg := 50, 6
	if !e.Quick {
		nProg, perProg = 1000, 10
	}
	for i := 0; i < nProg; i++ {
		r := rng.Fork()
		o := GenOpts{MaxStmts: 2 + r.Intn(4), MaxDepth: 1 + r.Intn(3), Budget: 30 + r.Intn(120), Funcs: true, Closures: r.Bool(),
			Containers: true, Strings: true, CtlHeavy: i%3 == 0, NoCtlInSwitch: true}
		p := c20Extra(r, GenProgram(r, o))
		src, uni := c20Uni(r, Src(p))
		if uni == "ascii program" && r.Chance(70) {
			src = "zu0 := \"" + Pick(r, c20UniStrings) + "\"\n" + src
			uni = "leading non-ASCII string"
		}
		nt := c20NonTrivial(p)
		tb, _, lerr, died := c20LexD(src)
		if died != "" {
			c20DeathSpec(e, src, "the real lexer does not return on a generated program ("+died+")")
			continue
		}
		if lerr != nil {
			e.R.Note("gap stream: generated program does not lex: %v\n%s", lerr, src)
			continue
		}
		runes := []rune(src)
		var ends []int // offsets of the NEWLINE tokens "\n"
		for _, t := range tb {
			if t.Type == token.NEWLINE && t.Literal == "\n" {
				ends = append(ends, t.StartPosition.Char)
			}
		}
		if len(ends) == 0 {
			continue
		}
		// the first line ends always (text before them is short: few extra bytes), then random ones
		chosen := map[int]bool{}
		var picks []int
		for _, off := range ends {
			if len(picks) < 2 {
				picks = append(picks, off)
				chosen[off] = true
			}
		}
		for k := 0; k < perProg-2 && k < len(ends); k++ {
			off := Pick(r, ends)
			if !chosen[off] {
				chosen[off] = true
				picks = append(picks, off)
			}
		}
		for _, off := range picks {
			pre, rest := string(runes[:off]), string(runes[off+1:])
			cm := c20gapComment(r)
			n := len([]rune(cm))
			A := pre + cm + "\n" + rest
			multi := !c20_isASCII(cm) || !c20_isASCII(pre)
			e.R.Case("gap|"+A, nt && multi)
			e.R.H("gap_program", uni)
			switch {
			case !c20_isASCII(cm) && !c20_isASCII(pre):
				e.R.H("gap_multibyte", "before and inside the comment")
			case !c20_isASCII(cm):
				e.R.H("gap_multibyte", "inside the comment only")
			case !c20_isASCII(pre):
				e.R.H("gap_multibyte", "before the comment only")
			default:
				e.R.H("gap_multibyte", "none")
			}
			extra := len(pre) + len(cm) - len([]rune(pre)) - n
			switch {
			case extra == 0:
				e.R.H("gap_extra_bytes(before the comment's end)", "0")
			case extra <= 2:
				e.R.H("gap_extra_bytes(before the comment's end)", "1-2")
			case extra <= 8:
				e.R.H("gap_extra_bytes(before the comment's end)", "3-8")
			default:
				e.R.H("gap_extra_bytes(before the comment's end)", "9+")
			}
			if strings.HasPrefix(cm, " ") || strings.HasPrefix(cm, "\t") {
				e.R.H("gap_comment", "after blanks")
			} else {
				e.R.H("gap_comment", "directly after the token")
			}
			// Impl: the model's verdicts and the theorems' guards
			rep := e.O.Ask("C20", "gap", Hex(pre), Hex(cm), Hex(rest))
			f := strings.Split(rep, "\t")
			if len(f) != 7 || f[0] != "ok" {
				e.R.Mismatch("gap "+A, "-", rep, "oracle reply to C20 gap")
				continue
			}
			if f[1] != "1" || f[2] != "1" {
				e.R.H("gap_guard", "guard or form does not hold")
				e.R.Mismatch("gap "+A, "a line end of the real token stream", "guard="+f[1]+" form="+f[2], "the harness's line end / comment is not the theorem's (cutsAt2 / cutsAt, comment form)")
			} else {
				e.R.H("gap_guard", "holds (theorem instance)")
			}
			// the real lexer on A
			ta, _, _, diedA := c20LexD(A)
			if diedA != "" {
				e.R.H("gap_verdict", "REAL LEXER DID NOT RETURN")
				c20DeathSpec(e, A, "the real lexer does not return on the text with the line comment "+fmt.Sprintf("%q", cm)+" ("+diedA+"); without the comment it lexes")
				continue
			}
			bad := c20gapCompare(ta, tb, off, n)
			modelOK := f[3] == "1" && f[4] == "1"
			if (bad == "") != modelOK {
				e.R.H("gap_corr", "MISMATCH")
				e.R.Mismatch("gap "+A, fmt.Sprintf("real streams agree: %v %s", bad == "", bad), "sameKL="+f[3]+" shifted="+f[4], "tokens and positions with and without the line comment: real lexer vs Lean lexKL/lexAll/posAt")
			} else {
				e.R.H("gap_corr", "agree")
			}
			if bad != "" {
				e.R.H("gap_verdict", "DIFFERENT")
				e.R.Spec(A, "a line comment at a line end changes the tokens or their positions: "+bad+fmt.Sprintf(" | comment %q (%d runes, %d bytes) inserted at offset %d of:\n%s", cm, n, len(cm), off, src), "")
				continue
			}
			e.R.H("gap_verdict", "same tokens; positions behind the comment moved by its rune count")
			// a faulty last line: the diagnostic must not depend on the comment
			tail := Pick(r, c20gapTails)
			fa, fb := A+"\n"+tail+"\n", src+"\n"+tail+"\n"
			wa, oka := c20Call("diag", fa)
			wb, okb := c20Call("diag", fb)
			e.R.Case("gapdiag|"+fa, nt && multi)
			switch {
			case !okb:
				e.R.H("gap_diag", "parser does not return without the comment either (C03's subject)")
			case !oka:
				e.R.H("gap_diag", "PARSER DOES NOT RETURN WITH THE COMMENT")
				c20DeathSpec(e, fa, "the real parser does not return on the text with the line comment ("+c20LastDeath+"); without the comment it reports: "+c20_firstLine(wb.Msg))
			case wa.Kind != wb.Kind:
				e.R.H("gap_diag", "DIFFERENT")
				e.R.Spec(fa, fmt.Sprintf("outcome %q (%s) with the line comment %q, %q (%s) without", wa.Kind, c20_firstLine(wa.Msg), cm, wb.Kind, c20_firstLine(wb.Msg)), "")
			case wb.Kind == "parser":
				var diffs []string
				if wa.SLine != wb.SLine || wa.SCol != wb.SCol || wa.ELine != wb.ELine || wa.ECol != wb.ECol {
					diffs = append(diffs, fmt.Sprintf("position %d:%d-%d:%d with the comment, %d:%d-%d:%d without", wa.SLine+1, wa.SCol+1, wa.ELine+1, wa.ECol+1, wb.SLine+1, wb.SCol+1, wb.ELine+1, wb.ECol+1))
				}
				if wb.SChar > off && wa.SChar != wb.SChar+n {
					diffs = append(diffs, fmt.Sprintf("offset %d with the comment, %d without (the comment has %d runes)", wa.SChar, wb.SChar, n))
				}
				if c20_firstLine(wa.Msg) != c20_firstLine(wb.Msg) {
					diffs = append(diffs, fmt.Sprintf("message %q with the comment, %q without", c20_firstLine(wa.Msg), c20_firstLine(wb.Msg)))
				}
				commentLine := strings.Count(pre, "\n")
				if wb.SLine != commentLine && wa.SourceCode != wb.SourceCode {
					diffs = append(diffs, fmt.Sprintf("quoted line %q with the comment, %q without", wa.SourceCode, wb.SourceCode))
				}
				if wb.SLine != commentLine && wa.FriendlyPanic == "" && wb.FriendlyPanic == "" && c03_friendlyCarets(wa.Friendly) != c03_friendlyCarets(wb.Friendly) {
					diffs = append(diffs, fmt.Sprintf("caret line %s with the comment, %s without", c03_friendlyCarets(wa.Friendly), c03_friendlyCarets(wb.Friendly)))
				}
				if wa.FriendlyPanic != wb.FriendlyPanic {
					diffs = append(diffs, "FriendlyErrorMessage panics: "+wa.FriendlyPanic+" / without: "+wb.FriendlyPanic)
				}
				if len(diffs) > 0 {
					e.R.H("gap_diag", "DIFFERENT")
					e.R.Spec(fa, "a line comment on an earlier line changes the diagnostic: "+strings.Join(diffs, "; ")+fmt.Sprintf(" | comment %q at offset %d, faulty last line %q", cm, off, tail), "")
				} else {
					e.R.H("gap_diag", "same parser diagnostic (line, column, message, quoted line, carets)")
				}
			case wb.Kind == "compile":
				if c20_firstLine(wa.Msg) != c20_firstLine(wb.Msg) {
					e.R.H("gap_diag", "DIFFERENT")
					e.R.Spec(fa, fmt.Sprintf("compile error %q with the line comment %q, %q without", c20_firstLine(wa.Msg), cm, c20_firstLine(wb.Msg)), "")
				} else {
					e.R.H("gap_diag", "same compile error")
				}
			default:
				e.R.H("gap_diag", "both "+wb.Kind)
			}
		}
	}
}
