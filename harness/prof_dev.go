package main

import (
	"fmt"
	"time"
)

func init() {
	childCommands["dev-prof"] = func(args []string) {
		r := NewRNG(1).Fork()
		var tGen, tEval time.Duration
		slow := 0
		for i := 0; i < 300; i++ {
			rr := r.Fork()
			t0 := time.Now()
			p := GenProgram(rr, GenOpts{MaxStmts: 4, MaxDepth: 3, Budget: 150, Funcs: true, Closures: true, Containers: true, Strings: true})
			src := Src(p)
			tGen += time.Since(t0)
			t1 := time.Now()
			EvalSrc(src, 20*time.Second)
			d := time.Since(t1)
			tEval += d
			if d > 200*time.Millisecond {
				slow++
				if slow < 3 {
					fmt.Println("SLOW", d, "\n"+src)
				}
			}
		}
		fmt.Println("gen", tGen, "eval", tEval, "slow", slow)
	}
}

func init() {
	childCommands["dev-sexp"] = func(args []string) {
		r := NewRNG(1).Fork()
		for i := 0; i < 50; i++ {
			p := GenProgram(r.Fork(), GenOpts{MaxStmts: 4, MaxDepth: 3, Budget: 150, Funcs: true, Closures: true, Containers: true, Strings: true})
			fmt.Println("C01\teval\t" + Sexp(p))
		}
	}
}
