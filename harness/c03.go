package main

// C03 — no source text or script can crash or panic the embedding process.
//
// Parent side.  Every case runs the REAL risor code inside a child process (c03Child, same
// binary re-executed) so that a fatal runtime fault costs one child, not the run.  For each
// case the child reports, stage by stage, whether the call returned, returned an error, or
// panicked (recovered inside the child); a dead child is the strongest observation.
//
//   Code vs Impl model (Mismatch): the lexer's position registers, GetLineText and
//     FriendlyErrorMessage for every token of every input; the nil-slot predicate on the
//     real AST against the real compiler; VM array limits; Inspect/Equals on generated heaps.
//   Code vs Spec (Spec violation): any panic that escapes parse / compile / Eval / EvalCode /
//     Call / Error() / FriendlyErrorMessage(), any child killed by the Go runtime.

import (
	"bufio"
	"bytes"
	"context"
	"encoding/hex"
	"encoding/json"
	"fmt"
	"io"
	"os"
	"os/exec"
	"reflect"
	"runtime"
	"runtime/debug"
	"sort"
	"strconv"
	"strings"
	"sync"
	"time"
	"unicode/utf8"

	"github.com/risor-io/risor"
	"github.com/risor-io/risor/ast"
	"github.com/risor-io/risor/compiler"
	"github.com/risor-io/risor/lexer"
	"github.com/risor-io/risor/object"
	"github.com/risor-io/risor/parser"
	"github.com/risor-io/risor/token"
)

func init() { commands["C03"] = c03_runC03 }

// ---------------------------------------------------------------- child pool

type c03Death struct {
	Exit    int
	Stderr  string
	Timeout bool
	Kind    string // stack-overflow | memlimit | timeout | exit | fatal
}

type c03Result struct {
	Resp  *c03Resp
	Death *c03Death
}

type c03Job struct {
	req     c03Req
	timeout time.Duration
	done    func(c03Result)
}

type c03Worker struct {
	cmd    *exec.Cmd
	in     io.WriteCloser
	out    *bufio.Reader
	stderr *bytes.Buffer
	args   []string
}

func (w *c03Worker) start() error {
	w.cmd = exec.Command(os.Args[0], append([]string{"C03-child"}, w.args...)...)
	w.cmd.Env = append(os.Environ(), "GOMEMLIMIT=1500MiB", "GOTRACEBACK=single")
	in, err := w.cmd.StdinPipe()
	if err != nil {
		return err
	}
	out, err := w.cmd.StdoutPipe()
	if err != nil {
		return err
	}
	w.stderr = &bytes.Buffer{}
	w.cmd.Stderr = &c03_capWriter{buf: w.stderr, max: 6000}
	w.in, w.out = in, bufio.NewReaderSize(out, 1<<22)
	return w.cmd.Start()
}

type c03_capWriter struct {
	buf *bytes.Buffer
	max int
	mu  sync.Mutex
}

func (c *c03_capWriter) Write(p []byte) (int, error) {
	c.mu.Lock()
	defer c.mu.Unlock()
	if c.buf.Len() < c.max {
		room := c.max - c.buf.Len()
		if room > len(p) {
			room = len(p)
		}
		c.buf.Write(p[:room])
	}
	return len(p), nil
}

func (w *c03Worker) stop() {
	if w.cmd != nil && w.cmd.Process != nil {
		w.in.Close()
		w.cmd.Process.Kill()
		w.cmd.Wait()
	}
	w.cmd = nil
}

func (w *c03Worker) run(job c03Job) c03Result {
	if w.cmd == nil {
		if err := w.start(); err != nil {
			return c03Result{Death: &c03Death{Kind: "spawn-failed", Stderr: err.Error()}}
		}
	}
	b, _ := json.Marshal(job.req)
	w.in.Write(append(b, '\n'))
	type rd struct {
		line string
		err  error
	}
	ch := make(chan rd, 1)
	go func() {
		line, err := w.out.ReadString('\n')
		ch <- rd{line, err}
	}()
	select {
	case r := <-ch:
		if r.err == nil {
			var resp c03Resp
			if json.Unmarshal([]byte(r.line), &resp) == nil && resp.ID == job.req.ID {
				if resp.Left > 0 {
					// goroutines started by the script are still running in that child: a later
					// fault of theirs must not be attributed to the next case
					w.stop()
				}
				return c03Result{Resp: &resp}
			}
		}
		// the child died
		w.in.Close()
		err := w.cmd.Wait()
		d := &c03Death{Exit: -1}
		if ee, ok := err.(*exec.ExitError); ok {
			d.Exit = ee.ExitCode()
		} else if err == nil {
			d.Exit = 0
		}
		w.cmd.Stderr.(*c03_capWriter).mu.Lock()
		d.Stderr = w.stderr.String()
		w.cmd.Stderr.(*c03_capWriter).mu.Unlock()
		switch {
		case strings.Contains(d.Stderr, "C03-MEMLIMIT") || strings.Contains(d.Stderr, "out of memory"):
			d.Kind = "memlimit"
		case strings.Contains(d.Stderr, "stack overflow") || strings.Contains(d.Stderr, "goroutine stack exceeds"):
			d.Kind = "stack-overflow"
		case strings.Contains(d.Stderr, "fatal error"):
			d.Kind = "fatal"
		case strings.Contains(d.Stderr, "panic:"):
			d.Kind = "unrecovered-panic"
		default:
			d.Kind = "exit"
		}
		w.cmd = nil
		return c03Result{Death: d}
	case <-time.After(job.timeout):
		w.stop()
		return c03Result{Death: &c03Death{Kind: "timeout", Timeout: true}}
	}
}

type c03Pool struct {
	jobs chan c03Job
	wg   sync.WaitGroup
	pend sync.WaitGroup
}

func c03_newC03Pool(n int, args ...string) *c03Pool {
	p := &c03Pool{jobs: make(chan c03Job, 64)}
	for i := 0; i < n; i++ {
		p.wg.Add(1)
		go func() {
			defer p.wg.Done()
			w := &c03Worker{args: args}
			for job := range p.jobs {
				res := w.run(job)
				if res.Death != nil && (res.Death.Kind == "exit" || res.Death.Kind == "spawn-failed") {
					// no message from the Go runtime: killed from outside (e.g. the kernel's
					// OOM killer on a loaded machine)?  Only a death that repeats counts.
					res = w.run(job)
				}
				job.done(res)
				p.pend.Done()
			}
			w.stop()
		}()
	}
	return p
}

func (p *c03Pool) submit(req c03Req, timeout time.Duration, done func(c03Result)) {
	p.pend.Add(1)
	p.jobs <- c03Job{req, timeout, done}
}

// submitAsync may be called from a done callback (never blocks the calling worker)
func (p *c03Pool) submitAsync(req c03Req, timeout time.Duration, done func(c03Result)) {
	p.pend.Add(1)
	go func() { p.jobs <- c03Job{req, timeout, done} }()
}
func (p *c03Pool) wait()  { p.pend.Wait() }
func (p *c03Pool) close() { p.pend.Wait(); close(p.jobs); p.wg.Wait() }

// ---------------------------------------------------------------- generators

// token alphabet for mutations and token soup (no exit / exec / network names)
var c03Alphabet = []string{
	"var", "const", "return", "break", "continue", "if", "else", "for", "in", "not", "range", "switch", "case", "default",
	"func", "go", "defer", "import", "from", "as", "true", "false", "nil", "struct",
	"=", ":=", "==", "!=", "<", ">", "<=", ">=", "+", "-", "*", "/", "%", "**", "&", "|", "&&", "||", "!", "?", ":", ";", ",", ".",
	"+=", "-=", "*=", "/=", "++", "--", "<<", ">>", "<-", "(", ")", "[", "]", "{", "}", "\n", "\n", "\n", "\r\n",
	"x", "y", "f", "a", "len", "print", "list", "map", "set", "string", "sorted", "try", "error", "math", "strings", "json", "_",
	"0", "1", "42", "007", "0x1F", "0x", "09", "1.5", "1.", "1e3", "9999999999999999999", "1.2.3",
	`"s"`, `"a\nb"`, `"\x"`, `"\u12"`, `"\777"`, `"unterminated`, `'t'`, `'a{x}b'`, `'{'`, `'{}'`, `'{x y}'`, `'{1 +}'`, `'{"q"}'`, "'unterminated",
	"`raw`", "`two\nlines`", "`unterminated", "/* c */", "/* two\nlines */", "/* open", "// c\n", "# c\n", "~", "@", "$", "\\", "\x00", "é", "日本", "\t", "  ",
}

// mutate applies one token-level edit to src, using the real lexer's token boundaries.
func c03Mutate(r *RNG, src string) (string, string) {
	type span struct{ a, b int } // rune offsets [a, b]
	var spans []span
	func() {
		defer func() { recover() }()
		l := lexer.New(src)
		for i := 0; i < 3000; i++ {
			t, err := l.Next()
			if err != nil || t.Type == token.EOF {
				break
			}
			spans = append(spans, span{t.StartPosition.Char, t.EndPosition.Char})
		}
	}()
	runes := []rune(src)
	if len(spans) == 0 {
		return src + Pick(r, c03Alphabet), "append"
	}
	s := spans[r.Intn(len(spans))]
	if s.a < 0 || s.b >= len(runes) || s.a > s.b {
		return src + Pick(r, c03Alphabet), "append"
	}
	tok := Pick(r, c03Alphabet)
	switch r.Intn(4) {
	case 0:
		return string(runes[:s.a]) + string(runes[s.b+1:]), "delete"
	case 1:
		return string(runes[:s.a]) + tok + " " + string(runes[s.a:]), "insert"
	case 2:
		return string(runes[:s.a]) + tok + string(runes[s.b+1:]), "substitute"
	default: // truncate after a token
		return string(runes[:s.b+1]), "truncate"
	}
}

func c03Soup(r *RNG) string {
	n := 1 + r.Intn(14)
	if r.Chance(20) {
		n += r.Intn(30)
	}
	var sb strings.Builder
	for i := 0; i < n; i++ {
		sb.WriteString(Pick(r, c03Alphabet))
		switch r.Intn(6) {
		case 0:
		case 1:
			sb.WriteByte('\n')
		default:
			sb.WriteByte(' ')
		}
	}
	return sb.String()
}

var c03NoiseBytes = []byte("\"'`\\{}()[]\n\r\t ;:,.#/*0x19azAZ_=<>!&|+-\x00\x80\xff\xc3\xe6\xf0")

func c03Bytes(r *RNG) string {
	n := 1 + r.Intn(40)
	b := make([]byte, n)
	mode := r.Intn(3)
	for i := range b {
		switch mode {
		case 0:
			b[i] = byte(r.Intn(256))
		case 1:
			b[i] = byte(32 + r.Intn(95))
		default:
			b[i] = c03NoiseBytes[r.Intn(len(c03NoiseBytes))]
		}
	}
	return string(b)
}

// ---------------------------------------------------------------- src cases

type c03Run struct {
	e      *Env
	pool   *c03Pool // default native stack
	small  *c03Pool // small native stack: cyclic-data cases die quickly
	mu     sync.Mutex
	deaths int
	ranks  map[string]int // thread cases: generation order (simplest first)
	// switch-err stream: children killed for memory (only against a tree in which the loops of
	// parseSwitch spin again); the first three are exhibited, the rest of the stream is dropped
	switchErrDeaths int
}

func (c *c03Run) switchErrDied(add int) int {
	c.mu.Lock()
	defer c.mu.Unlock()
	c.switchErrDeaths += add
	return c.switchErrDeaths
}

var c03Directed = []struct{ name, src string }{
	{"return-if", "return if"},
	{"return-if-newline", "func f() {\n  return if\nx }"},
	{"return-switch", "return switch"},
	{"else-if-eof", "x := 1\nif x {} else if"},
	{"case-newline", "x := 1\nswitch x { case \n y: }"},
	{"list-group-newline", "[1, (\n 2)]"},
	{"index-group-newline", "x := [1]\nx[(\n 1)]"},
	{"call-group-newline", "print(1, (\n 2))"},
	{"empty-default", "switch 0 {\ndefault:\n}"},
	{"empty-default-2", "x := 3\nswitch x {\ncase 1:\n  x\ndefault:\n}"},
	{"empty-case-ok", "switch 0 {\ncase 1:\ndefault:\n 2\n}"},
	{"backtick-two-lines", "x :=    `abc\ndef` 1"},
	{"comment-two-lines", "       /* a\n */ )"},
	{"backtick-one-line", "x := `abc` 1"},
	{"nul-first", "\x00abc"},
	{"nul-middle", "(\x00 foo"},
	{"template-nested", "'{ '{ 1 }' }'"},
	{"template-empty", "'{}'"},
	{"template-bad", "'{1 +}'"},
	{"unterminated-string", "x := \"abc"},
	{"bad-escape", "\"\\q\""},
	{"import-bad", "import \"a//b\""},
	{"huge-int", "99999999999999999999"},
	{"func-defaults", "func f(a, b=) {}"},
	{"ternary-nested", "true ? 1 ? 2 : 3 : 4"},
	{"go-bad", "go 1"},
	{"defer-bad", "defer x"},
	{"for-bad", "for ; ; {"},
	{"assign-bad", "1 = 2"},
	{"not-in", "1 not 2"},
	{"case-list-error", "switch 5 {\ncase go 0, 10:\n  1\n}"},
	{"case-case", "switch 1 {\ncase case:\n}"},
	{"case-list-ok", "switch 5 {\ncase 0, 10:\n  1\n}"},
	{"case-list-error-2", "switch 5 {\ncase 1, go 0, 10:\n  1\n}"},
	{"case-default", "switch 1 {\ncase 1:\ncase default:\n}"},
	{"case-lex-error", "switch 1 {\ncase 1, \"abc\n, 2:\n}"},
}

func (c *c03Run) key(stream, src string) string { return stream + "|" + strconv.Quote(src) }

// srcCase sends one source text through the whole pipeline in a child.
func (c *c03Run) srcCase(stream, src string) {
	req := c03Req{Mode: "src", Src: hex.EncodeToString([]byte(src))}
	if stream == "repo" { // repository scripts may touch the network or the file system: front end only
		req.Opt = "noeval"
	}
	c.pool.submit(req, 20*time.Second, func(res c03Result) { c.judgeSrc(stream, src, res) })
}

func c03_runesCSV(src string) string {
	rs := []rune(src)
	if len(rs) == 0 {
		return "-"
	}
	var sb strings.Builder
	for i, r := range rs {
		if i > 0 {
			sb.WriteByte(',')
		}
		sb.WriteString(strconv.Itoa(int(r)))
	}
	return sb.String()
}

func (c *c03Run) death(key string, d *c03Death, finding string) {
	e := c.e
	e.R.H("child_deaths", d.Kind)
	switch d.Kind {
	case "memlimit":
		e.R.H("excluded", "memory exhausted by data size (child watchdog)")
		c.mu.Lock()
		c.deaths++
		n := c.deaths
		c.mu.Unlock()
		if n <= 5 {
			e.R.Note("excluded (memory limit): %s", c03_short(key, 300))
		}
		return
	case "timeout":
		e.R.H("excluded", "no answer within the time limit (timing is never a verdict)")
		e.R.Note("no verdict (timeout): %s", c03_short(key, 200))
		return
	}
	tail := d.Stderr
	if i := strings.Index(tail, "\n\n"); i > 0 {
		tail = tail[:i]
	}
	e.R.Spec(key, fmt.Sprintf("the process was terminated (%s, exit %d): %s", d.Kind, d.Exit, c03_short(strings.TrimSpace(tail), 300)), finding)
}

func (c *c03Run) judgeSrc(stream, src string, res c03Result) {
	e := c.e
	key := c.key(stream, src)
	if res.Death != nil && stream == "switch-err" && c.switchErrDied(1) > 3 {
		e.R.H("excluded", "switch-err: child died; the first three deaths of this stream are exhibited")
		return
	}
	if res.Death != nil && (res.Death.Kind == "memlimit" || res.Death.Kind == "timeout") && !strings.HasSuffix(stream, "/front") {
		// A script may legitimately run out of memory or time; the front end on a small
		// source may not.  Re-run lexer + parser + compiler alone in a fresh child.
		e.R.H("stream:"+stream, "child-died:"+res.Death.Kind+" (front end re-run)")
		req := c03Req{Mode: "src", Src: hex.EncodeToString([]byte(src)), Opt: "noeval"}
		c.pool.submitAsync(req, 20*time.Second, func(res2 c03Result) { c.judgeSrc(stream+"/front", src, res2) })
		return
	}
	if res.Death != nil {
		e.R.Case(key, true)
		e.R.H("stream:"+stream, "child-died")
		if strings.HasSuffix(stream, "/front") && res.Death.Kind == "memlimit" && len(src) < 100000 {
			// no finding is attributed: since the repair of C03-switch-error-loop the model
			// (caseLoop_terminates / switchLoop_terminates) says that the loops of parseSwitch
			// end on every token stream, and no other parser loop drops nextToken's result
			// unreviewed (Ties: parser_advance_loops_reviewed)
			e.R.Spec(key, fmt.Sprintf("lexer+parser+compiler alone exhaust memory (> 1.2 GB) on a %d-byte source: the process is killed by the Go runtime (out of memory)", len(src)), "")
			return
		}
		c.death(key, res.Death, "")
		return
	}
	if strings.HasSuffix(stream, "/front") {
		e.R.H("excluded", "script exhausted memory or time while running (front end alone returns)")
		return
	}
	r := res.Resp
	nontrivial := r.Parse == "ok" || (r.ErrTok != nil && r.ErrTok.A > r.FirstEnd)
	e.R.Case(key, nontrivial)
	e.R.H("stream:"+stream, "parse="+r.Parse)
	e.R.H("parse", r.Parse)
	if r.Compile != "" {
		e.R.H("compile", r.Compile)
	}
	if r.Eval != "" {
		e.R.H("eval", r.Eval)
	}
	e.R.H("src_len", fmt.Sprintf("%03d+", min(len(src)/20*20, 400)))
	e.R.H("tokens", fmt.Sprintf("%02d+", min(r.NToks/5*5, 60)))

	// ---- 1. positions, GetLineText, FriendlyErrorMessage per token (Code vs Impl)
	toks := r.Toks
	if len(toks) > 80 { // long sources: the first 50 and the last 30 tokens
		toks = append(append([]c03Tok{}, toks[:50]...), toks[len(toks)-30:]...)
	}
	if r.ErrTok != nil {
		toks = append(append([]c03Tok{}, toks...), *r.ErrTok)
	}
	if r.LexPanic != "" {
		e.R.Spec(key, "lexer.Next panicked: "+r.LexPanic, "")
	}
	var modelErrF string
	if len(toks) > 0 && len(src) <= 4000 {
		specs := make([]string, len(toks))
		for i, t := range toks {
			eof := "0"
			if t.EOF {
				eof = "1"
			}
			specs[i] = fmt.Sprintf("%d,%d,%s", max(t.A, 0), max(t.B, 0), eof)
			if t.QL > 0 { // the returned error: the model counts against the line the error quotes
				specs[i] += fmt.Sprintf(",%d", t.QL-1)
			}
		}
		rep := strings.Split(e.O.Ask("C03", "toks", c03_runesCSV(src), strings.Join(specs, ";")), "\t")
		if rep[0] != "ok" || len(rep) != len(toks)+1 {
			e.R.Mismatch(key, "tokens", strings.Join(rep, " "), "oracle refused the token request")
		} else {
			for i, t := range toks {
				isErrTok := r.ErrTok != nil && i == len(toks)-1
				f := strings.Split(rep[i+1], ",")
				if len(f) != 8 {
					e.R.Mismatch(key, fmt.Sprint(t), rep[i+1], "token outside the model's range")
					continue
				}
				goPos := fmt.Sprintf("%d,%d,%d,%d,%d,%d", t.P[0], t.P[1], t.P[2], t.P[3], t.P[4], t.P[5])
				if goPos != strings.Join(f[:6], ",") {
					e.R.Mismatch(key, fmt.Sprintf("token %d@%d..%d pos %s", i, t.A, t.B, goPos), strings.Join(f[:6], ","), "lexer position registers (line, column, lineStart at both ends)")
				}
				if t.StartAfter {
					e.R.Mismatch(key, fmt.Sprintf("token %d starts at %d after its end %d", i, t.A, t.B), "start <= end", "token span")
				}
				multi := t.P[0] != t.P[3]
				if multi {
					e.R.H("token_span", "multi-line")
				} else {
					e.R.H("token_span", "single-line")
				}
				if isErrTok {
					modelErrF = f[7]
					if t.F != "" && t.F != f[7] {
						e.R.Mismatch(key, "returned error FriendlyErrorMessage carets "+t.F, f[7], "caret computation of the returned ParserError")
					}
					continue
				}
				if t.GLT != f[6] {
					e.R.Mismatch(key, fmt.Sprintf("token %d@%d GetLineText %s", i, t.A, t.GLT), f[6], "GetLineText range")
				}
				if t.F != f[7] {
					e.R.Mismatch(key, fmt.Sprintf("token %d@%d FriendlyErrorMessage %s", i, t.A, t.F), f[7], "caret computation (pad:carets or P = panic)")
				}
				if f[7] == "P" {
					e.R.H("model_friendly", "panic")
				} else {
					e.R.H("model_friendly", "ok")
				}
			}
		}
	}

	// ---- 2. Spec on the API results
	if stream == "switch-err" {
		e.R.H("switch_err", "parse="+r.Parse)
		if r.Parse == "ok" {
			e.R.Mismatch(key, "parser.Parse returned no error", "parse error",
				"a syntax error planted in the head of a case must end parseSwitch with the recorded error (caseLoop_error_stops / switchLoop_error_stops)")
		}
	}
	if r.Parse == "panic" {
		e.R.Spec(key, "parser.Parse panicked: "+r.ParseMsg, "")
	}
	if strings.HasPrefix(r.ErrFmt, "panic:") {
		// no finding is attributed: since the repair of C03-friendly-multiline-span the model
		// (C03_caret_nonneg) says that no span can make the rendering panic
		e.R.Spec(key, "formatting the returned error panicked ("+r.ErrFmt+"); error: "+r.ParseMsg, "")
	} else if r.ErrFmt == "ok" && modelErrF == "P" {
		e.R.Mismatch(key, "FriendlyErrorMessage of the returned error returned", "P", "model predicts a negative Repeat count")
	}

	// ---- 3. nil slots of the real AST against the real compiler
	if r.Parse == "ok" && r.Ast != "" {
		slot := c.astNilSlot(key, r.Ast)
		switch {
		case r.Compile == "panic":
			finding := ""
			if slot != "" {
				finding = "C03-parser-nil-node"
			}
			e.R.Spec(key, fmt.Sprintf("compiler.Compile panicked (%s); parser.Parse had returned no error; nil slot per model: %q", r.CompMsg, slot), finding)
		case r.Compile == "ok" && slot != "":
			e.R.Mismatch(key, "compile ok", "nil in required slot "+slot, "model says the compiler dereferences this slot")
		}
	}
	if r.Eval == "panic" {
		e.R.Spec(key, "a Go panic escaped risor.Eval: "+r.EvalMsg, c.evalPanicFinding(r))
	}
	if r.Eval == "err" && strings.HasPrefix(r.EvalMsg, "panic:") && len(src) <= 4000 {
		// vm.Run recovered a Go panic raised by this input: the same input must be as harmless
		// on a goroutine of its own, where only object.NewThread's recover stands
		e.R.H("recovered_panic_inputs", stream)
		c.threadedSrc(stream, src)
	}
}

// astNilSlot: the guard of C03-parser-nil-node — the model's nil-slot predicate (`illegalNil`) on
// the exported real AST; "" when no required slot is nil.
func (c *c03Run) astNilSlot(key, astText string) string {
	e := c.e
	slot := ""
	if strings.HasPrefix(astText, "EXPORT-PANIC") {
		e.R.Mismatch(key, astText, "exportable AST", "harness could not export the AST")
	} else {
		rep := strings.Split(e.O.Ask("C03", "ast", astText), "\t")
		switch rep[0] {
		case "clean":
			e.R.H("ast_nil_slot", "none")
		case "nil":
			slot = rep[1]
			e.R.H("ast_nil_slot", slot)
		default:
			e.R.Mismatch(key, c03_short(astText, 200), strings.Join(rep, " "), "oracle could not read the AST")
		}
	}
	return slot
}

// threadedSrc re-runs a source as the body of a spawned function, waited for and not.
func (c *c03Run) threadedSrc(stream, src string) {
	e := c.e
	for _, v := range []struct{ how, text string }{
		{"spawn-wait", "t := spawn(func() {\n" + src + "\n})\nt.wait()"},
		{"go", "go func() {\n" + src + "\n}()\n0"},
	} {
		v := v
		key := "threaded/" + v.how + "|from=" + stream + "|WithConcurrency|" + strconv.Quote(v.text)
		c.pool.submitAsync(c03Req{Mode: "script", Opt: "conc", Src: hex.EncodeToString([]byte(v.text)), N: 5000}, 40*time.Second, func(res c03Result) {
			e.R.Case(key, true)
			if res.Death != nil {
				e.R.H("threaded_src", "died:"+res.Death.Kind)
				c.threadDeath(key, res.Death)
				return
			}
			e.R.H("threaded_src", res.Resp.Eval)
			if res.Resp.Eval == "panic" {
				e.R.Spec(key, "a Go panic escaped risor.Eval: "+res.Resp.EvalMsg, "")
			}
		})
	}
}

// ---- switch statements with a syntax error planted in the head of one case
//
// Parser.nextToken stops advancing once p.err is set; the loops of parseSwitch (the comma loop
// of a case list, the outer loop over the cases) must end there with the recorded error
// (Lean: caseLoop_error_stops / switchLoop_error_stops).  Until the repair of
// C03-switch-error-loop they did not: such a source made parser.Parse allocate until the Go
// runtime aborted the process.  Every source of this stream must come back as a parse error.

var c03BadCaseExprs = []string{"go 0", "case", "default", ")", "1 +", "@", "defer x", "}", "]", "\"unterminated",
	"'{1 +}'", "0x", "1 not 2", "func(", "!", "switch", "if", "x.", "[1,", "{1:", "1 ? 2", "<-", "import"}
var c03GoodCaseExprs = []string{"0", "10", "x", "\"s\"", "[1, 2]", "len(x)", "1 + 2", "(3)", "nil", "true", "x.y", "-1"}

func c03SwitchErr(r *RNG) string {
	var sb strings.Builder
	sb.WriteString(Pick(r, []string{"switch 5 {\n", "x := 1\nswitch x {\n", "switch (x) { ", "func f(x) {\n switch x {\n", "switch 1 {\n\n"}))
	nCases := 1 + r.Intn(3)
	bad := r.Intn(nCases)
	for i := 0; i < nCases; i++ {
		if i != bad && r.Chance(15) {
			sb.WriteString(Pick(r, []string{"default:\n 0\n", "default:\n", "default: 1\n"}))
			continue
		}
		n := 1 + r.Intn(4)
		badAt := -1
		if i == bad {
			badAt = r.Intn(n)
		}
		sb.WriteString("case ")
		for j := 0; j < n; j++ {
			if j > 0 {
				sb.WriteString(Pick(r, []string{", ", ",", " , "}))
			}
			if j == badAt {
				sb.WriteString(Pick(r, c03BadCaseExprs))
			} else {
				sb.WriteString(Pick(r, c03GoodCaseExprs))
			}
		}
		sb.WriteString(Pick(r, []string{":\n", ":", ": 1\n", ":\n  1\n  2\n", ":\n\n", ":\ncase 2:\n", " "}))
	}
	sb.WriteString(Pick(r, []string{"}", "}\n", "", "}\n}", "\n}\n1"}))
	return sb.String()
}

// a panic escaping Eval after Parse and Compile succeeded separately can only come from the
// same front-end stages (Eval re-parses) or from vm.Run
func (c *c03Run) evalPanicFinding(r *c03Resp) string { return "" }

// ---------------------------------------------------------------- VM limits

func (c *c03Run) vmCases() {
	e := c.e
	depths := []int{1, 500, 1000, 1020, 1021, 1022, 1023, 1024, 1025, 2000, 5000}
	for _, d := range depths {
		d := d
		// recursion: main is frame 0, f(d) … f(0) are frames 1 … d+1
		src := fmt.Sprintf("func f(n) { if n <= 0 { return 0 }\n return f(n-1) }\nf(%d)", d)
		c.pool.submit(c03Req{Mode: "script", Src: hex.EncodeToString([]byte(src)), N: 10000}, 60*time.Second, func(res c03Result) {
			c.judgeVM(fmt.Sprintf("vm-frames|depth=%d|%s", d, src), fmt.Sprintf("call*%d", d+1), res)
		})
		// operand stack: a right-nested list literal holds d+1 operands at its deepest point
		var sb strings.Builder
		for i := 0; i < d; i++ {
			sb.WriteString("[x, ")
		}
		sb.WriteString("x")
		for i := 0; i < d; i++ {
			sb.WriteString("]")
		}
		src2 := "x := 1\ny := " + sb.String() + "\n0"
		c.pool.submit(c03Req{Mode: "script", Src: hex.EncodeToString([]byte(src2)), N: 10000}, 60*time.Second, func(res c03Result) {
			c.judgeVM(fmt.Sprintf("vm-stack|depth=%d|x := 1; y := [x, [x, … %d deep … x]]; 0", d, d), fmt.Sprintf("push*%d", d+1), res)
		})
		// the same through risor.Call and risor.EvalCode
		src3 := "x := 1\nfunc f() { return " + sb.String() + " }\n0"
		c.pool.submit(c03Req{Mode: "call", Src: hex.EncodeToString([]byte(src3)), N: 10000}, 60*time.Second, func(res c03Result) {
			// risor.Call first runs the main code, whose value stays on the stack (one slot)
			c.judgeVM(fmt.Sprintf("vm-call|depth=%d|risor.Call(compile(`x := 1; func f() { return [x, [x, … %d deep … x]] }; 0`), \"f\")", d, d), fmt.Sprintf("push*1,call*1,push*%d", d+1), res)
		})
		// an index panic inside a spawned thread / a `go` statement must stay inside that thread
		if d == 1000 || d == 2000 {
			src4 := "x := 1\nt := spawn(func() { return " + sb.String() + " })\nt.wait()\n0"
			c.pool.submit(c03Req{Mode: "script", Opt: "conc", Src: hex.EncodeToString([]byte(src4)), N: 10000}, 60*time.Second, func(res c03Result) {
				c.judgeVM(fmt.Sprintf("vm-spawn|depth=%d|WithConcurrency|x := 1; t := spawn(func() { return [x, [x, … %d deep … x]] }); t.wait(); 0", d, d), "", res)
			})
			src5 := "x := 1\ngo func() { y := " + sb.String() + " }()\nfor i := range 300000 { }\n0"
			c.pool.submit(c03Req{Mode: "script", Opt: "conc", Src: hex.EncodeToString([]byte(src5)), N: 10000}, 60*time.Second, func(res c03Result) {
				c.judgeVM(fmt.Sprintf("vm-go|depth=%d|WithConcurrency|x := 1; go func() { y := [x, [x, … %d deep … x]] }(); for i := range 300000 { }; 0", d, d), "", res)
			})
		}
	}
	_ = e
}

func (c *c03Run) judgeVM(key, ops string, res c03Result) {
	e := c.e
	e.R.Case(key, true)
	if res.Death != nil {
		c.death(key, res.Death, "")
		return
	}
	r := res.Resp
	if ops == "" {
		e.R.H("vm_thread", r.Eval)
		if r.Eval == "panic" {
			e.R.Spec(key, "a Go panic escaped from a spawned thread: "+r.EvalMsg, "")
		}
		if strings.Contains(r.EvalMsg, "did not contain a spawn function") {
			e.R.Mismatch(key, r.EvalMsg, "a thread is started", "the case must run with concurrency enabled (otherwise it exercises nothing)")
		}
		return
	}
	model := strings.Split(e.O.Ask("C03", "vm", ops), "\t")[0]
	goOut := r.Eval
	if r.Eval == "err" && strings.Contains(r.EvalMsg, "index out of range") && strings.HasPrefix(r.EvalMsg, "panic:") {
		goOut = "recovered"
	}
	e.R.H("vm_limit", goOut)
	if r.Eval == "timeout" {
		e.R.H("excluded", "no answer within the time limit (timing is never a verdict)")
		return
	}
	if r.Eval == "panic" {
		e.R.Spec(key, "a Go panic escaped the VM entry point: "+r.EvalMsg, "")
		return
	}
	if (model == "ok") != (goOut == "ok") || (model == "recovered" && goOut != "recovered") {
		e.R.Mismatch(key, goOut+" "+c03_short(r.EvalMsg, 120), model, "VM array limit: which depth is the first to fail, and that it fails as a recovered index panic")
	}
}

// ---------------------------------------------------------------- goroutines started by scripts
//
// Every Go panic that vm.Run / vm.Call recover on the caller's goroutine can also be raised on
// a goroutine the script started (spawn, f.spawn, builtin.spawn, `go`), where the ONLY recover
// is the one deferred in object.NewThread.  These cases need risor.WithConcurrency(): without
// it spawn/go return "context did not contain a spawn function" and nothing is exercised.
// Model: `enter <entry> <body>` (Model.lean 4b) — value | error | killed.

// c03PanicSrc: defs (top-level definitions), fn (a callable expression) and args such that
// fn(args) raises the Go panic.  ops != "" : the body is a VM array overrun the model decides
// (run on a fresh VM); ops == "" : the body's class (panics / returns) is MEASURED by running
// fn(args) on the main goroutine first (entry `run`), then every threaded variant must agree.
type c03PanicSrc struct {
	name, defs, shownDefs, fn, args, ops string
	all                              bool // every start style (else: the three basic ones)
}

func c03NestedList(d int) string {
	var sb strings.Builder
	for i := 0; i < d; i++ {
		sb.WriteString("[x, ")
	}
	sb.WriteString("x")
	for i := 0; i < d; i++ {
		sb.WriteString("]")
	}
	return sb.String()
}

func c03PanicSources() []c03PanicSrc {
	out := []c03PanicSrc{
		// unbounded recursion overruns vm.frames (index out of range [1024])
		{name: "recursion-unbounded", defs: "func boom(n) { return boom(n + 1) }", fn: "boom", args: "0", ops: "call*1100", all: true},
		// explicit Go panics and nil dereferences inside builtins (string panic values and runtime.Error values)
		{name: "builtin-strings.repeat", fn: "strings.repeat", args: `"a", -1`, all: true},
		{name: "builtin-sorted-maps", fn: "sorted", args: `[{"a": 1}, {"b": 2}]`, all: true},
		{name: "builtin-bytes.repeat", fn: "bytes.repeat", args: "byte_slice([1]), -1", all: true},
		{name: "method-list.sort-maps", defs: "func srt() { return [{\"a\": 1}, {\"b\": 2}].sort() }", fn: "srt", all: true},
		// a panic object/chan.go recovers by itself, an ordinary error value, a plain return
		{name: "send-on-closed-chan", defs: "c := chan(1); close(c)\nfunc snd() { c <- 1 }", fn: "snd", all: true},
		{name: "error-value", fn: "error", args: `"e"`, all: true},
		{name: "returns", defs: "func okf(n) { return n + 1 }", fn: "okf", args: "1", all: true},
	}
	// thresholds of both arrays on a thread's fresh VM: rec(d) makes d+1 calls, the literal d+1 pushes
	for _, d := range []int{1000, 1022, 1023, 2000} {
		out = append(out, c03PanicSrc{name: fmt.Sprintf("recursion-depth-%d", d), defs: "func rec(n) { if n <= 0 { return 0 }\n return rec(n-1) }",
			fn: "rec", args: strconv.Itoa(d), ops: fmt.Sprintf("call*%d", d+1)})
	}
	for _, d := range []int{1000, 1023, 1024, 2000} {
		out = append(out, c03PanicSrc{name: fmt.Sprintf("operands-depth-%d", d), defs: "x := 1\nfunc deep() { y := " + c03NestedList(d) + "\n return 7 }",
			shownDefs: fmt.Sprintf("x := 1\nfunc deep() { y := [x, [x, … %d deep … x]]\n return 7 }", d), fn: "deep", ops: fmt.Sprintf("push*%d", d+1)})
	}
	return out
}

// start styles: %C = fn(args), %S = spawn(fn, args), %M = fn.spawn(args)
// observe: raise = the thread's result reaches the top level (wait() raises an error object),
// caught = try() turns it into the value "E:<message>", none = nobody looks at the thread
var c03ThreadStyles = []struct {
	name, tmpl, observe string
	basic               bool
}{
	{"spawn-wait", "t := %S\nt.wait()", "raise", true},
	{"go", "go %C\n0", "none", true},
	{"call-entry", "func f() { return %S.wait() }\n0", "raise", true}, // host: risor.Call(code, "f")
	{"method-spawn-wait", "t := %M\nt.wait()", "raise", false},
	{"spawn-nowait", "%S\n0", "none", false},
	{"spawn-try-wait", "try(func() { return %S.wait() }, func(e) { return \"E:\" + string(e) })", "caught", false},
	{"nested-spawn", "t := spawn(func() { return %S.wait() })\nt.wait()", "raise", false},
	{"go-inside-thread", "t := spawn(func() { go %C\n return 0 })\nt.wait()", "none", false},
	{"spawn-in-defer", "func g() { defer func() { %S.wait() }()\n return 0 }\ng()", "raise", false},
	{"spawn-in-each", "[1, 2].each(func(i) { %S.wait() })", "raise", false},
	{"three-threads", "ts := [%S, %S, %S]\nfor _, t := range ts { try(func() { t.wait() }, func(e) { return 0 }) }\n0", "none", false},
}

func c03IsGoPanicMsg(msg string) bool { return strings.HasPrefix(msg, "panic:") }

func (c *c03Run) threadCases() {
	e := c.e
	rank := 0
	for _, ps := range c03PanicSources() {
		ps := ps
		call := ps.fn + "(" + ps.args + ")"
		sp := "spawn(" + ps.fn
		if ps.args != "" {
			sp += ", " + ps.args
		}
		sp += ")"
		msp := ps.fn + ".spawn(" + ps.args + ")"
		shown := ps.shownDefs
		if shown == "" {
			shown = ps.defs
		}
		expand := func(t, defs string) string {
			t = strings.ReplaceAll(t, "%C", call)
			t = strings.ReplaceAll(t, "%S", sp)
			t = strings.ReplaceAll(t, "%M", msp)
			if defs == "" {
				return t
			}
			return defs + "\n" + t
		}
		// ranks are fixed here, in generation order, so that the replay names the simplest case
		baseRank := rank
		rank += 1 + len(c03ThreadStyles)
		threads := func(body string) {
			for i, st := range c03ThreadStyles {
				if !ps.all && !st.basic {
					continue
				}
				st := st
				src, text := expand(st.tmpl, ps.defs), expand(st.tmpl, shown)
				mode, how := "script", "risor.Eval with risor.WithConcurrency()"
				if st.name == "call-entry" {
					mode, how = "call", "risor.Call(code, \"f\") with risor.WithConcurrency()"
				}
				key := fmt.Sprintf("thread|source=%s|start=%s|%s|%s", ps.name, st.name, how, strconv.Quote(text))
				c.setRank(key, baseRank+1+i)
				c.pool.submitAsync(c03Req{Mode: mode, Opt: "conc", Src: hex.EncodeToString([]byte(src)), N: 10000}, 60*time.Second, func(res c03Result) {
					c.judgeThread(key, "thread", body, st.observe, res)
				})
			}
		}
		// the body on the caller's goroutine (entry run): decides / measures its class
		src, text := expand("%C", ps.defs), expand("%C", shown)
		key := fmt.Sprintf("thread|source=%s|start=none (main goroutine)|risor.Eval with risor.WithConcurrency()|%s", ps.name, strconv.Quote(text))
		c.setRank(key, baseRank)
		c.pool.submit(c03Req{Mode: "script", Opt: "conc", Src: hex.EncodeToString([]byte(src)), N: 10000}, 60*time.Second, func(res c03Result) {
			body := "ops:" + ps.ops
			if ps.ops == "" {
				body = "return"
				if res.Death != nil || res.Resp.Eval == "panic" || (res.Resp.Eval == "err" && c03IsGoPanicMsg(res.Resp.EvalMsg)) {
					body = "panic"
				}
			}
			e.R.H("thread_body", ps.name+": "+strings.SplitN(body, ":", 2)[0])
			c.judgeThread(key, "run", body, "raise", res)
			threads(body)
		})
	}
	// object.NewThread itself, with callables that panic with each kind of value
	for i, kind := range []string{"return", "string", "error", "runtime-error", "nil-map-write", "custom-value", "error-object"} {
		kind := kind
		key := "thread-api|object.NewThread(ctx, callable, nil).Wait(ctx)|callable: " + c03ApiCallableDoc[kind]
		c.setRank(key, 100000+i)
		c.pool.submit(c03Req{Mode: "threadapi", Opt: kind}, 30*time.Second, func(res c03Result) {
			body := "panic"
			if kind == "return" || kind == "error-object" {
				body = "return"
			}
			c.judgeThread(key, "thread", body, "raise", res)
		})
	}
}

var c03ApiCallableDoc = map[string]string{
	"return":        "returns object.NewInt(42)",
	"error-object":  "returns object.Errorf(\"e\")",
	"string":        "panic(\"boom\")",
	"error":         "panic(errors.New(\"boom\"))",
	"runtime-error": "indexes an empty slice (runtime.Error)",
	"nil-map-write": "writes to a nil map (runtime.Error)",
	"custom-value":  "panic(struct{ A int }{7})",
}

func (c *c03Run) setRank(key string, r int) {
	c.mu.Lock()
	if c.ranks == nil {
		c.ranks = map[string]int{}
	}
	c.ranks[key] = r
	c.mu.Unlock()
}

// threadDeath: a child running a concurrency case was terminated.
func (c *c03Run) threadDeath(key string, d *c03Death) {
	e := c.e
	e.R.H("child_deaths", d.Kind)
	switch d.Kind {
	case "timeout":
		e.R.H("excluded", "no answer within the time limit (timing is never a verdict)")
		e.R.Note("no verdict (timeout): %s", c03_short(key, 200))
		return
	case "memlimit":
		e.R.H("excluded", "memory exhausted by data size (child watchdog)")
		return
	}
	tail := d.Stderr
	if i := strings.Index(tail, "\n\n"); i > 0 {
		tail = tail[:i]
	}
	gor := ""
	if i := strings.Index(d.Stderr, "\ngoroutine "); i >= 0 {
		gor = d.Stderr[i+1:]
		if j := strings.IndexByte(gor, '\n'); j > 0 {
			gor = gor[:j]
		}
	}
	created := ""
	if i := strings.Index(d.Stderr, "created by "); i >= 0 {
		created = d.Stderr[i:]
		if j := strings.IndexByte(created, '\n'); j > 0 {
			created = created[:j]
		}
	}
	e.R.Spec(key, fmt.Sprintf("the embedding process was terminated by the Go runtime (%s, exit %d): a Go panic raised on a goroutine started by the script was not recovered there — %s | %s %s",
		d.Kind, d.Exit, c03_short(strings.TrimSpace(tail), 300), gor, created), "")
}

// judgeThread compares one concurrency case with the model's `enter <entry> <body>`.
func (c *c03Run) judgeThread(key, entry, body, observe string, res c03Result) {
	e := c.e
	e.R.Case(key, true)
	rep := strings.Split(e.O.Ask("C03", "enter", entry, body), "\t")
	model := rep[0] // value | error | killed
	if model != "value" && model != "error" && model != "killed" {
		e.R.Mismatch(key, "enter "+entry+" "+body, strings.Join(rep, " "), "oracle refused the request")
		return
	}
	goOut, msg := "", ""
	switch {
	case res.Death != nil && (res.Death.Kind == "timeout" || res.Death.Kind == "memlimit"):
		c.threadDeath(key, res.Death)
		return
	case res.Death != nil:
		goOut, msg = "killed", res.Death.Kind
	default:
		r := res.Resp
		msg = r.EvalMsg
		switch {
		case r.Eval == "timeout":
			e.R.H("excluded", "no answer within the time limit (timing is never a verdict)")
			return
		case r.Eval == "panic":
			goOut = "escaped"
		case strings.Contains(r.EvalMsg, "did not contain a spawn function") || r.Compile == "err":
			goOut = "not-run"
			msg = r.EvalMsg + r.CompMsg
		case observe == "raise" && r.Eval == "err" && c03IsGoPanicMsg(r.EvalMsg):
			goOut = "error"
		case observe == "caught" && r.Eval == "ok" && strings.HasPrefix(r.Value, "\"E:panic:"):
			goOut, msg = "error", r.Value
		case observe == "none":
			goOut = "alive"
		default:
			goOut = "value"
		}
	}
	want := model
	if observe == "none" && model != "killed" {
		want = "alive"
	}
	e.R.H("thread_outcome", entry+" "+strings.SplitN(body, ":", 2)[0]+" observe="+observe+": "+goOut)
	if goOut == "killed" {
		c.threadDeath(key, res.Death)
	}
	if goOut == "escaped" {
		e.R.Spec(key, "a Go panic escaped the embedding API into the host's goroutine: "+msg, "")
	}
	if goOut != want {
		e.R.Mismatch(key, goOut+" "+c03_short(msg, 160), strings.Join(rep, " "),
			"outcome of a body under an entry point (value = returned, error = the Go panic came back as an error `panic: …`, killed = process terminated)")
	}
}

// orderViolations: among the recorded violations, the thread cases appear simplest first (the
// callbacks run concurrently; ./check stores the first unlisted violation as the replay).
func (c *c03Run) orderViolations() {
	r := c.e.R
	r.mu.Lock()
	defer r.mu.Unlock()
	var idx []int
	var vs []SpecViolation
	for i, v := range r.SpecViolations {
		if _, ok := c.ranks[v.Case]; ok && v.Finding == "" {
			idx = append(idx, i)
			vs = append(vs, v)
		}
	}
	sort.SliceStable(vs, func(a, b int) bool { return c.ranks[vs[a].Case] < c.ranks[vs[b].Case] })
	for k, i := range idx {
		r.SpecViolations[i] = vs[k]
	}
}

// ---------------------------------------------------------------- heaps

type c03Heap struct {
	enc    string
	n      int
	cyclic bool
}

func c03GenHeap(r *RNG, listsOnly bool, allowCycles bool) c03Heap {
	n := 1 + r.Intn(5)
	parts := make([]string, n)
	cyc := false
	for i := 0; i < n; i++ {
		isMap := !listsOnly && r.Chance(35)
		k := r.Intn(4)
		var items []string
		for j := 0; j < k; j++ {
			v := fmt.Sprintf("i%d", r.Intn(3))
			if r.Chance(55) {
				t := r.Intn(n)
				if !allowCycles {
					if i == 0 {
						t = -1
					} else {
						t = r.Intn(i)
					}
				}
				if t >= 0 {
					v = fmt.Sprintf("r%d", t)
					if t >= i {
						cyc = true
					}
				}
			}
			if isMap {
				v = string(rune('a'+j)) + "=" + v
			}
			items = append(items, v)
		}
		if isMap {
			parts[i] = "M" + strings.Join(items, ",")
		} else {
			parts[i] = "L" + strings.Join(items, ",")
		}
	}
	return c03Heap{strings.Join(parts, ";"), n, cyc}
}

func (c *c03Run) heapCases(n int) {
	e := c.e
	rng := e.Rng.Fork()
	for i := 0; i < n; i++ {
		r := rng.Fork()
		if i%3 != 0 {
			h := c03GenHeap(r, false, true)
			root := fmt.Sprintf("r%d", r.Intn(h.n))
			key := "inspect|" + h.enc + "|" + root
			c.small.submit(c03Req{Mode: "heap", Opt: h.enc, Src: hex.EncodeToString([]byte("inspect " + root))}, 30*time.Second, func(res c03Result) {
				e.R.Case(key, true)
				e.R.H("heap", "inspect")
				if res.Death != nil {
					c.death(key, res.Death, "")
					return
				}
				if res.Resp.Eval != "ok" {
					e.R.Spec(key, "Inspect did not return: "+res.Resp.EvalMsg, "")
					return
				}
				rep := strings.Split(e.O.Ask("C03", "inspect", h.enc, root), "\t")
				model := "nofuel"
				if rep[0] == "ok" && len(rep) > 1 {
					model = UnHex(rep[1])
				}
				if model != res.Resp.Value {
					e.R.Mismatch(key, res.Resp.Value, model, "Inspect rendering (placeholders for containers being inspected)")
				}
				if strings.Contains(model, "...") {
					e.R.H("inspect_cycle_placeholder", "yes")
				} else {
					e.R.H("inspect_cycle_placeholder", "no")
				}
			})
			continue
		}
		// Equals: lists only (map iteration order would make the outcome order-dependent).
		// 85 % of the cases are acyclic (inside the guard); cyclic ones cost one child each.
		h := c03GenHeap(r, true, r.Chance(15))
		a, b := fmt.Sprintf("r%d", r.Intn(h.n)), fmt.Sprintf("r%d", r.Intn(h.n))
		key := "equals|" + h.enc + "|" + a + "|" + b
		rep := strings.Split(e.O.Ask("C03", "equals", h.enc, a, b), "\t")
		model := rep[0]
		ranked := len(rep) > 1 && rep[1] == "ranked=true"
		c.small.submit(c03Req{Mode: "heap", Opt: h.enc, Src: hex.EncodeToString([]byte("equals " + a + " " + b))}, 60*time.Second, func(res c03Result) {
			e.R.Case(key, true)
			e.R.H("heap", "equals model="+model)
			goOut := ""
			switch {
			case res.Death != nil && res.Death.Kind == "stack-overflow":
				goOut = "overflow"
			case res.Death != nil:
				goOut = "died:" + res.Death.Kind
			case res.Resp.Eval == "ok":
				goOut = res.Resp.Value
			default:
				goOut = res.Resp.Eval + ":" + res.Resp.EvalMsg
			}
			if goOut != model {
				e.R.Mismatch(key, goOut, model, "object.Equals on a generated heap (t / f / overflow = fatal stack exhaustion)")
			}
			if res.Death != nil {
				finding := ""
				if !ranked && model == "overflow" && goOut == "overflow" {
					finding = "C03-cyclic-data-stack-overflow"
				}
				c.death(key, res.Death, finding)
			}
		})
	}
}

// ---------------------------------------------------------------- scripts over default globals

type c03Value struct {
	name, setup string
	cyclic      bool
	deep        bool
}

var c03Values = []c03Value{
	{"cyclic-list", "a := [1]; a.append(a)", true, false},
	{"cyclic-map", "a := {\"x\": 1}; a[\"k\"] = a", true, false},
	{"cyclic-two-lists", "a := [1]; b := [a]; a.append(b)", true, false},
	{"cyclic-list-in-map", "a := {\"l\": [1]}; a[\"l\"].append(a)", true, false},
	{"deep-list-2e4", "a := [1]; for i := range 20000 { a = [a] }", false, true},
	{"deep-map-2e4", "a := {\"v\": 1}; for i := range 20000 { a = {\"k\": a} }", false, true},
	{"plain-list", "a := [1, [2, 3], {\"k\": [4]}]", false, false},
	{"plain-map", "a := {\"p\": [1, 2], \"q\": {\"r\": 3}}", false, false},
}

// 1e5-deep data with the operations whose cost is linear in the depth (rendering a value
// nested that deep is quadratic in risor and only bounded by time, which is no verdict)
var c03DeepValues = []c03Value{
	{"deep-list-1e5", "a := [1]; for i := range 100000 { a = [a] }", false, true},
	{"deep-map-1e5", "a := {\"v\": 1}; for i := range 100000 { a = {\"k\": a} }", false, true},
}
var c03DeepOps = []string{"a == a", "a != a", "a in [a]", "[a] == [a]", "len(a)", "bool(a)", "type(a)", "hash(a)", "a.copy() == a",
	"sorted([a, a])", "{\"k\": a} == {\"k\": a}", "switch a { case a: 1 }", "try(func() { return a == a }, 1)", "a < a",
	"b := a; for i := range 100000 { b = b[0] }", "spawn(func() { return a == a }).wait()"}

// operations: %s is the value's name
var c03Ops = []string{
	"a == a", "a != a", "a == [a]", "[a] == [a]", "a in [a]", "a not in [a]", "string(a)", "print(a)", "sprintf(\"%v\", a)", "fmt.printf(\"%v\\n\", a)",
	"json.marshal(a)", "encode(a, \"json\")", "sorted([a, a])", "set([1]).union(set([2])); a.copy()", "len(a)", "type(a)", "bool(a)", "list(a)",
	"hash(a)", "is_hashable(a)", "reversed(a)", "iter(a)", "keys(a)", "any(a)", "all(a)", "error(a)", "try(func() { return a == a }, 1)",
	"assert(a == a)", "coalesce(nil, a)", "chunk(a, 1)", "a.count(a)", "a.contains(a)", "a.index(a)", "a.remove(a)", "a + a", "a.extend(a)",
	"byte_slice(a)", "float_slice(a)", "buffer(a)", "a.each(func(x) { x == a })", "a.map(func(x) { return x })", "a.filter(func(x) { return x == a })",
	"spawn(func() { return a == a }).wait()", "go func() { a == a }()\nfor i := range 3000000 { }", "defer func() { a == a }()", "a < a", "a > [a]", "{a}", "{\"k\": a} == {\"k\": a}",
	"map(a)", "set(a)", "string(a) == string(a)", "getattr(a, \"copy\")()", "call(func(x) { return x == x }, a)", "a.keys()", "a.values()", "a.items()",
	"a.update(a)", "a.pop(\"k\", a)", "delete(a, \"k\")", "int(a)", "float(a)", "byte(a)", "chr(a)", "ord(a)", "decode(a, \"json\")", "make(a)", "chan(1) <- a",
	"math.sum(a)", "math.max(a)", "strings.join(a, \",\")", "strings.contains(a, a)", "json.valid(a)", "errors.new(a)", "base64.encode(a)", "bytes.equals(a, a)",
	"regexp.compile(a)", "strconv.atoi(a)", "rand.shuffle(a)", "rand.choice(a)", "time.sleep(a)", "filepath.join(a, a)",
	"switch a { case a: 1 }", "a ? 1 : 2", "!a", "-a", "a[0] == a", "a[\"k\"] == a", "for _, v := range a { v == a }", "x, y := a", "[a, a].sort()",
}

func (c *c03Run) scriptCases(n int, all bool) {
	e := c.e
	rng := e.Rng.Fork()
	type combo struct {
		v  c03Value
		op string
	}
	var combos []combo
	if all {
		for _, v := range c03Values {
			for _, op := range c03Ops {
				combos = append(combos, combo{v, op})
			}
		}
	} else {
		for i := 0; i < n; i++ {
			v := c03Values[rng.Intn(len(c03Values))]
			if rng.Chance(70) { // most cases inside the guards: acyclic data
				v = c03Values[4+rng.Intn(len(c03Values)-4)]
			}
			combos = append(combos, combo{v, Pick(rng, c03Ops)})
		}
	}
	for _, v := range c03DeepValues {
		for _, op := range c03DeepOps {
			combos = append(combos, combo{v, op})
		}
	}
	// the same operation on a goroutine of its own (spawned and waited for / started with
	// `go` and not waited for): thorough every combination, quick one in four
	n0 := len(combos)
	for i := 0; i < n0; i++ {
		cb := combos[i]
		if strings.Contains(cb.op, "spawn(") || strings.HasPrefix(cb.op, "go ") || cb.v.deep && strings.HasPrefix(cb.v.name, "deep-") && strings.HasSuffix(cb.v.name, "1e5") {
			continue
		}
		if !all && !rng.Chance(25) {
			continue
		}
		if all || rng.Bool() {
			combos = append(combos, combo{cb.v, "spawn(func() { " + cb.op + " }).wait()"})
		}
		if all || rng.Bool() {
			combos = append(combos, combo{cb.v, "go func() { " + cb.op + " }()"})
		}
	}
	for _, cb := range combos {
		cb := cb
		src := cb.v.setup + "\n" + cb.op
		key := "script|" + cb.v.name + "|" + cb.op
		pool := c.pool
		if cb.v.cyclic {
			pool = c.small
		}
		// risor.WithConcurrency(): without it spawn / go only return an error
		pool.submit(c03Req{Mode: "script", Opt: "conc", Src: hex.EncodeToString([]byte(src)), N: 20000}, 40*time.Second, func(res c03Result) {
			e.R.Case(key, true)
			e.R.H("script_value", cb.v.name)
			if res.Death != nil {
				finding := ""
				if cb.v.cyclic && res.Death.Kind == "stack-overflow" {
					finding = "C03-cyclic-data-stack-overflow"
				}
				e.R.H("script_outcome", "died:"+res.Death.Kind)
				c.death(key+"|"+strconv.Quote(src), res.Death, finding)
				return
			}
			e.R.H("script_outcome", res.Resp.Eval)
			if res.Resp.Eval == "panic" {
				e.R.Spec(key+"|"+strconv.Quote(src), "a Go panic escaped risor.Eval: "+res.Resp.EvalMsg, "")
			}
			if strings.Contains(res.Resp.EvalMsg, "did not contain a spawn function") {
				e.R.Mismatch(key, res.Resp.EvalMsg, "a thread is started", "the case must run with concurrency enabled (otherwise it exercises nothing)")
			}
			if strings.Contains(cb.op, "spawn(") || strings.Contains(cb.op, "go func") {
				e.R.H("script_threaded", res.Resp.Eval)
			}
		})
	}
}

// ---------------------------------------------------------------- deep nesting

func (c *c03Run) deepCases() {
	e := c.e
	type dc struct {
		kind string
		n    int
	}
	cases := []dc{{"paren", 2000}, {"list", 2000}, {"bang", 2000}, {"index", 2000}, {"call", 500}, {"ternary", 300}, {"comments", 200000}, {"paren", 1500000}}
	if !e.Quick {
		cases = append(cases, dc{"paren", 100000}, dc{"comments", 2000000}, dc{"bang", 1500000}, dc{"list", 1500000})
	}
	for _, d := range cases {
		d := d
		key := fmt.Sprintf("deep|%s|%d", d.kind, d.n)
		c.pool.submit(c03Req{Mode: "deep", Opt: d.kind, N: d.n}, 300*time.Second, func(res c03Result) {
			e.R.Case(key, true)
			if res.Death != nil {
				finding := ""
				if res.Death.Kind == "stack-overflow" && d.n >= 1000000 {
					finding = "C03-deep-nesting-stack-overflow"
				}
				e.R.H("deep", d.kind+":died:"+res.Death.Kind)
				c.death(key, res.Death, finding)
				return
			}
			r := res.Resp
			e.R.H("deep", fmt.Sprintf("%s:%d parse=%s compile=%s eval=%s", d.kind, d.n, r.Parse, r.Compile, r.Eval))
			if r.Parse == "panic" || r.Compile == "panic" || r.Eval == "panic" {
				e.R.Spec(key, "panic on deeply nested input: "+r.ParseMsg+r.CompMsg+r.EvalMsg, "")
			}
		})
	}
}

// ---------------------------------------------------------------- main

func c03_runC03(e *Env) {
	e.R.Rule = "inputs: (1) programs from the structured generator, (2) one token deleted / inserted / substituted / truncated after, using the real lexer's " +
		"token boundaries, (3) token soup from an alphabet of every keyword, operator, literal form, comment form, unterminated and multi-line token, " +
		"(4) raw bytes (uniform, printable, punctuation-heavy incl. NUL and invalid UTF-8), (5) directed sources for each known or repaired defect, " +
		"(6) switch statements with a syntax error planted in one expression of one case list (each must come back as a parse error: the loops of parseSwitch end once an error is recorded); each goes through " +
		"lexer (every token: positions, GetLineText, FriendlyErrorMessage), parser.Parse, Error()/FriendlyErrorMessage() of the returned error, AST export, " +
		"compiler.Compile, risor.Eval inside a child process. Plus scripts over the default globals applied to cyclic / 1e5-deep / plain containers, " +
		"generated heaps for Inspect and Equals, VM depth thresholds through Eval / Call / EvalCode, and very deep nesting. " +
		"Goroutines (risor.WithConcurrency()): bodies that raise a Go panic (unbounded recursion, frame / operand depths around 1024, panicking builtins and methods) and bodies that return, " +
		"run on the main goroutine and under 11 start styles (spawn+wait, f.spawn, go, not waited for, nested, go inside a thread, inside try / defer / each, three at once, through risor.Call), " +
		"plus object.NewThread with faulting callables; outcome value / error / killed against the model's `enter`; script operations also wrapped in spawn(...).wait() and go func(){...}(); " +
		"stream inputs whose Go panic vm.Run recovered are re-run as the body of a spawned function. " +
		"Recursion by every route (stream `recursion`): cycles of 1–3 generated functions whose hand-over to the next one is a call expression, a builtin's callback " +
		"(list.each / map / filter, sorted, call), a deferred call, or a closure around one of those (each / try / defer), unbounded or to a depth around the end of the frame array (or 1200–3000), " +
		"entered from the main code, through risor.Call, from a builtin at top level, on a spawned thread (waited for or `go`), from the body of the third module of an import chain; outcome against the model's `nestRun` under `enter` " +
		"(value / error = recovered index panic / raised = the returned error `max call depth of 1024 exceeded` of vm.callFunction, which is what ends recursion through defer / killed = native stack exhausted: never predicted, " +
		"a death is an unlisted violation; children with a 64 MB stack); directed: recursion through defer alone to depth 1023 / 1024, a refused recursion followed by an allowed one on the same VM, " +
		"and deep legitimate programs (1000 nested calls, 2000 deferred calls in one frame, a deferred call in every level of a recursion of depth 900). " +
		"Importers (stream `importer`): 1–10 Import calls on a real LocalImporter or FSImporter over a scratch directory, the module file rewritten before each call " +
		"(missing / one of 16 texts that do not parse or compile / one of 7 that compile, .risor or .rsr, nested path), then 2–5 goroutines importing every name; " +
		"results (module / not found / parse-or-compile error) against the model's `importSeq`. Stream `import`: scripts evaluated with risor.WithLocalImporter over 2–5 such module files " +
		"(also modules that import others or raise while running): import / from-import inside try, inside a builtin's callback, on a spawned thread, one unguarded; per-step ok/err against the " +
		"model's results for the Import calls the VM makes. " +
		"One VM entered many times (stream `life`): 2–7 entries on one vm.NewEmpty() — risor.Eval / EvalCode with WithVM, vm.RunCode, risor.Call with WithVM, vm.RunCode under Background + vm.Get + vm.Call — each under a context of its own kind " +
		"(Background / TODO / WithValue; WithCancel / WithTimeout / WithDeadline / WithValue of one, cancelled by the host after the entry; cancelled or expired before the entry, code that runs until halted) " +
		"with code that returns, fails or overruns the operand stack; per entry value / recovered panic / returned error against the model's `lifeSeq`, a Go panic out of the entry point is a violation. " +
		"Lookups by name on one VM that runs one code object after another (stream `lookup`): 2–5 generated scripts declaring 1–4 globals (functions / variables, values unique to script and position) under names from a pool of seven, " +
		"so that a name changes slot or disappears between scripts; compiled with the default globals or none; each loaded by vm.RunCode or risor.EvalCode with WithVM and followed by 1–3 lookups (vm.Get, or risor.Call with WithVM), mostly of names asked for earlier on this VM, " +
		"also builtins, undeclared names, a lookup before any load; per lookup the real outcome against the model's `getSeq scan` on the real global names and against the Spec (the global of the ACTIVE script), a Go panic out of Get / risor.Call is a violation; " +
		"non-trivial when some name is looked up under two different active scripts. " +
		"One file object with two closers (stream `fileclose`): an object.File over an in-memory file whose Close can be held, opened under a cancellable context; 1–5 events out of close / deferclose (a script with the default globals plus the file calls f.close(), directly or as a deferred call), " +
		"cancel (the opening context ends; the watcher goroutine is held inside the underlying Close, i.e. in its ctx.Done branch), resume (the watcher runs to its end), then cancel, resume; per event against the model's `fileSeq`, a Go panic out of risor.Eval or the death of the child (a panic on the watcher goroutine) is a violation; " +
		"non-trivial when both closers act. " +
		"Integer-literal initialisers (stream `constexpr`): expression trees over + - * / % << >> & and negation with operands at the edges of int64 and of the shift range (negative and ≥ 64 counts, zero divisors), " +
		"in const / var / := / expression statement / const inside a function / return value / list item; whole source pipeline, value or error against the model's `declRun`. " +
		"A case is distinct by its bytes; a source case is non-trivial when the parser got past the first token (parse ok, or the error position is after the first token); " +
		"script / heap / VM cases are non-trivial when they call at least one builtin or operator on a container"
	e.R.Rule += "." + c03FrontRule
	c := &c03Run{e: e}
	workers := 4
	nValid, nMut, nSoup, nBytes, nHeap, nScript := 2500, 6000, 7000, 3500, 1500, 400
	nSwitchErr := 600
	nRec, nImporter, nImportScript := 260, 300, 250
	nLife, nConstExpr := 300, 1500
	nLookup, nFileClose := 500, 200
	if !e.Quick {
		nLookup, nFileClose = 8000, 2500
	}
	if !e.Quick {
		nRec, nImporter, nImportScript = 4000, 6000, 5000
		nLife, nConstExpr = 6000, 60000
	}
	if !e.Quick {
		nValid, nMut, nSoup, nBytes, nHeap, nScript = 30000, 160000, 200000, 80000, 15000, 0
		nSwitchErr = 20000
		workers = 6
	}
	c.pool = c03_newC03Pool(workers)
	c.small = c03_newC03Pool(2, "-maxstack=67108864")
	defer c.pool.close()
	defer c.small.close()
	if os.Getenv("VERIF_C03_ONLY") == "front" { // development aid: this stream alone (default: all streams)
		fr := c.frontCases()
		c.pool.wait()
		fr.done()
		return
	}
	for _, d := range c03Directed {
		c.srcCase("directed", d.src)
	}
	c.threadCases()
	c.recursionCases(nRec)
	c.importerCases(nImporter)
	c.importScriptCases(nImportScript)
	c.lifeCases(nLife)
	c.lookupCases(nLookup)
	c.fileCloseCases(nFileClose)
	c.constExprCases(nConstExpr)
	c.vmCases()
	c.deepCases()
	c.scriptCases(nScript, !e.Quick)
	c.heapCases(nHeap)

	rng := e.Rng.Fork()
	var valid []string
	for i := 0; i < nValid; i++ {
		r := rng.Fork()
		o := GenOpts{MaxStmts: 2 + r.Intn(4), MaxDepth: 2 + r.Intn(3), Budget: 30 + r.Intn(90), Funcs: true, Closures: r.Bool(),
			Containers: true, Strings: true, CtlHeavy: i%3 == 0, NoCtlInSwitch: true}
		p := GenProgram(r, o)
		src := Src(p)
		if len(valid) < 4000 {
			valid = append(valid, src)
		}
		for k := range Kinds(p) {
			e.R.H("constructs", k)
		}
		c.srcCase("valid", src)
	}
	for i := 0; i < nMut; i++ {
		r := rng.Fork()
		src, how := c03Mutate(r, valid[r.Intn(len(valid))])
		if r.Chance(25) {
			src, _ = c03Mutate(r, src)
		}
		e.R.H("mutation", how)
		c.srcCase("mutated", src)
	}
	for i := 0; i < nSoup; i++ {
		c.srcCase("soup", c03Soup(rng.Fork()))
	}
	for i := 0; i < nBytes; i++ {
		c.srcCase("bytes", c03Bytes(rng.Fork()))
	}
	for i := 0; i < nSwitchErr; i++ {
		src := c03SwitchErr(rng.Fork())
		if c.switchErrDied(0) >= 3 {
			e.R.Note("switch-err: stream cut short after %d cases (three children died)", i)
			break
		}
		c.srcCase("switch-err", src)
	}
	// the stored fuzz corpus of parser.FuzzParse and every script in the repository
	if !e.Quick {
		for _, src := range c03RepoSources() {
			c.srcCase("repo", src)
		}
	}
	fr := c.frontCases() // byte strings through lexer / parser / compiler (c03front.go)
	c.pool.wait()
	c.small.wait()
	fr.done()
	c.orderViolations()
	ks := sortedKeys(e.R.FindingsConfirmed)
	sort.Strings(ks)
	e.R.Note("known-finding guards hit: %s", strings.Join(ks, ", "))
}

func c03RepoSources() []string {
	var out []string
	walk := func(dir string) {
		ents, _ := os.ReadDir(dir)
		for _, en := range ents {
			if en.IsDir() {
				continue
			}
			b, err := os.ReadFile(dir + "/" + en.Name())
			if err != nil || len(b) > 20000 {
				continue
			}
			s := string(b)
			// go fuzz corpus format: go test fuzz v1\nstring("...")
			if strings.HasPrefix(s, "go test fuzz v1") {
				if i := strings.Index(s, "string("); i >= 0 {
					q := strings.TrimSpace(s[i+7:])
					q = strings.TrimSuffix(q, ")")
					if u, err := strconv.Unquote(q); err == nil {
						s = u
					}
				}
			}
			out = append(out, s)
		}
	}
	walk("/repo/parser/testdata/fuzz/FuzzParse")
	for _, d := range []string{"/repo/examples/scripts", "/repo/tests", "/repo/examples"} {
		ents, _ := os.ReadDir(d)
		for _, en := range ents {
			if strings.HasSuffix(en.Name(), ".risor") || strings.HasSuffix(en.Name(), ".tm") {
				if b, err := os.ReadFile(d + "/" + en.Name()); err == nil && len(b) < 20000 {
					out = append(out, string(b))
				}
			}
		}
	}
	return out
}

// ================================================================ child process
//
// Runs the REAL risor code on one case at a time, each stage under recover(), and reports
// what happened as one JSON line.  A case that kills the process (fatal stack overflow,
// out of memory) is seen by the parent as a dead child.

func init() { childCommands["C03-child"] = c03Child }

type c03Req struct {
	ID   int    `json:"id"`
	Mode string `json:"mode"` // src | deep | script | call | heap | threadapi
	Src  string `json:"src"`  // hex
	N    int    `json:"n"`
	Opt  string `json:"opt"` // script / call: "conc" = risor.WithConcurrency()
}

type c03Tok struct {
	A, B       int  // rune offsets of start and end position
	EOF        bool // token type is EOF
	P          [6]int
	GLT        string // "P" (panicked) or "s:e" when the text equals runes[s:e], or "?<text>"
	F          string // "P" or "pad:n"
	QL         int    // returned error only: runes of the quoted line (SourceCode()) + 1; 0 = not set
	StartAfter bool   // start offset > end offset (never expected)
}

type c03Resp struct {
	ID       int      `json:"id"`
	Toks     []c03Tok `json:"toks,omitempty"`
	LexPanic string   `json:"lexpanic,omitempty"`
	NToks    int      `json:"ntoks"`
	Parse    string   `json:"parse"` // ok | err | panic
	ParseMsg string   `json:"parsemsg,omitempty"`
	ErrFmt   string   `json:"errfmt,omitempty"` // ok | panic:<msg>
	ErrTok   *c03Tok  `json:"errtok,omitempty"` // positions of the returned ParserError
	FirstEnd int      `json:"firstend"`         // end offset of the first non-newline token
	Ast      string   `json:"ast,omitempty"`
	NilPath  string   `json:"nilpath,omitempty"`
	Compile  string   `json:"compile,omitempty"` // ok | err | panic
	CompMsg  string   `json:"compmsg,omitempty"`
	Eval     string   `json:"eval,omitempty"` // ok | err | panic | timeout
	EvalMsg  string   `json:"evalmsg,omitempty"`
	Value    string   `json:"value,omitempty"`
	Left     int      `json:"left,omitempty"` // goroutines started by the case that were still running when it answered
	Ms       int64    `json:"ms"`

	// mode front (c03front.go): one item per byte string of the batch
	Front []c03FrontItem `json:"front,omitempty"`
}

func c03_short(s string, n int) string {
	if len(s) > n {
		return s[:n] + "…"
	}
	return s
}

func c03Child(args []string) {
	for _, a := range args {
		if strings.HasPrefix(a, "-maxstack=") {
			v, _ := strconv.Atoi(a[len("-maxstack="):])
			if v > 0 {
				debug.SetMaxStack(v)
			}
		}
	}
	debug.SetGCPercent(50)
	go func() { // memory watchdog: the property excludes exhaustion by sheer data size
		var ms runtime.MemStats
		for {
			time.Sleep(40 * time.Millisecond)
			runtime.ReadMemStats(&ms)
			if ms.HeapAlloc > 1200<<20 {
				fmt.Fprintln(os.Stderr, "C03-MEMLIMIT")
				os.Exit(77)
			}
		}
	}()
	in := bufio.NewReaderSize(os.Stdin, 1<<22)
	out := bufio.NewWriter(os.Stdout)
	for {
		line, err := in.ReadString('\n')
		if line == "" && err != nil {
			return
		}
		var req c03Req
		if json.Unmarshal([]byte(line), &req) != nil {
			continue
		}
		srcB, _ := hex.DecodeString(req.Src)
		t0 := time.Now()
		var resp c03Resp
		switch req.Mode {
		case "src":
			resp = c03RunSrc(string(srcB), req.Opt)
		case "deep":
			resp = c03RunSrc(c03DeepSrc(req.Opt, req.N), "notoks,noast")
		case "script":
			resp = c03RunScript(string(srcB), req.N, req.Opt == "conc")
		case "call":
			resp = c03RunCall(string(srcB), req.N, req.Opt == "conc")
		case "threadapi":
			resp = c03RunThreadAPI(req.Opt)
		case "heap":
			resp = c03RunHeap(req.Opt, string(srcB))
		case "importer":
			resp = c03RunImporter(req.Opt)
		case "importscript":
			resp = c03RunImportScript(req.Opt, string(srcB), req.N)
		case "life":
			resp = c03RunLife(req.Opt)
		case "lookup":
			resp = c03RunLookup(req.Opt)
		case "fileclose":
			resp = c03RunFileClose(req.Opt)
		case "front":
			resp = c03RunFront(req.Opt)
		}
		resp.ID = req.ID
		resp.Ms = time.Since(t0).Milliseconds()
		b, _ := json.Marshal(resp)
		out.Write(b)
		out.WriteByte('\n')
		out.Flush()
		if err != nil {
			return
		}
	}
}

func c03DeepSrc(kind string, n int) string {
	switch kind {
	case "paren":
		return strings.Repeat("(", n) + "1" + strings.Repeat(")", n)
	case "list":
		return strings.Repeat("[", n) + "1" + strings.Repeat("]", n)
	case "bang":
		return strings.Repeat("!", n) + "true"
	case "index":
		return "x" + strings.Repeat("[0", n) + strings.Repeat("]", n)
	case "comments":
		return strings.Repeat("#\n", n) + "1"
	case "call":
		return "f" + strings.Repeat("(f", n) + strings.Repeat(")", n)
	case "ternary":
		return strings.Repeat("(true ? ", n) + "1" + strings.Repeat(" : 2)", n)
	}
	return "1"
}

// friendlyCarets extracts (pad, carets) from the last line of a FriendlyErrorMessage.
func c03_friendlyCarets(msg string) string {
	i := strings.LastIndexByte(msg, '\n')
	last := msg[i+1:]
	pad := 0
	for pad < len(last) && last[pad] == ' ' {
		pad++
	}
	n := 0
	for pad+n < len(last) && last[pad+n] == '^' {
		n++
	}
	if pad+n != len(last) {
		return "?" + last
	}
	return fmt.Sprintf("%d:%d", pad, n)
}

func c03_posArr(a, b token.Position) [6]int {
	return [6]int{a.Line, a.Column, a.LineStart, b.Line, b.Column, b.LineStart}
}

// tokInfo runs GetLineText and a FriendlyErrorMessage built the way setTokenError builds it.
func c03_tokInfo(l *lexer.Lexer, runes []rune, t token.Token) c03Tok {
	ti := c03Tok{A: t.StartPosition.Char, B: t.EndPosition.Char, EOF: t.Type == token.EOF,
		P: c03_posArr(t.StartPosition, t.EndPosition)}
	ti.StartAfter = ti.A > ti.B
	text := ""
	func() {
		defer func() {
			if r := recover(); r != nil {
				ti.GLT = "P"
			}
		}()
		text = l.GetLineText(t)
		ti.GLT = "?" + c03_short(text, 60)
		// locate the line as a rune range
		rt := []rune(text)
		c := t.StartPosition.Char
		if t.Type == token.EOF {
			c--
		}
		s := c
		for s > 0 && s-1 < len(runes) && runes[s-1] != '\n' {
			s--
		}
		if s >= 0 && s+len(rt) <= len(runes) && string(runes[s:s+len(rt)]) == text {
			ti.GLT = fmt.Sprintf("%d:%d", s, s+len(rt))
		}
		if len(runes) == 0 && text == "" {
			ti.GLT = "0:0"
		}
	}()
	func() {
		defer func() {
			if r := recover(); r != nil {
				ti.F = "P"
			}
		}()
		e := parser.NewParserError(parser.ErrorOpts{ErrType: "parse error", Message: "m",
			StartPosition: t.StartPosition, EndPosition: t.EndPosition, SourceCode: text})
		ti.F = c03_friendlyCarets(e.FriendlyErrorMessage())
	}()
	return ti
}

func c03RunSrc(src string, opt string) (resp c03Resp) {
	runes := []rune(src)
	// ---- tokens
	if !strings.Contains(opt, "notoks") {
		func() {
			defer func() {
				if r := recover(); r != nil {
					resp.LexPanic = c03_short(fmt.Sprint(r), 200)
				}
			}()
			l := lexer.New(src)
			first := true
			for i := 0; i < 4000; i++ {
				t, err := l.Next()
				resp.NToks++
				if len(resp.Toks) < 400 {
					resp.Toks = append(resp.Toks, c03_tokInfo(l, runes, t))
				}
				if first && t.Type != token.NEWLINE {
					resp.FirstEnd = t.EndPosition.Char
					first = false
				}
				if err != nil || t.Type == token.EOF {
					if t.Type == token.EOF && err == nil { // one token past the end as the parser's peek does
						t2, _ := l.Next()
						resp.Toks = append(resp.Toks, c03_tokInfo(l, runes, t2))
					}
					break
				}
			}
		}()
	}
	// ---- parse
	ctx := context.Background()
	var prog *ast.Program
	var perr error
	func() {
		defer func() {
			if r := recover(); r != nil {
				resp.Parse = "panic"
				resp.ParseMsg = c03_short(fmt.Sprint(r), 300)
			}
		}()
		prog, perr = parser.Parse(ctx, src)
		if perr != nil {
			resp.Parse = "err"
		} else {
			resp.Parse = "ok"
		}
	}()
	if resp.Parse == "err" {
		resp.ErrFmt = c03FormatErr(perr, &resp)
	}
	if resp.Parse != "ok" || prog == nil {
		return
	}
	// ---- AST export
	if !strings.Contains(opt, "noast") {
		func() {
			defer func() {
				if r := recover(); r != nil {
					resp.Ast = "EXPORT-PANIC " + fmt.Sprint(r)
				}
			}()
			w := &c03_astWriter{}
			w.value(reflect.ValueOf(prog), "Program")
			resp.Ast = strings.Join(w.toks, " ")
			resp.NilPath = w.firstNil
		}()
	}
	// ---- compile
	var code *compiler.Code
	func() {
		defer func() {
			if r := recover(); r != nil {
				resp.Compile = "panic"
				resp.CompMsg = c03_short(fmt.Sprint(r), 300)
			}
		}()
		cfg := risor.NewConfig()
		c, err := compiler.Compile(prog, cfg.CompilerOpts()...)
		if err != nil {
			resp.Compile = "err"
			resp.CompMsg = c03_short(err.Error(), 200)
			if f := c03FormatErr(err, nil); f != "ok" {
				resp.ErrFmt = f
			}
			return
		}
		resp.Compile = "ok"
		code = c
	}()
	if code == nil || strings.Contains(opt, "noeval") {
		return
	}
	// ---- eval: the embedding API itself, from the source text
	out := EvalSrc(src, 250*time.Millisecond)
	c03EvalOut(&resp, out)
	return
}

func c03EvalOut(resp *c03Resp, out EvalOut) {
	switch {
	case out.Panic:
		resp.Eval = "panic"
		resp.EvalMsg = c03_short(out.Err, 300)
	case out.Err != "":
		resp.Eval = "err"
		resp.EvalMsg = c03_short(out.Err, 200)
		if strings.HasPrefix(out.Err, "context deadline") {
			resp.Eval = "timeout"
		}
	default:
		resp.Eval = "ok"
		resp.Value = c03_short(out.Value, 200)
	}
}

// c03FormatErr calls the message-formatting methods of a returned error.
func c03FormatErr(err error, resp *c03Resp) (res string) {
	res = "ok"
	defer func() {
		if r := recover(); r != nil {
			res = "panic:" + c03_short(fmt.Sprint(r), 200)
		}
	}()
	if pe, ok := err.(parser.ParserError); ok && resp != nil {
		s, e := pe.StartPosition(), pe.EndPosition()
		resp.ErrTok = &c03Tok{A: s.Char, B: e.Char, P: c03_posArr(s, e), QL: utf8.RuneCountInString(pe.SourceCode()) + 1}
		resp.ParseMsg = c03_short(pe.Error(), 200)
	}
	_ = err.Error()
	type friendly interface{ FriendlyErrorMessage() string }
	if fe, ok := err.(friendly); ok {
		m := fe.FriendlyErrorMessage()
		if resp != nil && resp.ErrTok != nil {
			resp.ErrTok.F = c03_friendlyCarets(m)
		}
	}
	return
}

// ---------------------------------------------------------------- AST export (reflection)

type c03_astWriter struct {
	toks     []string
	firstNil string
	n        int
}

func (w *c03_astWriter) emit(s string) { w.toks = append(w.toks, s) }

func c03_isAstStruct(t reflect.Type) bool {
	return t.Kind() == reflect.Struct && strings.HasSuffix(t.PkgPath(), "/ast")
}

// value writes one value in prefix notation; slot is the enclosing slot name (for the report).
func (w *c03_astWriter) value(v reflect.Value, slot string) {
	w.n++
	if w.n > 200000 {
		panic("ast too large to export")
	}
	switch v.Kind() {
	case reflect.Interface:
		if v.IsNil() {
			w.nilAt(slot, false)
			return
		}
		inner := v.Elem()
		if inner.Kind() == reflect.Ptr && inner.IsNil() {
			w.nilAt(slot, true)
			return
		}
		w.value(inner, slot)
	case reflect.Ptr:
		if v.IsNil() {
			w.nilAt(slot, false)
			return
		}
		el := v.Elem()
		if c03_isAstStruct(el.Type()) {
			w.node(el)
		} else {
			w.emit("X")
		}
	case reflect.Slice:
		w.emit(fmt.Sprintf("L:%d", v.Len()))
		for i := 0; i < v.Len(); i++ {
			w.value(v.Index(i), slot)
		}
	case reflect.Map:
		keys := v.MapKeys()
		cnt := 0
		var items []reflect.Value
		for _, k := range keys {
			if k.Kind() == reflect.Interface || k.Kind() == reflect.Ptr {
				items = append(items, k)
			}
			items = append(items, v.MapIndex(k))
		}
		cnt = len(items)
		w.emit(fmt.Sprintf("L:%d", cnt))
		for _, it := range items {
			w.value(it, slot)
		}
	default:
		w.emit("X")
	}
}

func (w *c03_astWriter) nilAt(slot string, typed bool) {
	if typed {
		w.emit("T")
	} else {
		w.emit("Z")
	}
	_ = slot
}

func (w *c03_astWriter) node(s reflect.Value) {
	t := s.Type()
	kind := t.Name()
	if kind == "Case" {
		if f := s.FieldByName("isDefault"); f.IsValid() && f.Bool() {
			kind = "DefaultCase"
		}
	}
	type fld struct {
		name string
		v    reflect.Value
	}
	var fs []fld
	for i := 0; i < t.NumField(); i++ {
		ft := t.Field(i)
		switch ft.Type.Kind() {
		case reflect.Interface, reflect.Ptr, reflect.Slice, reflect.Map:
			fs = append(fs, fld{kind + "." + ft.Name, s.Field(i)})
		}
	}
	w.emit(fmt.Sprintf("N:%s:%d", kind, len(fs)))
	for _, f := range fs {
		w.emit("S:" + f.name)
		w.value(f.v, f.name)
	}
}

// ---------------------------------------------------------------- scripts, Call, heaps

// c03Drain waits until the goroutines a case started are gone (a Go panic that nobody
// recovers on one of them terminates this process HERE, before the case is answered, so the
// parent attributes the death to the right case).  Not a verdict: it only orders events.
func c03Drain(base int) int {
	deadline := time.Now().Add(3 * time.Second)
	for runtime.NumGoroutine() > base && time.Now().Before(deadline) {
		time.Sleep(500 * time.Microsecond)
	}
	if n := runtime.NumGoroutine() - base; n > 0 {
		return n
	}
	return 0
}

func c03RunScript(src string, ms int, conc bool) (resp c03Resp) {
	if ms <= 0 {
		ms = 2000
	}
	resp.Parse = "n/a"
	if !conc {
		c03EvalOut(&resp, EvalSrc(src, time.Duration(ms)*time.Millisecond))
		return
	}
	base := runtime.NumGoroutine()
	c03EvalOut(&resp, EvalSrc(src, time.Duration(ms)*time.Millisecond, risor.WithConcurrency()))
	resp.Left = c03Drain(base)
	return
}

// c03RunCall: compile, then risor.Call(code, "f") and risor.EvalCode(code).
func c03RunCall(src string, ms int, conc bool) (resp c03Resp) {
	if ms <= 0 {
		ms = 2000
	}
	code, err := CompileSrc(src)
	if err != nil {
		resp.Compile = "err"
		resp.CompMsg = c03_short(err.Error(), 200)
		return
	}
	resp.Compile = "ok"
	var opts []risor.Option
	if conc {
		opts = append(opts, risor.WithConcurrency())
	}
	base := runtime.NumGoroutine()
	ctx, cancel := context.WithTimeout(context.Background(), time.Duration(ms)*time.Millisecond)
	defer func() {
		cancel()
		if conc {
			resp.Left = c03Drain(base)
		}
	}()
	func() {
		defer func() {
			if r := recover(); r != nil {
				resp.Eval = "panic"
				resp.EvalMsg = "Call: " + c03_short(fmt.Sprint(r), 300)
			}
		}()
		v, err := risor.Call(ctx, code, "f", nil, opts...)
		if err != nil {
			resp.Eval = "err"
			resp.EvalMsg = c03_short(err.Error(), 200)
			_ = c03FormatErr(err, nil)
		} else {
			resp.Eval = "ok"
			resp.Value = c03_short(v.Inspect(), 100)
		}
	}()
	if resp.Eval == "panic" {
		return
	}
	func() {
		defer func() {
			if r := recover(); r != nil {
				resp.Eval = "panic"
				resp.EvalMsg = "EvalCode: " + c03_short(fmt.Sprint(r), 300)
			}
		}()
		_, err := risor.EvalCode(ctx, code, opts...)
		if err != nil {
			_ = err.Error()
		}
	}()
	return
}

// c03PanicCallable: an object.Callable (what a builtin is to NewThread) that faults in a chosen way.
type c03PanicCallable struct{ kind string }

func (p c03PanicCallable) Call(ctx context.Context, args ...object.Object) object.Object {
	switch p.kind {
	case "string":
		panic("boom")
	case "error":
		panic(fmt.Errorf("boom"))
	case "runtime-error":
		var xs []int
		_ = xs[len(args)+3]
	case "nil-map-write":
		var m map[string]int
		m["k"] = 1
	case "custom-value":
		panic(struct{ A int }{7})
	case "error-object":
		return object.Errorf("e")
	}
	return object.NewInt(42)
}

// c03RunThreadAPI: object.NewThread(ctx, callable, nil).Wait(ctx) with a faulting callable.
func c03RunThreadAPI(kind string) (resp c03Resp) {
	base := runtime.NumGoroutine()
	ctx, cancel := context.WithTimeout(context.Background(), 10*time.Second)
	defer func() {
		if r := recover(); r != nil {
			resp.Eval = "panic"
			resp.EvalMsg = c03_short(fmt.Sprint(r), 300)
		}
		cancel()
		resp.Left = c03Drain(base)
	}()
	res := object.NewThread(ctx, c03PanicCallable{kind}, nil).Wait(ctx)
	switch v := res.(type) {
	case nil:
		resp.Eval = "ok"
		resp.Value = "<nil>"
	case *object.Error:
		resp.Eval = "err"
		resp.EvalMsg = c03_short(v.Value().Error(), 200)
	default:
		resp.Eval = "ok"
		resp.Value = c03_short(v.Inspect(), 100)
	}
	return
}

// heap encoding: containers separated by ';' — "L" + values, "M" + key=value; value i<int> | r<k>
func c03BuildHeap(enc string) ([]object.Object, error) {
	if enc == "-" || enc == "" {
		return nil, nil
	}
	parts := strings.Split(enc, ";")
	objs := make([]object.Object, len(parts))
	for i, p := range parts {
		if strings.HasPrefix(p, "L") {
			objs[i] = object.NewList(nil)
		} else {
			objs[i] = object.NewMap(map[string]object.Object{})
		}
	}
	val := func(s string) (object.Object, error) {
		if len(s) < 2 {
			return nil, fmt.Errorf("bad value %q", s)
		}
		n, err := strconv.Atoi(s[1:])
		if err != nil {
			return nil, err
		}
		if s[0] == 'i' {
			return object.NewInt(int64(n)), nil
		}
		if n < 0 || n >= len(objs) {
			return nil, fmt.Errorf("dangling ref %d", n)
		}
		return objs[n], nil
	}
	for i, p := range parts {
		body := p[1:]
		if body == "" {
			continue
		}
		for _, item := range strings.Split(body, ",") {
			switch o := objs[i].(type) {
			case *object.List:
				v, err := val(item)
				if err != nil {
					return nil, err
				}
				o.Append(v)
			case *object.Map:
				kv := strings.SplitN(item, "=", 2)
				v, err := val(kv[1])
				if err != nil {
					return nil, err
				}
				o.Set(kv[0], v)
			}
		}
	}
	return objs, nil
}

// c03RunHeap: op = "inspect <v>" | "equals <a> <b>" on natively built containers.
func c03RunHeap(enc string, op string) (resp c03Resp) {
	objs, err := c03BuildHeap(enc)
	if err != nil {
		resp.Eval = "err"
		resp.EvalMsg = "heap: " + err.Error()
		return
	}
	val := func(s string) object.Object {
		n, _ := strconv.Atoi(s[1:])
		if s[0] == 'i' {
			return object.NewInt(int64(n))
		}
		return objs[n]
	}
	f := strings.Fields(op)
	defer func() {
		if r := recover(); r != nil {
			resp.Eval = "panic"
			resp.EvalMsg = c03_short(fmt.Sprint(r), 300)
		}
	}()
	switch f[0] {
	case "inspect":
		resp.Value = val(f[1]).Inspect()
		resp.Eval = "ok"
	case "equals":
		r := object.Equals(val(f[1]), val(f[2]))
		resp.Eval = "ok"
		if r {
			resp.Value = "t"
		} else {
			resp.Value = "f"
		}
	}
	return
}
