package main

// C03 — looking globals up by name on ONE VirtualMachine that the host points at one code
// object after another (stream `lookup`, Model 4g).
//
// risor.Call and every embedder that fetches an entrypoint go through VirtualMachine.Get,
// which runs OUTSIDE the recover scopes of Run / RunCode / Call: a Go panic there reaches the
// embedding program.  A case is a sequence on one vm.NewEmpty(): 2–5 generated scripts, each
// declaring 1–4 globals (functions and variables) whose names come from a pool of seven, so
// that the same name sits in different slots — or is absent — in different scripts; each
// script is loaded (vm.RunCode or risor.EvalCode with risor.WithVM) and followed by 1–3
// lookups (vm.Get, or risor.Call with risor.WithVM = load of the same code, Get, Call), mostly
// of names that were looked up earlier on this VM, also of builtins and of names nobody
// declares; sometimes a lookup comes before any load.  Scripts are compiled with the default
// globals (slots of the declared names follow the builtins) or with none.  Every value a
// script declares is unique to (script, position), so what a lookup returned is identified
// exactly.  Per lookup: the real outcome against the model's `getSeq scan` run on the REAL
// global names of the loaded codes (Mismatch), and against the Spec evaluated by the harness
// itself — the global of the ACTIVE script with that name, or not-found (Spec violation); a
// Go panic out of Get / risor.Call is a Spec violation.  Runs in a child process.

import (
	"context"
	"errors"
	"fmt"
	"runtime"
	"strconv"
	"strings"
	"sync"
	"sync/atomic"
	"time"

	"github.com/risor-io/risor"
	"github.com/risor-io/risor/compiler"
	"github.com/risor-io/risor/object"
	ros "github.com/risor-io/risor/os"
	"github.com/risor-io/risor/parser"
	rvm "github.com/risor-io/risor/vm"
)

var c03GetPool = []string{"handler", "helper", "setup", "config", "main_entry", "count", "state"}
var c03GetBuiltins = []string{"len", "sorted", "keys", "type", "string"}

type c03GetDecl struct {
	name string
	fn   bool
}

// one step: a load of script `script` (api run | evalcode) or a lookup (api get | rcall)
type c03GetStep struct {
	load   bool
	api    string
	script int // index into scripts (load; for a lookup: the script that is active)
	name   string
}

type c03GetCase struct {
	bare    bool // compiled and run without the default globals
	scripts [][]c03GetDecl
	steps   []c03GetStep
}

func c03GetTag(script, pos int) int { return (script+1)*100 + pos }

func (g *c03GetCase) opt() string {
	var sb strings.Builder
	if g.bare {
		sb.WriteString("bare")
	} else {
		sb.WriteString("default")
	}
	for _, st := range g.steps {
		sb.WriteByte(',')
		if st.load {
			sb.WriteString("L:" + st.api + ":" + strconv.Itoa(st.script) + ":")
			for j, d := range g.scripts[st.script] {
				if j > 0 {
					sb.WriteByte('.')
				}
				if d.fn {
					sb.WriteString("f")
				} else {
					sb.WriteString("v")
				}
				sb.WriteString(d.name)
			}
		} else {
			sb.WriteString("G:" + st.api + ":" + st.name)
		}
	}
	return sb.String()
}

func c03GenGet(r *RNG) *c03GetCase {
	g := &c03GetCase{bare: r.Chance(30)}
	n := 2 + r.Intn(4)
	var asked []string
	if r.Chance(10) {
		g.steps = append(g.steps, c03GetStep{api: "get", script: -1, name: c03GetPool[r.Intn(len(c03GetPool))]})
		asked = append(asked, g.steps[0].name)
	}
	for i := 0; i < n; i++ {
		k := 1 + r.Intn(4)
		perm := append([]string(nil), c03GetPool...)
		for a := len(perm) - 1; a > 0; a-- {
			b := r.Intn(a + 1)
			perm[a], perm[b] = perm[b], perm[a]
		}
		var decls []c03GetDecl
		for j := 0; j < k; j++ {
			decls = append(decls, c03GetDecl{perm[j], r.Chance(65)})
		}
		// the name asked for most recently is usually declared again, in whatever slot
		if len(asked) > 0 && r.Chance(70) {
			want := asked[len(asked)-1]
			have := false
			for _, d := range decls {
				have = have || d.name == want
			}
			if !have && !c03GetIsBuiltin(want) && want != "nosuch" {
				decls[r.Intn(len(decls))].name = want
			}
		}
		g.scripts = append(g.scripts, decls)
		api := "run"
		if !g.bare && r.Bool() {
			api = "evalcode"
		}
		g.steps = append(g.steps, c03GetStep{load: true, api: api, script: i})
		for q := 1 + r.Intn(3); q > 0; q-- {
			var name string
			switch c := r.Intn(100); {
			case c < 55 && len(asked) > 0:
				name = asked[r.Intn(len(asked))]
			case c < 85:
				name = decls[r.Intn(len(decls))].name
			case c < 92:
				name = c03GetPool[r.Intn(len(c03GetPool))]
			case c < 97 && !g.bare:
				name = c03GetBuiltins[r.Intn(len(c03GetBuiltins))]
			default:
				name = "nosuch"
			}
			api := "get"
			if !g.bare && !c03GetIsBuiltin(name) && r.Chance(40) {
				api = "rcall"
			}
			g.steps = append(g.steps, c03GetStep{api: api, script: i, name: name})
			asked = append(asked, name)
		}
	}
	return g
}

func c03GetIsBuiltin(n string) bool {
	for _, b := range c03GetBuiltins {
		if b == n {
			return true
		}
	}
	return false
}

func c03GetDirected() []*c03GetCase {
	f := func(n string) c03GetDecl { return c03GetDecl{n, true} }
	v := func(n string) c03GetDecl { return c03GetDecl{n, false} }
	L := func(api string, s int) c03GetStep { return c03GetStep{load: true, api: api, script: s} }
	G := func(api string, s int, n string) c03GetStep { return c03GetStep{api: api, script: s, name: n} }
	return []*c03GetCase{
		// two scripts with the same entrypoint, the second one smaller
		{scripts: [][]c03GetDecl{{f("helper"), f("handler")}, {f("handler")}},
			steps: []c03GetStep{L("run", 0), G("rcall", 0, "handler"), L("run", 1), G("rcall", 1, "handler")}},
		{bare: true, scripts: [][]c03GetDecl{{v("count"), f("handler")}, {f("handler")}},
			steps: []c03GetStep{L("run", 0), G("get", 0, "handler"), L("run", 1), G("get", 1, "handler")}},
		// same size, the name moved
		{scripts: [][]c03GetDecl{{f("helper"), f("handler")}, {f("handler"), v("state")}},
			steps: []c03GetStep{L("evalcode", 0), G("get", 0, "handler"), L("evalcode", 1), G("get", 1, "handler"), G("get", 1, "state")}},
		// the name disappears and comes back
		{scripts: [][]c03GetDecl{{f("setup")}, {v("config")}, {v("count"), v("state"), f("setup")}},
			steps: []c03GetStep{G("get", -1, "setup"), L("run", 0), G("get", 0, "setup"), L("run", 1), G("get", 1, "setup"), L("run", 2), G("rcall", 2, "setup")}},
		// the same script again after another one
		{scripts: [][]c03GetDecl{{f("helper"), f("handler")}, {f("handler")}},
			steps: []c03GetStep{L("run", 0), G("get", 0, "handler"), L("run", 1), G("get", 1, "helper"), L("run", 0), G("get", 0, "handler"), G("get", 0, "len")}},
	}
}

func (c *c03Run) lookupCases(n int) {
	rng := c.e.Rng.Fork()
	all := c03GetDirected()
	for i := 0; i < n; i++ {
		all = append(all, c03GenGet(rng.Fork()))
	}
	for _, g := range all {
		g := g
		opt := g.opt()
		c.pool.submit(c03Req{Mode: "lookup", Opt: opt}, 40*time.Second, func(res c03Result) { c.judgeLookup(g, opt, res) })
	}
}

// what the Spec demands of one lookup, computed WITHOUT the model: the global of the active
// script with that name
func (g *c03GetCase) want(st c03GetStep) string {
	if st.script < 0 {
		return "nocode"
	}
	for j, d := range g.scripts[st.script] {
		if d.name == st.name {
			return g.ident(st.script, j, st.api)
		}
	}
	if !g.bare && c03GetIsBuiltin(st.name) {
		return "found:builtin:" + st.name
	}
	return "notfound"
}

func (g *c03GetCase) ident(script, pos int, api string) string {
	d := g.scripts[script][pos]
	tag := strconv.Itoa(c03GetTag(script, pos))
	switch {
	case d.fn:
		return "found:fn:" + tag
	case api == "rcall":
		return "found:notfn:int"
	}
	return "found:int:" + tag
}

func (c *c03Run) judgeLookup(g *c03GetCase, opt string, res c03Result) {
	e := c.e
	key := "lookup|one VM (vm.NewEmpty), steps in order (L = load script: declared globals f=function v=variable; G = lookup): " + opt
	// non-trivial: some name is looked up under two different active scripts
	seen := map[string]int{}
	nontrivial := false
	for _, st := range g.steps {
		if !st.load {
			if s, ok := seen[st.name]; ok && s != st.script {
				nontrivial = true
			}
			seen[st.name] = st.script
		}
	}
	e.R.Case(key, nontrivial)
	if res.Death != nil {
		c.death(key, res.Death, "")
		return
	}
	r := res.Resp
	got := strings.Split(r.Value, "\x1f")
	if r.Eval != "ok" || len(got) != len(g.steps) {
		e.R.Mismatch(key, r.Eval+" "+c03_short(r.EvalMsg, 200), "one outcome per step", "the harness could not run the sequence")
		return
	}
	// model request: the REAL global names of every loaded code
	var mops []string
	names := map[int][]string{}
	for i, st := range g.steps {
		if st.load {
			f := strings.SplitN(got[i], ":", 2)
			if f[0] != "ok" || len(f) != 2 {
				e.R.Mismatch(key, c03_short(got[i], 200), "the script loads", "a generated script of declarations must compile and run")
				return
			}
			names[st.script] = strings.Split(f[1], ".")
			if f[1] == "" {
				names[st.script] = nil
			}
			mops = append(mops, "load:"+f[1])
			continue
		}
		if st.api == "rcall" {
			mops = append(mops, "load:"+strings.Join(names[st.script], "."))
		}
		mops = append(mops, "get:"+st.name)
	}
	rep := strings.Split(e.O.Ask("C03", "get", "scan", strings.Join(mops, ",")), "\t")
	if rep[0] != "ok" || len(rep) < 2 {
		e.R.Mismatch(key, opt, strings.Join(rep, " "), "oracle refused the get request")
		return
	}
	var model []string
	if rep[1] != "-" {
		model = strings.Split(rep[1], ",")
	}
	mi := 0
	last := map[string]int{}
	lastSlot := map[string]string{}
	for i, st := range g.steps {
		if st.load {
			e.R.H("lookup_load_api", st.api)
			continue
		}
		if mi >= len(model) {
			e.R.Mismatch(key, opt, rep[1], "oracle returned fewer outcomes than lookups")
			return
		}
		m := model[mi]
		mi++
		e.R.H("lookup_api", st.api)
		if s, ok := last[st.name]; ok && s != st.script {
			e.R.H("lookup_repeated_after_switch", "yes")
			if lastSlot[st.name] != m {
				e.R.H("lookup_repeated_after_switch", "yes, the model's answer moved ("+c03GetClass(lastSlot[st.name])+"→"+c03GetClass(m)+")")
			}
		} else {
			e.R.H("lookup_repeated_after_switch", "no")
		}
		last[st.name], lastSlot[st.name] = st.script, m
		real := got[i]
		e.R.H("lookup_outcome", c03GetClass(real))
		if strings.HasPrefix(real, "ESCAPED:") {
			e.R.Spec(key, fmt.Sprintf("a Go panic left the lookup in step %d (%s of %q, active script %d) on a VM the host reuses: %s",
				i+1, map[string]string{"get": "vm.Get", "rcall": "risor.Call"}[st.api], st.name, st.script, real[8:]), "")
			return
		}
		// the model's answer in the terms of the real outcome
		exp := m
		if strings.HasPrefix(m, "found:") {
			slot, _ := strconv.Atoi(m[6:])
			exp = "found:?"
			if ns := names[st.script]; slot < len(ns) {
				exp = "found:builtin:" + ns[slot]
				for j, d := range g.scripts[st.script] {
					if d.name == ns[slot] {
						exp = g.ident(st.script, j, st.api)
					}
				}
			}
		}
		if real != exp {
			e.R.Mismatch(key, fmt.Sprintf("step %d (%s %q): %s", i+1, st.api, st.name, c03_short(real, 160)), exp+" ("+m+")",
				"outcome of one lookup by name on a VM that ran several code objects (model: getSeq scan on the real global names)")
		}
		if want := g.want(st); real != want {
			e.R.Spec(key, fmt.Sprintf("step %d: the lookup of %q (%s) while script %d is the active code returned %s; the global of that name in the active code is %s",
				i+1, st.name, st.api, st.script, c03_short(real, 160), want), "")
			return
		}
	}
}

func c03GetClass(s string) string {
	f := strings.Split(s, ":")
	if f[0] == "found" && len(f) > 1 {
		if _, err := strconv.Atoi(f[1]); err == nil {
			return "found"
		}
		return "found:" + f[1]
	}
	return f[0]
}

// ---------------------------------------------------------------- child side

func c03GetCompile(src string, bare bool) (code *compiler.Code, err error) {
	if !bare {
		return CompileSrc(src)
	}
	defer func() {
		if r := recover(); r != nil {
			code, err = nil, fmt.Errorf("PANIC: %v", r)
		}
	}()
	prog, err := parser.Parse(context.Background(), src)
	if err != nil {
		return nil, err
	}
	return compiler.Compile(prog)
}

func c03GetIdent(machine *rvm.VirtualMachine, v object.Object) string {
	switch v := v.(type) {
	case nil:
		return "nil"
	case *object.Int:
		return "int:" + strconv.FormatInt(v.Value(), 10)
	case *object.Function:
		out, err := machine.Call(context.Background(), v, nil)
		if err != nil {
			return "fn:err:" + c03_short(err.Error(), 80)
		}
		if n, ok := out.(*object.Int); ok {
			return "fn:" + strconv.FormatInt(n.Value(), 10)
		}
		return "fn:?" + string(out.Type())
	case *object.Builtin:
		return "builtin:" + v.Name()
	}
	return "type:" + string(v.Type())
}

func c03RunLookup(opt string) (resp c03Resp) {
	resp.Parse = "n/a"
	machine, err := rvm.NewEmpty()
	if err != nil {
		resp.Eval, resp.EvalMsg = "err", "NewEmpty: "+err.Error()
		return
	}
	steps := strings.Split(opt, ",")
	bare := steps[0] == "bare"
	var vmOpts []rvm.Option
	if !bare {
		vmOpts = risor.NewConfig().VMOpts()
	}
	ctx := context.Background()
	codes := map[string]*compiler.Code{}
	var active *compiler.Code
	var outs []string
	for _, st := range steps[1:] {
		f := strings.Split(st, ":")
		var out string
		switch {
		case f[0] == "L" && len(f) == 4:
			code := codes[f[2]]
			if code == nil {
				si, _ := strconv.Atoi(f[2])
				var sb strings.Builder
				for j, d := range strings.Split(f[3], ".") {
					tag := strconv.Itoa(c03GetTag(si, j))
					if d[0] == 'f' {
						sb.WriteString("func " + d[1:] + "() {\n return " + tag + "\n}\n")
					} else {
						sb.WriteString(d[1:] + " := " + tag + "\n")
					}
				}
				if code, err = c03GetCompile(sb.String(), bare); err != nil {
					resp.Eval, resp.EvalMsg = "err", "compiling script "+f[2]+": "+err.Error()
					return
				}
				codes[f[2]] = code
			}
			out = func() (out string) {
				defer func() {
					if r := recover(); r != nil {
						out = "ESCAPED:" + c03_short(fmt.Sprint(r), 200)
					}
				}()
				var rerr error
				if f[1] == "evalcode" {
					_, rerr = risor.EvalCode(ctx, code, risor.WithVM(machine))
				} else {
					rerr = machine.RunCode(ctx, code, vmOpts...)
				}
				if rerr != nil {
					return "err:" + c03_short(rerr.Error(), 160)
				}
				return "ok:" + strings.Join(code.GlobalNames(), ".")
			}()
			active = code
		case f[0] == "G" && len(f) == 3:
			out = func() (out string) {
				defer func() {
					if r := recover(); r != nil {
						out = "ESCAPED:" + c03_short(fmt.Sprint(r), 200)
					}
				}()
				if f[1] == "rcall" {
					v, rerr := risor.Call(ctx, active, f[2], nil, risor.WithVM(machine))
					switch {
					case rerr == nil:
						if n, ok := v.(*object.Int); ok {
							return "found:fn:" + strconv.FormatInt(n.Value(), 10)
						}
						return "found:fn:?"
					case errors.Is(rerr, rvm.ErrGlobalNotFound):
						return "notfound"
					case strings.HasPrefix(rerr.Error(), "object is not a function (got: "):
						return "found:notfn:" + strings.TrimSuffix(strings.TrimPrefix(rerr.Error(), "object is not a function (got: "), ")")
					}
					return "err:" + c03_short(rerr.Error(), 160)
				}
				v, gerr := machine.Get(f[2])
				switch {
				case gerr == nil:
					return "found:" + c03GetIdent(machine, v)
				case errors.Is(gerr, rvm.ErrGlobalNotFound):
					return "notfound"
				case gerr.Error() == "no active code":
					return "nocode"
				}
				return "err:" + c03_short(gerr.Error(), 160)
			}()
		default:
			resp.Eval, resp.EvalMsg = "err", "bad step "+st
			return
		}
		outs = append(outs, strings.ReplaceAll(out, "\x1f", " "))
	}
	resp.Eval = "ok"
	resp.Value = strings.Join(outs, "\x1f")
	return
}

// ---------------------------------------------------------------- stream `fileclose` (Model 4h)
//
// ONE object.File (object.NewFile over an in-memory file whose Close can be held) opened under
// a cancellable context, and the events of its two closers in every order: `close` /
// `deferclose` = a script evaluated with the default globals plus the file calls f.close()
// (directly / as the deferred call of a function); `cancel` = the opening context ends — when
// the file is still open the case waits until the watcher goroutine is INSIDE the underlying
// Close, i.e. has taken its ctx.Done branch, and holds it there; `resume` = the held watcher
// runs on to its end (the case waits for the goroutine to end).  Every sequence ends with
// cancel, resume (the host's `defer cancel()`).  Nothing depends on scheduling.  Per event the
// outcome against the model's `fileSeq` (Mismatch); a Go panic out of risor.Eval or the death
// of the child process (a panic on the watcher goroutine) is a Spec violation.

var c03FileEvs = []string{"close", "close", "close", "deferclose", "cancel", "cancel", "cancel", "resume", "resume"}

func (c *c03Run) fileCloseCases(n int) {
	rng := c.e.Rng.Fork()
	all := [][]string{
		{"cancel", "close", "resume"}, {"cancel", "resume", "close"}, {"close", "cancel", "resume"}, {"cancel", "deferclose", "resume"},
		{"close", "close"}, {"resume", "deferclose", "close"}, {},
	}
	for i := 0; i < n; i++ {
		r := rng.Fork()
		var evs []string
		for k := 1 + r.Intn(5); k > 0; k-- {
			evs = append(evs, c03FileEvs[r.Intn(len(c03FileEvs))])
		}
		all = append(all, evs)
	}
	for _, evs := range all {
		evs := append(append([]string(nil), evs...), "cancel", "resume")
		opt := strings.Join(evs, ",")
		c.pool.submit(c03Req{Mode: "fileclose", Opt: opt}, 40*time.Second, func(res c03Result) { c.judgeFileClose(evs, opt, res) })
	}
}

func (c *c03Run) judgeFileClose(evs []string, opt string, res c03Result) {
	e := c.e
	key := "fileclose|one object.File opened under a cancellable context; close = a script calls f.close(), cancel = the context ends (the watcher is held inside the underlying Close), resume = the watcher runs on: " + opt
	closes, cancels, window := 0, 0, false
	held := false
	for _, ev := range evs[:len(evs)-2] {
		switch ev {
		case "cancel":
			cancels++
			if closes == 0 {
				held = true
			}
		case "resume":
			held = false
		default:
			closes++
			if held {
				window = true
			}
		}
	}
	e.R.Case(key, closes > 0 && cancels > 0)
	e.R.H("fileclose_close_while_watcher_in_its_branch", strconv.FormatBool(window))
	if res.Death != nil {
		c.death(key, res.Death, "")
		return
	}
	r := res.Resp
	got := strings.Split(r.Value, "\x1f")
	if r.Eval != "ok" || len(got) != len(evs) {
		e.R.Mismatch(key, r.Eval+" "+c03_short(r.EvalMsg, 200), "one outcome per event", "the harness could not run the sequence")
		return
	}
	mev := make([]string, len(evs))
	for i, ev := range evs {
		mev[i] = ev
		if ev == "deferclose" {
			mev[i] = "close"
		}
	}
	rep := strings.Split(e.O.Ask("C03", "file", "impl", strings.Join(mev, ",")), "\t")
	if rep[0] != "ok" || len(rep) < 2 {
		e.R.Mismatch(key, opt, strings.Join(rep, " "), "oracle refused the file request")
		return
	}
	model := strings.Split(rep[1], ",")
	if len(model) != len(evs) {
		e.R.Mismatch(key, opt, rep[1], "oracle returned a different number of outcomes")
		return
	}
	for i, ev := range evs {
		cls := got[i]
		if j := strings.IndexByte(cls, ':'); j >= 0 {
			cls = cls[:j]
		}
		e.R.H("fileclose_outcome", ev+" "+cls)
		if cls == "ESCAPED" {
			e.R.Spec(key, fmt.Sprintf("a Go panic left risor.Eval in event %d (%s): %s", i+1, ev, got[i]), "")
			return
		}
		exp := map[string]string{"ok": "ok", "callerPanic": "error", "killed": "killed"}[model[i]]
		if ev == "close" || ev == "deferclose" {
			if exp == "ok" {
				exp = "value"
			}
		}
		if cls != exp {
			e.R.Mismatch(key, fmt.Sprintf("event %d (%s): %s", i+1, ev, c03_short(got[i], 160)), exp,
				"outcome of one event of a file with two closers (value = the script's close returned; error = a recovered Go panic; ok = cancel / resume went through)")
		}
	}
}

type c03GatedFile struct {
	*ros.InMemoryFile
	armed   atomic.Bool
	entered chan struct{}
	gate    chan struct{}
}

func (g *c03GatedFile) Close() error {
	if g.armed.CompareAndSwap(true, false) {
		close(g.entered)
		<-g.gate
	}
	return nil
}

func c03RunFileClose(opt string) (resp c03Resp) {
	resp.Parse = "n/a"
	base := runtime.NumGoroutine()
	ctx, cancel := context.WithCancel(context.Background())
	defer cancel()
	fake := &c03GatedFile{InMemoryFile: ros.NewInMemoryFile([]byte("data\n")), entered: make(chan struct{}), gate: make(chan struct{})}
	file := object.NewFile(ctx, fake, "data.txt")
	var gateOnce sync.Once
	defer gateOnce.Do(func() { close(fake.gate) })
	cancelled, closed := false, false
	var outs []string
	for _, ev := range strings.Split(opt, ",") {
		out := "ok"
		switch ev {
		case "cancel":
			if cancelled {
				break
			}
			cancelled = true
			if closed {
				cancel()
				break
			}
			fake.armed.Store(true)
			cancel()
			select {
			case <-fake.entered:
			case <-time.After(10 * time.Second):
				out = "stuck:the watcher did not close the file after the context ended"
				fake.armed.Store(false)
			}
		case "resume":
			if cancelled {
				gateOnce.Do(func() { close(fake.gate) })
			}
			if cancelled || closed {
				if left := c03Drain(base); left > 0 {
					resp.Left = left
				}
			}
		case "close", "deferclose":
			src := "f.close()"
			if ev == "deferclose" {
				src = "func w() {\n defer f.close()\n return 1\n}\nw()"
			}
			closed = true
			out = func() (out string) {
				defer func() {
					if r := recover(); r != nil {
						out = "ESCAPED:" + c03_short(fmt.Sprint(r), 200)
					}
				}()
				_, rerr := risor.Eval(context.Background(), src, risor.WithGlobal("f", file))
				switch {
				case rerr == nil:
					return "value"
				case strings.HasPrefix(rerr.Error(), "panic:"):
					return "error:" + c03_short(rerr.Error(), 120)
				}
				return "raised:" + c03_short(rerr.Error(), 120)
			}()
		default:
			resp.Eval, resp.EvalMsg = "err", "bad event "+ev
			return
		}
		outs = append(outs, strings.ReplaceAll(out, "\x1f", " "))
	}
	resp.Eval = "ok"
	resp.Value = strings.Join(outs, "\x1f")
	return
}
