package main

// C02 — closures capture variables lexically, at any depth and from any call path.
//
// Every case is a closure program (function literals nested 1..5 deep, each reading/writing
// chosen enclosing bindings through every statement form that loads or stores a variable:
// `x`, `x = e`, `x += e`, `x -= e`, `x++`, `x--`, `a, b = [..]`, `a, b := [..]`; escaping by return / list / map / argument / list.map, filter,
// each / sorted / try / spawn / go / vm.Get+vm.Call, then called in a generated order).
// It is run by the REAL parser, compiler and VM in-process and, as an S-expression, by the
// Lean model (RisorModel/C02): `Impl` = eval Mode.positional (MakeCell picks frames[fp-d]),
// `Spec` = eval Mode.lexical (the d-th lexical ancestor).  Go vs Impl = correspondence
// (Mismatch); Go vs Spec = the property (Spec violation).  The MAKE_CELL operands of the real
// bytecode are compared with the model's resolver on every case.

import (
	"bufio"
	"context"
	"encoding/json"
	"fmt"
	"io"
	"os"
	"os/exec"
	"runtime"
	"sort"
	"strconv"
	"strings"
	"time"

	"github.com/risor-io/risor"
	"github.com/risor-io/risor/compiler"
	"github.com/risor-io/risor/object"
	"github.com/risor-io/risor/op"
	"github.com/risor-io/risor/parser"
	"github.com/risor-io/risor/vm"
)

func init() {
	commands["C02"] = c02_runC02
	childCommands["c02-worker"] = c02WorkerMain
}

const c02Finding = "C02-positional-capture"

// ---------------------------------------------------------------------------------------
// terms

type c02_ct struct {
	K  string // i n F ch v + fn c l x m k r d a ret retif | if sw case default loop b
	S  string // name / route kind / loop kind
	I  int64
	Ps []string
	Is []int64 // loop: the items of the list a range loop iterates
	C  []*c02_ct
}

// block statements (only generated inside functions):
//   if    C = cond, then-block (K "b"), else-block (K "b", empty = no else)
//   sw    C = subject, then K "case" (I = the literal, C = statements) …, at most one K "default" LAST
//   loop  S = for3 | cond | range1 | range2 | forin | once, Ps = the loop's names (cond: the counter),
//         I = bound, Is = items, C = body block (K "b")
func c02_cB(ss ...*c02_ct) *c02_ct { return &c02_ct{K: "b", C: ss} }
func c02_cIf(c *c02_ct, t, e []*c02_ct) *c02_ct {
	return &c02_ct{K: "if", C: []*c02_ct{c, c02_cB(t...), c02_cB(e...)}}
}
func c02_cCase(k int64, ss ...*c02_ct) *c02_ct { return &c02_ct{K: "case", I: k, C: ss} }
func c02_cDefault(ss ...*c02_ct) *c02_ct      { return &c02_ct{K: "default", C: ss} }
func c02_cSw(subj *c02_ct, cases ...*c02_ct) *c02_ct {
	return &c02_ct{K: "sw", C: append([]*c02_ct{subj}, cases...)}
}
func c02_cLoop(kind string, names []string, n int64, items []int64, body ...*c02_ct) *c02_ct {
	return &c02_ct{K: "loop", S: kind, Ps: names, I: n, Is: items, C: []*c02_ct{c02_cB(body...)}}
}

func c02_cI(i int64) *c02_ct        { return &c02_ct{K: "i", I: i} }
func c02_cV(x string) *c02_ct       { return &c02_ct{K: "v", S: x} }
func c02_cAdd(a, b *c02_ct) *c02_ct { return &c02_ct{K: "+", C: []*c02_ct{a, b}} }
func c02_cCall(f *c02_ct, as ...*c02_ct) *c02_ct {
	return &c02_ct{K: "c", C: append([]*c02_ct{f}, as...)}
}
func c02_cFn(name string, ps []string, body ...*c02_ct) *c02_ct {
	return &c02_ct{K: "fn", S: name, Ps: ps, C: body}
}
func c02_cD(x string, e *c02_ct) *c02_ct { return &c02_ct{K: "d", S: x, C: []*c02_ct{e}} }
func c02_cA(x string, e *c02_ct) *c02_ct { return &c02_ct{K: "a", S: x, C: []*c02_ct{e}} }
func c02_cRet(e *c02_ct) *c02_ct         { return &c02_ct{K: "ret", C: []*c02_ct{e}} }

// the other statement forms that read/write a variable: `x += e`, `x -= e` (K "+=", "-="),
// `x++`, `x--` (K "++", "--"), `a, b = e` (K "ma"), `a, b := e` (K "md")
func c02_cOp(opr, x string, e *c02_ct) *c02_ct  { return &c02_ct{K: opr, S: x, C: []*c02_ct{e}} }
func c02_cPost(opr, x string) *c02_ct           { return &c02_ct{K: opr, S: x} }
func c02_cMA(xs []string, e *c02_ct) *c02_ct    { return &c02_ct{K: "ma", Ps: xs, C: []*c02_ct{e}} }
func c02_cMD(xs []string, e *c02_ct) *c02_ct    { return &c02_ct{K: "md", Ps: xs, C: []*c02_ct{e}} }
func c02_cL(es ...*c02_ct) *c02_ct              { return &c02_ct{K: "l", C: es} }
func c02_cM(es ...*c02_ct) *c02_ct              { return &c02_ct{K: "m", C: es} }
func c02_cX(e *c02_ct, i int) *c02_ct           { return &c02_ct{K: "x", I: int64(i), C: []*c02_ct{e}} }
func c02_cK(e *c02_ct, i int) *c02_ct           { return &c02_ct{K: "k", I: int64(i), C: []*c02_ct{e}} }
func c02_cR(kind string, as ...*c02_ct) *c02_ct { return &c02_ct{K: "r", S: kind, C: as} }
func c02_cProg(stmts ...*c02_ct) *c02_ct        { return &c02_ct{K: "prog", C: stmts} }
func c02Clone(t *c02_ct) *c02_ct {
	u := *t
	u.Ps = append([]string(nil), t.Ps...)
	u.Is = append([]int64(nil), t.Is...)
	u.C = make([]*c02_ct, len(t.C))
	for i, c := range t.C {
		u.C[i] = c02Clone(c)
	}
	return &u
}

func c02Sexp(t *c02_ct) string {
	var sb strings.Builder
	var w func(t *c02_ct)
	w = func(t *c02_ct) {
		sb.WriteString("( ")
		switch t.K {
		case "i":
			fmt.Fprintf(&sb, "i %d ", t.I)
		case "v":
			sb.WriteString("v " + t.S + " ")
		case "d", "a", "+=", "-=", "++", "--":
			sb.WriteString(t.K + " " + t.S + " ")
		case "ma", "md":
			sb.WriteString(t.K + " ( ")
			for _, p := range t.Ps {
				sb.WriteString(p + " ")
			}
			sb.WriteString(") ")
		case "fn":
			sb.WriteString("fn " + t.S + " ( ")
			for _, p := range t.Ps {
				sb.WriteString(p + " ")
			}
			sb.WriteString(") ")
		case "r":
			sb.WriteString("r " + t.S + " ")
		case "case":
			fmt.Fprintf(&sb, "case %d ", t.I)
		case "loop":
			sb.WriteString("loop " + t.S + " ( ")
			for _, p := range t.Ps {
				sb.WriteString(p + " ")
			}
			fmt.Fprintf(&sb, ") %d ( ", t.I)
			for _, it := range t.Is {
				fmt.Fprintf(&sb, "%d ", it)
			}
			sb.WriteString(") ")
		default:
			sb.WriteString(t.K + " ")
		}
		for _, c := range t.C {
			w(c)
		}
		if t.K == "x" || t.K == "k" {
			fmt.Fprintf(&sb, "%d ", t.I)
		}
		sb.WriteString(") ")
	}
	w(t)
	return strings.TrimSpace(sb.String())
}

func c02Args(ts []*c02_ct) string {
	ss := make([]string, len(ts))
	for i, t := range ts {
		ss[i] = c02Expr(t)
	}
	return strings.Join(ss, ", ")
}

func c02Body(ts []*c02_ct) string {
	ss := make([]string, len(ts))
	for i, t := range ts {
		ss[i] = c02Stmt(t)
	}
	return "{ " + strings.Join(ss, "; ") + " }"
}

func c02Expr(t *c02_ct) string {
	switch t.K {
	case "i":
		return strconv.FormatInt(t.I, 10)
	case "n":
		return "nil"
	case "F":
		return `error("boom")`
	case "ch":
		return "chan(1)"
	case "v":
		return t.S
	case "+":
		return "(" + c02Expr(t.C[0]) + " + " + c02Expr(t.C[1]) + ")"
	case "fn":
		if t.S == "_" {
			return "func(" + strings.Join(t.Ps, ", ") + ") " + c02Body(t.C)
		}
		return "func " + t.S + "(" + strings.Join(t.Ps, ", ") + ") " + c02Body(t.C)
	case "c":
		return c02Expr(t.C[0]) + "(" + c02Args(t.C[1:]) + ")"
	case "l":
		return "[" + c02Args(t.C) + "]"
	case "m":
		ss := make([]string, len(t.C))
		for i, c := range t.C {
			ss[i] = fmt.Sprintf("\"k%d\": %s", i, c02Expr(c))
		}
		return "{" + strings.Join(ss, ", ") + "}"
	case "x":
		return c02Expr(t.C[0]) + "[" + strconv.FormatInt(t.I, 10) + "]"
	case "k":
		return c02Expr(t.C[0]) + "[\"k" + strconv.FormatInt(t.I, 10) + "\"]"
	case "r":
		switch t.S {
		case "map", "filter", "each":
			return c02Expr(t.C[0]) + "." + t.S + "(" + c02Expr(t.C[1]) + ")"
		case "sorted":
			return "sorted(" + c02Args(t.C) + ")"
		case "try":
			return "try(" + c02Args(t.C) + ")"
		case "spawn":
			return "spawn(" + c02Args(t.C) + ").wait()"
		}
	}
	return "<?" + t.K + ">"
}

// the `go` route: `x := (r go c f a…)` is two statements
func c02GoStmt(t *c02_ct) (string, string) {
	ps := []string{"c", "f"}
	as := []string{}
	for i := range t.C[2:] {
		ps = append(ps, fmt.Sprintf("a%d", i))
		as = append(as, fmt.Sprintf("a%d", i))
	}
	return "go func(" + strings.Join(ps, ", ") + ") { c <- (f(" + strings.Join(as, ", ") + ")) }(" + c02Args(t.C) + ")", "<-" + c02Expr(t.C[0])
}

func c02Stmt(t *c02_ct) string {
	switch t.K {
	case "d", "a":
		opr := " := "
		if t.K == "a" {
			opr = " = "
		}
		if t.C[0].K == "r" && t.C[0].S == "go" {
			g, recv := c02GoStmt(t.C[0])
			return g + "; " + t.S + opr + recv
		}
		return t.S + opr + c02Expr(t.C[0])
	case "+=", "-=":
		return t.S + " " + t.K + " " + c02Expr(t.C[0])
	case "++", "--":
		return t.S + t.K
	case "ma":
		return strings.Join(t.Ps, ", ") + " = " + c02Expr(t.C[0])
	case "md":
		return strings.Join(t.Ps, ", ") + " := " + c02Expr(t.C[0])
	case "ret":
		return "return " + c02Expr(t.C[0])
	case "retif":
		return "if " + c02Expr(t.C[0]) + " { return " + c02Expr(t.C[1]) + " }"
	case "if":
		out := "if " + c02Expr(t.C[0]) + " " + c02Body(t.C[1].C)
		if len(t.C[2].C) > 0 {
			out += " else " + c02Body(t.C[2].C)
		}
		return out
	case "sw":
		var sb strings.Builder
		sb.WriteString("switch " + c02Expr(t.C[0]) + " {\n")
		for _, c := range t.C[1:] {
			if c.K == "case" {
				fmt.Fprintf(&sb, "case %d: ", c.I)
			} else {
				sb.WriteString("default: ")
			}
			ss := make([]string, len(c.C))
			for i, st := range c.C {
				ss[i] = c02Stmt(st)
			}
			sb.WriteString(strings.Join(ss, "; ") + "\n")
		}
		sb.WriteString("}")
		return sb.String()
	case "loop":
		body := c02Body(t.C[0].C)
		items := make([]string, len(t.Is))
		for i, it := range t.Is {
			items[i] = strconv.FormatInt(it, 10)
		}
		switch t.S {
		case "for3":
			return fmt.Sprintf("for %s := 0; %s < %d; %s++ %s", t.Ps[0], t.Ps[0], t.I, t.Ps[0], body)
		case "cond":
			return fmt.Sprintf("for %s < %d %s", t.Ps[0], t.I, body)
		case "range1":
			return fmt.Sprintf("for %s := range %d %s", t.Ps[0], t.I, body)
		case "range2":
			return fmt.Sprintf("for %s, %s := range [%s] %s", t.Ps[0], t.Ps[1], strings.Join(items, ", "), body)
		case "forin":
			return fmt.Sprintf("for %s in [%s] %s", t.Ps[0], strings.Join(items, ", "), body)
		case "once":
			ss := make([]string, 0, len(t.C[0].C)+1)
			for _, st := range t.C[0].C {
				ss = append(ss, c02Stmt(st))
			}
			return "for { " + strings.Join(append(ss, "break"), "; ") + " }"
		}
	}
	return c02Expr(t)
}

func c02Src(p *c02_ct) string {
	ss := make([]string, len(p.C))
	for i, t := range p.C {
		ss[i] = c02Stmt(t)
	}
	return strings.Join(ss, "\n")
}

// ---------------------------------------------------------------------------------------
// types of the generator

type c02_cty struct {
	K   int // 0 int, 1 fn, 2 tuple (list or map of fixed shape), 3 obs (only observed), 4 opaque fn (never called)
	Ps  []*c02_cty
	Ret *c02_cty
	Els []*c02_cty
	Map bool
}

var c02Int = &c02_cty{K: 0}
var c02Obs = &c02_cty{K: 3}
var c02OpaqueFn = &c02_cty{K: 4}

func (t *c02_cty) eq(u *c02_cty) bool {
	if t.K != u.K || len(t.Ps) != len(u.Ps) || len(t.Els) != len(u.Els) || t.Map != u.Map {
		return false
	}
	for i := range t.Ps {
		if !t.Ps[i].eq(u.Ps[i]) {
			return false
		}
	}
	for i := range t.Els {
		if !t.Els[i].eq(u.Els[i]) {
			return false
		}
	}
	if t.K == 1 {
		return t.Ret.eq(u.Ret)
	}
	return true
}

type c02Var struct {
	name     string
	ty       *c02_cty
	writable bool
	assign   bool // a function-typed variable declared by `:=` that may be given a new closure (`e = func…`)
}

// variables of scopes[level][from:] are declared inside a loop body that runs more than once
type c02Hide struct{ level, from int }

type c02Gen struct {
	r        *RNG
	scopes   [][]c02Var // scopes[0] = globals, scopes[L] = function at literal depth L
	maxDepth int
	shallow  bool // only references that need no capture beyond the literal's own frame
	budget   int
	ctr      int
	routes   map[string]int
	maxLit   int
	wide     int
	// block scopes (only inside functions)
	blockDepth int
	loopHide   []c02Hide      // the loops with more than one iteration we are inside of
	hideFnUpTo int            // > 0: function- and container-typed variables of the function levels 1..hideFnUpTo are hidden (no call cycles through re-assigned closures)
	hideActive int            // loopHide[:hideActive] is hidden from `visible` (while a closure that leaves the loop is generated)
	blockKinds map[string]int // block statements generated, by kind
	escapes    int            // closures assigned to a variable declared outside their block
	afterDecl  int            // declarations made right after a block was closed
	forms    map[string]int // write forms used: "=", "+=", "-=", "++", "--", "tuple=", "tuple:="; suffix " captured" when a target is an enclosing function's local
}

func (g *c02Gen) form(f string, vs ...c02Var) {
	if g.forms == nil {
		g.forms = map[string]int{}
	}
	for _, v := range vs {
		if l := g.levelOf(v.name); l > 0 && l < g.level() {
			f += " captured"
			break
		}
	}
	g.forms[f]++
}

// the level of the scope the name resolves to from the current position (-1: unknown)
func (g *c02Gen) levelOf(name string) int {
	for l := g.level(); l >= 0; l-- {
		for _, v := range g.scopes[l] {
			if v.name == name {
				return l
			}
		}
	}
	return -1
}

// one write to the int binding v in a generated form: `v = e`, `v += e`, `v -= e`, `v++`, `v--`
func (g *c02Gen) writeStmt(v c02Var) *c02_ct {
	x := g.r.Intn(100)
	switch {
	case x < 45:
		g.form("=", v)
		return c02_cA(v.name, g.intExpr(2))
	case x < 65:
		g.form("+=", v)
		return c02_cOp("+=", v.name, g.intExpr(1))
	case x < 75:
		g.form("-=", v)
		return c02_cOp("-=", v.name, g.intExpr(1))
	case x < 90:
		g.form("++", v)
		return c02_cPost("++", v.name)
	default:
		g.form("--", v)
		return c02_cPost("--", v.name)
	}
}

// `a, b[, c] = [e…]` over 2-3 distinct writable int bindings, the first one chosen by the
// caller; the value is a list literal of int expressions, or a rotation of the targets
// themselves (`lo, hi = [hi, lo]`)
func (g *c02Gen) tupleAssign(first c02Var, vs []c02Var) *c02_ct {
	k := 2 + g.r.Intn(2)
	targets := []c02Var{first}
	for tries := 0; len(targets) < k && tries < 12; tries++ {
		w := Pick(g.r, vs)
		dup := false
		for _, t := range targets {
			if t.name == w.name {
				dup = true
			}
		}
		if !dup {
			targets = append(targets, w)
		}
	}
	if len(targets) < 2 {
		return nil
	}
	// the order of the names on the left is generated too
	for i := len(targets) - 1; i > 0; i-- {
		j := g.r.Intn(i + 1)
		targets[i], targets[j] = targets[j], targets[i]
	}
	names := make([]string, len(targets))
	es := make([]*c02_ct, len(targets))
	rot := g.r.Chance(30)
	for i, t := range targets {
		names[i] = t.name
		if rot {
			es[i] = c02_cV(targets[(i+1)%len(targets)].name)
		} else {
			es[i] = g.intExpr(1)
		}
	}
	g.form("tuple=", targets...)
	return c02_cMA(names, c02_cL(es...))
}

func (g *c02Gen) level() int { return len(g.scopes) - 1 }
func (g *c02Gen) fresh(p string) string {
	g.ctr++
	return fmt.Sprintf("%s%d", p, g.ctr)
}
func (g *c02Gen) declare(v c02Var) {
	g.scopes[len(g.scopes)-1] = append(g.scopes[len(g.scopes)-1], v)
}

// visible variables (innermost first, shadowing respected).  From a function at level L
// the shallow mode only sees its own scope, its parent's and the globals.
func (g *c02Gen) visible(pred func(c02Var) bool) []c02Var {
	return g.visibleX(pred, false)
}

func (g *c02Gen) visibleX(pred func(c02Var) bool, hideExempt bool) []c02Var {
	seen := map[string]bool{}
	var out []c02Var
	L := g.level()
	for l := L; l >= 0; l-- {
		sc := g.scopes[l]
		for i := len(sc) - 1; i >= 0; i-- {
			v := sc[i]
			if seen[v.name] {
				continue
			}
			seen[v.name] = true
			if g.shallow && !(l == L || l == L-1 || l == 0) {
				continue
			}
			hidden := false
			for _, h := range g.loopHide[:g.hideActive] {
				if h.level == l && i >= h.from {
					hidden = true
				}
			}
			if l >= 1 && l <= g.hideFnUpTo && (v.ty.K == 1 || v.ty.K == 2) && !hideExempt {
				hidden = true
			}
			if hidden {
				continue
			}
			if pred(v) {
				out = append(out, v)
			}
		}
	}
	return out
}

func (g *c02Gen) randFnType(rem int) *c02_cty {
	np := g.r.Intn(3)
	if g.r.Chance(30) {
		np = 1
	}
	t := &c02_cty{K: 1}
	for i := 0; i < np; i++ {
		if g.r.Chance(12) {
			t.Ps = append(t.Ps, &c02_cty{K: 1, Ps: nil, Ret: c02Int})
		} else {
			t.Ps = append(t.Ps, c02Int)
		}
	}
	t.Ret = g.randRetType(rem - 1)
	return t
}

func (g *c02Gen) randRetType(rem int) *c02_cty {
	if rem < 1 {
		return c02Int
	}
	x := g.r.Intn(100)
	switch {
	case x < 30:
		return c02Int
	case x < 80:
		return g.randFnType(rem)
	default:
		n := 1 + g.r.Intn(3)
		t := &c02_cty{K: 2, Map: g.r.Chance(40)}
		for i := 0; i < n; i++ {
			if x := g.r.Intn(100); x < 65 {
				t.Els = append(t.Els, g.randFnType(rem))
			} else if x < 88 || t.Map {
				t.Els = append(t.Els, c02Int)
			} else {
				t.Els = append(t.Els, c02Obs) // any value that is only looked at: an int or a function's own name
			}
		}
		return t
	}
}

var c02ParamPool = []string{"a", "b", "c", "p", "q"}

func (g *c02Gen) fnLit(ty *c02_cty, name string) *c02_ct {
	if g.level()+1 > g.maxDepth {
		return nil
	}
	var ps []string
	used := map[string]bool{}
	for range ty.Ps {
		p := Pick(g.r, c02ParamPool)
		for used[p] {
			p = Pick(g.r, c02ParamPool)
		}
		used[p] = true
		ps = append(ps, p)
	}
	g.scopes = append(g.scopes, nil)
	if g.level() > g.maxLit {
		g.maxLit = g.level()
	}
	for i, p := range ps {
		g.declare(c02Var{name: p, ty: ty.Ps[i], writable: ty.Ps[i].K == 0})
	}
	if name != "_" {
		g.declare(c02Var{name: name, ty: c02OpaqueFn, writable: false})
	}
	body := g.body(ty.Ret)
	g.scopes = g.scopes[:len(g.scopes)-1]
	return c02_cFn(name, ps, body...)
}

func (g *c02Gen) body(ret *c02_cty) []*c02_ct {
	var out []*c02_ct
	if g.r.Chance(6) {
		// a frame with more than DefaultFrameLocals (8) slots: locals live in extendedLocals
		for i := 0; i < 8; i++ {
			name := g.fresh("w")
			out = append(out, c02_cD(name, c02_cI(int64(g.r.Intn(10)))))
			g.declare(c02Var{name: name, ty: c02Int, writable: true})
		}
		g.wide++
	}
	n := g.r.Intn(5)
	if g.level() < g.maxDepth && g.r.Chance(60) {
		n++
	}
	for i := 0; i < n && g.budget > 0; i++ {
		out = append(out, g.stmt()...)
	}
	e := g.expr(ret, 2)
	if e == nil {
		e = c02_cI(0)
	}
	return append(out, c02_cRet(e))
}

// one generated statement (sometimes two) inside a function or at the top level
func (g *c02Gen) stmt() []*c02_ct {
	g.budget -= 2
	if g.level() >= 1 && g.blockDepth < 3 && g.budget > 0 && g.r.Chance(24) {
		return g.blockStmt()
	}
	if g.level() >= 1 && g.r.Chance(5) {
		if st := g.escapeAssign(); st != nil {
			return []*c02_ct{st}
		}
	}
	x := g.r.Intn(100)
	rem := g.maxDepth - g.level()
	switch {
	case x < 22: // local int
		if g.r.Chance(25) {
			// `v1, v2[, v3] := [e…]`: the names claim their slots from the last to the first
			k := 2 + g.r.Intn(2)
			names := make([]string, k)
			es := make([]*c02_ct, k)
			for i := range names {
				names[i] = g.fresh("v")
				es[i] = g.intExpr(1)
			}
			for _, n := range names {
				g.declare(c02Var{name: n, ty: c02Int, writable: true})
			}
			g.form("tuple:=")
			return []*c02_ct{c02_cMD(names, c02_cL(es...))}
		}
		name := g.fresh("v")
		e := g.intExpr(2)
		g.declare(c02Var{name: name, ty: c02Int, writable: true})
		return []*c02_ct{c02_cD(name, e)}
	case x < 50 && rem >= 1: // inner function
		ty := g.randFnType(rem)
		name := g.fresh("g")
		if g.r.Chance(35) {
			lit := g.fnLit(ty, name)
			if lit == nil {
				return nil
			}
			g.declare(c02Var{name: name, ty: ty})
			return []*c02_ct{lit}
		}
		lit := g.fnLit(ty, "_")
		if lit == nil {
			return nil
		}
		g.declare(c02Var{name: name, ty: ty, assign: g.level() >= 1})
		return []*c02_ct{c02_cD(name, lit)}
	case x < 72: // write an int binding (own, enclosing or global)
		vs := g.visible(func(v c02Var) bool { return v.ty.K == 0 && v.writable })
		if len(vs) == 0 {
			return nil
		}
		// prefer bindings of enclosing functions
		v := vs[g.r.Intn(len(vs))]
		if g.r.Chance(50) {
			v = vs[len(vs)-1-g.r.Intn((len(vs)+1)/2)]
		}
		if len(vs) >= 2 && g.r.Chance(30) {
			if st := g.tupleAssign(v, vs); st != nil {
				return []*c02_ct{st}
			}
		}
		return []*c02_ct{g.writeStmt(v)}
	case x < 84: // keep an intermediate value (a closure, a container) in a local
		vs := g.visible(func(v c02Var) bool { return v.ty.K == 1 || v.ty.K == 2 })
		if len(vs) == 0 {
			return nil
		}
		v := Pick(g.r, vs)
		e, ty := g.stepOnce(c02_cV(v.name), v.ty)
		if e == nil {
			return nil
		}
		name := g.fresh("t")
		g.declare(c02Var{name: name, ty: ty, writable: false})
		return g.declStmts(name, e)
	default: // a builtin that only observes: filter / each
		f := g.expr(&c02_cty{K: 1, Ps: []*c02_cty{c02Int}, Ret: c02Int}, 1)
		if f == nil {
			return nil
		}
		kind := "filter"
		if g.r.Bool() {
			kind = "each"
		}
		g.routes[kind]++
		name := g.fresh("o")
		e := c02_cR(kind, g.intList(), f)
		g.declare(c02Var{name: name, ty: c02Obs, writable: false})
		return []*c02_ct{c02_cD(name, e)}
	}
}

// ---------------------------------------------------------------------------------------
// block scopes: `if`/`else` bodies, `switch` cases, the loop forms.  Variables declared in a
// block are visible to the generator until the block ends.  A closure made in a block leaves it
// by being assigned to a function-typed variable declared outside (`e7 = func…`), and is then
// called after the enclosing function declared further variables (behind the block, in sibling
// blocks) or returned.
//
// Loop bodies that run more than once: the unchanged compiler gives a variable declared in a
// loop body ONE slot for all iterations (recorded finding C01-loop-body-variable-shared; C01
// owns it).  Here a closure that leaves such a loop never refers to a variable declared inside
// the loop (those are hidden while it is generated), so one slot per loop and a fresh variable
// per iteration cannot be told apart; loops with at most one iteration have no such restriction.

func (g *c02Gen) enterBlock() int { g.blockDepth++; return len(g.scopes[g.level()]) }
func (g *c02Gen) leaveBlock(mark int) {
	g.blockDepth--
	g.scopes[g.level()] = g.scopes[g.level()][:mark]
}

var c02BlockKinds = []string{"if", "if", "ifelse", "ifelse", "switch", "switch", "for3", "cond", "range1", "range2", "forin", "once"}

func (g *c02Gen) blockStmt() []*c02_ct {
	g.budget -= 3
	if g.blockKinds == nil {
		g.blockKinds = map[string]int{}
	}
	var out []*c02_ct
	// a variable outside the block for the closure that will leave it
	if outs := g.visibleX(func(v c02Var) bool { return v.assign }, true); len(outs) == 0 || g.r.Chance(40) {
		ty := &c02_cty{K: 1, Ret: c02Int}
		if g.r.Chance(50) {
			ty.Ps = []*c02_cty{c02Int}
		}
		if g.r.Chance(20) {
			ty = g.randFnType(1)
		}
		if lit := g.fnLit(ty, "_"); lit != nil {
			name := g.fresh("e")
			g.declare(c02Var{name: name, ty: ty, assign: true})
			out = append(out, c02_cD(name, lit))
		}
	}
	kind := Pick(g.r, c02BlockKinds)
	g.blockKinds[kind]++
	switch kind {
	case "if":
		out = append(out, c02_cIf(g.condExpr(), g.blockBody(nil), nil))
	case "ifelse":
		t := g.blockBody(nil)
		out = append(out, c02_cIf(g.condExpr(), t, g.blockBody(nil)))
	case "switch":
		subj := g.intExpr(1)
		var cases []*c02_ct
		used := map[int64]bool{}
		for i, n := 0, 1+g.r.Intn(3); i < n; i++ {
			k := int64(g.r.Intn(10))
			if used[k] {
				continue
			}
			used[k] = true
			cases = append(cases, c02_cCase(k, g.blockBody(nil)...))
		}
		if g.r.Chance(70) {
			cases = append(cases, c02_cDefault(g.blockBody(nil)...))
		}
		out = append(out, c02_cSw(subj, cases...))
	default:
		out = append(out, g.loopStmt(kind)...)
	}
	// … and the enclosing function goes on declaring variables behind the closed block
	if g.r.Chance(80) {
		name := g.fresh("v")
		e := g.intExpr(1)
		g.declare(c02Var{name: name, ty: c02Int, writable: true})
		g.afterDecl++
		out = append(out, c02_cD(name, e))
	}
	return out
}

func (g *c02Gen) condExpr() *c02_ct {
	if g.r.Chance(25) {
		return c02_cI(int64(g.r.Intn(2)))
	}
	return g.intExpr(1)
}

// the statements of one block body.  `names` are the loop's own names, already declared by the caller.
func (g *c02Gen) blockBody(tail []*c02_ct) []*c02_ct {
	mark := g.enterBlock()
	var out []*c02_ct
	if g.r.Chance(85) {
		name := g.fresh("b")
		e := g.intExpr(1)
		g.declare(c02Var{name: name, ty: c02Int, writable: true})
		out = append(out, c02_cD(name, e))
	}
	for i, n := 0, g.r.Intn(3); i < n && g.budget > 0; i++ {
		out = append(out, g.stmt()...)
	}
	if g.r.Chance(75) {
		if st := g.escapeAssign(); st != nil {
			out = append(out, st)
		}
	}
	if g.r.Chance(25) && g.budget > 0 {
		out = append(out, g.stmt()...)
	}
	g.leaveBlock(mark)
	return append(out, tail...)
}

func (g *c02Gen) loopStmt(kind string) []*c02_ct {
	var pre []*c02_ct
	n := int64(g.r.Intn(4)) // iterations: 0..3
	if g.r.Chance(40) {
		n = 1
	}
	var items []int64
	var names []string
	var tail []*c02_ct
	L := g.level()
	switch kind {
	case "cond":
		k := g.fresh("k")
		pre = append(pre, c02_cD(k, c02_cI(0)))
		g.declare(c02Var{name: k, ty: c02Int})
		names = []string{k}
		tail = []*c02_ct{c02_cPost("++", k)}
	case "once":
		n = 1
	}
	mark := len(g.scopes[L]) // the loop's table begins here
	switch kind {
	case "for3":
		names = []string{g.fresh("i")}
		g.declare(c02Var{name: names[0], ty: c02Int})
	case "range1":
		names = []string{g.fresh("i")}
		g.declare(c02Var{name: names[0], ty: c02Int, writable: true})
	case "range2", "forin":
		if n == 0 {
			n = 2
		}
		for i := int64(0); i < n; i++ {
			items = append(items, int64(g.r.Intn(10)))
		}
		names = []string{g.fresh("x")}
		if kind == "range2" {
			names = []string{g.fresh("i"), names[0]}
		}
		for _, nm := range names {
			g.declare(c02Var{name: nm, ty: c02Int, writable: true})
		}
	}
	if n > 1 {
		g.loopHide = append(g.loopHide, c02Hide{L, mark})
		g.blockKinds["loop with more than one iteration"]++
	}
	body := g.blockBody(tail)
	if n > 1 {
		g.loopHide = g.loopHide[:len(g.loopHide)-1]
	}
	g.scopes[L] = g.scopes[L][:mark]
	if kind == "range2" || kind == "forin" {
		n = 0
	}
	return append(pre, c02_cLoop(kind, names, n, items, body...))
}

// `e = func(…) { … }`: a variable declared outside gets a closure made here.  For closures that
// return an int, half of the time the body is written around the most recently declared int
// bindings (the block's own variables): it writes one and returns a sum with it.
func (g *c02Gen) escapeAssign() *c02_ct {
	vs := g.visibleX(func(v c02Var) bool { return v.assign }, true)
	if len(vs) == 0 || g.level()+1 > g.maxDepth {
		return nil
	}
	v := Pick(g.r, vs)
	old, oldFn := g.hideActive, g.hideFnUpTo
	g.hideActive = len(g.loopHide)
	// the new closure calls no closure held in a variable of the enclosing functions: a variable
	// that is re-assigned later could otherwise close a call cycle
	if g.level() > g.hideFnUpTo {
		g.hideFnUpTo = g.level()
	}
	defer func() { g.hideActive, g.hideFnUpTo = old, oldFn }()
	var lit *c02_ct
	if v.ty.Ret.K == 0 && g.r.Chance(60) {
		lit = g.blockClosure(v.ty)
	}
	if lit == nil {
		lit = g.fnLit(v.ty, "_")
	}
	if lit == nil {
		return nil
	}
	g.escapes++
	return c02_cA(v.name, lit)
}

func (g *c02Gen) blockClosure(ty *c02_cty) *c02_ct {
	// the int bindings of the function we are in, most recent first
	var near []c02Var
	for _, w := range g.visible(func(w c02Var) bool { return w.ty.K == 0 && w.writable }) {
		if g.levelOf(w.name) == g.level() && len(near) < 3 {
			near = append(near, w)
		}
	}
	if len(near) == 0 {
		return nil
	}
	var ps []string
	used := map[string]bool{}
	for range ty.Ps {
		p := Pick(g.r, c02ParamPool)
		for used[p] {
			p = Pick(g.r, c02ParamPool)
		}
		used[p] = true
		ps = append(ps, p)
	}
	g.scopes = append(g.scopes, nil)
	if g.level() > g.maxLit {
		g.maxLit = g.level()
	}
	for i, p := range ps {
		g.declare(c02Var{name: p, ty: ty.Ps[i], writable: ty.Ps[i].K == 0})
	}
	var body []*c02_ct
	bv := Pick(g.r, near)
	if g.r.Chance(60) {
		body = append(body, g.writeStmt(bv))
	}
	body = append(body, c02_cRet(c02_cAdd(c02_cV(bv.name), g.intExpr(1))))
	g.scopes = g.scopes[:len(g.scopes)-1]
	return c02_cFn("_", ps, body...)
}

// `name := e`, where e may be the two-statement `go` route
func (g *c02Gen) declStmts(name string, e *c02_ct) []*c02_ct {
	if e.K == "r" && e.S == "go" {
		cn := e.C[0].S
		return []*c02_ct{c02_cD(cn, &c02_ct{K: "ch"}), c02_cD(name, e)}
	}
	return []*c02_ct{c02_cD(name, e)}
}

func (g *c02Gen) intList() *c02_ct {
	n := 1 + g.r.Intn(3)
	es := make([]*c02_ct, n)
	for i := range es {
		es[i] = c02_cI(int64(g.r.Intn(4)))
	}
	return c02_cL(es...)
}

func (g *c02Gen) args(ps []*c02_cty, d int) []*c02_ct {
	var out []*c02_ct
	for _, p := range ps {
		e := g.expr(p, d)
		if e == nil {
			return nil
		}
		out = append(out, e)
	}
	return out
}

// one step of using a closure or container value: call it (directly or through a builtin
// route) or index it.  Returns the expression and its type.  The `go` route is only offered
// when `stmtPos` (the caller emits the channel declaration).
func (g *c02Gen) stepOnce(e *c02_ct, ty *c02_cty) (*c02_ct, *c02_cty) {
	return g.step(e, ty, true)
}

func (g *c02Gen) step(e *c02_ct, ty *c02_cty, stmtPos bool) (*c02_ct, *c02_cty) {
	switch ty.K {
	case 2:
		i := g.r.Intn(len(ty.Els))
		if ty.Map {
			return c02_cK(e, i), ty.Els[i]
		}
		return c02_cX(e, i), ty.Els[i]
	case 1:
		as := g.args(ty.Ps, 1)
		if as == nil && len(ty.Ps) > 0 {
			return nil, nil
		}
		allInt := true
		for _, p := range ty.Ps {
			if p.K != 0 {
				allInt = false
			}
		}
		x := g.r.Intn(100)
		switch {
		case x < 10 && len(ty.Ps) == 0:
			g.routes["try"]++
			if g.r.Chance(40) {
				// a failing first thunk that first writes an enclosing binding, then the real one
				if th := g.failThunk(); th != nil {
					g.routes["try-fallback"]++
					return c02_cR("try", th, e), ty.Ret
				}
			}
			return c02_cR("try", e), ty.Ret
		case x < 22 && allInt:
			g.routes["spawn"]++
			return c02_cR("spawn", append([]*c02_ct{e}, as...)...), ty.Ret
		case x < 30 && allInt && stmtPos:
			g.routes["go"]++
			return c02_cR("go", append([]*c02_ct{c02_cV(g.fresh("ch")), e}, as...)...), ty.Ret
		case x < 40 && len(ty.Ps) == 1 && ty.Ps[0].K == 0:
			g.routes["map"]++
			l := g.intList()
			return c02_cX(c02_cR("map", l, e), g.r.Intn(len(l.C))), ty.Ret
		case x < 48 && len(ty.Ps) == 2 && allInt && ty.Ret.K == 0:
			g.routes["sorted"]++
			l := g.intList()
			return c02_cX(c02_cR("sorted", l, e), g.r.Intn(len(l.C))), c02Int
		}
		g.routes["call"]++
		return c02_cCall(e, as...), ty.Ret
	}
	return nil, nil
}

func (g *c02Gen) failThunk() *c02_ct {
	if g.level()+1 > g.maxDepth {
		return nil
	}
	g.scopes = append(g.scopes, nil)
	var body []*c02_ct
	vs := g.visible(func(v c02Var) bool { return v.ty.K == 0 && v.writable })
	if len(vs) > 0 {
		v := Pick(g.r, vs)
		if g.r.Bool() {
			g.form("+=", v)
			body = append(body, c02_cOp("+=", v.name, c02_cI(int64(1+g.r.Intn(3)))))
		} else {
			g.form("=", v)
			body = append(body, c02_cA(v.name, c02_cAdd(c02_cV(v.name), c02_cI(int64(1+g.r.Intn(3))))))
		}
	}
	body = append(body, &c02_ct{K: "F"})
	g.scopes = g.scopes[:len(g.scopes)-1]
	return c02_cFn("_", nil, body...)
}

// consume a value down to an int
func (g *c02Gen) consume(e *c02_ct, ty *c02_cty, d int) *c02_ct {
	for i := 0; i < 8; i++ {
		if ty.K == 0 {
			return e
		}
		if ty.K != 1 && ty.K != 2 {
			return nil
		}
		e, ty = g.step(e, ty, false)
		if e == nil {
			return nil
		}
	}
	return nil
}

func (g *c02Gen) intExpr(d int) *c02_ct {
	g.budget--
	x := g.r.Intn(100)
	if d <= 0 || g.budget <= 0 {
		x = g.r.Intn(55)
	}
	switch {
	case x < 15:
		return c02_cI(int64(g.r.Intn(10)))
	case x < 55:
		vs := g.visible(func(v c02Var) bool { return v.ty.K == 0 })
		if len(vs) == 0 {
			return c02_cI(int64(g.r.Intn(10)))
		}
		return c02_cV(Pick(g.r, vs).name)
	case x < 78:
		return c02_cAdd(g.intExpr(d-1), g.intExpr(d-1))
	default:
		vs := g.visible(func(v c02Var) bool { return v.ty.K == 1 || v.ty.K == 2 })
		if len(vs) == 0 {
			return c02_cI(int64(g.r.Intn(10)))
		}
		v := Pick(g.r, vs)
		if e := g.consume(c02_cV(v.name), v.ty, d-1); e != nil {
			return e
		}
		return c02_cI(int64(g.r.Intn(10)))
	}
}

func (g *c02Gen) expr(ty *c02_cty, d int) *c02_ct {
	switch ty.K {
	case 3:
		vs := g.visible(func(v c02Var) bool { return v.ty.K == 4 })
		if len(vs) > 0 && g.r.Chance(60) {
			return c02_cV(Pick(g.r, vs).name)
		}
		return g.intExpr(d)
	case 0:
		return g.intExpr(d)
	case 1:
		vs := g.visible(func(v c02Var) bool { return v.ty.eq(ty) })
		if len(vs) > 0 && (g.r.Chance(45) || g.level()+1 > g.maxDepth || g.budget <= 0) {
			return c02_cV(Pick(g.r, vs).name)
		}
		if lit := g.fnLit(ty, "_"); lit != nil {
			return lit
		}
		if len(vs) > 0 {
			return c02_cV(Pick(g.r, vs).name)
		}
		return nil
	case 2:
		es := make([]*c02_ct, len(ty.Els))
		for i, el := range ty.Els {
			var e *c02_ct
			if ty.Map && el.K == 0 {
				// map literal entries are compiled in Go map order: keep them free of effects
				vs := g.visible(func(v c02Var) bool { return v.ty.K == 0 })
				if len(vs) > 0 && g.r.Bool() {
					e = c02_cV(Pick(g.r, vs).name)
				} else {
					e = c02_cI(int64(g.r.Intn(10)))
				}
			} else {
				e = g.expr(el, d-1)
			}
			if e == nil {
				return nil
			}
			es[i] = e
		}
		if ty.Map {
			return c02_cM(es...)
		}
		return c02_cL(es...)
	}
	return nil
}

type c02Case struct {
	main  []*c02_ct // run by the VM
	host  []*c02_ct // `h := f(args)` steps performed from Go through vm.Get / vm.Call
	obs   []string
	gen   *c02Gen
	label string
	forms bool // a directed case about the write forms (not a witness of the known finding): reported at once
	// scenario stream (c02scn.go): a step made from Go that ends by an error is recorded as -1 and the
	// host goes on using the VM (the model sees `try(func() { return <step> }, -1)`)
	hostTry bool
	scn     map[string]int
	scnSeq  string
}

func c02Generate(r *RNG, shallow bool) *c02Case {
	g := &c02Gen{r: r, maxDepth: 1 + r.Intn(5), shallow: shallow, budget: 20 + r.Intn(50), routes: map[string]int{}}
	if r.Chance(50) {
		g.maxDepth = 3 + r.Intn(3)
	}
	g.scopes = [][]c02Var{nil}
	var main []*c02_ct
	if r.Chance(15) {
		// globals declared by a tuple `:=`
		a, b := g.fresh("n"), g.fresh("n")
		main = append(main, c02_cMD([]string{a, b}, c02_cL(c02_cI(int64(r.Intn(10))), c02_cI(int64(r.Intn(10))))))
		g.declare(c02Var{name: a, ty: c02Int, writable: true})
		g.declare(c02Var{name: b, ty: c02Int, writable: true})
		g.form("tuple:=")
	} else {
		for i := 0; i < 1+r.Intn(2); i++ {
			name := g.fresh("n")
			main = append(main, c02_cD(name, c02_cI(int64(r.Intn(10)))))
			g.declare(c02Var{name: name, ty: c02Int, writable: true})
		}
	}
	nf := 1 + r.Intn(3)
	for i := 0; i < nf; i++ {
		ty := g.randFnType(g.maxDepth)
		name := g.fresh("f")
		var st *c02_ct
		if r.Bool() {
			st = g.fnLit(ty, name)
		} else {
			st = c02_cD(name, g.fnLit(ty, "_"))
		}
		g.declare(c02Var{name: name, ty: ty, writable: false})
		main = append(main, st)
	}
	// call events in a generated order
	c := &c02Case{gen: g}
	nEv := 3 + r.Intn(7)
	hostMode := r.Chance(25)
	hostFrom := nEv
	if hostMode {
		hostFrom = nEv - 1 - r.Intn(3)
	}
	g.budget += 25
	for i := 0; i < nEv; i++ {
		vs := g.visible(func(v c02Var) bool { return v.ty.K == 1 || v.ty.K == 2 })
		if len(vs) == 0 {
			break
		}
		v := Pick(r, vs)
		if i >= hostFrom {
			// host step: a plain call with integer literals or globals as arguments
			if v.ty.K != 1 {
				continue
			}
			var as []*c02_ct
			ok := true
			for _, p := range v.ty.Ps {
				if p.K == 0 {
					as = append(as, c02_cI(int64(r.Intn(10))))
				} else {
					ws := g.visible(func(w c02Var) bool { return w.ty.eq(p) })
					if len(ws) == 0 {
						ok = false
						break
					}
					as = append(as, c02_cV(Pick(r, ws).name))
				}
			}
			if !ok {
				continue
			}
			name := g.fresh("h")
			g.declare(c02Var{name: name, ty: v.ty.Ret, writable: false})
			c.host = append(c.host, c02_cD(name, c02_cCall(c02_cV(v.name), as...)))
			continue
		}
		e, ty := g.stepOnce(c02_cV(v.name), v.ty)
		if e == nil {
			continue
		}
		name := g.fresh("r")
		g.declare(c02Var{name: name, ty: ty, writable: false})
		main = append(main, g.declStmts(name, e)...)
		if r.Chance(15) {
			ws := g.visible(func(w c02Var) bool { return w.ty.K == 0 && w.writable })
			if len(ws) > 0 {
				w := Pick(r, ws)
				if len(ws) >= 2 && r.Chance(30) {
					if st := g.tupleAssign(w, ws); st != nil {
						main = append(main, st)
						continue
					}
				}
				main = append(main, g.writeStmt(w))
			}
		}
	}
	for _, v := range g.scopes[0] {
		if !strings.HasPrefix(v.name, "ch") {
			c.obs = append(c.obs, v.name)
		}
	}
	c.main = main
	return c
}

// the program the model sees: main, host steps as statements, then the observation list
func (c *c02Case) modelProg() *c02_ct {
	var obs []*c02_ct
	for _, n := range c.obs {
		obs = append(obs, c02_cV(n))
	}
	stmts := append([]*c02_ct{}, c.main...)
	for _, h := range c.host {
		if c.hostTry {
			h = c02_cD(h.S, c02_cR("try", c02_cFn("_", nil, c02_cRet(h.C[0])), c02_cI(-1)))
		}
		stmts = append(stmts, h)
	}
	return c02_cProg(append(stmts, c02_cL(obs...))...)
}

// the source the VM runs: without host steps; when there are none it ends with the observation list
func (c *c02Case) vmProg() *c02_ct {
	if len(c.host) > 0 {
		return c02_cProg(c.main...)
	}
	var obs []*c02_ct
	for _, n := range c.obs {
		obs = append(obs, c02_cV(n))
	}
	return c02_cProg(append(append([]*c02_ct{}, c.main...), c02_cL(obs...))...)
}

// ---------------------------------------------------------------------------------------
// the real code

func c02Canon(o object.Object) string {
	switch v := o.(type) {
	case nil:
		return "GONIL"
	case *object.Int:
		return strconv.FormatInt(v.Value(), 10)
	case *object.Function:
		return "fn"
	case *object.NilType:
		return "nil"
	case *object.List:
		ss := []string{}
		for _, x := range v.Value() {
			ss = append(ss, c02Canon(x))
		}
		return "[" + strings.Join(ss, ",") + "]"
	case *object.Map:
		m := v.Value()
		ks := make([]string, 0, len(m))
		for k := range m {
			ks = append(ks, k)
		}
		sort.Strings(ks)
		ss := []string{}
		for _, k := range ks {
			ss = append(ss, c02Canon(m[k]))
		}
		return "{" + strings.Join(ss, ",") + "}"
	case *object.Error, *object.Chan:
		return "opaque"
	}
	return "?" + string(o.Type())
}

type c02Real struct {
	Outcome    string `json:"outcome"` // ok <canon> | err <class>
	ErrText    string `json:"errText"`
	Groups     string `json:"groups"` // MAKE_CELL groups of the real bytecode, canonical
	Deep       bool   `json:"deep"`   // some MAKE_CELL has framesBack >= 1
	MaxBack    int    `json:"maxBack"`
	NCells     int    `json:"nCells"`
	FreeOps    int    `json:"freeOps"`
	MainLocals int    `json:"mainLocals"`
	Locals     string `json:"locals"` // LocalsCount of every function's code, sorted
	CompileErr string `json:"compileErr"`
}

func c02CanonLocals(ns []int) string {
	if len(ns) == 0 {
		return "-"
	}
	sort.Ints(ns)
	ss := make([]string, len(ns))
	for i, n := range ns {
		ss[i] = strconv.Itoa(n)
	}
	return strings.Join(ss, ",")
}

func c02ParseLocals(s string) string {
	if s == "-" || s == "" {
		return "-"
	}
	var ns []int
	for _, f := range strings.Split(s, ",") {
		n, _ := strconv.Atoi(f)
		ns = append(ns, n)
	}
	return c02CanonLocals(ns)
}

// canonical form of the MAKE_CELL groups: pairs sorted inside a group, groups sorted
func c02CanonGroups(gs [][][2]int) string {
	var out []string
	for _, g := range gs {
		sort.Slice(g, func(i, j int) bool {
			if g[i][0] != g[j][0] {
				return g[i][0] < g[j][0]
			}
			return g[i][1] < g[j][1]
		})
		ss := make([]string, len(g))
		for i, p := range g {
			ss[i] = fmt.Sprintf("%d:%d", p[0], p[1])
		}
		out = append(out, strings.Join(ss, ","))
	}
	sort.Strings(out)
	if len(out) == 0 {
		return "-"
	}
	return strings.Join(out, ";")
}

func c02ParseGroups(s string) string {
	if s == "-" || s == "" {
		return "-"
	}
	var gs [][][2]int
	for _, g := range strings.Split(s, ";") {
		var ps [][2]int
		for _, p := range strings.Split(g, ",") {
			var a, b int
			fmt.Sscanf(p, "%d:%d", &a, &b)
			ps = append(ps, [2]int{a, b})
		}
		gs = append(gs, ps)
	}
	return c02CanonGroups(gs)
}

func c02Inspect(code *compiler.Code, r *c02Real) {
	var gs [][][2]int
	var locals []int
	for ci, cc := range code.Flatten() {
		if ci > 0 {
			locals = append(locals, cc.LocalsCount())
		}
		var cur [][2]int
		n := cc.InstructionCount()
		for i := 0; i < n; {
			o := cc.Instruction(i)
			info := op.GetInfo(o)
			switch o {
			case op.MakeCell:
				a, b := int(cc.Instruction(i+1)), int(cc.Instruction(i+2))
				cur = append(cur, [2]int{a, b})
				r.NCells++
				if b > r.MaxBack {
					r.MaxBack = b
				}
				if b >= 1 {
					r.Deep = true
				}
			case op.LoadClosure:
				gs = append(gs, cur)
				cur = nil
			case op.LoadFree, op.StoreFree:
				r.FreeOps++
			}
			i += 1 + info.OperandCount
		}
	}
	r.Groups = c02CanonGroups(gs)
	r.Locals = c02CanonLocals(locals)
	r.MainLocals = code.LocalsCount()
}

func c02Outcome(v object.Object, err error) (string, string) {
	if err != nil {
		return "err " + ErrClass(err.Error()), err.Error()
	}
	return "ok " + c02Canon(v), ""
}

// c02RunReal runs the case on the real parser/compiler/VM.  Without host steps the result is
// risor.Eval's; with host steps the main code is run on a VM, every step is vm.Get(name) +
// vm.Call(ctx, fn, args) from Go, and the observation list is read back with vm.Get.
func c02RunReal(c *c02Case, timeout time.Duration) (r c02Real) {
	src := c02Src(c.vmProg())
	ctx, cancel := context.WithTimeout(context.Background(), timeout)
	defer cancel()
	defer func() {
		if p := recover(); p != nil {
			r.Outcome, r.ErrText = "err panic", fmt.Sprintf("ESCAPED PANIC: %v", p)
		}
	}()
	cfg := risor.NewConfig(risor.WithConcurrency())
	prog, err := parser.Parse(ctx, src)
	if err != nil {
		r.CompileErr = err.Error()
		return
	}
	code, err := compiler.Compile(prog, cfg.CompilerOpts()...)
	if err != nil {
		r.CompileErr = err.Error()
		return
	}
	c02Inspect(code, &r)
	if len(c.host) == 0 {
		v, err := risor.Eval(ctx, src, risor.WithConcurrency())
		r.Outcome, r.ErrText = c02Outcome(v, err)
		return
	}
	machine := vm.New(code, cfg.VMOpts()...)
	if err := machine.Run(ctx); err != nil {
		r.Outcome, r.ErrText = c02Outcome(nil, err)
		return
	}
	hostVals := map[string]object.Object{}
	get := func(name string) (object.Object, error) {
		if v, ok := hostVals[name]; ok {
			return v, nil
		}
		return machine.Get(name)
	}
	for _, h := range c.host {
		call := h.C[0]
		var fo object.Object
		var err error
		if callee := call.C[0]; callee.K == "x" {
			// `r[i](args)`: the function is taken out of a list the VM returned earlier
			fo, err = get(callee.C[0].S)
			if l, isList := fo.(*object.List); err == nil && isList && int(callee.I) < len(l.Value()) {
				fo = l.Value()[callee.I]
			}
		} else {
			fo, err = get(callee.S)
		}
		if err != nil {
			r.Outcome, r.ErrText = "err host", err.Error()
			return
		}
		fn, ok := fo.(*object.Function)
		if !ok {
			// what CALL does with a non-function
			r.Outcome, r.ErrText = "err type", "host: not a function"
			return
		}
		var args []object.Object
		for _, a := range call.C[1:] {
			if a.K == "i" {
				args = append(args, object.NewInt(a.I))
			} else {
				v, err := get(a.S)
				if err != nil {
					r.Outcome, r.ErrText = "err host", err.Error()
					return
				}
				args = append(args, v)
			}
		}
		v, err := machine.Call(ctx, fn, args)
		if err != nil {
			if c.hostTry && ctx.Err() == nil {
				// the host notes the failure and keeps using the VM
				hostVals[h.S] = object.NewInt(-1)
				continue
			}
			r.Outcome, r.ErrText = c02Outcome(nil, err)
			return
		}
		hostVals[h.S] = v
	}
	ss := []string{}
	for _, n := range c.obs {
		v, err := get(n)
		if err != nil {
			r.Outcome, r.ErrText = "err host", err.Error()
			return
		}
		ss = append(ss, c02Canon(v))
	}
	r.Outcome = "ok [" + strings.Join(ss, ",") + "]"
	return
}

// ---------------------------------------------------------------------------------------
// verdicts

type c02Verdict struct {
	mismatch string
	spec     string
	finding  string
	impl     string
	specOut  string
}

func c02Judge(e *Env, c *c02Case, r c02Real, reply string) (v c02Verdict) {
	f := strings.Split(reply, "\t")
	if len(f) != 5 {
		v.mismatch = "oracle reply: " + reply
		return
	}
	impl, spec, groups, deep := f[0], f[1], c02ParseGroups(f[2]), f[3] == "true"
	// the `go` route is rendered with a wrapper function `func(c, f, a…) { c <- f(a…) }` the model does not have
	modelLocals := f[4]
	var goWrap func(t *c02_ct)
	goWrap = func(t *c02_ct) {
		if t.K == "r" && t.S == "go" {
			if modelLocals == "-" {
				modelLocals = strconv.Itoa(len(t.C))
			} else {
				modelLocals += "," + strconv.Itoa(len(t.C))
			}
		}
		for _, ch := range t.C {
			goWrap(ch)
		}
	}
	for _, t := range c.main {
		goWrap(t)
	}
	if c.hostTry {
		// the thunks that stand for the host's error handling exist in the model only: they are the last literals, without locals
		fs := strings.Split(modelLocals, ",")
		if len(fs) >= len(c.host) {
			modelLocals = strings.Join(fs[:len(fs)-len(c.host)], ",")
			if modelLocals == "" {
				modelLocals = "-"
			}
		}
	}
	locals := c02ParseLocals(modelLocals)
	v.impl, v.specOut = impl, spec
	if r.CompileErr != "" {
		v.mismatch = "the real compiler rejects a program the model resolves: " + r.CompileErr
		return
	}
	switch {
	case groups != r.Groups:
		v.mismatch = fmt.Sprintf("MAKE_CELL operands differ: real %s, model %s", r.Groups, groups)
	case locals != r.Locals:
		v.mismatch = fmt.Sprintf("LocalsCount of the functions differ: real %s, model %s (block variables keep their slot after the block is closed)", r.Locals, locals)
	case deep != r.Deep:
		v.mismatch = "guard (framesBack >= 1) differs between bytecode and model"
	case impl != "undef" && impl != r.Outcome:
		v.mismatch = "outcome"
	}
	if spec == "undef" {
		e.R.H("spec_outcome", "not-modelled")
		return
	}
	if r.Outcome != spec {
		v.spec = fmt.Sprintf("real code: %s (%s); lexical semantics: %s; positional model: %s", r.Outcome, r.ErrText, spec, impl)
		if r.Deep && deep && v.mismatch == "" && impl != spec && (impl == r.Outcome || impl == "undef") {
			v.finding = c02Finding
		}
	}
	return
}

func c02Key(c *c02Case) string {
	s := c02Src(c.vmProg())
	for _, h := range c.host {
		s += "\n// from Go: " + c02Stmt(h)
	}
	if len(c.host) > 0 {
		s += "\n// then vm.Get of: " + strings.Join(c.obs, ", ")
	}
	if c.hostTry {
		s += "\n// (a step from Go that returns an error is recorded as -1; the host goes on)"
	}
	return s
}

func c02RunCase(e *Env, c *c02Case, record bool) c02Verdict {
	if os.Getenv("C02_TRACE") != "" {
		fmt.Fprintf(os.Stderr, "=== case\n%s\n", c02Key(c))
	}
	r := c02Exec(c, 2*time.Second)
	reply := e.O.Ask("C02", "run", strconv.Itoa(r.MainLocals), "400", c02Sexp(c.modelProg()))
	v := c02Judge(e, c, r, reply)
	if r.Outcome == "err context" && v.impl != "undef" && c02Reruns < 6 {
		c02Reruns++
		// the time limit only bounds the wait: before a blocked run is reported, give it ten times longer
		r = c02Exec(c, 20*time.Second)
		v = c02Judge(e, c, r, reply)
	}
	if !record {
		return v
	}
	key := c02Key(c)
	e.R.Case(key, r.NCells > 0 && r.FreeOps > 0)
	e.R.H("nesting_depth", strconv.Itoa(c.gen.maxLit))
	e.R.H("make_cells", strconv.Itoa(min(r.NCells, 20)))
	e.R.H("max_frames_back", strconv.Itoa(r.MaxBack))
	e.R.H("real_outcome", strings.SplitN(r.Outcome+" ", " ", 3)[0]+" "+func() string {
		if strings.HasPrefix(r.Outcome, "err") {
			return strings.TrimPrefix(r.Outcome, "err ")
		}
		return ""
	}())
	e.R.H("impl_vs_spec", map[bool]string{true: "same", false: "differ"}[v.impl == v.specOut])
	if v.impl == "undef" {
		e.R.H("impl_outcome", "not-modelled(Go nil read / goroutine died)")
	} else {
		e.R.H("impl_outcome", "modelled")
	}
	e.R.H("frames_over_8_locals", strconv.Itoa(min(c.gen.wide, 3)))
	e.R.H("mode", map[bool]string{true: "vm.Get+vm.Call", false: "risor.Eval"}[len(c.host) > 0])
	e.R.H("guard", map[bool]string{true: "depth>=2 capture present", false: "depth-1 captures only"}[r.Deep])
	for k, n := range c.gen.routes {
		for i := 0; i < n; i++ {
			e.R.H("routes", k)
		}
	}
	for k, n := range c.gen.forms {
		for i := 0; i < n; i++ {
			e.R.H("write_forms", k)
		}
	}
	for k, n := range c.gen.blockKinds {
		for i := 0; i < n; i++ {
			e.R.H("block_kinds", k)
		}
	}
	e.R.H("closures_leaving_their_block", strconv.Itoa(min(c.gen.escapes, 6)))
	e.R.H("declarations_right_after_a_closed_block", strconv.Itoa(min(c.gen.afterDecl, 6)))
	if v.mismatch != "" {
		goOut, impl, what := r.Outcome+" "+r.ErrText, v.impl, v.mismatch
		c02Pending = append(c02Pending, func() { e.R.Mismatch(key, goOut, impl, what) })
	}
	if v.spec != "" && v.finding == "" && c.label == "" {
		detail := v.spec
		c02Pending = append(c02Pending, func() { e.R.Spec(key, detail, "") })
	} else if v.spec != "" {
		if v.finding == "" && c.label != "" && !c.forms {
			// directed witnesses of the known finding: if they fail in an unlisted way, report them
			// after the generated cases (which work on the unchanged tree)
			c02Deferred = append(c02Deferred, [2]string{key, v.spec})
		} else {
			e.R.Spec(key, v.spec, v.finding)
		}
	}
	return v
}

var c02Deferred [][2]string

// unlisted disagreements of the case just run: reported by the caller, after its shrunk form
var c02Pending []func()

func c02Flush() {
	for _, f := range c02Pending {
		f()
	}
	c02Pending = nil
}

// shrink: drop statements anywhere while the predicate keeps holding
func c02Shrink(c *c02Case, bad0 func(*c02Case) bool) *c02Case {
	cur := c
	deadline := time.Now().Add(45 * time.Second) // a bound on the search, not a verdict
	bad := func(q *c02Case) bool {
		if time.Now().After(deadline) {
			return false
		}
		return bad0(q)
	}
	for pass := 0; pass < 6 && time.Now().Before(deadline); pass++ {
		changed := false
		// candidates: every statement list (main, host, function bodies)
		var lists []*[]*c02_ct
		m := &c02Case{gen: cur.gen, obs: cur.obs, hostTry: cur.hostTry}
		for _, t := range cur.main {
			m.main = append(m.main, c02Clone(t))
		}
		for _, t := range cur.host {
			m.host = append(m.host, c02Clone(t))
		}
		lists = append(lists, &m.main, &m.host)
		var walk func(t *c02_ct)
		keepLast := map[*[]*c02_ct]bool{}
		walk = func(t *c02_ct) {
			if t.K == "fn" || t.K == "b" || t.K == "case" || t.K == "default" {
				lists = append(lists, &t.C)
			}
			if t.K == "loop" && t.S == "cond" {
				keepLast[&t.C[0].C] = true // the counter's `k++`: without it the loop never ends
			}
			for _, c := range t.C {
				walk(c)
			}
		}
		for _, t := range m.main {
			walk(t)
		}
		for li, lp := range lists {
			for i := 0; i < len(*lp); i++ {
				if li >= 2 && (*lp)[i].K == "ret" {
					continue // keep function bodies well-formed (an empty body is another story)
				}
				if keepLast[lp] && i == len(*lp)-1 {
					continue
				}
				old := *lp
				nw := append(append([]*c02_ct{}, old[:i]...), old[i+1:]...)
				*lp = nw
				if bad(m) {
					changed = true
					i--
				} else {
					*lp = old
				}
			}
		}
		cur = m
		if !changed {
			break
		}
	}
	return cur
}

// ---------------------------------------------------------------------------------------
// directed cases: the call path differs from the definition path

func c02Directed() []*c02Case {
	mk := func(label string, obs []string, main ...*c02_ct) *c02Case {
		return &c02Case{main: main, obs: obs, label: label, gen: &c02Gen{routes: map[string]int{}}}
	}
	abc := c02_cFn("f", []string{"a"}, c02_cRet(c02_cFn("_", []string{"b"}, c02_cRet(c02_cFn("_", []string{"c"}, c02_cRet(c02_cAdd(c02_cAdd(c02_cV("a"), c02_cV("b")), c02_cV("c"))))))))
	outer := c02_cFn("outer", nil, c02_cD("x", c02_cI(10)), c02_cRet(c02_cFn("_", nil, c02_cRet(c02_cFn("_", nil, c02_cRet(c02_cV("x")))))))
	counter := c02_cFn("mk", nil, c02_cD("n", c02_cI(0)), c02_cRet(c02_cFn("_", nil, c02_cRet(c02_cFn("_", nil, c02_cA("n", c02_cAdd(c02_cV("n"), c02_cI(1))), c02_cRet(c02_cV("n")))))))
	return []*c02Case{
		mk("f(1)(2)(3)", []string{"r"}, abc, c02_cD("r", c02_cCall(c02_cCall(c02_cCall(c02_cV("f"), c02_cI(1)), c02_cI(2)), c02_cI(3)))),
		mk("outer()()()", []string{"r"}, outer, c02_cD("r", c02_cCall(c02_cCall(c02_cCall(c02_cV("outer")))))),
		mk("inner made under another caller", []string{"r"}, outer,
			c02_cFn("w", []string{"q"}, c02_cD("y", c02_cI(77)), c02_cRet(c02_cCall(c02_cV("q")))),
			c02_cD("m", c02_cCall(c02_cV("outer"))), c02_cD("k", c02_cCall(c02_cV("w"), c02_cV("m"))), c02_cD("r", c02_cCall(c02_cV("k")))),
		mk("counter at depth 2, two makers share a stale slot", []string{"r1", "r2", "r3"}, counter,
			c02_cFn("w", []string{"q"}, c02_cD("z", c02_cI(40)), c02_cRet(c02_cCall(c02_cV("q")))),
			c02_cD("m1", c02_cCall(c02_cV("mk"))), c02_cD("m2", c02_cCall(c02_cV("mk"))),
			c02_cD("c1", c02_cCall(c02_cV("w"), c02_cV("m1"))), c02_cD("c2", c02_cCall(c02_cV("w"), c02_cV("m2"))),
			c02_cD("r1", c02_cCall(c02_cV("c1"))), c02_cD("r2", c02_cCall(c02_cV("c1"))), c02_cD("r3", c02_cCall(c02_cV("c2")))),
		mk("depth 2 while the ancestors are on the stack (works)", []string{"r"},
			c02_cFn("f", []string{"a"}, c02_cD("g", c02_cFn("_", []string{"b"}, c02_cD("h", c02_cFn("_", []string{"c"}, c02_cRet(c02_cAdd(c02_cAdd(c02_cV("a"), c02_cV("b")), c02_cV("c"))))), c02_cRet(c02_cCall(c02_cV("h"), c02_cI(3))))), c02_cRet(c02_cCall(c02_cV("g"), c02_cI(2)))),
			c02_cD("r", c02_cCall(c02_cV("f"), c02_cI(1)))),
		mk("depth 2 inner made in list.map callback", []string{"r"},
			c02_cFn("f", []string{"a"}, c02_cRet(c02_cFn("_", []string{"b"}, c02_cRet(c02_cFn("_", nil, c02_cRet(c02_cAdd(c02_cV("a"), c02_cV("b")))))))),
			c02_cD("g", c02_cCall(c02_cV("f"), c02_cI(5))), c02_cD("hs", c02_cR("map", c02_cL(c02_cI(1), c02_cI(2)), c02_cV("g"))), c02_cD("r", c02_cCall(c02_cX(c02_cV("hs"), 1)))),
		mk("depth 2 inner made in a spawned call", []string{"r"},
			c02_cFn("f", []string{"a"}, c02_cRet(c02_cFn("_", []string{"b"}, c02_cRet(c02_cFn("_", nil, c02_cRet(c02_cAdd(c02_cV("a"), c02_cV("b")))))))),
			c02_cD("g", c02_cCall(c02_cV("f"), c02_cI(5))), c02_cD("h", c02_cR("spawn", c02_cV("g"), c02_cI(2))), c02_cD("r", c02_cCall(c02_cV("h")))),
	}
}

// directed cases about the statement forms that read/write a captured binding.  Every write
// site of the compiler (`=`, compound, postfix, tuple `=`) and the tuple `:=` declaration is
// exercised on bindings whose slot in the defining function differs from their position in the
// closure's free list, and the effect is observed through a SIBLING closure sharing the bindings.
func c02DirectedForms() []*c02Case {
	mk := func(label string, obs []string, main ...*c02_ct) *c02Case {
		return &c02Case{main: main, obs: obs, label: label, forms: true, gen: &c02Gen{routes: map[string]int{}}}
	}
	V, I, L := c02_cV, c02_cI, c02_cL
	fn := func(ps []string, body ...*c02_ct) *c02_ct { return c02_cFn("_", ps, body...) }
	get := func(xs ...string) *c02_ct {
		es := make([]*c02_ct, len(xs))
		for i, x := range xs {
			es[i] = V(x)
		}
		return fn(nil, c02_cRet(L(es...)))
	}
	// factory(seed) { lo := seed; hi := seed + 10; <w := writer>; return [w, get] }
	factory := func(writer *c02_ct) *c02_ct {
		return c02_cFn("pair", []string{"seed"},
			c02_cD("lo", V("seed")), c02_cD("hi", c02_cAdd(V("seed"), I(10))),
			c02_cD("w", writer), c02_cD("g", get("lo", "hi")),
			c02_cRet(L(V("w"), V("g"))))
	}
	use := func(calls int) []*c02_ct {
		out := []*c02_ct{c02_cD("p", c02_cCall(V("pair"), I(1))), c02_cD("q", c02_cCall(V("pair"), I(5)))}
		for i := 0; i < calls; i++ {
			out = append(out, c02_cD(fmt.Sprintf("r%d", i), c02_cCall(c02_cX(V("p"), 0))), c02_cD(fmt.Sprintf("s%d", i), c02_cCall(c02_cX(V("p"), 1))))
		}
		return append(out, c02_cD("t", c02_cCall(c02_cX(V("q"), 1))))
	}
	obs := []string{"r0", "s0", "r1", "s1", "t"}
	prog := func(writer *c02_ct, more ...*c02_ct) []*c02_ct {
		return append(append([]*c02_ct{factory(writer)}, use(2)...), more...)
	}
	return []*c02Case{
		mk("tuple = swaps two captured bindings", obs, prog(fn(nil, c02_cMA([]string{"lo", "hi"}, L(V("hi"), V("lo"))), c02_cRet(L(V("lo"), V("hi")))))...),
		mk("tuple = to captured bindings, names in the other order", obs, prog(fn(nil, c02_cMA([]string{"hi", "lo"}, L(c02_cAdd(V("hi"), I(1)), c02_cAdd(V("lo"), I(2)))), c02_cRet(I(0))))...),
		mk("tuple = to one captured binding and the writer's own local", obs, prog(fn(nil, c02_cD("own", I(0)), c02_cMA([]string{"own", "hi"}, L(V("lo"), c02_cAdd(V("hi"), I(3)))), c02_cRet(V("own"))))...),
		mk("tuple = mixing a global, a captured binding and an own local", append(obs, "n"),
			append([]*c02_ct{c02_cD("n", I(0))}, prog(fn(nil, c02_cD("own", I(0)), c02_cMA([]string{"n", "lo", "own"}, L(c02_cAdd(V("n"), I(1)), c02_cAdd(V("lo"), I(1)), V("hi"))), c02_cRet(V("own"))))...)...),
		mk("+= and -= on captured bindings", obs, prog(fn(nil, c02_cOp("+=", "hi", V("lo")), c02_cOp("-=", "lo", I(1)), c02_cRet(L(V("lo"), V("hi")))))...),
		mk("++ and -- on captured bindings", obs, prog(fn(nil, c02_cPost("++", "hi"), c02_cPost("--", "lo"), c02_cRet(L(V("lo"), V("hi")))))...),
		mk("writer called by list.each and try", []string{"s", "t"},
			c02_cFn("stats", nil, c02_cD("count", I(0)), c02_cD("sum", I(0)), c02_cD("last", I(0)),
				c02_cD("add", fn([]string{"a"}, c02_cA("last", V("a")), c02_cMA([]string{"count", "sum"}, L(c02_cAdd(V("count"), I(1)), c02_cAdd(V("sum"), V("a")))), c02_cRet(I(0)))),
				c02_cD("rep", get("count", "sum", "last")), c02_cRet(L(V("add"), V("rep")))),
			c02_cD("p", c02_cCall(V("stats"))), c02_cD("o", c02_cR("each", L(I(5), I(6), I(7)), c02_cX(V("p"), 0))),
			c02_cD("u", c02_cR("try", fn(nil, c02_cRet(c02_cCall(c02_cX(V("p"), 0), I(10)))))),
			c02_cD("s", c02_cCall(c02_cX(V("p"), 1))), c02_cD("q", c02_cCall(V("stats"))), c02_cD("t", c02_cCall(c02_cX(V("q"), 1)))),
		mk("bindings declared by tuple := and captured", []string{"r", "s", "t"},
			c02_cFn("mk3", []string{"a"}, c02_cMD([]string{"x", "y", "z"}, L(V("a"), c02_cAdd(V("a"), I(1)), c02_cAdd(V("a"), I(2)))),
				c02_cD("w", fn(nil, c02_cMA([]string{"z", "x"}, L(V("x"), V("y"))), c02_cPost("++", "y"), c02_cRet(I(0)))),
				c02_cD("g", get("x", "y", "z")), c02_cRet(L(V("w"), V("g")))),
			c02_cD("p", c02_cCall(V("mk3"), I(1))), c02_cD("r", c02_cCall(c02_cX(V("p"), 1))), c02_cD("u", c02_cCall(c02_cX(V("p"), 0))),
			c02_cD("s", c02_cCall(c02_cX(V("p"), 1))), c02_cD("u2", c02_cCall(c02_cX(V("p"), 0))), c02_cD("t", c02_cCall(c02_cX(V("p"), 1)))),
		func() *c02Case {
			// frames with more than DefaultFrameLocals (8) locals keep them in extendedLocals: every
			// activation must get its own storage (two counters from consecutive calls of one factory;
			// an unrelated many-locals call between making a closure and using it)
			wide := func(prefix string, n int, seed *c02_ct) []*c02_ct {
				out := []*c02_ct{}
				for i := 0; i < n; i++ {
					out = append(out, c02_cD(fmt.Sprintf("%s%d", prefix, i), c02_cAdd(seed, I(int64(i)))))
				}
				return out
			}
			mkc := c02_cFn("counter", []string{"a"}, append(wide("w", 9, I(0)),
				c02_cD("total", c02_cAdd(V("a"), V("w0"))),
				c02_cRet(fn(nil, c02_cPost("++", "total"), c02_cMA([]string{"w1", "w2"}, L(V("w2"), V("w1"))), c02_cRet(L(V("total"), V("w1"), V("w2"))))))...)
			busy := c02_cFn("busy", []string{"b"}, append(wide("p", 10, V("b")), c02_cRet(c02_cAdd(V("p0"), V("p9"))))...)
			return mk("two closures from a frame with more than 8 locals, and a many-locals call in between", []string{"r1", "r2", "r3", "r4", "s", "r5", "r6"},
				mkc, busy, c02_cD("c1", c02_cCall(V("counter"), I(10))), c02_cD("c2", c02_cCall(V("counter"), I(100))),
				c02_cD("r1", c02_cCall(V("c1"))), c02_cD("r2", c02_cCall(V("c2"))), c02_cD("r3", c02_cCall(V("c1"))), c02_cD("r4", c02_cCall(V("c2"))),
				c02_cD("c3", c02_cCall(V("counter"), I(1000))), c02_cD("s", c02_cCall(V("busy"), I(1))),
				c02_cD("r5", c02_cCall(V("c3"))), c02_cD("r6", c02_cCall(V("c1"))))
		}(),
		mk("tuple = whose value has the wrong length, inside try", []string{"r", "s"},
			c02_cFn("mk2", nil, c02_cD("x", I(1)), c02_cD("y", I(2)),
				c02_cD("w", fn(nil, c02_cMA([]string{"x", "y"}, L(I(7), I(8), I(9))), c02_cRet(I(0)))),
				c02_cD("g", get("x", "y")), c02_cRet(L(V("w"), V("g")))),
			c02_cD("p", c02_cCall(V("mk2"))), c02_cD("r", c02_cR("try", c02_cX(V("p"), 0), I(42))), c02_cD("s", c02_cCall(c02_cX(V("p"), 1)))),
	}
}

// directed cases about block scopes: a closure made in a block (every kind) leaves it through a
// variable declared outside, the enclosing function then declares further variables (behind the
// block, in sibling blocks, in later loops), and the closure and the new variables are read
// and written: each must keep its own value.
func c02DirectedBlocks() []*c02Case {
	mk := func(label string, obs []string, main ...*c02_ct) *c02Case {
		return &c02Case{main: main, obs: obs, label: label, forms: true, gen: &c02Gen{routes: map[string]int{}}}
	}
	V, I, L, D, A, Ret := c02_cV, c02_cI, c02_cL, c02_cD, c02_cA, c02_cRet
	fn := func(ps []string, body ...*c02_ct) *c02_ct { return c02_cFn("_", ps, body...) }
	zero := func() *c02_ct { return fn(nil, Ret(I(0))) }
	get := func(x string) *c02_ct { return fn(nil, Ret(V(x))) }
	bump := func(x string, by int64) *c02_ct { return fn(nil, c02_cOp("+=", x, I(by)), Ret(V(x))) }
	call := func(f string) *c02_ct { return c02_cCall(V(f)) }
	ss := func(xs ...*c02_ct) []*c02_ct { return xs }
	run := func(f string) []*c02_ct { return ss(D("r", c02_cCall(V(f)))) }
	return []*c02Case{
		mk("block: closure leaves an if body, a sibling if body declares a variable", []string{"r"},
			append(ss(c02_cFn("a", nil,
				D("get", zero()),
				c02_cIf(I(1), ss(D("secret", I(42)), A("get", get("secret"))), nil),
				c02_cIf(I(1), ss(D("other", I(7))), nil),
				Ret(call("get")))), run("a")...)...),
		mk("block: closure writes its if-body variable while a later loop declares variables", []string{"r"},
			append(ss(c02_cFn("c", nil,
				D("bump", zero()),
				c02_cIf(I(1), ss(D("n", I(0)), A("bump", bump("n", 100))), nil),
				D("acc", I(0)),
				c02_cLoop("for3", []string{"i"}, 3, nil, D("sq", c02_cAdd(V("i"), V("i"))), D("t", call("bump")), A("acc", c02_cAdd(V("acc"), V("sq")))),
				Ret(L(V("acc"), call("bump"))))), run("c")...)...),
		mk("block: closure leaves an else body, the function declares variables behind the if", []string{"r"},
			append(ss(c02_cFn("a", []string{"p"},
				D("get", zero()), D("set", zero()),
				c02_cIf(V("p"), ss(D("x", I(1))), ss(D("y", I(20)), A("get", get("y")), A("set", bump("y", 5)))),
				D("later", I(300)), D("more", I(4000)),
				D("s", call("set")),
				Ret(L(call("get"), V("later"), V("more"), V("s"))))), D("r", c02_cCall(V("a"), I(0))))...),
		mk("block: closures leave two switch cases and the default", []string{"r", "s", "t"},
			c02_cFn("a", []string{"p"},
				D("get", zero()),
				c02_cSw(V("p"),
					c02_cCase(1, D("one", I(11)), A("get", get("one"))),
					c02_cCase(2, D("two", I(22)), A("get", bump("two", 1))),
					c02_cDefault(D("dflt", I(33)), A("get", get("dflt")))),
				D("after", c02_cAdd(V("p"), I(1000))),
				c02_cIf(I(1), ss(D("inner", I(5000))), nil),
				Ret(L(call("get"), V("after")))),
			D("r", c02_cCall(V("a"), I(1))), D("s", c02_cCall(V("a"), I(2))), D("t", c02_cCall(V("a"), I(7)))),
		mk("block: the init variable and a body variable of a one-iteration for loop are captured", []string{"r"},
			append(ss(c02_cFn("a", nil,
				D("gi", zero()), D("gb", zero()),
				c02_cLoop("for3", []string{"i"}, 1, nil, D("body", I(50)), A("gi", get("i")), A("gb", bump("body", 1))),
				D("u", I(600)), D("w", I(7000)),
				Ret(L(call("gi"), call("gb"), V("u"), V("w"), call("gb"))))), run("a")...)...),
		mk("block: range, for-in, condition and bare loops with one iteration", []string{"r"},
			append(ss(c02_cFn("a", nil,
				D("g1", zero()), D("g2", zero()), D("g3", zero()), D("g4", zero()), D("k", I(0)),
				c02_cLoop("range2", []string{"i", "x"}, 0, []int64{8}, D("b1", c02_cAdd(V("x"), V("i"))), A("g1", get("b1"))),
				c02_cLoop("forin", []string{"y"}, 0, []int64{9}, D("b2", V("y")), A("g2", bump("b2", 10))),
				c02_cLoop("cond", []string{"k"}, 1, nil, D("b3", I(30)), A("g3", get("b3")), c02_cPost("++", "k")),
				c02_cLoop("once", nil, 1, nil, D("b4", I(40)), A("g4", get("b4"))),
				c02_cLoop("range1", []string{"j"}, 2, nil, D("b5", V("j"))),
				D("z1", I(100)), D("z2", I(200)), D("z3", I(300)), D("z4", I(400)),
				Ret(L(call("g1"), call("g2"), call("g3"), call("g4"), V("z1"), V("z2"), V("z3"), V("z4"), call("g2"))))), run("a")...)...),
		mk("block: nested blocks, the closure leaves three of them", []string{"r"},
			append(ss(c02_cFn("a", []string{"p"},
				D("get", zero()),
				c02_cIf(V("p"), ss(D("l1", I(1)),
					c02_cSw(V("l1"), c02_cCase(1, D("l2", I(2)),
						c02_cLoop("once", nil, 1, nil, D("l3", I(3)), A("get", fn(nil, Ret(c02_cAdd(c02_cAdd(V("l1"), V("l2")), V("l3"))))))))), nil),
				c02_cIf(V("p"), ss(D("m1", I(10)), c02_cIf(V("p"), ss(D("m2", I(20)), D("m3", I(30))), nil)), nil),
				D("n1", I(100)),
				Ret(L(call("get"), V("n1"))))), D("r", c02_cCall(V("a"), I(1))))...),
		mk("block: a write to a variable declared behind the block is not seen through the closure", []string{"r"},
			append(ss(c02_cFn("a", nil,
				D("get", zero()),
				c02_cIf(I(1), ss(D("mine", I(1)), A("get", get("mine"))), nil),
				D("later", I(2)),
				A("later", I(3)), c02_cOp("+=", "later", I(10)),
				D("set", fn([]string{"q"}, A("later", V("q")), Ret(V("later")))),
				D("s", c02_cCall(V("set"), I(99))),
				Ret(L(call("get"), V("later"), V("s"))))), run("a")...)...),
		mk("block: a named function declared in a block captures a block variable", []string{"r"},
			append(ss(c02_cFn("a", nil,
				D("keep", zero()),
				c02_cIf(I(1), ss(D("bv", I(5)), c02_cFn("inner", nil, c02_cPost("++", "bv"), Ret(V("bv"))), A("keep", fn(nil, Ret(c02_cCall(V("inner")))))), nil),
				D("x1", I(70)), D("x2", I(80)),
				Ret(L(call("keep"), call("keep"), V("x1"), V("x2"))))), run("a")...)...),
	}
}

// ---------------------------------------------------------------------------------------
// the slot allocator on its own: a function whose body is a generated tree of blocks (every
// kind) and declarations `vN := <int>`; the local slots the REAL compiler gave the variables
// (the STORE_FAST operands in instruction order, first occurrences) against `FScope.claims`
// of the model for the same open / close / declare sequence; LocalsCount against the final count.

type c02SlotGen struct {
	r      *RNG
	ctr    int
	ops    []string
	closed bool // a block has been closed
	after  int  // declarations made after some block was closed
	kinds  map[string]int
}

func (g *c02SlotGen) decl(prefix string) string {
	g.ctr++
	name := fmt.Sprintf("%s%d", prefix, g.ctr)
	g.ops = append(g.ops, "d:"+name)
	if g.closed {
		g.after++
	}
	return name
}
func (g *c02SlotGen) open()  { g.ops = append(g.ops, "o") }
func (g *c02SlotGen) close() { g.ops = append(g.ops, "c"); g.closed = true }

func (g *c02SlotGen) items(depth int) []string {
	var out []string
	for i, n := 0, g.r.Intn(4); i < n; i++ {
		if depth >= 3 || g.r.Chance(45) {
			out = append(out, fmt.Sprintf("%s := %d", g.decl("v"), g.r.Intn(100)))
			continue
		}
		out = append(out, g.block(depth+1))
	}
	return out
}

func (g *c02SlotGen) body(depth int) string {
	g.open()
	s := "{ " + strings.Join(g.items(depth), "; ") + " }"
	g.close()
	return s
}

func (g *c02SlotGen) block(depth int) string {
	kind := Pick(g.r, c02BlockKinds)
	g.kinds[kind]++
	switch kind {
	case "if":
		return "if " + strconv.Itoa(g.r.Intn(2)) + " " + g.body(depth)
	case "ifelse":
		t := g.body(depth)
		return "if " + strconv.Itoa(g.r.Intn(2)) + " " + t + " else " + g.body(depth)
	case "switch":
		var sb strings.Builder
		sb.WriteString("switch " + strconv.Itoa(g.r.Intn(4)) + " {\n")
		n := 1 + g.r.Intn(3)
		for i := 0; i < n; i++ {
			g.open()
			sb.WriteString(fmt.Sprintf("case %d: ", i) + strings.Join(g.items(depth), "; ") + "\n")
			g.close()
		}
		if g.r.Bool() {
			g.open()
			sb.WriteString("default: " + strings.Join(g.items(depth), "; ") + "\n")
			g.close()
		}
		sb.WriteString("}")
		return sb.String()
	case "for3":
		g.open()
		i := g.decl("i")
		s := fmt.Sprintf("for %s := 0; %s < %d; %s++ %s", i, i, g.r.Intn(3), i, g.body(depth))
		g.close()
		return s
	case "range1":
		g.open()
		i := g.decl("i")
		s := fmt.Sprintf("for %s := range %d %s", i, g.r.Intn(3), g.body(depth))
		g.close()
		return s
	case "range2":
		g.open()
		i := g.decl("i")
		x := g.decl("x")
		s := fmt.Sprintf("for %s, %s := range [4, 5] %s", i, x, g.body(depth))
		g.close()
		return s
	case "forin":
		g.open()
		x := g.decl("x")
		s := fmt.Sprintf("for %s in [6] %s", x, g.body(depth))
		g.close()
		return s
	case "cond":
		g.open()
		s := "for 0 " + g.body(depth)
		g.close()
		return s
	default: // once
		g.open()
		g.open()
		its := append(g.items(depth), "break")
		g.close()
		g.close()
		return "for { " + strings.Join(its, "; ") + " }"
	}
}

func c02SlotCases(e *Env, n int) {
	rng := e.Rng.Fork()
	for i := 0; i < n; i++ {
		g := &c02SlotGen{r: rng.Fork(), kinds: map[string]int{}}
		nparams := g.r.Intn(3)
		named := g.r.Bool()
		ps := []string{"p", "q"}[:nparams]
		items := g.items(0)
		hdr := "f := func(" + strings.Join(ps, ", ") + ")"
		count := nparams
		if named {
			hdr = "func f(" + strings.Join(ps, ", ") + ")"
			count++
		}
		src := hdr + " { " + strings.Join(append(items, "return 0"), "; ") + " }\nf"
		real, realCount, cerr := c02RealSlots(src)
		reply := e.O.Ask(append([]string{"C02", "slots", strconv.Itoa(count)}, g.ops...)...)
		f := strings.Split(reply, "\t")
		e.R.Case(src, g.after > 0)
		for k, c := range g.kinds {
			for j := 0; j < c; j++ {
				e.R.H("slot_sequences_block_kinds", k)
			}
		}
		e.R.H("slot_sequences_declarations_after_a_closed_block", strconv.Itoa(min(g.after, 8)))
		if len(f) != 3 || f[0] != "ok" {
			e.R.Mismatch(src, real, reply, "oracle reply to the slots request")
			continue
		}
		if cerr != "" {
			e.R.Mismatch(src, "compile: "+cerr, f[1], "the real compiler rejects a generated block program")
			continue
		}
		if real != f[1] || strconv.Itoa(realCount) != f[2] {
			e.R.Mismatch(src, fmt.Sprintf("slots %s, LocalsCount %d", real, realCount), fmt.Sprintf("slots %s, count %s", f[1], f[2]),
				"local slots of the variables in declaration order (STORE_FAST operands of the real bytecode vs FScope.claims): a block variable keeps its slot after the block is closed")
		}
	}
}

// the STORE_FAST operands of the first function's code in instruction order (first occurrences)
func c02RealSlots(src string) (slots string, localsCount int, cerr string) {
	defer func() {
		if p := recover(); p != nil {
			cerr = fmt.Sprintf("panic: %v", p)
		}
	}()
	prog, err := parser.Parse(context.Background(), src)
	if err != nil {
		return "", 0, err.Error()
	}
	code, err := compiler.Compile(prog)
	if err != nil {
		return "", 0, err.Error()
	}
	all := code.Flatten()
	if len(all) < 2 {
		return "", 0, "no function code"
	}
	cc := all[1]
	seen := map[int]bool{}
	var ss []string
	for i := 0; i < cc.InstructionCount(); {
		o := cc.Instruction(i)
		if o == op.StoreFast {
			a := int(cc.Instruction(i + 1))
			if !seen[a] {
				seen[a] = true
				ss = append(ss, strconv.Itoa(a))
			}
		}
		i += 1 + op.GetInfo(o).OperandCount
	}
	if len(ss) == 0 {
		return "-", cc.LocalsCount(), ""
	}
	return strings.Join(ss, ","), cc.LocalsCount(), ""
}

func c02DirectedHost() *c02Case {
	// the same f, every step made from Go: vm.Get("f") -> Call(1) -> Call(2) -> Call(3)
	abc := c02_cFn("f", []string{"a"}, c02_cRet(c02_cFn("_", []string{"b"}, c02_cRet(c02_cFn("_", []string{"c"}, c02_cRet(c02_cAdd(c02_cAdd(c02_cV("a"), c02_cV("b")), c02_cV("c"))))))))
	return &c02Case{main: []*c02_ct{abc}, host: []*c02_ct{c02_cD("h1", c02_cCall(c02_cV("f"), c02_cI(1))), c02_cD("h2", c02_cCall(c02_cV("h1"), c02_cI(2))), c02_cD("h3", c02_cCall(c02_cV("h2"), c02_cI(3)))},
		obs: []string{"h3"}, label: "f(1)(2)(3) from Go", gen: &c02Gen{routes: map[string]int{}}}
}

func c02_runC02(e *Env) {
	e.R.Rule = "closure programs: 1-3 factory functions with function literals nested up to 5 deep, each literal reading/writing " +
		"generated enclosing bindings (own, any enclosing function, global; shadowing parameter names) through every statement form that " +
		"loads or stores a variable (`x`, `x = e`, `x += e`, `x -= e`, `x++`, `x--`, `a, b = [..]` with 2-3 targets in a generated order, " +
		"locals declared by `x := e` and `a, b := [..]`), escaping by return, list, map, " +
		"argument, list.map/filter/each, sorted, try (with failing first thunk), spawn().wait(), go+channel, vm.Get+vm.Call from Go, " +
		"then 3-9 call events in a generated order; 70% of programs are generated so that no capture reaches past the literal's own frame. " +
		"Inside functions about a quarter of the statements are block statements (if, if/else, switch with 1-3 cases and default, the loop forms " +
		"`for i := 0; i < n; i++`, `for k < n`, `for i := range n`, `for i, x := range [..]`, `for x in [..]`, `for { ..; break }` with 0-3 iterations, nested up to 3 deep) " +
		"whose bodies declare variables, contain any generated statement and give a closure made there to a variable declared outside the block, " +
		"after which the function declares further variables (a closure that leaves a loop of more than one iteration does not refer to variables declared in that loop: " +
		"recorded finding C01-loop-body-variable-shared). A second stream: functions that are trees of blocks and declarations only, the real STORE_FAST operands and " +
		"LocalsCount against the model's slot allocator (non-trivial: a declaration follows a closed block). " +
		"A third stream (c02scn.go): 1-3 maker functions mk(a, z) that own 1-3 int variables (at most / more than 8 local slots), create closures over them " +
		"(by themselves, or in a callee two or three function levels further in, directly / through list.map — always while the lexical ancestors are the topmost frames), " +
		"keep writing and reading the variables and calling the closures afterwards, let a closure escape to a global, and fail at 1-2 generated points when z selects them " +
		"(error(), a failing nested call, a nested call that made closures, a failing list.each / list.map / filter callback, another maker that fails); the top level is 4-10 attempts " +
		"(try at the top level with 0-2 wrapper frames, a function containing the try, plain calls, vm.Call from Go where a failed call is recorded as -1 and the VM is used further) " +
		"mixing failing and succeeding attempts at equal and different call depths, and uses of the closures the successful attempts returned. " +
		"A fourth stream: operation sequences of the frame machine (oracle request frames) against the variable machine and a Go reference (non-trivial: a cell exists and an activation was aborted or its owner stored after the capture). " +
		"A fifth stream (c02rec.go): 1-2 recursive functions f(n, a, acc) — referring to themselves through the self slot of a named function, through a global, or as a named function nested in another function — " +
		"whose every level owns 1-2 int variables (at most / more than 8 local slots), creates 1-2 closures over them and over its parameters (by itself, in a callee, in a list.map callback), writes the variables and calls the closures afterwards, " +
		"appends the closures to the list handed to the next level (and to a global list), and calls itself in tail position (`if n { return f(n + -1, …) }`, as the last statement after a base case, through a local alias), " +
		"not in tail position (result used afterwards, `return f(…) + […]`), through a partner function (mutual recursion) or from inside a list.map callback / try thunk, to depth 0-4; started by a plain call, a wrapper, try, a spawned thread, a list.map callback or vm.Call from Go; " +
		"then 3-9 uses of the closures of the different levels (direct, list.map, the global list, from Go); recursion chains of depth 1-12 on the frame machine (oracle request frames: the loads must be the values the levels stored). " +
		"A case is one program (+ host steps); distinct by its text; non-trivial when the real bytecode creates a cell and reads or " +
		"writes a free variable"
	n := 6000
	if !e.Quick {
		n = 100000
	}
	for _, c := range append(append(append(append(c02Directed(), c02DirectedHost()), c02DirectedForms()...), c02DirectedBlocks()...), c02DirectedRecursion()...) {
		v := c02RunCase(e, c, true)
		c02Flush()
		e.R.H("directed", c.label+" => "+map[bool]string{true: "violates", false: "ok"}[v.spec != ""])
	}
	nSlots := 400
	if !e.Quick {
		nSlots = 5000
	}
	c02SlotCases(e, nSlots)
	rng := e.Rng.Fork()
	// third stream (c02scn.go): error exits after captures, owners that go on after a callee captured
	nScn, scnBudget := 1500, 40*time.Second
	if !e.Quick {
		nScn, scnBudget = 15000, 4*time.Minute
	}
	scnRng, frRng := e.Rng.Fork(), e.Rng.Fork()
	nFr := 400
	if !e.Quick {
		nFr = 5000
	}
	c02FrameCases(e, frRng, nFr)
	c02ScenarioCases(e, scnRng, nScn, scnBudget)
	// fifth stream (c02rec.go): functions that call themselves and create closures at every level
	nRec, recBudget := 700, 30*time.Second
	if !e.Quick {
		nRec, recBudget = 8000, 4*time.Minute
	}
	recRng, chainRng := e.Rng.Fork(), e.Rng.Fork()
	nChain := 120
	if !e.Quick {
		nChain = 1500
	}
	c02ChainCases(e, chainRng, nChain)
	c02RecursionCases(e, recRng, nRec, recBudget)
	shrunk := 0
	bad := 0
	start := time.Now()
	budget := 130 * time.Second
	if !e.Quick {
		budget = 25 * time.Minute
	}
	for i := 0; i < n; i++ {
		if bad >= 25 {
			e.R.Note("stopped after %d cases: %d cases already disagree with the model or the specification", i, bad)
			break
		}
		if time.Since(start) > budget {
			e.R.Note("stopped after %d of %d cases: wall budget of the tier used up", i, n)
			break
		}
		r := rng.Fork()
		c := c02Generate(r, r.Chance(70))
		v := c02RunCase(e, c, true)
		if v.mismatch != "" || (v.spec != "" && v.finding == "") {
			bad++
		}
		if (v.mismatch != "" || (v.spec != "" && v.finding == "")) && shrunk < 3 {
			shrunk++
			wantMis := v.spec == "" || v.finding != ""
			small := c02Shrink(c, func(q *c02Case) bool {
				w := c02RunCase(e, q, false)
				if wantMis {
					return w.mismatch != "" && !strings.HasPrefix(w.mismatch, "oracle reply") && !strings.HasPrefix(w.mismatch, "the real compiler")
				}
				return w.spec != "" && w.finding == ""
			})
			w := c02RunCase(e, small, false)
			e.R.Note("shrunk failing case #%d:\n%s\n=> mismatch=%q spec=%q", i, c02Key(small), w.mismatch, w.spec)
			if w.spec != "" && w.finding == "" {
				e.R.Spec(c02Key(small), "(shrunk from generated case #"+strconv.Itoa(i)+") "+w.spec, "")
			}
			if w.mismatch != "" {
				e.R.Mismatch(c02Key(small), "(shrunk from generated case #"+strconv.Itoa(i)+")", w.impl, w.mismatch)
			}
		}
		c02Flush()
	}
	for _, d := range c02Deferred {
		e.R.Spec(d[0], d[1], "")
	}
}

// ---------------------------------------------------------------------------------------
// crash isolation: the real code runs in a worker process.  A wrongly captured closure can
// recurse through spawn (every level a fresh VM: no frame limit applies, and clones do not
// watch the context), which no in-process timeout stops; the parent bounds the wait, kills
// the worker and reports the case as `err hang`.

type c02Job struct {
	Main    []*c02_ct `json:"main"`
	Host    []*c02_ct `json:"host"`
	Obs     []string  `json:"obs"`
	HostTry bool      `json:"host_try"`
	Timeout int       `json:"timeout_ms"`
}

func c02WorkerMain(args []string) {
	go func() { // memory watchdog
		var ms runtime.MemStats
		for {
			time.Sleep(100 * time.Millisecond)
			runtime.ReadMemStats(&ms)
			if ms.HeapAlloc > 3<<30 {
				os.Exit(3)
			}
		}
	}()
	in := bufio.NewReaderSize(os.Stdin, 1<<20)
	out := bufio.NewWriter(os.Stdout)
	for {
		line, err := in.ReadBytes('\n')
		if err != nil {
			return
		}
		var j c02Job
		if err := json.Unmarshal(line, &j); err != nil {
			fmt.Fprintln(out, `{"outcome":"err worker","errText":"bad job"}`)
			out.Flush()
			continue
		}
		c := &c02Case{main: j.Main, host: j.Host, obs: j.Obs, hostTry: j.HostTry}
		r := c02RunReal(c, time.Duration(j.Timeout)*time.Millisecond)
		b, _ := json.Marshal(r)
		out.Write(b)
		out.WriteByte('\n')
		out.Flush()
		if r.Outcome == "err context" {
			// goroutines of the timed-out run may still be alive: start afresh
			os.Exit(0)
		}
	}
}

var c02Reruns int

type c02Worker struct {
	cmd   *exec.Cmd
	in    *bufio.Writer
	lines chan string
}

var c02W *c02Worker

func c02StartWorker() *c02Worker {
	cmd := exec.Command(os.Args[0], "c02-worker")
	stdin, _ := cmd.StdinPipe()
	stdout, _ := cmd.StdoutPipe()
	cmd.Stderr = nil
	if err := cmd.Start(); err != nil {
		return nil
	}
	w := &c02Worker{cmd: cmd, in: bufio.NewWriterSize(stdin, 1<<20), lines: make(chan string, 1)}
	go func() {
		rd := bufio.NewReaderSize(stdout, 1<<20)
		for {
			l, err := rd.ReadString('\n')
			if err != nil {
				close(w.lines)
				return
			}
			w.lines <- l
		}
	}()
	return w
}

func (w *c02Worker) kill() {
	w.cmd.Process.Kill()
	w.cmd.Wait()
}

// c02Exec runs the case on the real code inside the worker process.
func c02Exec(c *c02Case, timeout time.Duration) (r c02Real) {
	if os.Getenv("C02_INPROCESS") != "" {
		return c02RunReal(c, timeout)
	}
	r = c02ExecOnce(c, timeout)
	if r.Outcome == "err hang" {
		// the worker may have been brought down by goroutines an EARLIER case left behind:
		// only a case that also kills a fresh worker is blamed
		r = c02ExecOnce(c, timeout)
	}
	return r
}

func c02ExecOnce(c *c02Case, timeout time.Duration) (r c02Real) {
	if c02W == nil {
		c02W = c02StartWorker()
		if c02W == nil {
			return c02Real{Outcome: "err worker", ErrText: "cannot start the worker process"}
		}
	}
	b, _ := json.Marshal(c02Job{Main: c.main, Host: c.host, Obs: c.obs, HostTry: c.hostTry, Timeout: int(timeout / time.Millisecond)})
	c02W.in.Write(b)
	c02W.in.WriteByte('\n')
	c02W.in.Flush()
	select {
	case l, ok := <-c02W.lines:
		if !ok {
			c02W.kill()
			c02W = nil
			return c02Real{Outcome: "err hang", ErrText: "the worker process died on this case (memory limit or fatal error)"}
		}
		if err := json.Unmarshal([]byte(l), &r); err != nil {
			return c02Real{Outcome: "err worker", ErrText: "bad reply: " + l}
		}
		if r.Outcome == "err context" {
			c02W.kill()
			c02W = nil
		}
		return r
	case <-time.After(timeout + 8*time.Second):
		c02W.kill()
		c02W = nil
		return c02Real{Outcome: "err hang", ErrText: "no answer from the run 8 s after its context expired (cancellation is not observed)"}
	}
}

func init() {
	// development aid: harness c02-eval < file.risor   (with concurrency enabled)
	childCommands["c02-eval"] = func(args []string) {
		src, _ := io.ReadAll(os.Stdin)
		for i := 0; i < 3; i++ {
			ctx, cancel := context.WithTimeout(context.Background(), 3*time.Second)
			v, err := risor.Eval(ctx, string(src), risor.WithConcurrency())
			cancel()
			o, t := c02Outcome(v, err)
			fmt.Println(o, t)
		}
	}
}
