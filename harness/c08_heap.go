package main

// C08 — HISTORIES over one Go object graph shared between host and script (Lean: C08/Heap.lean).
//
// A world is a handful of *c08_HNode objects (scalar fields, *struct fields, a struct held by
// value with a pointer inside, a slice and a map of *struct, a slice of structs) and 1-3 global
// names, several of which usually stand for the SAME Go object.  A history interleaves script
// reads and writes through proxies (paths of 1-3 fields, through list / map elements) with Go-side
// mutations (scalars in place, re-pointed pointer fields, fresh objects, replaced slices / maps /
// struct values).  After every step the whole Go heap is dumped (identities = positions in the
// world's object table) and the script's reads are turned into views (scalar value / identity of
// the object the proxy wraps).  The oracle runs the Impl model on the same history (must agree
// step by step) and judges the REAL trace with the Spec (every access re-resolves its path on the
// current heap; a script step may be rejected with an error, never panic, never answer with
// anything but what Go holds now; an accepted write must be exactly Go's write).
//
// Two ways of executing a history on the real code:
//   hist-api     one object.Proxy per global name, kept for the whole history; a script step is
//                the chain of GetAttr / GetItem / SetAttr calls the VM makes; Go's steps run
//                between them (host code between two evaluations on a reused proxy object)
//   hist-script  ONE risor.Eval of the whole history; Go's steps are made by a builtin or by a Go
//                method of the host object called from the script

import (
	"context"
	"fmt"
	"reflect"
	"strconv"
	"strings"

	"github.com/risor-io/risor/object"
)

type c08_HLeaf struct {
	X int
	N *c08_HNode
}

type c08_HNode struct {
	X  int
	Y  int
	P  *c08_HNode
	Q  *c08_HNode
	V  c08_HLeaf
	Ps []*c08_HNode
	M  map[string]*c08_HNode
	Vs []c08_HLeaf
}

// the host's own step, called from the script as a method of the host object
var c08_hookStep func(k int)

func (n *c08_HNode) Do(k int) {
	if c08_hookStep != nil {
		c08_hookStep(k)
	}
}

var (
	c08_hnodeT = reflect.TypeOf(c08_HNode{})
	c08_hnodeP = reflect.TypeOf((*c08_HNode)(nil))
)

// ---------------------------------------------------------------------------------------------
// world: object table and heap dump

type c08_world struct {
	objs   []*c08_HNode
	addrOf map[*c08_HNode]int
	roots  []int
}

func (w *c08_world) add(n *c08_HNode) int {
	a := len(w.objs)
	w.objs = append(w.objs, n)
	w.addrOf[n] = a
	return a
}

func (w *c08_world) ref(n *c08_HNode) string {
	if n == nil {
		return "(r -)"
	}
	a, ok := w.addrOf[n]
	if !ok {
		a = w.add(n) // an object the script allocated (g.P = {X: 1})
	}
	return "(r " + strconv.Itoa(a) + ")"
}

func (w *c08_world) leaf(l *c08_HLeaf) string {
	return "(st (i " + strconv.Itoa(l.X) + ") " + w.ref(l.N) + ")"
}

func c08_mkey(k int) string { return "k" + strconv.Itoa(k) }

func (w *c08_world) node(n *c08_HNode) string {
	var b strings.Builder
	fmt.Fprintf(&b, "(st (i %d) (i %d) %s %s %s (seq", n.X, n.Y, w.ref(n.P), w.ref(n.Q), w.leaf(&n.V))
	for _, p := range n.Ps {
		b.WriteString(" " + w.ref(p))
	}
	b.WriteString(") (seq")
	for k := 0; ; k++ {
		p, ok := n.M[c08_mkey(k)]
		if !ok {
			break
		}
		b.WriteString(" " + w.ref(p))
	}
	b.WriteString(") (seq")
	for i := range n.Vs {
		b.WriteString(" " + w.leaf(&n.Vs[i]))
	}
	b.WriteString("))")
	return b.String()
}

func (w *c08_world) dump() string {
	var b strings.Builder
	b.WriteString("(heap")
	for i := 0; i < len(w.objs); i++ { // objs may grow while dumping
		b.WriteString(" " + w.node(w.objs[i]))
	}
	b.WriteString(")")
	return b.String()
}

// clone: the same graph again (same addresses), for a second execution of the history
func (w *c08_world) clone() *c08_world {
	c := &c08_world{addrOf: map[*c08_HNode]int{}, roots: append([]int(nil), w.roots...)}
	for range w.objs {
		c.add(&c08_HNode{})
	}
	tr := func(p *c08_HNode) *c08_HNode {
		if p == nil {
			return nil
		}
		return c.objs[w.addrOf[p]]
	}
	for i, o := range w.objs {
		n := c.objs[i]
		n.X, n.Y, n.P, n.Q = o.X, o.Y, tr(o.P), tr(o.Q)
		n.V = c08_HLeaf{o.V.X, tr(o.V.N)}
		if o.Ps != nil {
			n.Ps = make([]*c08_HNode, len(o.Ps))
			for k, p := range o.Ps {
				n.Ps[k] = tr(p)
			}
		}
		if o.M != nil {
			n.M = map[string]*c08_HNode{}
			for k, p := range o.M {
				n.M[k] = tr(p)
			}
		}
		if o.Vs != nil {
			n.Vs = make([]c08_HLeaf, len(o.Vs))
			for k, l := range o.Vs {
				n.Vs[k] = c08_HLeaf{l.X, tr(l.N)}
			}
		}
	}
	return c
}

// ---------------------------------------------------------------------------------------------
// paths

type c08_pstep struct {
	idx  int
	kind byte   // 'f' field, 'i' list index, 'k' map key
	name string // field name
}

type c08_path []c08_pstep

func (p c08_path) model() string {
	var b strings.Builder
	b.WriteString("(p")
	for _, s := range p {
		b.WriteString(" " + strconv.Itoa(s.idx))
	}
	b.WriteString(")")
	return b.String()
}

func (p c08_path) script() string {
	var b strings.Builder
	for _, s := range p {
		switch s.kind {
		case 'f':
			b.WriteString("." + s.name)
		case 'i':
			b.WriteString("[" + strconv.Itoa(s.idx) + "]")
		default:
			b.WriteString("[\"" + c08_mkey(s.idx) + "\"]")
		}
	}
	return b.String()
}

// slot: Go's own resolution of root.path on the current state.  valid=false: Go could not
// evaluate the expression (nil pointer on the way, index out of range, missing key).
type c08_slot struct {
	valid bool
	v     reflect.Value // the slot (addressable unless it is a map element)
	mp    reflect.Value // for a map element: the map …
	key   reflect.Value // … and the key
	typ   reflect.Type
}

func c08_resolve(root *c08_HNode, p c08_path) c08_slot {
	cur := reflect.ValueOf(root).Elem()
	var s c08_slot
	s.valid = true
	for _, st := range p {
		if cur.Kind() == reflect.Pointer {
			if cur.IsNil() {
				return c08_slot{}
			}
			cur = cur.Elem()
		}
		s.mp, s.key = reflect.Value{}, reflect.Value{}
		switch cur.Kind() {
		case reflect.Struct:
			cur = cur.Field(st.idx)
		case reflect.Slice:
			if st.idx >= cur.Len() {
				return c08_slot{}
			}
			cur = cur.Index(st.idx)
		case reflect.Map:
			k := reflect.ValueOf(c08_mkey(st.idx))
			e := cur.MapIndex(k)
			if !e.IsValid() {
				return c08_slot{}
			}
			s.mp, s.key = cur, k
			cur = e
		default:
			return c08_slot{}
		}
	}
	s.v, s.typ = cur, cur.Type()
	return s
}

func (s c08_slot) set(x reflect.Value) {
	if s.mp.IsValid() {
		s.mp.SetMapIndex(s.key, x)
	} else {
		s.v.Set(x)
	}
}

// genPath: a random walk over the TYPES, following the current values where there are any.
// want: "int" | "ptr" | "agg".  fieldEnd: the last step must be a struct field (an attribute).
// valid: Go can evaluate the path now.
func (g *c08_gen) hpath(root *c08_HNode, want string, fieldEnd, needValid bool) (c08_path, bool) {
	for try := 0; try < 30; try++ {
		var p c08_path
		t := c08_hnodeT
		v := reflect.ValueOf(root).Elem()
		ok := false
		valid := true
	walk:
		for len(p) < 6 {
			if t.Kind() == reflect.Pointer { // follow the pointer
				t = t.Elem()
				if v.IsValid() && !v.IsNil() {
					v = v.Elem()
				} else {
					v = reflect.Value{}
					valid = false
				}
			}
			var st c08_pstep
			switch t.Kind() {
			case reflect.Struct:
				f := g.r.Intn(t.NumField())
				if t == c08_hnodeT && g.r.Chance(45) {
					f = Pick(g.r, []int{2, 2, 3, 4}) // P, Q, V: the struct-typed fields
				}
				st = c08_pstep{f, 'f', t.Field(f).Name}
				t = t.Field(f).Type
				if v.IsValid() {
					v = v.Field(f)
				}
			case reflect.Slice, reflect.Map:
				n := 0
				if v.IsValid() {
					n = v.Len()
				}
				if n == 0 && valid && !g.r.Chance(6) {
					break walk // nothing to index (rarely: index / key error)
				}
				if fieldEnd && t.Elem().Kind() == reflect.Struct && !g.r.Chance(25) {
					break walk // a write through an element of []struct: rarely (C08-slice-element-write-lost)
				}
				k := n
				if n > 0 && !g.r.Chance(4) {
					k = g.r.Intn(n)
				}
				if t.Kind() == reflect.Slice {
					st = c08_pstep{k, 'i', ""}
					if v.IsValid() && k < n {
						v = v.Index(k)
					} else {
						v, valid = reflect.Value{}, false
					}
				} else {
					st = c08_pstep{k, 'k', ""}
					if v.IsValid() && k < n {
						v = v.MapIndex(reflect.ValueOf(c08_mkey(k)))
					} else {
						v, valid = reflect.Value{}, false
					}
				}
				t = t.Elem()
			default:
				break walk
			}
			p = append(p, st)
			kind := "agg"
			switch t.Kind() {
			case reflect.Int:
				kind = "int"
			case reflect.Pointer:
				kind = "ptr"
			}
			if kind == want && (!fieldEnd || st.kind == 'f') {
				stop := kind == "int" || g.r.Chance(55)
				if kind == "ptr" && v.IsValid() && v.IsNil() && !g.r.Chance(5) {
					stop = true // do not walk through a nil pointer (rarely: C08-proxy-type-unchecked)
				}
				if stop {
					ok = true
					break
				}
			}
			if kind == "int" {
				break
			}
			if kind == "ptr" && v.IsValid() && v.IsNil() && !g.r.Chance(5) {
				break
			}
		}
		if ok && (valid || !needValid) && (valid || try > 3 || g.r.Chance(40)) {
			return p, true
		}
	}
	return nil, false
}

// ---------------------------------------------------------------------------------------------
// operations

type c08_hop struct {
	kind   string // get set link new gset gpoint grepl gnew
	r      int
	p      c08_path
	n      int      // set / gset: the value; new: X of the fresh struct
	r2     int      // link: source name
	p2     c08_path // link: source path
	target int      // gpoint: address or -1 (nil)
	repl   func(w *c08_world) reflect.Value
	replM  string // model text of the replacement
	freshX int
	freshM string
}

func (o *c08_hop) model() string {
	rp := strconv.Itoa(o.r) + " " + o.p.model()
	switch o.kind {
	case "get":
		return "(get " + rp + ")"
	case "set":
		return "(set " + rp + " " + strconv.Itoa(o.n) + ")"
	case "link":
		return "(link " + rp + " " + strconv.Itoa(o.r2) + " " + o.p2.model() + ")"
	case "new":
		return "(new " + rp + " " + c08_zeroNodeModel(o.n) + ")"
	case "gset":
		return "(gset " + rp + " " + strconv.Itoa(o.n) + ")"
	case "gpoint":
		if o.target < 0 {
			return "(gpoint " + rp + " -)"
		}
		return "(gpoint " + rp + " " + strconv.Itoa(o.target) + ")"
	case "grepl":
		return "(grepl " + rp + " " + o.replM + ")"
	}
	return "(gnew " + o.freshM + ")"
}

func c08_zeroNodeModel(x int) string {
	return "(st (i " + strconv.Itoa(x) + ") (i 0) (r -) (r -) (st (i 0) (r -)) (seq) (seq) (seq))"
}

func (o *c08_hop) isGo() bool { return o.kind[0] == 'g' && o.kind != "get" }

// goStep: the host mutates its own state
func (w *c08_world) goStep(o *c08_hop) string {
	return c08_recoverClass(func() string {
		if o.kind == "gnew" {
			w.add(&c08_HNode{X: o.freshX, Y: 7})
			return "done"
		}
		s := c08_resolve(w.objs[w.roots[o.r]], o.p)
		if !s.valid {
			return "error"
		}
		switch o.kind {
		case "gset":
			s.set(reflect.ValueOf(o.n))
		case "gpoint":
			if o.target < 0 {
				s.set(reflect.Zero(c08_hnodeP))
			} else {
				s.set(reflect.ValueOf(w.objs[o.target]))
			}
		case "grepl":
			s.set(o.repl(w))
		}
		return "done"
	})
}

func (w *c08_world) viewOf(o object.Object) string {
	switch o := o.(type) {
	case *object.Int:
		return "(v (i " + strconv.FormatInt(o.Value(), 10) + "))"
	case *object.Proxy:
		if n, ok := o.Interface().(*c08_HNode); ok {
			if n == nil {
				return "(v (r -))"
			}
			if a, ok := w.addrOf[n]; ok {
				return "(v (r " + strconv.Itoa(a) + "))"
			}
			return "(v (r unknown-object))"
		}
		return "(v agg)"
	case *object.List, *object.Map:
		return "(v agg)"
	case *object.Error:
		return "error"
	}
	return "(v other)"
}

// apiWalk: the calls the VM makes for root.path
func c08_apiWalk(cur object.Object, p c08_path) (object.Object, bool) {
	for _, st := range p {
		switch st.kind {
		case 'f':
			a, ok := cur.(interface {
				GetAttr(string) (object.Object, bool)
			})
			if !ok {
				return nil, false
			}
			nx, found := a.GetAttr(st.name)
			if !found {
				return nil, false
			}
			cur = nx
		default:
			c, ok := cur.(object.Container)
			if !ok {
				return nil, false
			}
			var key object.Object = object.NewInt(int64(st.idx))
			if st.kind == 'k' {
				key = object.NewString(c08_mkey(st.idx))
			}
			nx, err := c.GetItem(key)
			if err != nil {
				return nil, false
			}
			cur = nx
		}
		if _, isErr := cur.(*object.Error); isErr {
			return nil, false
		}
	}
	return cur, true
}

func c08_apiSet(root object.Object, p c08_path, val object.Object) string {
	parent, ok := c08_apiWalk(root, p[:len(p)-1])
	if !ok {
		return "error"
	}
	last := p[len(p)-1]
	px, isPx := parent.(*object.Proxy)
	if !isPx || last.kind != 'f' {
		return "error"
	}
	if err := px.SetAttr(last.name, val); err != nil {
		return "error"
	}
	return "done"
}

// apiStep: one script step through the proxies kept for the global names
func (w *c08_world) apiStep(pxs []*object.Proxy, o *c08_hop) string {
	return c08_recoverClass(func() string {
		switch o.kind {
		case "get":
			res, ok := c08_apiWalk(pxs[o.r], o.p)
			if !ok {
				return "error"
			}
			return w.viewOf(res)
		case "set":
			return c08_apiSet(pxs[o.r], o.p, object.NewInt(int64(o.n)))
		case "new":
			return c08_apiSet(pxs[o.r], o.p, object.NewMap(map[string]object.Object{"X": object.NewInt(int64(o.n))}))
		default: // link
			src, ok := c08_apiWalk(pxs[o.r2], o.p2)
			if !ok {
				return "error"
			}
			return c08_apiSet(pxs[o.r], o.p, src)
		}
	})
}

func c08_traceStr(steps []string) string { return "(res" + strings.Join(steps, "") + ")" }

// runAPI executes the history; returns the trace text and whether every step was accepted
func (w *c08_world) runAPI(ops []*c08_hop) (string, bool) {
	pxs := make([]*object.Proxy, len(w.roots))
	for i, a := range w.roots {
		px, err := object.NewProxy(w.objs[a])
		if err != nil {
			return "(res proxy-error)", false
		}
		pxs[i] = px
	}
	prev := w.dump()
	var steps []string
	clean := true
	for _, o := range ops {
		var out string
		if o.isGo() {
			out = w.goStep(o)
		} else {
			out = w.apiStep(pxs, o)
		}
		if out == "error" || out == "panic" {
			clean = false
		}
		now := w.dump()
		if now == prev {
			steps = append(steps, " ("+out+" =)")
		} else {
			steps = append(steps, " ("+out+" "+now+")")
		}
		prev = now
	}
	return c08_traceStr(steps), clean
}

// runScript: the whole history as ONE script
func (w *c08_world) runScript(g *c08_gen, ops []*c08_hop) (string, string) {
	var src strings.Builder
	var snaps []string
	globals := map[string]any{}
	for i, a := range w.roots {
		globals[c08_gname(i)] = w.objs[a]
	}
	step := func(k int) {
		if k >= 0 && k < len(ops) {
			w.goStep(ops[k])
		}
	}
	c08_hookStep = step
	defer func() { c08_hookStep = nil }()
	globals["gostep"] = object.NewBuiltin("gostep", func(ctx context.Context, args ...object.Object) object.Object {
		if len(args) == 1 {
			if k, ok := args[0].(*object.Int); ok {
				step(int(k.Value()))
			}
		}
		return object.Nil
	})
	globals["snap"] = object.NewBuiltin("snap", func(ctx context.Context, args ...object.Object) object.Object {
		snaps = append(snaps, w.dump())
		return object.Nil
	})
	var reads []int
	for k, o := range ops {
		lhs := c08_gname(o.r) + o.p.script()
		switch o.kind {
		case "get":
			fmt.Fprintf(&src, "r%d := %s\n", k, lhs)
			reads = append(reads, k)
		case "set":
			fmt.Fprintf(&src, "%s = %d\n", lhs, o.n)
		case "new":
			fmt.Fprintf(&src, "%s = {X: %d}\n", lhs, o.n)
		case "link":
			fmt.Fprintf(&src, "%s = %s%s\n", lhs, c08_gname(o.r2), o.p2.script())
		default:
			if o.kind != "gnew" && g.r.Chance(50) {
				fmt.Fprintf(&src, "%s.Do(%d)\n", c08_gname(g.r.Intn(len(w.roots))), k) // a Go method of the host object
			} else {
				fmt.Fprintf(&src, "gostep(%d)\n", k)
			}
		}
		src.WriteString("snap()\n")
	}
	src.WriteString("[")
	for i, k := range reads {
		if i > 0 {
			src.WriteString(", ")
		}
		fmt.Fprintf(&src, "r%d", k)
	}
	src.WriteString("]")
	prev := w.dump()
	res, class := c08_evalReal(src.String(), globals)
	var items []object.Object
	if class == "ok" {
		if l, ok := res.(*object.List); ok && len(l.Value()) == len(reads) {
			items = l.Value()
		} else {
			class = "error"
		}
	}
	if class != "ok" || len(snaps) != len(ops) {
		return "(res script-" + class + " after " + strconv.Itoa(len(snaps)) + " steps)", src.String()
	}
	var steps []string
	ri := 0
	for k, o := range ops {
		out := "done"
		if o.kind == "get" {
			out = w.viewOf(items[ri])
			ri++
		}
		if snaps[k] == prev {
			steps = append(steps, " ("+out+" =)")
		} else {
			steps = append(steps, " ("+out+" "+snaps[k]+")")
		}
		prev = snaps[k]
	}
	return c08_traceStr(steps), src.String()
}

// ---------------------------------------------------------------------------------------------
// generation

func (g *c08_gen) hworld() *c08_world {
	w := &c08_world{addrOf: map[*c08_HNode]int{}}
	n := 2 + g.r.Intn(4)
	for i := 0; i < n; i++ {
		w.add(&c08_HNode{X: 10*i + 1, Y: 10*i + 2})
	}
	pick := func(nonNil int) *c08_HNode {
		if !g.r.Chance(nonNil) {
			return nil
		}
		return w.objs[g.r.Intn(n)]
	}
	for i, o := range w.objs {
		o.P, o.Q = pick(85), pick(65)
		o.V = c08_HLeaf{10*i + 3, pick(80)}
		for k, m := 0, g.r.Intn(3); k < m; k++ {
			o.Ps = append(o.Ps, pick(92))
		}
		if m := g.r.Intn(3); m > 0 || g.r.Chance(50) {
			o.M = map[string]*c08_HNode{}
			for k := 0; k < m; k++ {
				o.M[c08_mkey(k)] = pick(92)
			}
		}
		for k, m := 0, g.r.Intn(3); k < m; k++ {
			o.Vs = append(o.Vs, c08_HLeaf{10*i + 4 + k, pick(80)})
		}
	}
	nr := 1 + g.r.Intn(3)
	for i := 0; i < nr; i++ {
		a := g.r.Intn(n)
		if i > 0 && g.r.Chance(60) {
			a = w.roots[0] // another name for the same Go object
		}
		w.roots = append(w.roots, a)
	}
	return w
}

// hist: generate and execute (hist-api) a history on w; the operations are chosen looking at the
// CURRENT Go state so that most paths are valid
func (r *c08Run) histCase() {
	g := r.g
	w0 := g.hworld()
	w := w0.clone()
	pxs := make([]*object.Proxy, len(w.roots))
	for i, a := range w.roots {
		px, err := object.NewProxy(w.objs[a])
		if err != nil {
			r.e.R.Mismatch("hist", "NewProxy(*HNode) failed: "+err.Error(), "-", "harness")
			return
		}
		pxs[i] = px
	}
	heap0 := w.dump()
	var ops []*c08_hop
	var steps []string
	var touched []struct {
		r int
		p c08_path
	} // pointer slots the script has walked through
	touch := func(rn int, p c08_path) {
		t := c08_hnodeT
		for i, st := range p {
			if t.Kind() == reflect.Pointer {
				t = t.Elem()
			}
			if t.Kind() == reflect.Struct {
				t = t.Field(st.idx).Type
			} else {
				t = t.Elem()
			}
			if t.Kind() == reflect.Pointer && i < len(p)-1 {
				touched = append(touched, struct {
					r int
					p c08_path
				}{rn, append(c08_path(nil), p[:i+1]...)})
			}
		}
	}
	prev := heap0
	clean := true
	exec := func(o *c08_hop) {
		var out string
		if o.isGo() {
			out = w.goStep(o)
		} else {
			out = w.apiStep(pxs, o)
			touch(o.r, o.p)
			if o.kind == "link" {
				touch(o.r2, o.p2)
			}
		}
		if out == "error" || out == "panic" {
			clean = false
		}
		now := w.dump()
		if now == prev {
			steps = append(steps, " ("+out+" =)")
		} else {
			steps = append(steps, " ("+out+" "+now+")")
		}
		prev = now
		ops = append(ops, o)
		r.e.R.H("hist_op", o.kind)
		r.e.R.H("hist_step_outcome", strings.SplitN(strings.Trim(out, "()"), " ", 2)[0])
	}
	root := func(rn int) *c08_HNode { return w.objs[w.roots[rn]] }
	// after a mutation: read the place again through every name of the same object
	probe := func(rn int, p c08_path) {
		for r2 := range w.roots {
			if w.roots[r2] != w.roots[rn] || !g.r.Chance(70) {
				continue
			}
			q := append(c08_path(nil), p...)
			s := c08_resolve(root(r2), q)
			if s.valid && s.typ == c08_hnodeP && !s.v.IsNil() && g.r.Chance(80) {
				q = append(q, c08_pstep{0, 'f', "X"})
			}
			exec(&c08_hop{kind: "get", r: r2, p: q})
		}
	}
	repointed := false
	nOps := 3 + g.r.Intn(7)
	for len(ops) < 24 && nOps > 0 {
		nOps--
		rn := g.r.Intn(len(w.roots))
		k := g.r.Intn(100)
		switch {
		case k < 30: // script read
			want := "int"
			if g.r.Chance(25) {
				want = "ptr"
			} else if g.r.Chance(6) {
				want = "agg"
			}
			if p, ok := g.hpath(root(rn), want, false, false); ok {
				exec(&c08_hop{kind: "get", r: rn, p: p})
			}
		case k < 45: // script scalar write
			if p, ok := g.hpath(root(rn), "int", true, false); ok {
				exec(&c08_hop{kind: "set", r: rn, p: p, n: 100 + g.r.Intn(900)})
				probe(rn, p)
			}
		case k < 53: // script stores a pointer it read elsewhere
			r2 := g.r.Intn(len(w.roots))
			p, ok := g.hpath(root(rn), "ptr", true, false)
			p2, ok2 := g.hpath(root(r2), "ptr", false, false)
			if g.r.Chance(15) {
				p2, ok2 = c08_path{}, true // the global itself
			}
			if ok && ok2 {
				exec(&c08_hop{kind: "link", r: rn, p: p, r2: r2, p2: p2})
				probe(rn, p)
			}
		case k < 58: // script stores a fresh struct
			if p, ok := g.hpath(root(rn), "ptr", true, false); ok {
				exec(&c08_hop{kind: "new", r: rn, p: p, n: 100 + g.r.Intn(900)})
				probe(rn, p)
			}
		case k < 68: // Go stores a scalar in place
			if p, ok := g.hpath(root(rn), "int", false, true); ok {
				exec(&c08_hop{kind: "gset", r: rn, p: p, n: 1000 + g.r.Intn(9000)})
				probe(rn, p)
			}
		case k < 90: // Go re-points a pointer: to an existing object, a fresh one, nil
			var p c08_path
			ok := false
			if len(touched) > 0 && g.r.Chance(65) {
				t := Pick(g.r, touched)
				if c08_resolve(root(t.r), t.p).valid {
					rn, p, ok = t.r, t.p, true
				}
			}
			if !ok {
				p, ok = g.hpath(root(rn), "ptr", false, true)
			}
			if !ok {
				break
			}
			target := g.r.Intn(len(w.objs))
			switch {
			case g.r.Chance(40):
				fx := 7000 + g.r.Intn(1000)
				target = len(w.objs)
				exec(&c08_hop{kind: "gnew", freshX: fx, freshM: "(st (i " + strconv.Itoa(fx) + ") (i 7) (r -) (r -) (st (i 0) (r -)) (seq) (seq) (seq))"})
			case g.r.Chance(8):
				target = -1
			}
			exec(&c08_hop{kind: "gpoint", r: rn, p: p, target: target})
			repointed = true
			probe(rn, p)
		default: // Go replaces a slice / map / struct value
			p, ok := g.hpath(root(rn), "agg", false, true)
			if !ok {
				break
			}
			s := c08_resolve(root(rn), p)
			if !s.valid {
				break
			}
			m := g.r.Intn(3)
			addrs := make([]int, m)
			for i := range addrs {
				addrs[i] = g.r.Intn(len(w.objs))
			}
			x := 5000 + g.r.Intn(1000)
			o := &c08_hop{kind: "grepl", r: rn, p: p}
			switch s.typ.Kind() {
			case reflect.Struct: // a Leaf
				o.replM = "(st (i " + strconv.Itoa(x) + ") (r " + strconv.Itoa(c08_addrs0(addrs)) + "))"
				a0 := c08_addrs0(addrs)
				o.repl = func(w *c08_world) reflect.Value { return reflect.ValueOf(c08_HLeaf{x, w.objs[a0]}) }
			case reflect.Slice:
				if s.typ.Elem().Kind() == reflect.Pointer {
					o.replM = "(seq" + c08_refsModel(addrs) + ")"
					o.repl = func(w *c08_world) reflect.Value {
						xs := make([]*c08_HNode, len(addrs))
						for i, a := range addrs {
							xs[i] = w.objs[a]
						}
						return reflect.ValueOf(xs)
					}
				} else {
					var b strings.Builder
					for i, a := range addrs {
						fmt.Fprintf(&b, " (st (i %d) (r %d))", x+i, a)
					}
					o.replM = "(seq" + b.String() + ")"
					o.repl = func(w *c08_world) reflect.Value {
						xs := make([]c08_HLeaf, len(addrs))
						for i, a := range addrs {
							xs[i] = c08_HLeaf{x + i, w.objs[a]}
						}
						return reflect.ValueOf(xs)
					}
				}
			case reflect.Map:
				o.replM = "(seq" + c08_refsModel(addrs) + ")"
				o.repl = func(w *c08_world) reflect.Value {
					xs := map[string]*c08_HNode{}
					for i, a := range addrs {
						xs[c08_mkey(i)] = w.objs[a]
					}
					return reflect.ValueOf(xs)
				}
			default:
				continue
			}
			exec(o)
			repointed = true
			if q, ok := g.hpath(root(rn), "int", false, false); ok {
				exec(&c08_hop{kind: "get", r: rn, p: q})
			}
		}
	}
	// at the end: read again through places the script has walked, by every name
	for i := 0; i < 3 && len(touched) > 0; i++ {
		t := Pick(g.r, touched)
		probe(t.r, t.p)
	}
	if len(ops) == 0 {
		return
	}
	r.histSubmit("hist-api", w0, ops, heap0, c08_traceStr(steps), "", repointed)
	r.e.R.H("hist_len", strconv.Itoa(len(ops)/4*4)+"+")
	r.e.R.H("hist_names", fmt.Sprintf("%d names, %d objects behind them", len(w0.roots), c08_distinct(w0.roots)))
	// the same history as ONE script (only when no step was rejected: an error ends a script)
	if clean && g.r.Chance(40) {
		w2 := w0.clone()
		tr, src := w2.runScript(g, ops)
		r.histSubmit("hist-script", w0, ops, heap0, tr, src, repointed)
	}
}

func c08_addrs0(a []int) int {
	if len(a) == 0 {
		return 0
	}
	return a[0]
}

func c08_refsModel(addrs []int) string {
	var b strings.Builder
	for _, a := range addrs {
		b.WriteString(" (r " + strconv.Itoa(a) + ")")
	}
	return b.String()
}

func c08_distinct(xs []int) int {
	m := map[int]bool{}
	for _, x := range xs {
		m[x] = true
	}
	return len(m)
}

func (r *c08Run) histSubmit(op string, w0 *c08_world, ops []*c08_hop, heap0, trace, src string, nontrivial bool) {
	var ob strings.Builder
	ob.WriteString("(ops")
	for _, o := range ops {
		ob.WriteString(" " + o.model())
	}
	ob.WriteString(")")
	var rb strings.Builder
	rb.WriteString("(roots")
	for _, a := range w0.roots {
		rb.WriteString(" " + strconv.Itoa(a))
	}
	rb.WriteString(")")
	key := op + " " + rb.String() + " " + heap0 + " " + ob.String()
	if src != "" {
		key += " script: " + strings.ReplaceAll(src, "\n", "; ")
	}
	r.add(c08Case{op: op, key: key, gout: trace, triv: !nontrivial,
		req: strings.Join([]string{"C08", "hist", rb.String(), heap0, ob.String(), trace}, "\t")})
}

// histSteps splits "(res (OUT HEAP) …)" into its steps
func c08_histSteps(tr string) []string {
	var out []string
	depth, start := 0, -1
	for i, c := range tr {
		switch c {
		case '(':
			depth++
			if depth == 2 {
				start = i
			}
		case ')':
			if depth == 2 && start >= 0 {
				out = append(out, tr[start:i+1])
			}
			depth--
		}
	}
	return out
}

func c08_histOps(key string) []string {
	i := strings.Index(key, "(ops")
	if i < 0 {
		return nil
	}
	j := strings.Index(key[i:], " script: ")
	s := key[i:]
	if j >= 0 {
		s = s[:j]
	}
	return c08_histSteps(s)
}

// histDiff: where the real trace and the model's differ
func c08_histDiff(key, goTr, implTr string) string {
	a, b := c08_histSteps(goTr), c08_histSteps(implTr)
	ops := c08_histOps(key)
	for i := 0; i < len(a) || i < len(b); i++ {
		var x, y string
		if i < len(a) {
			x = a[i]
		}
		if i < len(b) {
			y = b[i]
		}
		if x != y {
			o := ""
			if i < len(ops) {
				o = ops[i]
			}
			return fmt.Sprintf("step %d %s: real %s, model %s", i, o, c08_short(x, 200), c08_short(y, 200))
		}
	}
	return "traces differ in length"
}

// histDetail: the step the Spec refuses
func c08_histDetail(key, goTr, idx string) string {
	i, err := strconv.Atoi(idx)
	steps, ops := c08_histSteps(goTr), c08_histOps(key)
	if err != nil || i >= len(steps) || i >= len(ops) {
		return "the real trace is refused by the Spec: " + c08_short(goTr, 200)
	}
	before := "the initial heap"
	for j := i - 1; j >= 0; j-- {
		if !strings.HasSuffix(steps[j], " =)") {
			before = "the heap left by step " + strconv.Itoa(j) + " " + ops[j] + ": " + c08_short(steps[j], 400)
			break
		}
	}
	return fmt.Sprintf("step %d %s answered %s; Go's own resolution of that path on the current heap says otherwise (before it: %s). Paths are field / element indices over type HNode struct{X, Y int; P, Q *HNode; V HLeaf; Ps []*HNode; M map[string]*HNode; Vs []HLeaf}, type HLeaf struct{X int; N *HNode}; (r A) is a pointer to object A of the heap, the names g0, g1, … stand for the objects listed in (roots …)", i, ops[i], c08_short(steps[i], 300), before)
}

// directed histories: the shapes of seeded change C08-r3m1 and one per guard
func (r *c08Run) histDirected() {
	f := func(name string) c08_pstep {
		sf, _ := c08_hnodeT.FieldByName(name)
		return c08_pstep{sf.Index[0], 'f', name}
	}
	lf := func(name string) c08_pstep {
		sf, _ := reflect.TypeOf(c08_HLeaf{}).FieldByName(name)
		return c08_pstep{sf.Index[0], 'f', name}
	}
	mk := func() *c08_world {
		w := &c08_world{addrOf: map[*c08_HNode]int{}}
		b := &c08_HNode{X: 1, Y: 2}
		c := &c08_HNode{X: 7, Y: 8}
		a := &c08_HNode{X: 0, P: b, Q: nil, V: c08_HLeaf{3, b}, Ps: []*c08_HNode{b}, M: map[string]*c08_HNode{"k0": b}, Vs: []c08_HLeaf{{4, b}}}
		w.add(a)
		w.add(b)
		w.add(c)
		w.roots = []int{0, 0}
		return w
	}
	run := func(ops []*c08_hop, script bool) {
		w0 := mk()
		w := w0.clone()
		tr, clean := w.runAPI(ops)
		r.histSubmit("hist-api", w0, ops, w0.dump(), tr, "", true)
		if script && clean {
			w2 := w0.clone()
			tr, src := w2.runScript(r.g, ops)
			r.histSubmit("hist-script", w0, ops, w0.dump(), tr, src, true)
		}
	}
	get := func(rn int, p ...c08_pstep) *c08_hop { return &c08_hop{kind: "get", r: rn, p: p} }
	// read, Go re-points, read again, write, read through the other name
	run([]*c08_hop{get(0, f("P"), f("X")), {kind: "gpoint", r: 0, p: c08_path{f("P")}, target: 2}, get(0, f("P"), f("X")),
		{kind: "set", r: 0, p: c08_path{f("P"), f("X")}, n: 42}, get(1, f("P"), f("X")), get(1, f("P"))}, true)
	// the pointer inside a struct held by value
	run([]*c08_hop{get(0, f("V"), lf("N"), f("X")), {kind: "gpoint", r: 1, p: c08_path{f("V"), lf("N")}, target: 2},
		get(0, f("V"), lf("N"), f("X")), {kind: "set", r: 0, p: c08_path{f("V"), lf("N"), f("Y")}, n: 43}, get(1, f("V"), lf("N"))}, true)
	// two names: a store through one is seen through the other
	run([]*c08_hop{get(0, f("P"), f("X")), {kind: "new", r: 1, p: c08_path{f("P")}, n: 9}, get(0, f("P"), f("X")), get(1, f("P"), f("X")),
		{kind: "link", r: 0, p: c08_path{f("Q")}, r2: 1, p2: c08_path{f("P")}}, get(1, f("Q"), f("X"))}, true)
	// slices and maps of pointers replaced by Go
	run([]*c08_hop{get(0, f("Ps"), c08_pstep{0, 'i', ""}, f("X")), get(0, f("M"), c08_pstep{0, 'k', ""}, f("X")),
		{kind: "gpoint", r: 0, p: c08_path{f("Ps"), c08_pstep{0, 'i', ""}}, target: 2}, get(1, f("Ps"), c08_pstep{0, 'i', ""}, f("X")),
		{kind: "gpoint", r: 0, p: c08_path{f("M"), c08_pstep{0, 'k', ""}}, target: 2}, get(0, f("M"), c08_pstep{0, 'k', ""}, f("X")),
		{kind: "set", r: 1, p: c08_path{f("M"), c08_pstep{0, 'k', ""}, f("X")}, n: 44}, get(0, f("Ps"), c08_pstep{0, 'i', ""}, f("X"))}, true)
	// a nil pointer on the way: C08-proxy-type-unchecked
	run([]*c08_hop{get(0, f("Q")), get(0, f("Q"), f("X"))}, false)
	// a write through an element of []Leaf: C08-slice-element-write-lost
	run([]*c08_hop{get(0, f("Vs"), c08_pstep{0, 'i', ""}, lf("X")), {kind: "set", r: 0, p: c08_path{f("Vs"), c08_pstep{0, 'i', ""}, lf("X")}, n: 45},
		get(0, f("Vs"), c08_pstep{0, 'i', ""}, lf("X"))}, true)
}
