package main

// C01 (and C04) — LOCKSTEP tie between vm.eval and the Lean VM model.
//
// vm.eval calls the build-tag-guarded hook vm.VerifTrace just before it dispatches an
// instruction (/repo/vm/verif_trace.go, `-tags verif`).  The harness records, for every
// generated program, the sequence (code object id, slot position, operand-stack height) of
// every instruction the REAL VM dispatches and compares it, entry by entry, with the dispatch
// trace of the Lean model (`runVMTrace` in RisorModel/C01/VM.lean, proved to be the same run
// as `runVM` by VMProps.runVMTrace_eq) on the Lean-compiled bytecode.  Outcome equality says
// the two machines end alike; this says they take the same steps through the same code with
// the same stack heights — a leaked or missing stack slot, a jump to another offset or a
// differently scheduled deferred call shows up at the first instruction where it happens,
// even when the final result is unaffected.

import (
	"fmt"
	"strings"
	"time"

	"github.com/risor-io/risor/op"
	"github.com/risor-io/risor/vm"
)

const c01TraceCap = 4000

type goTrace struct {
	n     int
	shown []string
}

// EvalSrcTraced is EvalSrc with the dispatch trace of every VM that runs meanwhile (the
// programs of this check start no threads, so that is one VM).
func EvalSrcTraced(src string, timeout time.Duration) (EvalOut, goTrace) {
	var t goTrace
	vm.VerifTrace = func(_ *vm.VirtualMachine, id string, ip int, _ op.Code, sp int, _ int) {
		if t.n < c01TraceCap {
			t.shown = append(t.shown, fmt.Sprintf("%s:%d:%d", id, ip, sp+1))
		}
		t.n++
	}
	defer func() { vm.VerifTrace = nil }()
	out := EvalSrc(src, timeout)
	return out, t
}

// c01TraceCheck compares the real dispatch trace with the reply of `C01 vmtrace`:
// outcome(3 fields) TAB count TAB entries.  Returns the model's outcome part.
func c01TraceCheck(e *Env, src string, goOut string, gt goTrace, reply string) string {
	out, diff := c01TraceCompare(goOut, gt, reply)
	switch {
	case diff == "skip":
		e.R.H("vm_trace", "skipped")
	case diff == "outcome":
		e.R.H("vm_trace", "outcome-differs") // reported by the outcome comparison
	case diff == "":
		e.R.H("vm_trace", "agrees")
		switch {
		case gt.n < 50:
			e.R.H("vm_trace_len", "<50")
		case gt.n < 500:
			e.R.H("vm_trace_len", "50-499")
		case gt.n < c01TraceCap:
			e.R.H("vm_trace_len", "500-3999")
		default:
			e.R.H("vm_trace_len", ">=4000 (first 4000 compared, and the count)")
		}
	default:
		e.R.H("vm_trace", "differs")
		f := strings.SplitN(diff, "\x00", 2)
		e.R.Mismatch(src, f[0], f[1], "dispatch trace of vm.eval (hook vm.VerifTrace: code:ip:height) vs C01.runVMTrace")
	}
	return out
}

// c01TraceShrunk re-evaluates a program (real VM with the hook, Lean model) and reports whether
// the dispatch traces differ while the outcomes agree: the predicate for shrinking.
func c01TraceDiffers(e *Env, p *N) bool {
	src := Src(p)
	out, tr := EvalSrcTraced(src, 5*time.Second)
	_, diff := c01TraceCompare(goOutcome(out), tr, e.O.Ask("C01", "vmtrace", Sexp(p), c01Globals))
	return diff != "" && diff != "skip" && diff != "outcome"
}

// c01TraceCompare returns the model's outcome part and "" (same trace), "skip", "outcome", or
// "<go side>\x00<model side>" describing the first difference.
func c01TraceCompare(goOut string, gt goTrace, reply string) (string, string) {
	f := strings.Split(reply, "\t")
	if len(f) < 5 {
		return reply, "skip"
	}
	outcome := strings.Join(f[:3], "\t")
	if f[0] == "unsupported" || f[0] == "oof" || f[0] == "error" {
		return outcome, "skip"
	}
	if outcome != goOut {
		return outcome, "outcome"
	}
	var model []string
	if f[4] != "-" {
		model = strings.Split(f[4], ",")
	}
	first := -1
	for i := 0; i < len(gt.shown) || i < len(model); i++ {
		if i >= len(gt.shown) || i >= len(model) || gt.shown[i] != model[i] {
			first = i
			break
		}
	}
	if first < 0 && fmt.Sprint(gt.n) == f[3] {
		return outcome, ""
	}
	at := func(xs []string, i int) string {
		if i >= 0 && i < len(xs) {
			return xs[i]
		}
		return "(end)"
	}
	if first < 0 {
		return outcome, fmt.Sprintf("%d instructions dispatched", gt.n) + "\x00" + f[3] + " instructions dispatched"
	}
	return outcome, fmt.Sprintf("instruction #%d is %s (after %s)", first, at(gt.shown, first), at(gt.shown, first-1)) + "\x00" +
		fmt.Sprintf("instruction #%d is %s", first, at(model, first))
}
