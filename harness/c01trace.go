package main

// C01 (and C04) — LOCKSTEP tie between vm.eval and the Lean VM model.
//
// vm.eval calls the build-tag-guarded hook vm.VerifTrace just before it dispatches an
// instruction (/repo/vm/verif_trace.go, `-tags verif`).  The harness records, for every
// generated program, the sequence (code object id, slot position, operand-stack height) of
// every instruction the REAL VM dispatches and compares it, entry by entry, with the dispatch
// trace of the Lean model (`runVMTrace` in RisorModel/C01/VM.lean, proved to be the same run
// as `runVM` by VMProps.runVMTrace_eq) on the Lean-compiled bytecode.  Outcome equality says
// the two machines end alike; this says they take the same steps through the same code with
// the same stack heights — a leaked or missing stack slot, a jump to another offset or a
// differently scheduled deferred call shows up at the first instruction where it happens,
// even when the final result is unaffected.

import (
	"fmt"
	"strings"
	"time"

	"github.com/risor-io/risor/op"
	"github.com/risor-io/risor/vm"
)

const c01TraceCap = 4000

type goTrace struct {
	n     int
	shown []string
	ring  [64]string // the last 64 observations
}

func (t *goTrace) tail() []string {
	k := t.n
	if k > 64 {
		k = 64
	}
	out := make([]string, 0, k)
	for i := t.n - k; i < t.n; i++ {
		out = append(out, t.ring[i%64])
	}
	return out
}

// EvalSrcTraced is EvalSrc with the dispatch trace of every VM that runs meanwhile (the
// programs of this check start no threads, so that is one VM).
func EvalSrcTraced(src string, timeout time.Duration) (EvalOut, goTrace) {
	var t goTrace
	vm.VerifTrace = func(_ *vm.VirtualMachine, id string, ip int, _ op.Code, sp int, _ int) {
		ent := fmt.Sprintf("%s:%d:%d", id, ip, sp+1)
		if t.n < c01TraceCap {
			t.shown = append(t.shown, ent)
		}
		t.ring[t.n%64] = ent
		t.n++
	}
	defer func() { vm.VerifTrace = nil }()
	out := EvalSrc(src, timeout)
	return out, t
}

// c01TraceCheck compares the real dispatch trace with the reply of `C01 vmtrace`:
// outcome(3 fields) TAB count TAB entries.  Returns the model's outcome part.
func c01TraceCheck(e *Env, src string, goOut string, gt goTrace, reply string) string {
	out, diff := c01TraceCompare(goOut, gt, reply)
	switch {
	case diff == "skip":
		e.R.H("vm_trace", "skipped")
	case diff == "outcome":
		e.R.H("vm_trace", "outcome-differs") // reported by the outcome comparison
	case diff == "":
		e.R.H("vm_trace", "agrees")
		switch {
		case gt.n < 50:
			e.R.H("vm_trace_len", "<50")
		case gt.n < 500:
			e.R.H("vm_trace_len", "50-499")
		case gt.n < c01TraceCap:
			e.R.H("vm_trace_len", "500-3999")
		default:
			e.R.H("vm_trace_len", ">=4000 (first 4000 compared, and the count)")
		}
	default:
		e.R.H("vm_trace", "differs")
		f := strings.SplitN(diff, "\x00", 2)
		e.R.Mismatch(src, f[0], f[1], "dispatch trace of vm.eval (hook vm.VerifTrace: code:ip:height) vs C01.runVMTrace")
	}
	return out
}

// c01TraceShrunk re-evaluates a program (real VM with the hook, Lean model) and reports whether
// the dispatch traces differ while the outcomes agree: the predicate for shrinking.
func c01TraceDiffers(e *Env, p *N) bool {
	src := Src(p)
	out, tr := EvalSrcTraced(src, 2*time.Second)
	if strings.HasPrefix(goOutcome(out), "err\tcontext") || tr.n > 300000 {
		return false // a candidate that no longer terminates (the shrinker removed its bound) is not a witness
	}
	_, diff := c01TraceCompare(goOutcome(out), tr, e.O.Ask("C01", "vmtrace", Sexp(p), c01Globals))
	return diff != "" && diff != "skip" && diff != "outcome"
}

// c01TraceCompare returns the model's outcome part and "" (same trace), "skip", "outcome", or
// "<go side>\x00<model side>" describing the first difference.
func c01TraceCompare(goOut string, gt goTrace, reply string) (string, string) {
	f := strings.Split(reply, "\t")
	if len(f) < 5 {
		return reply, "skip"
	}
	outcome := strings.Join(f[:3], "\t")
	if f[0] == "unsupported" || f[0] == "oof" || f[0] == "error" {
		return outcome, "skip"
	}
	if outcome != goOut {
		return outcome, "outcome"
	}
	var model []string
	if f[4] != "-" {
		model = strings.Split(f[4], ",")
	}
	first := -1
	for i := 0; i < len(gt.shown) || i < len(model); i++ {
		if i >= len(gt.shown) || i >= len(model) || gt.shown[i] != model[i] {
			first = i
			break
		}
	}
	var mtail []string
	if len(f) > 5 && f[5] != "-" {
		mtail = strings.Split(f[5], ",")
	}
	// when the run ends in a recovered Go panic, what happens while it unwinds is not modelled (see
	// panicDispatchIndex in VM.lean): the traces are compared up to the instruction that panics
	pidx := -1
	if len(f) > 6 && f[6] != "-" && strings.HasPrefix(outcome, "err\tpanic") {
		fmt.Sscanf(f[6], "%d", &pidx)
	}
	if pidx >= 0 && (first < 0 || first >= pidx) && gt.n >= pidx {
		var mn int
		fmt.Sscanf(f[3], "%d", &mn)
		if first >= 0 || pidx <= c01TraceCap {
			return outcome, "" // everything before the panic agrees (first 4000 cover it, or no difference there)
		}
		// the panic lies beyond the first 4000: compare the tails up to it
		gtail0, mtail0 := gt.tail(), mtail
		g0, m0 := gt.n-len(gtail0), mn-len(mtail0)
		okTail := true
		for i := max(g0, m0); i < pidx; i++ {
			if i-g0 < 0 || i-g0 >= len(gtail0) || i-m0 < 0 || i-m0 >= len(mtail0) || gtail0[i-g0] != mtail0[i-m0] {
				okTail = false
				break
			}
		}
		if okTail {
			return outcome, ""
		}
	}
	gtail := gt.tail()
	if first < 0 && fmt.Sprint(gt.n) == f[3] && strings.Join(gtail, ",") == strings.Join(mtail, ",") {
		return outcome, ""
	}
	at := func(xs []string, i int) string {
		if i >= 0 && i < len(xs) {
			return xs[i]
		}
		return "(end)"
	}
	if first < 0 {
		// the first 4000 agree: show where the ends part (aligned from the start of the run)
		var mn int
		fmt.Sscanf(f[3], "%d", &mn)
		g0, m0 := gt.n-len(gtail), mn-len(mtail)
		lo := g0
		if m0 > lo {
			lo = m0
		}
		for i := lo; i < gt.n || i < mn; i++ {
			ge, me := "(end)", "(end)"
			if i < gt.n && i-g0 >= 0 {
				ge = gtail[i-g0]
			}
			if i < mn && i-m0 >= 0 {
				me = mtail[i-m0]
			}
			if ge != me {
				prev := "(start of the window)"
				if i-g0-1 >= 0 && i-g0-1 < len(gtail) {
					prev = gtail[i-g0-1]
				}
				return outcome, fmt.Sprintf("%d instructions dispatched; instruction #%d is %s (after %s)", gt.n, i, ge, prev) + "\x00" +
					fmt.Sprintf("%s instructions dispatched; instruction #%d is %s", f[3], i, me)
			}
		}
		return outcome, fmt.Sprintf("%d instructions dispatched", gt.n) + "\x00" + f[3] + " instructions dispatched"
	}
	return outcome, fmt.Sprintf("instruction #%d is %s (after %s)", first, at(gt.shown, first), at(gt.shown, first-1)) + "\x00" +
		fmt.Sprintf("instruction #%d is %s", first, at(model, first))
}
