package main

// C11 — scripts reach only the globals the host configuration allows.
//
// Real code: risor.NewConfig(WithoutGlobal(s) / WithoutDefaultGlobals / WithGlobalOverride /
// WithGlobals), cfg.Globals(), Object.GetAttr, risor.Eval and the parser→compiler→vm pipeline
// with cfg.CompilerOpts()/cfg.VMOpts().
//
// For every generated configuration the harness
//   1. dumps the environment BEFORE the edits (globals, every module's attribute table,
//      every builtin's __module__ back-pointer; identities = pointers) and asks the Lean
//      Impl model (Risor.C11.initCfg) for the state AFTER Config.init        → Mismatch
//   2. walks the REAL object graph by identity (GetAttr over the regenerated attribute-name
//      universe, container items, resolved dynamic attributes, import edges) and lets the
//      Lean `reach` decide whether the object registered under a denied/overridden name is
//      still reachable by ANY path                                           → Spec
//   3. evaluates generated access attempts (identifier, import, from-import, attribute
//      chains, getattr, __module__ back-references) and compares the outcome with
//      Risor.C11.access and with the Spec (never the denied object, always the override)
//   4. checks non-interference between independently built Configs.
//
// Styles: A = the normal path (defaults built inside NewConfig; objects are matched with a
// reference default environment by registration path + fingerprint), B = the host passes
// risor.DefaultGlobals() itself with WithoutDefaultGlobals (identities known exactly),
// W = WithoutDefaultGlobals with host globals only.

import (
	"context"
	"fmt"
	"reflect"
	"regexp"
	"runtime"
	"sort"
	"strconv"
	"strings"

	"github.com/risor-io/risor"
	"github.com/risor-io/risor/compiler"
	"github.com/risor-io/risor/object"
	ros "github.com/risor-io/risor/os"
	"github.com/risor-io/risor/parser"
	"github.com/risor-io/risor/vm"
)

func init() { commands["C11"] = c11_runC11 }

// C11 has no recorded finding at present.  The former C11-nested-module-path (resolveModule
// looked every component of a nested module path up in the root module) was repaired in /repo:
// cases with deep dotted names are judged like every other case, so a recurrence is an unlisted
// Spec violation (and a mismatch with the Impl model, which descends).

// ---------------------------------------------------------------- identities

type c11Key struct {
	t reflect.Type
	p uintptr
}

func c11KeyOf(o object.Object) (c11Key, bool) {
	v := reflect.ValueOf(o)
	if !v.IsValid() || v.Kind() != reflect.Ptr || v.IsNil() {
		return c11Key{}, false
	}
	return c11Key{v.Type(), v.Pointer()}, true
}

func c11Same(a, b object.Object) bool {
	ka, ok1 := c11KeyOf(a)
	kb, ok2 := c11KeyOf(b)
	return ok1 && ok2 && ka == kb
}

// c11Ids numbers objects by identity; id 0 is the script's global scope.
type c11Ids struct {
	ids   map[c11Key]int
	objs  []object.Object // index = id; kept alive so that addresses are never reused
	class map[string]int  // collapsed nodes of per-access fresh ("ephemeral") objects, by type
}

func c11_newC11Ids() *c11Ids {
	s := &c11Ids{ids: map[c11Key]int{}, objs: []object.Object{nil}, class: map[string]int{}}
	s.add(object.Nil)
	s.add(object.True)
	s.add(object.False)
	return s
}

const c11NilID = 1

func (s *c11Ids) idOf(o object.Object) (int, bool) {
	k, ok := c11KeyOf(o)
	if !ok {
		return 0, false
	}
	id, ok := s.ids[k]
	return id, ok
}

func (s *c11Ids) add(o object.Object) int {
	k, ok := c11KeyOf(o)
	if !ok {
		return s.classID("value:" + string(o.Type()))
	}
	if id, ok := s.ids[k]; ok {
		return id
	}
	id := len(s.objs)
	s.ids[k] = id
	s.objs = append(s.objs, o)
	return id
}

func (s *c11Ids) classID(c string) int {
	if id, ok := s.class[c]; ok {
		return id
	}
	id := len(s.objs)
	s.class[c] = id
	s.objs = append(s.objs, nil)
	return id
}

func (s *c11Ids) clone() *c11Ids {
	n := &c11Ids{ids: make(map[c11Key]int, len(s.ids)), objs: append([]object.Object{}, s.objs...), class: map[string]int{}}
	for k, v := range s.ids {
		n.ids[k] = v
	}
	for k, v := range s.class {
		n.class[k] = v
	}
	return n
}

func c11Fingerprint(o object.Object) string {
	switch x := o.(type) {
	case nil:
		return "<nil>"
	case *object.Builtin:
		return "builtin|" + x.Key() + "|" + strconv.FormatUint(uint64(reflect.ValueOf(x.Value()).Pointer()), 16)
	case *object.Module:
		return "module|" + x.Name().Value()
	default:
		return string(o.Type()) + "|" + o.Inspect()
	}
}

// identity-bearing kinds: for these "the object registered under a name" is meaningful
// beyond its value (strings/floats can be rebuilt by any script from a literal)
func c11IdentityKind(o object.Object) bool {
	switch o.(type) {
	case *object.Builtin, *object.Module, *object.DynamicAttr:
		return true
	}
	return false
}

// ---------------------------------------------------------------- graph walk

type c11Edge struct {
	src, dst int
	lbl      string
}

type c11Graph struct {
	edges []c11Edge
	seen  map[c11Edge]bool
}

func (g *c11Graph) add(src, dst int, lbl string) {
	e := c11Edge{src, dst, lbl}
	if g.seen[e] {
		return
	}
	g.seen[e] = true
	g.edges = append(g.edges, e)
}

var c11LabelBad = regexp.MustCompile(`[^A-Za-z0-9_!:\[\].\-]`)

func (g *c11Graph) encode() string {
	if len(g.edges) == 0 {
		return "-"
	}
	var b strings.Builder
	for i, e := range g.edges {
		if i > 0 {
			b.WriteByte(',')
		}
		b.WriteString(strconv.Itoa(e.src))
		b.WriteByte('>')
		b.WriteString(strconv.Itoa(e.dst))
		b.WriteByte('>')
		b.WriteString(c11LabelBad.ReplaceAllString(e.lbl, "?"))
	}
	return b.String()
}

// bfs is the Go-side reachability (witness paths for reports; must agree with Lean).
func (g *c11Graph) bfs(root int) map[int]c11Edge {
	out := map[int][]c11Edge{}
	for _, e := range g.edges {
		out[e.src] = append(out[e.src], e)
	}
	par := map[int]c11Edge{root: {src: -1, dst: root}}
	q := []int{root}
	for len(q) > 0 {
		x := q[0]
		q = q[1:]
		for _, e := range out[x] {
			if _, ok := par[e.dst]; !ok {
				par[e.dst] = e
				q = append(q, e.dst)
			}
		}
	}
	return par
}

func c11Witness(par map[int]c11Edge, t int) string {
	var labels []string
	for n := 0; n < 64; n++ {
		e, ok := par[t]
		if !ok || e.src < 0 {
			break
		}
		labels = append([]string{e.lbl}, labels...)
		t = e.src
	}
	return strings.Join(labels, " → ")
}

func c11GetAttr(o object.Object, name string) (v object.Object, ok bool) {
	defer func() {
		if r := recover(); r != nil {
			v, ok = nil, false
		}
	}()
	v, ok = o.GetAttr(name)
	if v == nil {
		ok = false
	}
	return
}

type c11Walker struct {
	ids      *c11Ids
	universe []string
	g        *c11Graph
	expanded map[int]bool
	ephSeen  map[string]int
	nGetAttr int
	nEph     int
}

type c11Item struct {
	o     object.Object
	id    int
	depth int // number of consecutive ephemeral hops that led here
}

func c11_newC11Walker(ids *c11Ids, universe []string) *c11Walker {
	return &c11Walker{ids: ids, universe: universe, g: &c11Graph{seen: map[c11Edge]bool{}}, expanded: map[int]bool{}, ephSeen: map[string]int{}}
}

// walk adds identifier/import edges for `globals` and expands every object reachable from
// them and from `extra` (objects the caller holds that may have become unreachable).
func (w *c11Walker) walk(globals map[string]any, extra []object.Object) {
	var q []c11Item
	push := func(o object.Object) int {
		id := w.ids.add(o)
		if _, stable := c11KeyOf(o); stable && !w.expanded[id] {
			w.expanded[id] = true
			q = append(q, c11Item{o, id, 0})
		}
		return id
	}
	names := make([]string, 0, len(globals))
	for n := range globals {
		names = append(names, n)
	}
	sort.Strings(names)
	for _, n := range names {
		o, ok := globals[n].(object.Object)
		if !ok || o == nil {
			continue
		}
		id := push(o)
		w.g.add(0, id, "id:"+n)
		if _, isMod := o.(*object.Module); isMod {
			w.g.add(0, id, "im:"+n) // vm.go: globals that are modules are importable by name
		}
	}
	for _, o := range extra {
		if o != nil {
			push(o)
		}
	}
	ctx := context.Background()
	for len(q) > 0 {
		it := q[0]
		q = q[1:]
		child := func(lbl string, v object.Object, stable bool) {
			if stable {
				id := push(v)
				w.g.add(it.id, id, lbl)
				return
			}
			// a fresh object per access: collapsed by type; a bounded number of instances of
			// each (parent type, label) class is expanded so that any stable object they
			// lead to is still recorded
			w.nEph++
			cid := w.ids.classID("eph:" + string(v.Type()))
			w.g.add(it.id, cid, lbl)
			ck := fmt.Sprintf("%T|%s|%s", it.o, lbl, v.Type())
			if it.depth < 2 && w.ephSeen[ck] < 2 {
				w.ephSeen[ck]++
				q = append(q, c11Item{v, cid, it.depth + 1})
			}
		}
		for _, name := range w.universe {
			w.nGetAttr++
			v, ok := c11GetAttr(it.o, name)
			if !ok {
				continue
			}
			v2, _ := c11GetAttr(it.o, name)
			child(name, v, c11Same(v, v2))
			if r, isRes := v.(object.AttrResolver); isRes {
				// what `x.name` (LoadAttr) pushes; getattr(x, "name") returns v itself
				if rv, err := c11Resolve(ctx, r, name); err == nil && rv != nil {
					rv2, _ := c11Resolve(ctx, r, name)
					child(name+"!", rv, c11Same(rv, rv2))
				}
			}
		}
		switch c := it.o.(type) {
		case *object.List:
			for i, v := range c.Value() {
				child("["+strconv.Itoa(i)+"]", v, true)
			}
		case *object.Map:
			for _, k := range sortedKeys(c.Value()) {
				child("["+k+"]", c.Value()[k], true)
			}
		case *object.Set:
			for _, v := range c.Value() {
				child("[elem]", v, true)
			}
		}
	}
}

func c11Resolve(ctx context.Context, r object.AttrResolver, name string) (v object.Object, err error) {
	defer func() {
		if p := recover(); p != nil {
			v, err = nil, fmt.Errorf("panic: %v", p)
		}
	}()
	return r.ResolveAttr(ctx, name)
}

// ---------------------------------------------------------------- protocol encoding

func c11Name(s string) string { return "x" + fmt.Sprintf("%x", s) }

func c11Table(t map[string]int) string {
	if len(t) == 0 {
		return "-"
	}
	ks := sortedKeys(t)
	parts := make([]string, len(ks))
	for i, k := range ks {
		parts[i] = c11Name(k) + "=" + strconv.Itoa(t[k])
	}
	return strings.Join(parts, ",")
}

func c11ParseName(s string) string {
	if !strings.HasPrefix(s, "x") {
		return "<bad:" + s + ">"
	}
	if s == "x" {
		return ""
	}
	return UnHex(s[1:])
}

func c11ParseTable(s string) map[string]int {
	t := map[string]int{}
	if s == "-" || s == "" {
		return t
	}
	for _, it := range strings.Split(s, ",") {
		kv := strings.SplitN(it, "=", 2)
		if len(kv) != 2 {
			continue
		}
		n, _ := strconv.Atoi(kv[1])
		t[c11ParseName(kv[0])] = n
	}
	return t
}

func c11ParseMods(s string) map[int]map[string]int {
	m := map[int]map[string]int{}
	if s == "-" || s == "" {
		return m
	}
	for _, it := range strings.Split(s, "|") {
		kv := strings.SplitN(it, ":", 2)
		if len(kv) != 2 {
			continue
		}
		id, _ := strconv.Atoi(kv[0])
		m[id] = c11ParseTable(kv[1])
	}
	return m
}

// env is the pre-edit environment in model terms.
type c11Env struct {
	ids      *c11Ids
	universe []string
	mods     map[int]map[string]int // module id -> attribute table
	back     map[int]int            // builtin id -> module id (or nil id)
	missing  []string               // attribute keys a module holds that the universe does not name
}

// c11HiddenKeys reads the keys of the unexported Module.builtins map by reflection (read
// only) and returns those the universe-driven scan did not find: completeness of the
// attribute-name universe for modules.
func c11HiddenKeys(m *object.Module, found map[string]int) (out []string) {
	defer func() { recover() }()
	v := reflect.ValueOf(m).Elem().FieldByName("builtins")
	if !v.IsValid() || v.Kind() != reflect.Map {
		return []string{m.Name().Value() + ":<no builtins field>"}
	}
	for _, k := range v.MapKeys() {
		if _, ok := found[k.String()]; !ok && k.String() != "__name__" {
			out = append(out, m.Name().Value()+"."+k.String())
		}
	}
	return out
}

func (en *c11Env) moduleTable(m *object.Module, idOf func(o object.Object, expect int) int, expect map[string]int) map[string]int {
	t := map[string]int{}
	for _, name := range en.universe {
		if name == "__name__" {
			continue
		}
		if v, ok := c11GetAttr(m, name); ok {
			e := -1
			if expect != nil {
				if x, ok := expect[name]; ok {
					e = x
				}
			}
			t[name] = idOf(v, e)
		}
	}
	return t
}

// snapshot records tables/back-pointers of every known stable object.
func (en *c11Env) snapshot() {
	en.mods = map[int]map[string]int{}
	en.back = map[int]int{}
	exact := func(o object.Object, _ int) int {
		if id, ok := en.ids.idOf(o); ok {
			return id
		}
		return -1
	}
	for id, o := range en.ids.objs {
		switch x := o.(type) {
		case *object.Module:
			en.mods[id] = en.moduleTable(x, exact, nil)
			en.missing = append(en.missing, c11HiddenKeys(x, en.mods[id])...)
		case *object.Builtin:
			if mv, ok := c11GetAttr(x, "__module__"); ok {
				if mid, ok := en.ids.idOf(mv); ok {
					en.back[id] = mid
				}
			}
		}
	}
}

func (en *c11Env) encodeMods() string {
	if len(en.mods) == 0 {
		return "-"
	}
	ids := make([]int, 0, len(en.mods))
	for id := range en.mods {
		ids = append(ids, id)
	}
	sort.Ints(ids)
	parts := make([]string, len(ids))
	for i, id := range ids {
		t := c11Table(en.mods[id])
		if t == "-" {
			t = ""
		}
		parts[i] = strconv.Itoa(id) + ":" + t
	}
	return strings.Join(parts, "|")
}

func (en *c11Env) encodeBack() string {
	if len(en.back) == 0 {
		return "-"
	}
	ids := make([]int, 0, len(en.back))
	for id := range en.back {
		ids = append(ids, id)
	}
	sort.Ints(ids)
	parts := make([]string, len(ids))
	for i, id := range ids {
		parts[i] = strconv.Itoa(id) + "=" + strconv.Itoa(en.back[id])
	}
	return strings.Join(parts, ",")
}

// ---------------------------------------------------------------- cases

type c11Ov struct {
	name string
	val  object.Object
}

type c11Case struct {
	style    string // A | B | W
	host     map[string]object.Object
	hostDesc string
	denies   []string
	ovs      []c11Ov
	plural   bool // WithoutGlobals(names...) instead of one WithoutGlobal each
	kind     string
	// seq != nil: the configuration is given as an explicit SEQUENCE of options; style, host,
	// denies and ovs are derived from it (prepareSeq) and the Lean model folds the sequence
	seq []c11Opt
	// later > 0 (style A): that many further Configs are built after this one and BEFORE its
	// object graph is walked and its access scripts are evaluated
	later int
}

// c11Opt is one option of a sequence.
type c11Opt struct {
	kind   byte // 'g' WithGlobal(s), 'd' WithoutGlobal(s), 'o' WithGlobalOverride, 'n' WithoutDefaultGlobals
	name   string
	val    object.Object
	plural bool // spelled with the plural form (WithGlobals{…} / WithoutGlobals(…)); adjacent plural options of one kind share one call
	// kind 'f': an option that does not speak about globals (Risor.C11.XOpt.flag): it writes the
	// Config field number flag — 0 WithConcurrency, 1 WithFilename, 2 WithOS
	flag int
}

var c11FlagNames = []string{"WithConcurrency", "WithFilename", "WithOS"}

func c11FlagOption(k int) risor.Option {
	switch k {
	case 0:
		return risor.WithConcurrency()
	case 1:
		return risor.WithFilename("c11.risor")
	}
	return risor.WithOS(ros.NewSimpleOS(context.Background()))
}

func (o c11Opt) text() string {
	p := ""
	if o.plural {
		p = "s"
	}
	switch o.kind {
	case 'g':
		return fmt.Sprintf("WithGlobal%s(%s:=%s)", p, o.name, o.val.Type())
	case 'd':
		return fmt.Sprintf("WithoutGlobal%s(%s)", p, o.name)
	case 'o':
		return fmt.Sprintf("WithGlobalOverride(%s:=%s)", o.name, o.val.Type())
	case 'f':
		return c11FlagNames[o.flag] + "()"
	}
	return "WithoutDefaultGlobals"
}

func c11SeqText(seq []c11Opt) string {
	parts := make([]string, len(seq))
	for i, o := range seq {
		parts[i] = o.text()
	}
	return "[" + strings.Join(parts, " ") + "]"
}

// c11SeqOptions spells the sequence with the real option constructors, in order.
func c11SeqOptions(seq []c11Opt) []risor.Option {
	var opts []risor.Option
	var gm map[string]any
	var dn []string
	flush := func() {
		if gm != nil {
			opts = append(opts, risor.WithGlobals(gm))
			gm = nil
		}
		if dn != nil {
			opts = append(opts, risor.WithoutGlobals(dn...))
			dn = nil
		}
	}
	for _, o := range seq {
		switch o.kind {
		case 'g':
			if o.plural && gm != nil {
				if _, dup := gm[o.name]; !dup {
					gm[o.name] = o.val
					continue
				}
			}
			flush()
			if o.plural {
				gm = map[string]any{o.name: o.val}
			} else {
				opts = append(opts, risor.WithGlobal(o.name, o.val))
			}
		case 'd':
			if o.plural && dn != nil {
				dn = append(dn, o.name)
				continue
			}
			flush()
			if o.plural {
				dn = []string{o.name}
			} else {
				opts = append(opts, risor.WithoutGlobal(o.name))
			}
		case 'o':
			flush()
			opts = append(opts, risor.WithGlobalOverride(o.name, o.val))
		case 'f':
			flush()
			opts = append(opts, c11FlagOption(o.flag))
		default:
			flush()
			opts = append(opts, risor.WithoutDefaultGlobals())
		}
	}
	flush()
	if len(opts) == 0 {
		opts = append(opts, risor.WithGlobals(map[string]any{}))
	}
	return opts
}

func c11SeqEncode(seq []c11Opt, ids *c11Ids) string {
	if len(seq) == 0 {
		return "-"
	}
	parts := make([]string, len(seq))
	for i, o := range seq {
		switch o.kind {
		case 'g', 'o':
			id, _ := ids.idOf(o.val)
			parts[i] = string(o.kind) + ";" + c11Name(o.name) + ";" + strconv.Itoa(id)
		case 'd':
			parts[i] = "d;" + c11Name(o.name)
		case 'f':
			parts[i] = "f;" + strconv.Itoa(o.flag)
		default:
			parts[i] = "n"
		}
	}
	return strings.Join(parts, ",")
}

// prepareSeq derives the fields the rest of runCase works with: the style, the host globals
// the options leave in cfg.globals, the set of denied names and the overrides in force (both in
// order of first occurrence, as Risor.C11.applyOpts keeps them; askConfig cross-checks this
// against the Lean fold).
func (c *c11Case) prepareSeq() {
	c.style = "A"
	c.host = map[string]object.Object{}
	c.denies, c.ovs = nil, nil
	ovAt := map[string]int{}
	for _, o := range c.seq {
		switch o.kind {
		case 'n':
			c.style = "W"
		case 'g':
			c.host[o.name] = o.val
		case 'd':
			if !c11Contains(c.denies, o.name) {
				c.denies = append(c.denies, o.name)
			}
		case 'o':
			if i, ok := ovAt[o.name]; ok {
				c.ovs[i].val = o.val
			} else {
				ovAt[o.name] = len(c.ovs)
				c.ovs = append(c.ovs, c11Ov{o.name, o.val})
			}
		}
	}
	c.hostDesc = "(from the sequence)"
}

func (c *c11Case) key() string {
	if c.seq != nil {
		l := ""
		if c.later > 0 {
			l = fmt.Sprintf(" then %d more Config(s) built", c.later)
		}
		return "options=" + c11SeqText(c.seq) + l
	}
	d := append([]string{}, c.denies...)
	sort.Strings(d)
	var o []string
	for _, x := range c.ovs {
		o = append(o, x.name+":="+string(x.val.Type()))
	}
	sort.Strings(o)
	l := ""
	if c.later > 0 {
		l = fmt.Sprintf(" then %d more Config(s) built", c.later)
	}
	return fmt.Sprintf("style=%s host=%s deny=%q override=%q%s", c.style, c.hostDesc, d, o, l)
}

type c11Access struct {
	imp    bool
	first  string
	attrs  []string
	syntax []bool // per attr: true = getattr(), false = dot
	from   bool   // `from first import attrs[0]`
	alias  bool   // `import first as zz`
	why    string
	ovIdx  int // index of the override whose exact name this path spells, or -1
}

var c11Ident = regexp.MustCompile(`^[A-Za-z_][A-Za-z0-9_]*$`)
var c11Keywords = map[string]bool{"import": true, "from": true, "as": true, "func": true, "return": true, "if": true, "else": true,
	"for": true, "in": true, "range": true, "switch": true, "case": true, "default": true, "break": true, "continue": true, "var": true,
	"const": true, "nil": true, "true": true, "false": true, "defer": true, "go": true, "struct": true, "not": true, "try": true}

func c11IsIdent(s string) bool { return c11Ident.MatchString(s) && !c11Keywords[s] }

// script renders the access attempt; ok=false when it cannot be spelled.
func (a *c11Access) script(getattrOK bool) (string, bool, bool) {
	lastDot := false
	if !c11IsIdent(a.first) {
		return "", false, false
	}
	var pre, expr string
	attrs, syn := a.attrs, a.syntax
	switch {
	case a.imp && a.from && len(attrs) > 0 && c11IsIdent(attrs[0]):
		pre = "from " + a.first + " import " + attrs[0] + " as zz_\n"
		expr = "zz_"
		attrs, syn = attrs[1:], syn[1:]
	case a.imp && a.alias:
		pre = "import " + a.first + " as zz_\n"
		expr = "zz_"
	case a.imp:
		pre = "import " + a.first + "\n"
		expr = a.first
	default:
		expr = a.first
	}
	for i, at := range attrs {
		useGet := syn[i]
		if !c11IsIdent(at) {
			useGet = true
		}
		if useGet {
			if !getattrOK || strings.ContainsAny(at, "\"\\\n") {
				if !c11IsIdent(at) {
					return "", false, false
				}
				useGet = false
			}
		}
		if useGet {
			expr = "getattr(" + expr + ", \"" + at + "\")"
		} else {
			expr = expr + "." + at
		}
		lastDot = !useGet
	}
	return pre + expr, true, lastDot
}

func (a *c11Access) encode() string {
	k := "i"
	if a.imp {
		k = "m"
	}
	parts := []string{k, c11Name(a.first)}
	for _, at := range a.attrs {
		parts = append(parts, c11Name(at))
	}
	return strings.Join(parts, ";")
}

// ---------------------------------------------------------------- run state

type c11Run struct {
	e        *Env
	universe []string
	ref      *c11Env // reference default environment (style A matches against it)
	refGlob  map[string]int
	refFP    map[string]int // fingerprint -> number of identity-bearing reference objects carrying it
	nCases   int
	curIDs   *c11Ids // identity table of the case being run (option values are numbered in it)
	// concBudget: how many more random shared-input scenarios are also built concurrently (child process)
	concBudget int
}

func (r *c11Run) universeFor(c *c11Case) []string {
	set := map[string]bool{}
	for _, n := range r.universe {
		set[n] = true
	}
	add := func(n string) {
		for _, p := range strings.Split(n, ".") {
			if p != "" {
				set[p] = true
			}
		}
	}
	for _, d := range c.denies {
		add(d)
	}
	for _, o := range c.ovs {
		add(o.name)
	}
	var walkMod func(m *object.Module, depth int)
	extra := []string{"f", "g", "h", "b", "c", "x", "y", "d", "sub", "k0", "k1", "k2"}
	for _, n := range extra {
		set[n] = true
	}
	_ = walkMod
	out := make([]string, 0, len(set))
	for n := range set {
		out = append(out, n)
	}
	sort.Strings(out)
	return out
}

func c11Noop(name string) *object.Builtin {
	return object.NewBuiltin(name, func(ctx context.Context, args ...object.Object) object.Object { return object.Nil })
}

func (r *c11Run) options(c *c11Case, base map[string]any) []risor.Option {
	if c.seq != nil {
		return c11SeqOptions(c.seq)
	}
	var opts []risor.Option
	if c.style != "A" {
		opts = append(opts, risor.WithoutDefaultGlobals())
	}
	if len(base) > 0 {
		opts = append(opts, risor.WithGlobals(base))
	}
	if c.plural {
		opts = append(opts, risor.WithoutGlobals(c.denies...))
	} else {
		for _, d := range c.denies {
			opts = append(opts, risor.WithoutGlobal(d))
		}
	}
	for _, o := range c.ovs {
		opts = append(opts, risor.WithGlobalOverride(o.name, o.val))
	}
	if len(opts) == 0 {
		// NewConfig() without options does not call init; Globals() does
		opts = append(opts, risor.WithGlobals(map[string]any{}))
	}
	return opts
}

type c11Reply struct {
	ok      bool
	raw     string
	globals map[string]int
	mods    map[int]map[string]int
	denies  [][]string // target : reachImpl : reachSpec : deep
	ovs     [][]string // target : origReachable : seenImpl : seenSpec : deep
	acc     []string
	same    bool // Impl state = Spec state
}

func c11ParseReply(s string) c11Reply {
	f := strings.Split(s, "\t")
	if (len(f) != 7 && len(f) != 8) || f[0] != "ok" {
		return c11Reply{raw: s}
	}
	rp := c11Reply{ok: true, raw: s, globals: c11ParseTable(f[1]), mods: c11ParseMods(f[2]), same: f[6] == "1"}
	if f[3] != "-" {
		for _, it := range strings.Split(f[3], ",") {
			rp.denies = append(rp.denies, strings.Split(it, ":"))
		}
	}
	if f[4] != "-" {
		for _, it := range strings.Split(f[4], ",") {
			rp.ovs = append(rp.ovs, strings.Split(it, ":"))
		}
	}
	if f[5] != "-" {
		rp.acc = strings.Split(f[5], ",")
	}
	return rp
}

func (r *c11Run) askConfig(c *c11Case, en *c11Env, hostT, dfltT map[string]int, ovIDs []int, accs []*c11Access, rev bool) c11Reply {
	if c.seq != nil {
		return r.askSeq(c, en, dfltT, accs, rev)
	}
	without := "1"
	if c.style == "A" {
		without = "0"
	}
	den := append([]string{}, c.denies...)
	sort.Strings(den)
	type ov struct {
		n  string
		id int
	}
	var ovs []ov
	for i, o := range c.ovs {
		ovs = append(ovs, ov{o.name, ovIDs[i]})
	}
	sort.Slice(ovs, func(i, j int) bool { return ovs[i].n < ovs[j].n })
	if rev {
		for i, j := 0, len(den)-1; i < j; i, j = i+1, j-1 {
			den[i], den[j] = den[j], den[i]
		}
		for i, j := 0, len(ovs)-1; i < j; i, j = i+1, j-1 {
			ovs[i], ovs[j] = ovs[j], ovs[i]
		}
	}
	ds := make([]string, len(den))
	for i, d := range den {
		ds[i] = c11Name(d)
	}
	os_ := make([]string, len(ovs))
	for i, o := range ovs {
		os_[i] = c11Name(o.n) + "=" + strconv.Itoa(o.id)
	}
	as := make([]string, len(accs))
	for i, a := range accs {
		as[i] = a.encode()
	}
	j := func(xs []string) string {
		if len(xs) == 0 {
			return "-"
		}
		return strings.Join(xs, ",")
	}
	rp := c11ParseReply(r.e.O.Ask("C11", "config", without, c11Table(hostT), c11Table(dfltT), en.encodeMods(), en.encodeBack(), j(ds), j(os_), j(as)))
	if rp.ok {
		// re-order the per-deny / per-override verdicts to the case's own order
		di := map[string][]string{}
		for i, d := range den {
			if i < len(rp.denies) {
				di[d] = rp.denies[i]
			}
		}
		rp.denies = rp.denies[:0]
		for _, d := range c.denies {
			rp.denies = append(rp.denies, di[d])
		}
		oi := map[string][]string{}
		for i, o := range ovs {
			if i < len(rp.ovs) {
				oi[o.n] = rp.ovs[i]
			}
		}
		rp.ovs = rp.ovs[:0]
		for _, o := range c.ovs {
			rp.ovs = append(rp.ovs, oi[o.name])
		}
	}
	return rp
}

// askSeq: the option sequence itself goes to the oracle (Risor.C11.applyOpts / initFrom).
func (r *c11Run) askSeq(c *c11Case, en *c11Env, dfltT map[string]int, accs []*c11Access, rev bool) c11Reply {
	as := make([]string, len(accs))
	for i, a := range accs {
		as[i] = a.encode()
	}
	ja := "-"
	if len(as) > 0 {
		ja = strings.Join(as, ",")
	}
	dflt := "-"
	if c.style == "A" {
		dflt = c11Table(dfltT)
	}
	rb := "0"
	if rev {
		rb = "1"
	}
	rp := c11ParseReply(r.e.O.Ask("C11", "optcfg", dflt, en.encodeMods(), en.encodeBack(), c11SeqEncode(c.seq, en.ids), rb, ja))
	if !rp.ok {
		return rp
	}
	// items are `name:fields…`; bring them into the order of c.denies / c.ovs
	di := map[string][]string{}
	for _, f := range rp.denies {
		di[c11ParseName(f[0])] = f[1:]
	}
	oi := map[string][]string{}
	for _, f := range rp.ovs {
		oi[c11ParseName(f[0])] = f[1:]
	}
	if len(di) != len(c.denies) || len(oi) != len(c.ovs) {
		rp.ok = false
		rp.raw = fmt.Sprintf("Lean fold: %d denied names, %d overrides; harness fold: %d, %d", len(di), len(oi), len(c.denies), len(c.ovs))
		return rp
	}
	rp.denies = rp.denies[:0]
	for _, d := range c.denies {
		if _, ok := di[d]; !ok {
			rp.ok = false
			rp.raw = "Lean fold has no denylist entry " + d
			return rp
		}
		rp.denies = append(rp.denies, di[d])
	}
	rp.ovs = rp.ovs[:0]
	for _, o := range c.ovs {
		if _, ok := oi[o.name]; !ok {
			rp.ok = false
			rp.raw = "Lean fold has no override entry " + o.name
			return rp
		}
		rp.ovs = append(rp.ovs, oi[o.name])
	}
	return rp
}

func c11StateText(g map[string]int, mods map[int]map[string]int) string {
	ids := make([]int, 0, len(mods))
	for id := range mods {
		ids = append(ids, id)
	}
	sort.Ints(ids)
	var b strings.Builder
	b.WriteString("G{" + c11TableText(g) + "}")
	for _, id := range ids {
		b.WriteString(fmt.Sprintf(" M%d{%s}", id, c11TableText(mods[id])))
	}
	return b.String()
}

func c11TableText(t map[string]int) string {
	ks := sortedKeys(t)
	parts := make([]string, len(ks))
	for i, k := range ks {
		parts[i] = k + "=" + strconv.Itoa(t[k])
	}
	return strings.Join(parts, " ")
}

// diffTables returns a short description of the first differences.
func c11DiffTables(what string, real, model map[string]int) []string {
	var out []string
	for _, k := range sortedKeys(real) {
		mv, ok := model[k]
		if !ok {
			out = append(out, fmt.Sprintf("%s[%s]: go=%d model=absent", what, k, real[k]))
		} else if mv != real[k] {
			out = append(out, fmt.Sprintf("%s[%s]: go=%d model=%d", what, k, real[k], mv))
		}
	}
	for _, k := range sortedKeys(model) {
		if _, ok := real[k]; !ok {
			out = append(out, fmt.Sprintf("%s[%s]: go=absent model=%d", what, k, model[k]))
		}
	}
	return out
}

func (r *c11Run) eval(src string, cfg *risor.Config, opts []risor.Option) (res object.Object, err error) {
	defer func() {
		if p := recover(); p != nil {
			res, err = nil, fmt.Errorf("PANIC: %v", p)
		}
	}()
	ctx := context.Background()
	if cfg == nil {
		return risor.Eval(ctx, src, opts...)
	}
	// the same steps risor.Eval performs, on the Config object whose graph was walked
	prog, err := parser.Parse(ctx, src)
	if err != nil {
		return nil, err
	}
	code, err := compiler.Compile(prog, cfg.CompilerOpts()...)
	if err != nil {
		return nil, err
	}
	return vm.Run(ctx, code, cfg.VMOpts()...)
}

// genAccesses builds the access attempts of a case from the PRE-edit skeleton.
func (r *c11Run) genAccesses(c *c11Case, en *c11Env, pre map[string]int, rng *RNG, nRandom int) []*c11Access {
	var out []*c11Access
	syn := func(n int) []bool {
		s := make([]bool, n)
		for i := range s {
			s[i] = rng.Bool()
		}
		return s
	}
	add := func(imp bool, first string, attrs []string, why string, ov int) {
		a := &c11Access{imp: imp, first: first, attrs: append([]string{}, attrs...), syntax: syn(len(attrs)), why: why, ovIdx: ov}
		if imp {
			a.from = rng.Chance(35)
			a.alias = rng.Chance(30)
		}
		out = append(out, a)
	}
	named := func(name, why string, ov int) {
		parts := strings.Split(name, ".")
		add(false, parts[0], parts[1:], why+"/ident", ov)
		add(true, parts[0], parts[1:], why+"/import", ov)
		if len(parts) >= 2 {
			// both syntaxes for the last step
			a := &c11Access{first: parts[0], attrs: parts[1:], syntax: make([]bool, len(parts)-1), why: why + "/dot", ovIdx: ov}
			out = append(out, a)
			b := &c11Access{first: parts[0], attrs: parts[1:], syntax: make([]bool, len(parts)-1), why: why + "/getattr", ovIdx: ov}
			for i := range b.syntax {
				b.syntax[i] = true
			}
			out = append(out, b)
			fr := &c11Access{imp: true, from: true, first: parts[0], attrs: parts[1:], syntax: make([]bool, len(parts)-1), why: why + "/from-import", ovIdx: ov}
			out = append(out, fr)
			// back-reference: a sibling builtin's __module__ leads back to the module
			if mid, ok := pre[parts[0]]; ok {
				cur := mid
				okPath := true
				for _, p := range parts[1 : len(parts)-1] {
					t, isMod := en.mods[cur]
					if !isMod {
						okPath = false
						break
					}
					nx, ok := t[p]
					if !ok {
						okPath = false
						break
					}
					cur = nx
				}
				if t, isMod := en.mods[cur]; okPath && isMod {
					var sibs []string
					for _, k := range sortedKeys(t) {
						if _, isB := en.back[t[k]]; isB && k != parts[len(parts)-1] {
							sibs = append(sibs, k)
						}
					}
					if len(sibs) > 0 {
						s := Pick(rng, sibs)
						path := append(append([]string{}, parts[1:len(parts)-1]...), s, "__module__", parts[len(parts)-1])
						add(false, parts[0], path, why+"/backref", -1)
					}
				}
			}
		} else if t, isMod := en.mods[pre[name]]; isMod {
			if _, ok := pre[name]; ok {
				ks := sortedKeys(t)
				if len(ks) > 0 {
					k := Pick(rng, ks)
					add(false, name, []string{k}, why+"/member", -1)
					add(true, name, []string{k}, why+"/member-import", -1)
				}
			}
		}
	}
	for _, d := range c.denies {
		named(d, "denied", -1)
	}
	for i, o := range c.ovs {
		named(o.name, "overridden", i)
	}
	// random walks over the pre-edit skeleton (they cross denied and overridden names)
	gl := sortedKeys(pre)
	for i := 0; i < nRandom && len(gl) > 0; i++ {
		first := Pick(rng, gl)
		cur := pre[first]
		var attrs []string
		for step := 0; step < 5; step++ {
			if t, isMod := en.mods[cur]; isMod {
				ks := sortedKeys(t)
				if len(ks) == 0 || rng.Chance(15) {
					break
				}
				k := Pick(rng, ks)
				attrs = append(attrs, k)
				cur = t[k]
			} else if m, isB := en.back[cur]; isB {
				if rng.Chance(50) {
					break
				}
				attrs = append(attrs, "__module__")
				cur = m
			} else {
				break
			}
		}
		_, isMod := en.mods[pre[first]]
		add(isMod && rng.Chance(40), first, attrs, "walk", -1)
	}
	if c.style == "W" {
		// WithoutDefaultGlobals: the default names must not resolve in any way
		names := sortedKeys(r.refGlob)
		for i := 0; i < 6; i++ {
			n := Pick(rng, names)
			add(false, n, nil, "default name under WithoutDefaultGlobals/ident", -1)
			add(true, n, nil, "default name under WithoutDefaultGlobals/import", -1)
			if t, isMod := r.ref.mods[r.refGlob[n]]; isMod && len(t) > 0 {
				add(true, n, []string{Pick(rng, sortedKeys(t))}, "default name under WithoutDefaultGlobals/member", -1)
			}
		}
	}
	add(false, "no_such_global_zz", nil, "unknown", -1)
	add(true, "no_such_module_zz", nil, "unknown", -1)
	return out
}

// runCase evaluates one configuration in one style.
func (r *c11Run) runCase(c *c11Case, rng *RNG) {
	e := r.e
	r.nCases++
	if c.seq != nil {
		c.prepareSeq()
		e.R.H("seq_len", strconv.Itoa(len(c.seq)))
		for _, o := range c.seq {
			e.R.H("seq_option", o.text()[:strings.IndexAny(o.text()+"(", "(")])
		}
	}
	if c.style != "A" {
		c.later = 0
	}
	key := c.key()
	e.R.H("later_configs", strconv.Itoa(c.later))
	e.R.H("style", c.style)
	e.R.H("kind", c.kind)
	e.R.H("n_denies", strconv.Itoa(len(c.denies)))
	e.R.H("n_overrides", strconv.Itoa(len(c.ovs)))
	for _, d := range c.denies {
		e.R.H("deny_depth", strconv.Itoa(len(strings.Split(d, "."))))
	}
	for _, o := range c.ovs {
		e.R.H("override_depth", strconv.Itoa(len(strings.Split(o.name, "."))))
	}
	universe := r.universeFor(c)

	// ---- the pre-edit environment in model terms
	var en *c11Env
	hostT := map[string]int{}
	dfltT := map[string]int{}
	base := map[string]any{}
	var hostObjs []object.Object
	for _, n := range sortedKeys(c.host) {
		hostObjs = append(hostObjs, c.host[n])
	}
	for _, o := range c.ovs {
		hostObjs = append(hostObjs, o.val)
	}
	for _, o := range c.seq {
		if o.val != nil {
			hostObjs = append(hostObjs, o.val) // every value the sequence mentions, also superseded ones
		}
	}
	if c.style == "A" {
		en = &c11Env{ids: r.ref.ids.clone(), universe: universe}
		w := c11_newC11Walker(en.ids, universe)
		hm := map[string]any{}
		for n, o := range c.host {
			hm[n] = o
			base[n] = o
		}
		w.walk(hm, hostObjs)
		// reference objects are already numbered; snapshot covers them too
		en.snapshot()
		for n, id := range r.refGlob {
			dfltT[n] = id
		}
		for n, o := range c.host {
			hostT[n], _ = en.ids.idOf(o)
		}
	} else {
		en = &c11Env{ids: c11_newC11Ids(), universe: universe}
		if c.style == "B" {
			for n, v := range risor.DefaultGlobals() {
				base[n] = v
			}
		}
		for n, o := range c.host {
			base[n] = o
		}
		w := c11_newC11Walker(en.ids, universe)
		w.walk(base, hostObjs)
		en.snapshot()
		for n, v := range base {
			hostT[n], _ = en.ids.idOf(v.(object.Object))
		}
	}
	if len(en.missing) > 0 {
		e.R.Mismatch(key, strings.Join(en.missing[:min(len(en.missing), 8)], ","), "every module attribute key is in the regenerated universe", "attribute-name universe is incomplete")
	}
	r.curIDs = en.ids
	ovIDs := make([]int, len(c.ovs))
	for i, o := range c.ovs {
		ovIDs[i], _ = en.ids.idOf(o.val)
	}
	pre := map[string]int{}
	for n, id := range hostT {
		pre[n] = id
	}
	for n, id := range dfltT { // defaults are written over host globals
		pre[n] = id
	}

	nWalk := 6
	if !e.Quick {
		nWalk = 10
	}
	accs := r.genAccesses(c, en, pre, rng, nWalk)

	// ---- the model's prediction, in both iteration orders of the two Go maps
	rp := r.askConfig(c, en, hostT, dfltT, ovIDs, accs, false)
	rp2 := r.askConfig(c, en, hostT, dfltT, ovIDs, accs, true)
	if !rp.ok || !rp2.ok {
		e.R.Mismatch(key, "-", rp.raw+" / "+rp2.raw, "oracle rejected the config request")
		e.R.Case(key, false)
		return
	}
	if c11StateText(rp.globals, rp.mods) != c11StateText(rp2.globals, rp2.mods) {
		// the outcome depends on Go's map iteration order: nothing deterministic to compare
		e.R.H("order", "order-dependent (skipped)")
		e.R.Case(key, false)
		return
	}
	e.R.H("order", "order-independent")

	// ---- the real Config
	opts := r.options(c, base)
	var cfg0 *risor.Config
	if c.style == "A" {
		cfg0 = risor.NewConfig(risor.WithGlobals(map[string]any{})) // a bystander built BEFORE the edited config
	}
	cfg := risor.NewConfig(opts...)
	real := cfg.Globals()
	// further Configs built after this one (kept alive to the end of the case)
	var later []*risor.Config
	for i := 0; i < c.later; i++ {
		lc := risor.NewConfig(c11LaterOpts(rng, i)...)
		lc.Globals()
		later = append(later, lc)
	}
	defer runtime.KeepAlive(later)

	// translation of real objects into model ids
	local := map[c11Key]int{}
	idOf := func(o object.Object, expect int) int {
		if id, ok := en.ids.idOf(o); ok && (c.style != "A" || !r.isRefID(id)) {
			return id
		}
		if c.style != "A" {
			return -1
		}
		k, ok := c11KeyOf(o)
		if !ok {
			return -1
		}
		if id, ok := local[k]; ok {
			return id
		}
		if expect > 0 && expect < len(r.ref.ids.objs) && r.ref.ids.objs[expect] != nil &&
			c11Fingerprint(o) == c11Fingerprint(r.ref.ids.objs[expect]) {
			local[k] = expect
			return expect
		}
		return -1
	}
	realG := map[string]int{}
	nonObj := 0
	for n, v := range real {
		o, ok := v.(object.Object)
		if !ok {
			nonObj++
			continue
		}
		ex := -1
		if x, ok := rp.globals[n]; ok {
			ex = x
		}
		realG[n] = idOf(o, ex)
		if realG[n] < 0 && c.style == "A" {
			// not what the model expects under this name: is it the DEFAULT object of the name?
			if x, ok := r.refGlob[n]; ok {
				realG[n] = idOf(o, x)
			}
		}
	}
	mismatch := false
	if d := c11DiffTables("globals", realG, rp.globals); len(d) > 0 {
		mismatch = true
		e.R.Mismatch(key, strings.Join(d[:min(len(d), 6)], "; "), "Impl.initCfg globals", "Config.globals after init")
	}
	// module tables: every module the model knows about whose real object we can hold
	realMods := map[int]*object.Module{}
	for id, o := range en.ids.objs {
		if m, ok := o.(*object.Module); ok && (c.style != "A" || !r.isRefID(id)) {
			realMods[id] = m
		}
	}
	if c.style == "A" {
		// default modules of this config, found through the globals (and nested members)
		for n, v := range real {
			if m, ok := v.(*object.Module); ok {
				if id := realG[n]; id > 0 {
					realMods[id] = m
				}
			}
		}
	}
	modIDs := make([]int, 0, len(realMods))
	for id := range realMods {
		modIDs = append(modIDs, id)
	}
	sort.Ints(modIDs)
	for _, id := range modIDs {
		t := en.moduleTable(realMods[id], idOf, rp.mods[id])
		if d := c11DiffTables(fmt.Sprintf("module#%d(%s)", id, realMods[id].Name().Value()), t, rp.mods[id]); len(d) > 0 {
			mismatch = true
			e.R.Mismatch(key, strings.Join(d[:min(len(d), 6)], "; "), "Impl.initCfg module table", "Module.builtins after init")
		}
		// Builtin.module is immutable in the model (`back`): the __module__ of every member
		// builtin still is the module object it had when the environment was built — also
		// after further Configs were built
		for _, name := range sortedKeys(t) {
			bid := t[name]
			want, has := en.back[bid]
			if bid <= 0 || !has {
				continue
			}
			ro, ok := c11GetAttr(realMods[id], name)
			b, isB := ro.(*object.Builtin)
			if !ok || !isB {
				continue
			}
			mv, ok := c11GetAttr(b, "__module__")
			if !ok {
				continue
			}
			var wantObj object.Object
			if want == c11NilID {
				wantObj = object.Nil
			} else if m, ok := realMods[want]; ok {
				wantObj = m
			}
			if wantObj != nil && !c11Same(mv, wantObj) {
				mismatch = true
				e.R.Mismatch(key, fmt.Sprintf("%s.%s.__module__ is another object than module#%d of this Config (%s)", realMods[id].Name().Value(), name, want, mv.Inspect()),
					fmt.Sprintf("module#%d", want), "Builtin.module back-pointer after init and after later Configs were built")
				break
			}
		}
	}
	if c.seq != nil {
		r.seqSpec(c, key, real, realG)
	}

	// ---- the real graph, reachability decided by Lean
	var gids *c11Ids
	if c.style == "A" {
		gids = c11_newC11Ids()
		for _, o := range hostObjs {
			gids.add(o)
		}
	} else {
		gids = en.ids
	}
	w := c11_newC11Walker(gids, universe)
	var extra []object.Object
	if c.style != "A" {
		extra = en.ids.objs // everything held from before the edits, reachable or not
	} else {
		extra = hostObjs
	}
	w.walk(real, extra)
	e.R.H("graph_nodes", c11Bucket(len(gids.objs)))
	e.R.H("graph_edges", c11Bucket(len(w.g.edges)))

	type tgt struct {
		what   string
		name   string
		mid    int   // model id
		gids   []int // node ids in the dumped graph that ARE this object
		impl   bool  // Impl predicts reachable
		deep   bool
		isOv   bool
		ovVal  int
		fpSkip bool
	}
	var tgts []tgt
	mk := func(what, name string, f []string, isOv bool, ovVal int) {
		if len(f) < 4 || f[0] == "n" {
			return
		}
		mid, _ := strconv.Atoi(f[0])
		t := tgt{what: what, name: name, mid: mid, impl: f[1] == "1", deep: f[len(f)-1] == "1", isOv: isOv, ovVal: ovVal}
		if isOv && mid == ovVal {
			return // replaced by itself
		}
		obj := en.ids.objs[mid]
		if obj == nil {
			return
		}
		if c.style != "A" || !r.isRefID(mid) {
			if id, ok := gids.idOf(obj); ok {
				t.gids = []int{id}
			}
		} else {
			// style A: the denied default object is identified by its fingerprint
			fp := c11Fingerprint(obj)
			if !c11IdentityKind(obj) || r.refFP[fp] != 1 {
				t.fpSkip = true
			} else {
				for id, o := range gids.objs {
					if o != nil && c11IdentityKind(o) && c11Fingerprint(o) == fp {
						t.gids = append(t.gids, id)
					}
				}
			}
		}
		tgts = append(tgts, t)
	}
	for i, d := range c.denies {
		mk("denied", d, rp.denies[i], false, 0)
	}
	for i, o := range c.ovs {
		mk("overridden", o.name, rp.ovs[i], true, ovIDs[i])
	}
	nontrivial := len(tgts) > 0
	var flat []int
	for _, t := range tgts {
		flat = append(flat, t.gids...)
	}
	bits := ""
	if len(flat) > 0 {
		ts := make([]string, len(flat))
		for i, x := range flat {
			ts[i] = strconv.Itoa(x)
		}
		rep := e.O.Ask("C11", "reach", w.g.encode(), "0", strings.Join(ts, ","))
		f := strings.Split(rep, "\t")
		if len(f) == 2 && f[0] == "ok" && len(f[1]) == len(flat) {
			bits = f[1]
		} else {
			e.R.Mismatch(key, "-", rep[:min(len(rep), 200)], "oracle rejected the reach request")
		}
	}
	par := w.g.bfs(0)
	deniedNodes := map[int]string{} // graph node -> name it was denied under (for the access checks)
	pos := 0
	for _, t := range tgts {
		reach := false
		witness := ""
		for _, gid := range t.gids {
			if pos < len(bits) {
				lean := bits[pos] == '1'
				_, goReach := par[gid]
				if lean != goReach {
					e.R.Mismatch(key, fmt.Sprintf("bfs reachable=%v node=%d", goReach, gid), fmt.Sprintf("Lean reach=%v", lean), "reachability on the dumped graph")
				}
				if lean {
					reach = true
					witness = c11Witness(par, gid)
				}
			}
			pos++
			deniedNodes[gid] = t.name
		}
		if t.fpSkip {
			e.R.H("target", t.what+": value object, path checks only")
			continue
		}
		e.R.H("target", fmt.Sprintf("%s: reachable=%v", t.what, reach))
		if t.deep {
			// names with two or more intermediate modules (the shape of the repaired finding)
			e.R.H("deep_name_target", fmt.Sprintf("%s: reachable=%v", t.what, reach))
		}
		if reach != t.impl {
			mismatch = true
			e.R.Mismatch(key, fmt.Sprintf("%s %q reachable=%v via %s", t.what, t.name, reach, witness), fmt.Sprintf("Impl reachable=%v", t.impl), "reachability of the object registered under the name")
		}
		if reach {
			e.R.Spec(key, fmt.Sprintf("the object registered under %s name %q is still reachable: %s", t.what, t.name, witness), "")
		}
	}

	// ---- access attempts
	getattrOK := false
	if gid, ok := rp.globals["getattr"]; ok && gid == pre["getattr"] && gid < len(en.ids.objs) {
		if b, ok := en.ids.objs[gid].(*object.Builtin); ok && b.Key() == "getattr" {
			getattrOK = true
		}
	}
	// risor.Eval builds a new Config from the options on every call.  When the options carry
	// host module objects (which Config.init edits in place) a second init would edit the
	// already edited objects, so such cases run the steps of Eval on the Config built above.
	sharedState := len(c.host) > 0
	for _, o := range c.ovs {
		if _, isMod := o.val.(*object.Module); isMod {
			sharedState = true
		}
	}
	for i, a := range accs {
		src, ok, lastDot := a.script(getattrOK)
		if !ok {
			e.R.H("access", "unspellable")
			continue
		}
		var res object.Object
		var err error
		if c.style == "A" && !sharedState && c.later == 0 {
			res, err = r.eval(src, nil, opts) // risor.Eval: a fresh Config from the same options
		} else {
			res, err = r.eval(src, cfg, nil)
		}
		model := "n"
		if i < len(rp.acc) {
			model = rp.acc[i]
		}
		got := "n"
		if err != nil {
			if strings.HasPrefix(err.Error(), "PANIC") {
				got = "panic"
			}
		} else if res == nil {
			got = "nil-result"
		} else {
			ex := -1
			if model != "n" {
				ex, _ = strconv.Atoi(model)
			}
			id := idOf(res, ex)
			if id < 0 {
				got = "eph"
			} else {
				got = strconv.Itoa(id)
			}
		}
		// x.name on a dynamic attribute pushes the resolved value (cached by the attribute
		// object after its first resolution), not the attribute object
		if model != "n" && lastDot {
			mid, _ := strconv.Atoi(model)
			if mid < len(en.ids.objs) {
				if rs, isRes := en.ids.objs[mid].(object.AttrResolver); isRes {
					model = "eph"
					if c.style != "A" {
						if rv, err := c11Resolve(context.Background(), rs, a.attrs[len(a.attrs)-1]); err == nil && rv != nil {
							if id, ok := en.ids.idOf(rv); ok {
								model = strconv.Itoa(id)
							}
						}
					}
				}
			}
		}
		cls := "fail"
		if got != "n" {
			cls = "ok"
		}
		e.R.H("access", a.why+" → "+cls)
		caseTxt := key + " script=" + strconv.Quote(src)
		if c11Contains(a.attrs, "__name__") {
			// Module.GetAttr answers __name__ itself with a fresh string: outside the skeleton
			// the model describes; only the Spec checks below apply to such a path
			e.R.H("access", "path through __name__ (not modelled)")
		} else if got == "eph" && model == "n" && c11ThroughValue(c, a) {
			// the path steps through a replacement that is a plain value (a string): its
			// methods are fresh builtins of the value, outside the skeleton the model describes
			e.R.H("access", "method of a value replacement (not modelled)")
		} else if got != model {
			detail := ""
			if err != nil {
				detail = " err=" + err.Error()
			}
			e.R.Mismatch(caseTxt, got+detail, model, "access outcome (ids; n = fails, eph = fresh object)")
			mismatch = true
		}
		if err != nil || res == nil {
			continue
		}
		// Spec 1: a script never obtains the object registered under a denied/overridden name
		if c.style != "A" {
			if gid, ok := gids.idOf(res); ok {
				if nm, bad := deniedNodes[gid]; bad {
					e.R.Spec(caseTxt, fmt.Sprintf("script obtained the object registered under removed/replaced name %q", nm), "")
				}
			}
		} else if c11IdentityKind(res) {
			fp := c11Fingerprint(res)
			for _, t := range tgts {
				if t.fpSkip || !r.isRefID(t.mid) {
					continue
				}
				if c11Fingerprint(en.ids.objs[t.mid]) == fp {
					e.R.Spec(caseTxt, fmt.Sprintf("script obtained the object registered under removed/replaced name %q", t.name), "")
				}
			}
		}
		// Spec 2: the name of an override yields the replacement on every access path
		if a.ovIdx >= 0 && rp.ovs[a.ovIdx][0] != "n" && !c11Contains(c.denies, c.ovs[a.ovIdx].name) {
			// a configuration that overrides a module member AND replaces the module itself
			// (or an enclosing module) asks for two things that exclude each other: the path to
			// the member goes through the replaced parent.  The property says nothing about
			// which of the two wins, so such a member override is not judged (the parent's is).
			parentReplaced := false
			for j, o := range c.ovs {
				if j != a.ovIdx && strings.HasPrefix(c.ovs[a.ovIdx].name, o.name+".") {
					parentReplaced = true
				}
			}
			if parentReplaced {
				e.R.H("access", "member override under a replaced parent (conflicting options, not judged)")
				continue
			}
			want := c.ovs[a.ovIdx].val
			if !c11Same(res, want) {
				if _, isRes := want.(object.AttrResolver); !isRes {
					e.R.Spec(caseTxt, fmt.Sprintf("override %q is not what the script observes (got %s)", c.ovs[a.ovIdx].name, res.Inspect()), "")
				}
			}
		}
	}
	// a path that does not exist in the Spec state but exists in Impl, or vice versa, is covered by
	// the two Spec checks above; record how often Impl and Spec differ at all
	if mismatch {
		e.R.H("case_outcome", "Go differs from the Impl model")
	}
	if rp.same {
		e.R.H("impl_vs_spec", "same state")
	} else {
		// since the repair of resolveModule Impl = Spec on every configuration (initCfg_eq_spec)
		e.R.H("impl_vs_spec", "differ")
		e.R.Mismatch(key, "-", "Impl state differs from Spec state", "the oracle's Impl and Spec states of Config.init must be equal (Risor.C11.initCfg_eq_spec)")
	}

	// ---- independence (style A): bystanders built before and after are untouched
	if c.style == "A" {
		cfg2 := risor.NewConfig(risor.WithGlobals(map[string]any{}))
		for which, by := range map[string]*risor.Config{"built-before": cfg0, "built-after": cfg2} {
			r.checkPristine(key, which, by, r.universe)
		}
		// identities shared between the edited config and a bystander
		ids := c11_newC11Ids()
		w1 := c11_newC11Walker(ids, r.universe)
		w1.walk(real, nil)
		n1 := len(ids.objs)
		w2 := c11_newC11Walker(ids, r.universe)
		w2.walk(cfg2.Globals(), nil)
		var a, b []string
		for id := 1; id < n1; id++ {
			if ids.objs[id] != nil {
				a = append(a, strconv.Itoa(id))
			}
		}
		for id := range w2.expanded {
			if ids.objs[id] != nil {
				b = append(b, strconv.Itoa(id))
			}
		}
		sort.Strings(b)
		exempt := []string{"1", "2", "3"}
		for _, o := range hostObjs {
			if id, ok := ids.idOf(o); ok {
				exempt = append(exempt, strconv.Itoa(id))
			}
		}
		rep := e.O.Ask("C11", "shared", strings.Join(a, ","), strings.Join(b, ","), strings.Join(exempt, ","))
		f := strings.Split(rep, "\t")
		if len(f) == 2 && f[0] == "ok" {
			if f[1] == "-" {
				e.R.H("independence", "no shared identities")
			} else {
				for _, s := range strings.Split(f[1], ",") {
					id, _ := strconv.Atoi(s)
					o := ids.objs[id]
					switch o.(type) {
					case *object.Module, *object.List, *object.Map, *object.Set:
						e.R.Mismatch(key, "shared mutable "+string(o.Type())+" "+o.Inspect(), "fresh per Config", "two independently built Configs share a mutable object")
					default:
						e.R.H("independence", "shared immutable "+string(o.Type()))
					}
				}
			}
		} else {
			e.R.Mismatch(key, "-", rep[:min(len(rep), 200)], "oracle rejected the shared request")
		}
	}
	e.R.Case(key, nontrivial)
}

// c11ThroughValue: a proper prefix of the access path spells an override whose value is
// neither a module nor a builtin.
func c11ThroughValue(c *c11Case, a *c11Access) bool {
	path := append([]string{a.first}, a.attrs...)
	for _, o := range c.ovs {
		if c11IdentityKind(o.val) {
			continue
		}
		parts := strings.Split(o.name, ".")
		if len(parts) >= len(path) {
			continue
		}
		same := true
		for i := range parts {
			if parts[i] != path[i] {
				same = false
			}
		}
		if same {
			return true
		}
	}
	// … or a host global that is a plain value (WithGlobal("strings", "text"): `strings.to_upper`
	// is a method of the string)
	if v, ok := c.host[a.first]; ok && !c11IdentityKind(v) && len(a.attrs) > 0 {
		return true
	}
	return false
}

func c11Contains(xs []string, s string) bool {
	for _, x := range xs {
		if x == s {
			return true
		}
	}
	return false
}

func c11Bucket(n int) string {
	switch {
	case n < 10:
		return "<10"
	case n < 100:
		return "10-99"
	case n < 1000:
		return "100-999"
	case n < 3000:
		return "1000-2999"
	default:
		return ">=3000"
	}
}

func (r *c11Run) isRefID(id int) bool {
	return id > 3 && id < len(r.ref.ids.objs)
}

// checkPristine: an unedited Config must show exactly the reference default environment.
func (r *c11Run) checkPristine(key, which string, cfg *risor.Config, universe []string) {
	e := r.e
	real := cfg.Globals()
	local := map[c11Key]int{}
	idOf := func(o object.Object, expect int) int {
		if id, ok := r.ref.ids.idOf(o); ok && !r.isRefID(id) {
			return id
		}
		k, ok := c11KeyOf(o)
		if !ok {
			return -1
		}
		if id, ok := local[k]; ok {
			return id
		}
		if expect > 0 && expect < len(r.ref.ids.objs) && r.ref.ids.objs[expect] != nil && c11Fingerprint(o) == c11Fingerprint(r.ref.ids.objs[expect]) {
			local[k] = expect
			return expect
		}
		return -1
	}
	g := map[string]int{}
	for n, v := range real {
		if o, ok := v.(object.Object); ok {
			ex := -1
			if x, ok := r.refGlob[n]; ok {
				ex = x
			}
			g[n] = idOf(o, ex)
		}
	}
	bad := c11DiffTables("globals", g, r.refGlob)
	for n, v := range real {
		if m, ok := v.(*object.Module); ok {
			id := g[n]
			if id <= 0 {
				continue
			}
			en := &c11Env{ids: r.ref.ids, universe: universe}
			bad = append(bad, c11DiffTables("module "+n, en.moduleTable(m, idOf, r.ref.mods[id]), r.ref.mods[id])...)
		}
	}
	if len(bad) > 0 {
		e.R.Spec(key+" bystander="+which, "a Config without edits does not show the default environment after another Config was edited: "+strings.Join(bad[:min(len(bad), 5)], "; "), "")
		e.R.H("independence", "bystander "+which+" CHANGED")
	} else {
		e.R.H("independence", "bystander "+which+" unchanged")
	}
}

// ---------------------------------------------------------------- generators

// genHost builds a random tree of nested host modules.
func c11GenHost(rng *RNG, maxDepth int) (map[string]object.Object, string, []string) {
	host := map[string]object.Object{}
	var names []string
	var build func(name, path string, depth int) (*object.Module, string)
	build = func(name, path string, depth int) (*object.Module, string) {
		contents := map[string]object.Object{}
		var desc []string
		nb := 1 + rng.Intn(3)
		for _, f := range []string{"f", "g", "h"}[:nb] {
			contents[f] = c11Noop(f)
			names = append(names, path+"."+f)
			desc = append(desc, f)
		}
		if depth < maxDepth {
			subs := []string{"b", "c", "x"}
			for _, s := range subs {
				if rng.Chance(55) {
					m, d := build(s, path+"."+s, depth+1)
					contents[s] = m
					names = append(names, path+"."+s)
					desc = append(desc, s+d)
				}
			}
		}
		sort.Strings(desc)
		return object.NewBuiltinsModule(name, contents), "{" + strings.Join(desc, ",") + "}"
	}
	var descs []string
	for _, top := range []string{"a", "k"} {
		if top == "k" && rng.Chance(60) {
			continue
		}
		m, d := build(top, top, 1)
		host[top] = m
		names = append(names, top)
		descs = append(descs, top+d)
	}
	if rng.Chance(40) {
		host["hb"] = c11Noop("hb")
		names = append(names, "hb")
		descs = append(descs, "hb")
	}
	if rng.Chance(30) {
		host["hl"] = object.NewList([]object.Object{c11Noop("in_list"), object.NewMap(map[string]object.Object{"k0": c11Noop("in_map")})})
		names = append(names, "hl")
		descs = append(descs, "hl[..]")
	}
	return host, strings.Join(descs, " "), names
}

func c11OvValue(rng *RNG, i int) object.Object {
	switch rng.Intn(4) {
	case 0:
		return object.NewBuiltinsModule("repl"+strconv.Itoa(i), map[string]object.Object{"f": c11Noop("f")})
	case 1:
		return object.NewString("replacement" + strconv.Itoa(i))
	default:
		return c11Noop("replacement" + strconv.Itoa(i))
	}
}

func c11_runC11(e *Env) {
	e.R.Rule = "a case is (style, host globals, denied names, overrides): every default global and module member denied alone and overridden alone " +
		"(all of them in the thorough tier, a seeded sample in the quick tier), seeded subsets of mixed denies/overrides, WithoutDefaultGlobals " +
		"configurations and random trees of nested host modules with dotted names of depth 1-5; for each case the real object graph is walked by " +
		"identity and 15-40 access scripts are evaluated; non-trivial when at least one denied/overridden name resolves to an object in the " +
		"unedited configuration; distinct by the canonical text of the case. " +
		"Option SEQUENCES: every word of length 2-3 over {WithGlobal(s), WithoutGlobal(s), WithGlobalOverride} on one name (default top-level names, a host " +
		"name), words over edits of a module and one of its members, random sequences of 2-7 options (incl. WithoutDefaultGlobals, dotted and odd names) " +
		"over pools of 1-4 names; the Lean model folds the sequence itself and Risor.C11.allowedTop judges the real final binding of every top-level name. " +
		"LATER configurations: 0-2 further Configs are built after the edited one and before its graph is walked and its scripts run. " +
		"REUSED VM: 2-4 configurations (directed pairs without new names, random sequences over one pool), 10-28 access scripts evaluated one after the other " +
		"on one VM under alternating configurations (Config object and risor.Eval+WithVM); non-trivial when some evaluation succeeds. " +
		"SHARED HOST INPUTS: 1-3 host maps (nil, empty, 1-4 entries over a pool of host builtins/modules/lists/maps, the same object under several names and in several maps) " +
		"handed to 2-4 configurations (10 directed templates: permissive then restrictive and the reverse, both option orders, the same []Option slice again, risor.Eval " +
		"and risor.NewConfig; random option sequences over WithGlobals(M_i)/WithGlobal/WithoutGlobal/WithGlobalOverride/WithoutDefaultGlobals) built one after the other " +
		"and, in a child process, concurrently; after every build every host map / host module / host container is compared by identity with what the host wrote, every Config's " +
		"globals are compared with Risor.C11.runBuilds (Impl) and Risor.C11.ownGlobals (Spec) right after its build and again after all builds, and scripts run under every " +
		"configuration's options; non-trivial when a non-nil host map is named by at least two of the builds. " +
		"SHARED HOST OBJECTS: 2-3 configurations whose WithGlobalOverride / WithGlobal options name the SAME host objects (two builtins without a module, a builtin of a host module, " +
		"a string, a module, a host callback) under dotted names of default modules (os, math, …), of private host modules hm{f,g,sub{f}} and top-level names, mixed with removals of other " +
		"members (20 directed scenarios: restricted tenant first / last / three tenants / different modules / nested members, each also with the last configuration built by a host callback " +
		"WHILE a script of the previous one runs; random option lists); after every build the globals, every module table and every registered builtin's __module__ are compared by identity with " +
		"Risor.C11.runBuildsO, 8-30 access scripts of EVERY configuration built so far (replacement, replacement.__module__, what lies behind it, removed names through sibling and replacement " +
		"back-references) are evaluated on its Config and compared with the model at that stage, with their own result right after the configuration's build, and with the Spec (no object of another " +
		"configuration, no removed object), and at the end Lean's reach decides on the real graph of every configuration whether a foreign module or a removed object is reachable; non-trivial when " +
		"a host builtin is named by at least two of the builds"
	r := &c11Run{e: e}
	// the attribute-name universe regenerated from /repo on this run, through the oracle
	u := e.O.Ask("C11", "universe")
	for _, it := range strings.Split(u, ",") {
		if n := c11ParseName(it); n != "" && !strings.HasPrefix(n, "<bad") {
			r.universe = append(r.universe, n)
		}
	}
	if len(r.universe) < 100 {
		e.R.Mismatch("universe", strconv.Itoa(len(r.universe)), ">=100", "attribute-name universe from the extractor is too small")
		return
	}
	e.R.Note("attribute-name universe: %d names; facts: %s", len(r.universe), strings.ReplaceAll(e.O.Ask("C11", "facts"), "\t", " "))

	// reference default environment
	refG := risor.DefaultGlobals()
	r.ref = &c11Env{ids: c11_newC11Ids(), universe: r.universe}
	w := c11_newC11Walker(r.ref.ids, r.universe)
	w.walk(refG, nil)
	r.ref.snapshot()
	if len(r.ref.missing) > 0 {
		e.R.Mismatch("reference default environment", strings.Join(r.ref.missing[:min(len(r.ref.missing), 8)], ","), "every module attribute key is in the regenerated universe", "attribute-name universe is incomplete")
	}
	r.refGlob = map[string]int{}
	for n, v := range refG {
		r.refGlob[n], _ = r.ref.ids.idOf(v.(object.Object))
	}
	r.refFP = map[string]int{}
	kinds := map[string]int{}
	for _, o := range r.ref.ids.objs {
		if o != nil {
			kinds[string(o.Type())]++
			if c11IdentityKind(o) {
				r.refFP[c11Fingerprint(o)]++
			}
		}
	}
	for k, n := range kinds {
		e.R.Hist["default_graph_stable_nodes"] = c11_mergeHist(e.R.Hist["default_graph_stable_nodes"], k, n)
	}
	e.R.Note("default graph: %d stable nodes, %d edges, %d GetAttr probes, %d per-access (ephemeral) results collapsed by type", len(r.ref.ids.ids), len(w.g.edges), w.nGetAttr, w.nEph)
	// every default name (top level + members)
	var allNames, topNames, memberNames []string
	nested := 0
	for _, n := range sortedKeys(r.refGlob) {
		topNames = append(topNames, n)
		if t, ok := r.ref.mods[r.refGlob[n]]; ok {
			for _, k := range sortedKeys(t) {
				memberNames = append(memberNames, n+"."+k)
				if _, isMod := r.ref.mods[t[k]]; isMod {
					nested++
				}
			}
		}
	}
	allNames = append(append(allNames, topNames...), memberNames...)
	e.R.Note("default names: %d top-level, %d module members (%d of them modules)", len(topNames), len(memberNames), nested)
	// registration uniqueness in the default graph (aliases would make "the object registered
	// under a name" ambiguous)
	incoming := map[int]int{}
	for _, id := range r.refGlob {
		incoming[id]++
	}
	for _, t := range r.ref.mods {
		for _, id := range t {
			incoming[id]++
		}
	}
	alias := 0
	for id, n := range incoming {
		if n > 1 && id > 3 {
			alias++
		}
	}
	e.R.Note("default objects registered under more than one name: %d", alias)

	rng := e.Rng.Fork()
	styles := []string{"A", "B"}

	// 0. the minimal instances of the repaired finding C11-nested-module-path (names with two
	// intermediate modules; on a tree without the repair these cases are unlisted violations) and
	// their shallow siblings
	mkNested := func() map[string]object.Object {
		c := object.NewBuiltinsModule("c", map[string]object.Object{"f": c11Noop("f")})
		b := object.NewBuiltinsModule("b", map[string]object.Object{"c": c, "f": c11Noop("f")})
		return map[string]object.Object{"a": object.NewBuiltinsModule("a", map[string]object.Object{"b": b, "f": c11Noop("f")})}
	}
	for _, st := range []string{"W", "B", "A"} {
		for _, n := range []string{"a.b.c.f", "a.b.f", "a.f", "a.b.c", "a.b", "a"} {
			r.runCase(&c11Case{style: st, host: mkNested(), hostDesc: "a{b{c{f},f},f}", denies: []string{n}, kind: "fixed nested"}, rng.Fork())
			r.runCase(&c11Case{style: st, host: mkNested(), hostDesc: "a{b{c{f},f},f}", ovs: []c11Ov{{n, c11Noop("replacement")}}, kind: "fixed nested"}, rng.Fork())
		}
	}

	// … and the other face of the same defect: the root module has a member named like the inner
	// module (a.c beside a.b.c), which the pre-fix resolveModule edited instead of a.b.c
	mkSibling := func() map[string]object.Object {
		c := object.NewBuiltinsModule("c", map[string]object.Object{"f": c11Noop("f")})
		b := object.NewBuiltinsModule("b", map[string]object.Object{"c": c})
		c2 := object.NewBuiltinsModule("c", map[string]object.Object{"f": c11Noop("f")})
		return map[string]object.Object{"a": object.NewBuiltinsModule("a", map[string]object.Object{"b": b, "c": c2})}
	}
	for _, st := range []string{"W", "B", "A"} {
		for _, n := range []string{"a.b.c.f", "a.c.f"} {
			r.runCase(&c11Case{style: st, host: mkSibling(), hostDesc: "a{b{c{f}},c{f}}", denies: []string{n}, kind: "fixed nested"}, rng.Fork())
			r.runCase(&c11Case{style: st, host: mkSibling(), hostDesc: "a{b{c{f}},c{f}}", ovs: []c11Ov{{n, c11Noop("replacement")}}, kind: "fixed nested"}, rng.Fork())
		}
	}

	// 1. single denies / single overrides of default names
	names := allNames
	if e.Quick {
		names = nil
		perm := rng.Fork()
		pool := append([]string{}, allNames...)
		for i := 0; i < 100 && len(pool) > 0; i++ {
			j := perm.Intn(len(pool))
			names = append(names, pool[j])
			pool = append(pool[:j], pool[j+1:]...)
		}
		// names the property's text mentions explicitly
		names = append(names, "os", "os.exit", "os.getenv", "getenv", "open", "exec", "http", "getattr")
	}
	for i, n := range names {
		st := styles[i%2]
		if !e.Quick {
			for _, s := range styles {
				r.runCase(&c11Case{style: s, denies: []string{n}, kind: "single deny (default name)", plural: rng.Bool(), later: c11Later(rng, n)}, rng.Fork())
			}
		} else {
			r.runCase(&c11Case{style: st, denies: []string{n}, kind: "single deny (default name)", plural: rng.Bool(), later: c11Later(rng, n)}, rng.Fork())
		}
	}
	ovNames := names
	if e.Quick {
		ovNames = names[:min(len(names), 60)]
		ovNames = append(ovNames, "os.exit", "getenv", "os")
	}
	for i, n := range ovNames {
		st := styles[(i+1)%2]
		sts := []string{st}
		if !e.Quick {
			sts = styles
		}
		for _, s := range sts {
			r.runCase(&c11Case{style: s, ovs: []c11Ov{{n, c11OvValue(rng, i)}}, kind: "single override (default name)", later: c11Later(rng, n)}, rng.Fork())
		}
	}

	// 2. subsets of default names, mixed
	nSub := 120
	if !e.Quick {
		nSub = 3000
	}
	for i := 0; i < nSub; i++ {
		c := &c11Case{style: styles[i%2], kind: "subset (default names)", plural: rng.Bool(), later: rng.Intn(3)}
		k := 2 + rng.Intn(6)
		used := map[string]bool{}
		for j := 0; j < k; j++ {
			n := Pick(rng, allNames)
			if rng.Chance(10) {
				n = Pick(rng, []string{"nosuch", "os.nosuch", "nosuch.exit", "os.exit.more", "len.x", "os.", ".os", "os..exit", "math.PI.x", "os.__name__", "a.b.c.d"})
			}
			if used[n] {
				continue
			}
			used[n] = true
			if rng.Chance(65) {
				c.denies = append(c.denies, n)
			} else {
				c.ovs = append(c.ovs, c11Ov{n, c11OvValue(rng, j)})
			}
		}
		if rng.Chance(10) && len(c.denies) > 0 { // same name denied and overridden
			c.ovs = append(c.ovs, c11Ov{c.denies[0], c11OvValue(rng, 99)})
		}
		r.runCase(c, rng.Fork())
	}

	// 3. nested host modules, with and without the defaults
	nHost := 300
	if !e.Quick {
		nHost = 6000
	}
	for i := 0; i < nHost; i++ {
		depth := 2 + rng.Intn(3)
		host, desc, hnames := c11GenHost(rng, depth)
		st := Pick(rng, []string{"A", "B", "W", "W"})
		c := &c11Case{style: st, host: host, hostDesc: desc, kind: "nested host modules", plural: rng.Bool()}
		k := 1 + rng.Intn(3)
		used := map[string]bool{}
		for j := 0; j < k; j++ {
			n := Pick(rng, hnames)
			switch {
			case rng.Chance(8):
				n = n + ".zz"
			case rng.Chance(8) && st != "W":
				n = Pick(rng, allNames)
			}
			// never edit both a module and something below it in one case (order-dependent)
			if used[n] {
				continue
			}
			used[n] = true
			if rng.Chance(60) {
				c.denies = append(c.denies, n)
			} else {
				c.ovs = append(c.ovs, c11Ov{n, c11OvValue(rng, j)})
			}
		}
		if st == "A" && rng.Chance(20) {
			// a host global named like a default is overwritten by the default
			c.host["len"] = c11Noop("host_len")
			c.hostDesc += " len"
		}
		r.runCase(c, rng.Fork())
	}

	// 5. SEQUENCES of options: every word over {WithGlobal, WithoutGlobal, WithGlobalOverride} of
	// length 2 and 3 on one name (default top-level names, a host name), words of length 2 over
	// member/module edits, and random sequences over small pools of names
	r.runSequences(rng.Fork(), topNames, memberNames)

	// 6. evaluations on ONE reused VM under differing configurations
	r.runReuses(rng.Fork(), topNames, memberNames)

	// 7. HOST-OWNED INPUTS shared between configurations (c11shared.go): the same Go map value (and
	// the same objects inside it) handed to several Configs / evaluations, sequentially and concurrently
	r.runShareds(rng.Fork())

	// 8. HOST OBJECTS shared between configurations (c11objs.go): the same replacement builtin / host
	// value installed by several configurations that deny and override different things; later
	// builds (also by a host callback during a run) must change nothing for an earlier configuration
	r.runObjects(rng.Fork())

	// 4. WithoutDefaultGlobals with nothing / with explicit defaults and no edits
	r.runCase(&c11Case{style: "W", kind: "empty"}, rng.Fork())
	r.runCase(&c11Case{style: "B", kind: "defaults, no edits"}, rng.Fork())
	r.runCase(&c11Case{style: "A", kind: "defaults, no edits"}, rng.Fork())
	e.R.Note("%d configurations evaluated", r.nCases)
}

func c11_mergeHist(m map[string]int, k string, n int) map[string]int {
	if m == nil {
		m = map[string]int{}
	}
	m[k] += n
	return m
}

// ---------------------------------------------------------------- option sequences: Spec on the real result

// seqSpec evaluates Risor.C11.allowedTop on the REAL final binding of every top-level name the
// sequence mentions.
func (r *c11Run) seqSpec(c *c11Case, key string, real map[string]any, realG map[string]int) {
	e := r.e
	seen := map[string]bool{}
	var names []string
	for _, o := range c.seq {
		if o.kind != 'n' && o.kind != 'f' && !strings.Contains(o.name, ".") && !seen[o.name] {
			seen[o.name] = true
			names = append(names, o.name)
		}
	}
	if len(names) == 0 {
		return
	}
	sort.Strings(names)
	ids := r.seqIDs(c)
	bs := make([]string, len(names))
	desc := make([]string, len(names))
	for i, n := range names {
		v, ok := real[n]
		switch {
		case !ok:
			bs[i], desc[i] = "n", "unbound"
		default:
			id := realG[n]
			desc[i] = fmt.Sprintf("object #%d", id)
			if id < 0 {
				id = 900000 + i // an object that is none of the host's and not the default of the name
				desc[i] = "an object the host never supplied"
			} else if c.style == "A" && r.isRefID(id) {
				desc[i] = fmt.Sprintf("the DEFAULT object of %q", n)
			}
			if o, isObj := v.(object.Object); isObj {
				desc[i] += " (" + o.Inspect() + ")"
			}
			bs[i] = strconv.Itoa(id)
		}
		bs[i] = c11Name(n) + "=" + bs[i]
	}
	rep := e.O.Ask("C11", "optspec", c11SeqEncode(c.seq, ids), strings.Join(bs, ","))
	f := strings.Split(rep, "\t")
	if len(f) != 2 || f[0] != "ok" {
		e.R.Mismatch(key, "-", rep[:min(len(rep), 200)], "oracle rejected the optspec request")
		return
	}
	items := strings.Split(f[1], ",")
	for i, it := range items {
		if i >= len(names) {
			break
		}
		g := strings.Split(it, ":")
		if len(g) != 5 {
			continue
		}
		state := "neither denied nor overridden"
		if g[1] != "n" {
			state = "override in force"
		} else if g[2] == "1" {
			state = "denied"
		}
		if g[0] == "1" {
			e.R.H("optseq_spec", state+": binding allowed")
			continue
		}
		e.R.H("optseq_spec", state+": binding NOT allowed")
		e.R.Spec(key, fmt.Sprintf("after the option sequence the top-level name %q is bound to %s; the sequence allows: override in force = %s, denied = %s, host value supplied after the last denial = %s (n = none)",
			names[i], desc[i], g[1], g[2], g[3]), "")
	}
}

// seqIDs: the identity table the case's option values were numbered in (set by runCase).
func (r *c11Run) seqIDs(c *c11Case) *c11Ids { return r.curIDs }

func c11LaterOpts(rng *RNG, i int) []risor.Option {
	switch rng.Intn(5) {
	case 0:
		return []risor.Option{risor.WithoutGlobal("os.exit")}
	case 1:
		return []risor.Option{risor.WithGlobalOverride("os.getenv", c11Noop("later_getenv"))}
	case 2:
		return []risor.Option{risor.WithoutGlobals("math", "strings.contains")}
	case 3:
		return []risor.Option{risor.WithGlobal("zz_later"+strconv.Itoa(i), c11Noop("zz_later"))}
	}
	return []risor.Option{risor.WithGlobals(map[string]any{})}
}

// ---------------------------------------------------------------- evaluations on one reused VM

type c11Eval struct {
	k       int // index of the configuration
	a       *c11Access
	src     string
	lastDot bool
	viaEval bool // through risor.Eval(src, opts_k..., WithVM(vm)): a fresh Config from the same options
}

// runReuse builds the configurations `seqs` (each from its option sequence), numbers all their
// objects by identity, and evaluates generated access scripts one after the other on ONE
// virtual machine, each under one of the configurations.  Every evaluation is compared with
// Risor.C11.vmEval (Impl) and with what the evaluation's own configuration alone determines
// (Spec: Risor.C11.access on its globals).
func (r *c11Run) runReuse(seqs [][]c11Opt, rng *RNG, kind string) {
	e := r.e
	r.nCases++
	ctx := context.Background()
	universe := r.universeFor(&c11Case{})
	ids := c11_newC11Ids()
	K := len(seqs)
	cfgs := make([]*risor.Config, K)
	opts := make([][]risor.Option, K)
	globs := make([]map[string]any, K)
	tables := make([]map[string]int, K)
	shared := make([]bool, K) // the options carry module objects that init edits in place
	for k, seq := range seqs {
		opts[k] = c11SeqOptions(seq)
		cfgs[k] = risor.NewConfig(opts[k]...)
		globs[k] = cfgs[k].Globals()
		for _, o := range seq {
			if _, isMod := o.val.(*object.Module); isMod {
				shared[k] = true
			}
		}
	}
	for k := range seqs {
		w := c11_newC11Walker(ids, universe)
		w.walk(globs[k], nil)
	}
	en := &c11Env{ids: ids, universe: universe}
	en.snapshot()
	if len(en.missing) > 0 {
		e.R.Mismatch("reuse", strings.Join(en.missing[:min(len(en.missing), 8)], ","), "every module attribute key is in the regenerated universe", "attribute-name universe is incomplete")
	}
	nameSet := map[string]bool{}
	for k := range seqs {
		tables[k] = map[string]int{}
		for n, v := range globs[k] {
			if o, ok := v.(object.Object); ok && o != nil {
				if id, ok := ids.idOf(o); ok {
					tables[k][n] = id
					nameSet[n] = true
				}
			}
		}
	}
	allNames := sortedKeys(nameSet)
	// names the configurations treat differently (other object, absent, other member set)
	var hot []string
	for _, n := range allNames {
		diff := false
		for k := 1; k < K && !diff; k++ {
			a, okA := tables[0][n]
			b, okB := tables[k][n]
			if okA != okB {
				diff = true
			} else if okA {
				ta, ma := en.mods[a]
				tb, mb := en.mods[b]
				if ma != mb || (!ma && c11Fingerprint(ids.objs[a]) != c11Fingerprint(ids.objs[b])) {
					diff = true
				} else if ma && strings.Join(sortedKeys(ta), ",") != strings.Join(sortedKeys(tb), ",") {
					diff = true
				} else if ma {
					for _, m := range sortedKeys(ta) {
						if c11Fingerprint(ids.objs[ta[m]]) != c11Fingerprint(ids.objs[tb[m]]) {
							diff = true
						}
					}
				}
			}
		}
		if diff {
			hot = append(hot, n)
		}
	}
	for _, seq := range seqs {
		for _, o := range seq {
			if o.kind != 'n' {
				p := strings.Split(o.name, ".")[0]
				if nameSet[p] && !c11Contains(hot, p) {
					hot = append(hot, p)
				}
			}
		}
	}
	getattrOK := make([]bool, K)
	for k := range seqs {
		if b, ok := globs[k]["getattr"].(*object.Builtin); ok && b.Key() == "getattr" {
			getattrOK[k] = true
		}
	}
	// ---- the evaluation plan
	nEval := 10 + rng.Intn(8)
	if !e.Quick {
		nEval = 16 + rng.Intn(12)
	}
	var evals []c11Eval
	k := 0
	for len(evals) < nEval {
		if len(evals) > 0 && rng.Chance(45) {
			k = rng.Intn(K)
		}
		// the path is drawn from the skeleton of ANY of the configurations, so that members the
		// evaluating configuration removed or replaced are probed
		first := ""
		if len(hot) > 0 && rng.Chance(70) {
			first = Pick(rng, hot)
		} else if len(allNames) > 0 {
			first = Pick(rng, allNames)
		} else {
			first = "no_such_global_zz"
		}
		j := rng.Intn(K)
		cur, ok := tables[j][first]
		if !ok {
			cur, ok = tables[k][first]
		}
		var attrs []string
		for step := 0; ok && step < 4; step++ {
			if t, isMod := en.mods[cur]; isMod {
				ks := sortedKeys(t)
				if len(ks) == 0 || rng.Chance(12) {
					break
				}
				m := Pick(rng, ks)
				attrs = append(attrs, m)
				cur = t[m]
			} else if m, isB := en.back[cur]; isB && m != c11NilID {
				if rng.Chance(55) {
					break
				}
				attrs = append(attrs, "__module__")
				cur = m
			} else {
				break
			}
		}
		isMod := false
		for q := 0; q < K; q++ {
			if id, ok := tables[q][first]; ok {
				if _, m := en.mods[id]; m {
					isMod = true
				}
			}
		}
		a := &c11Access{imp: isMod && rng.Chance(25), first: first, attrs: attrs, syntax: make([]bool, len(attrs)), ovIdx: -1}
		for i := range a.syntax {
			a.syntax[i] = rng.Bool()
		}
		if a.imp {
			a.from = rng.Chance(35)
			a.alias = rng.Chance(30)
		}
		src, spellable, lastDot := a.script(getattrOK[k])
		if !spellable {
			e.R.H("reuse_eval", "unspellable")
			nEval--
			continue
		}
		evals = append(evals, c11Eval{k: k, a: a, src: src, lastDot: lastDot, viaEval: !shared[k] && rng.Chance(25)})
	}
	// the exact names a configuration denies or overrides, probed under that configuration in a
	// later run (direct path, and through a sibling's __module__ when the skeleton has one)
	for k, seq := range seqs {
		for _, o := range seq {
			if o.kind != 'd' && o.kind != 'o' {
				continue
			}
			parts := strings.Split(o.name, ".")
			cands := []*c11Access{{first: parts[0], attrs: parts[1:], syntax: make([]bool, len(parts)-1), ovIdx: -1}}
			if len(parts) == 2 {
				for q := 0; q < K; q++ {
					if t, ok := en.mods[tables[q][parts[0]]]; ok {
						for _, sib := range sortedKeys(t) {
							if _, isB := en.back[t[sib]]; isB && sib != parts[1] {
								cands = append(cands, &c11Access{first: parts[0], attrs: []string{sib, "__module__", parts[1]}, syntax: []bool{false, rng.Bool(), rng.Bool()}, ovIdx: -1})
								break
							}
						}
						break
					}
				}
			}
			for _, a := range cands {
				if src, ok, lastDot := a.script(getattrOK[k]); ok {
					evals = append(evals, c11Eval{k: k, a: a, src: src, lastDot: lastDot, viaEval: !shared[k] && rng.Chance(25)})
				}
			}
		}
	}
	descs := make([]string, K)
	for k, seq := range seqs {
		descs[k] = fmt.Sprintf("cfg%d=%s", k, c11SeqText(seq))
	}
	var plan []string
	for _, ev := range evals {
		how := ""
		if ev.viaEval {
			how = "Eval:"
		}
		plan = append(plan, fmt.Sprintf("%s%d:%s", how, ev.k, strconv.Quote(ev.src)))
	}
	key := "one VM; " + strings.Join(descs, " ") + " evaluations=[" + strings.Join(plan, " ") + "]"
	e.R.H("kind", kind)
	e.R.H("reuse_configs", strconv.Itoa(K))
	// ---- the model
	tabs := make([]string, K)
	for k := range seqs {
		tabs[k] = c11Table(tables[k])
	}
	evs := make([]string, len(evals))
	for i, ev := range evals {
		evs[i] = strconv.Itoa(ev.k) + "~" + ev.a.encode()
	}
	if len(evs) == 0 {
		e.R.Case(key, false)
		return
	}
	rep := e.O.Ask("C11", "vmseq", en.encodeMods(), en.encodeBack(), strings.Join(tabs, "/"), strings.Join(evs, ","))
	f := strings.Split(rep, "\t")
	var outs []string
	if len(f) == 2 && f[0] == "ok" {
		outs = strings.Split(f[1], ",")
	}
	if len(outs) != len(evals) {
		e.R.Mismatch(key, "-", rep[:min(len(rep), 200)], "oracle rejected the vmseq request")
		e.R.Case(key, false)
		return
	}
	// ---- the real VM
	machine, err := vm.NewEmpty()
	if err != nil {
		e.R.Mismatch(key, err.Error(), "a VM", "vm.NewEmpty")
		return
	}
	nontrivial := false
	owner := func(id int) string {
		var in []string
		for q := 0; q < K; q++ {
			for n, x := range tables[q] {
				if x == id {
					in = append(in, fmt.Sprintf("cfg%d.%s", q, n))
				}
				if t, ok := en.mods[x]; ok {
					for m, y := range t {
						if y == id {
							in = append(in, fmt.Sprintf("cfg%d.%s.%s", q, n, m))
						}
					}
				}
			}
		}
		sort.Strings(in)
		if len(in) > 4 {
			in = in[:4]
		}
		return strings.Join(in, ",")
	}
	for i, ev := range evals {
		io := strings.Split(outs[i], ":")
		if len(io) != 2 {
			continue
		}
		impl, spec := io[0], io[1]
		var res object.Object
		var rerr error
		func() {
			defer func() {
				if p := recover(); p != nil {
					res, rerr = nil, fmt.Errorf("PANIC: %v", p)
				}
			}()
			if ev.viaEval {
				res, rerr = risor.Eval(ctx, ev.src, append(append([]risor.Option{}, opts[ev.k]...), risor.WithVM(machine))...)
				return
			}
			// the steps of risor.Eval with WithVM, on the Config object whose objects are numbered
			prog, err := parser.Parse(ctx, ev.src)
			if err != nil {
				rerr = err
				return
			}
			code, err := compiler.Compile(prog, cfgs[ev.k].CompilerOpts()...)
			if err != nil {
				rerr = err
				return
			}
			res, rerr = vm.RunCodeOnVM(ctx, machine, code, cfgs[ev.k].VMOpts()...)
		}()
		got := "n"
		known := false
		switch {
		case rerr != nil:
			if strings.HasPrefix(rerr.Error(), "PANIC") {
				got = "panic"
			}
		case res == nil:
			got = "nil-result"
		default:
			if id, ok := ids.idOf(res); ok {
				got, known = strconv.Itoa(id), true
			} else {
				got = "other"
			}
		}
		cls := "ident"
		if ev.a.imp {
			cls = "import"
		}
		if i == 0 {
			cls += " (first run)"
		} else {
			cls += " (later run)"
		}
		if got == "n" {
			e.R.H("reuse_eval", cls+" → fails")
		} else {
			e.R.H("reuse_eval", cls+" → ok")
			nontrivial = true
		}
		caseTxt := fmt.Sprintf("%s AT evaluation #%d", key, i)
		// x.name on a dynamic attribute pushes a resolved (fresh) value
		resolver := false
		if impl != "n" && ev.lastDot && len(ev.a.attrs) > 0 {
			if mid, _ := strconv.Atoi(impl); mid < len(ids.objs) {
				var rs object.AttrResolver
				rs, resolver = ids.objs[mid].(object.AttrResolver)
				if resolver {
					// the attribute object caches its resolved value: that is what the script gets
					if rv, err := c11Resolve(ctx, rs, ev.a.attrs[len(ev.a.attrs)-1]); err == nil && rv != nil {
						if id, ok := ids.idOf(rv); ok {
							if spec == impl {
								spec = strconv.Itoa(id)
							}
							impl = strconv.Itoa(id)
							resolver = false
						}
					}
				}
			}
		}
		bad := false
		switch {
		case got == "panic" || got == "nil-result":
			bad = true
		case ev.viaEval:
			// a fresh Config from the same options: only success/failure is comparable, and an
			// object of one of the numbered configurations must never appear
			bad = (impl != "n" && got == "n") || (known && got != impl)
		case impl == "n":
			bad = known // an object outside every configuration's graph (method of a value replacement) is not modelled
		case resolver:
			bad = got == "n"
		default:
			bad = got != impl
		}
		if bad {
			detail := ""
			if rerr != nil {
				detail = " err=" + rerr.Error()
			}
			if known {
				detail += " (that object is " + owner(c11Atoi(got)) + ")"
			}
			e.R.Mismatch(caseTxt, got+detail, impl, "result of an evaluation on a reused VM (ids; n = fails)")
		}
		// Spec: whatever ran before on this VM, the evaluation obtains nothing but what its own
		// configuration holds under the path
		if known && got != spec && !resolver {
			if ev.viaEval {
				e.R.Spec(caseTxt, fmt.Sprintf("evaluation #%d (fresh Config from the options of cfg%d) obtained %s, an object of an EARLIER configuration (%s)",
					i, ev.k, res.Inspect(), owner(c11Atoi(got))), "")
			} else {
				e.R.Spec(caseTxt, fmt.Sprintf("evaluation #%d under cfg%d obtained object #%s %s (%s); its own configuration gives #%s for this path (n = nothing)",
					i, ev.k, got, res.Inspect(), owner(c11Atoi(got)), spec), "")
			}
		}
	}
	runtime.KeepAlive(cfgs)
	e.R.Case(key, nontrivial && K >= 2)
}

func c11Atoi(s string) int { n, _ := strconv.Atoi(s); return n }

// ---------------------------------------------------------------- generators for sequences

func c11SeqVal(rng *RNG, name string, i int) object.Object {
	if strings.HasPrefix(name, "hostmod") && !strings.Contains(name, ".") {
		return object.NewBuiltinsModule(name, map[string]object.Object{"f": c11Noop("f"), "g": c11Noop("g")})
	}
	return c11OvValue(rng, i)
}

// c11Word turns a word over {G, D, O} into options on one name.
func c11Word(rng *RNG, word string, name string) []c11Opt {
	var seq []c11Opt
	for i, ch := range word {
		switch ch {
		case 'G':
			seq = append(seq, c11Opt{kind: 'g', name: name, val: c11SeqVal(rng, name, i), plural: rng.Bool()})
		case 'D':
			seq = append(seq, c11Opt{kind: 'd', name: name, plural: rng.Bool()})
		case 'O':
			seq = append(seq, c11Opt{kind: 'o', name: name, val: c11SeqVal(rng, name, i)})
		}
	}
	return seq
}

func c11Words(alphabet string, n int) []string {
	if n == 0 {
		return []string{""}
	}
	var out []string
	for _, w := range c11Words(alphabet, n-1) {
		for _, ch := range alphabet {
			out = append(out, w+string(ch))
		}
	}
	return out
}

// c11GenSeq: a random sequence over a small pool of names (so that the same name is supplied,
// denied and overridden several times in one sequence).
func c11GenSeq(rng *RNG, pool []string, n int, allowNoDefaults bool) []c11Opt {
	var seq []c11Opt
	for i := 0; i < n; i++ {
		name := Pick(rng, pool)
		switch x := rng.Intn(100); {
		case x < 36:
			seq = append(seq, c11Opt{kind: 'd', name: name, plural: rng.Chance(40)})
		case x < 68:
			seq = append(seq, c11Opt{kind: 'g', name: name, val: c11SeqVal(rng, name, i), plural: rng.Chance(40)})
		case x < 95 || !allowNoDefaults:
			seq = append(seq, c11Opt{kind: 'o', name: name, val: c11SeqVal(rng, name, i)})
		default:
			seq = append(seq, c11Opt{kind: 'n'})
		}
	}
	return seq
}

// c11Later: how many further Configs are built after the edited one (module members: always at
// least one, so that back-references are walked with another configuration's objects alive).
func c11Later(rng *RNG, name string) int {
	if strings.Contains(name, ".") {
		return 1 + rng.Intn(2)
	}
	return rng.Intn(3)
}

func (r *c11Run) runSequences(rng *RNG, topNames, memberNames []string) {
	e := r.e
	// a. all words of length 2 and 3 on one top-level name
	tops := []string{"exec", "os", "len", "hostmod_a"}
	if e.Quick {
		tops = append(tops, Pick(rng, topNames))
	} else {
		tops = append(tops, topNames...)
	}
	words := append(c11Words("GDO", 2), c11Words("GDO", 3)...)
	for ti, name := range tops {
		ws := words
		if !e.Quick && ti >= 12 {
			ws = c11Words("GDO", 2)
		}
		for _, w := range ws {
			r.runCase(&c11Case{seq: c11Word(rng, w, name), kind: "option sequence: word on one top-level name", later: rng.Intn(2)}, rng.Fork())
		}
	}
	// b. words of length 2 and 3 over edits of a module and one of its members
	type mm struct{ mod, member string }
	pairs := []mm{{"os", "os.exit"}, {"hostmod_a", "hostmod_a.f"}}
	for i := 0; i < 2; i++ {
		m := Pick(rng, memberNames)
		pairs = append(pairs, mm{strings.SplitN(m, ".", 2)[0], m})
	}
	for _, p := range pairs {
		for _, w := range append(c11Words("dogDO", 2), c11Words("dogDO", 3)...) {
			if e.Quick && len(w) == 3 && !rng.Chance(25) {
				continue
			}
			var seq []c11Opt
			if strings.HasPrefix(p.mod, "hostmod") {
				seq = append(seq, c11Opt{kind: 'g', name: p.mod, val: c11SeqVal(rng, p.mod, 0)})
			}
			for i, ch := range w {
				switch ch {
				case 'd':
					seq = append(seq, c11Opt{kind: 'd', name: p.member, plural: rng.Bool()})
				case 'o':
					seq = append(seq, c11Opt{kind: 'o', name: p.member, val: c11Noop("replacement" + strconv.Itoa(i))})
				case 'g':
					seq = append(seq, c11Opt{kind: 'g', name: p.member, val: c11Noop("rawkey" + strconv.Itoa(i)), plural: rng.Bool()})
				case 'D':
					seq = append(seq, c11Opt{kind: 'd', name: p.mod, plural: rng.Bool()})
				case 'O':
					seq = append(seq, c11Opt{kind: 'o', name: p.mod, val: c11SeqVal(rng, "hostmod_r", i)})
				}
			}
			r.runCase(&c11Case{seq: seq, kind: "option sequence: word on a module and its member", later: rng.Intn(2)}, rng.Fork())
		}
	}
	// c. random sequences over small pools
	n := 140
	if !e.Quick {
		n = 3000
	}
	odd := []string{"nosuch", "os.nosuch", "nosuch.exit", "os.exit.more", "len.x", "os.", ".os", "hostmod_a.f", "hostmod_a.g", "hostmod_b", "zz_host"}
	for i := 0; i < n; i++ {
		var pool []string
		for j := 0; j < 1+rng.Intn(3); j++ {
			switch rng.Intn(4) {
			case 0:
				pool = append(pool, Pick(rng, topNames))
			case 1:
				m := Pick(rng, memberNames)
				pool = append(pool, m)
				if rng.Bool() {
					pool = append(pool, strings.SplitN(m, ".", 2)[0])
				}
			case 2:
				pool = append(pool, Pick(rng, odd))
			default:
				pool = append(pool, Pick(rng, []string{"exec", "os", "os.exit", "os.getenv", "getenv", "open", "http", "hostmod_a"}))
			}
		}
		seq := c11GenSeq(rng, pool, 2+rng.Intn(6), true)
		if rng.Chance(30) { // … mixed with options that do not speak about globals, anywhere
			for j := 0; j < 1+rng.Intn(2); j++ {
				seq = c11InsertFlag(rng, seq, rng.Intn(len(c11FlagNames)))
			}
			r.runCase(&c11Case{seq: seq, kind: "option sequence: random, mixed with other options", later: rng.Intn(2)}, rng.Fork())
			continue
		}
		r.runCase(&c11Case{seq: seq, kind: "option sequence: random", later: rng.Intn(2)}, rng.Fork())
	}
	// d. options that do not speak about globals (Risor.C11.XOpt.flag: WithConcurrency,
	// WithFilename, WithOS) combined with removals: the configuration must be the one the
	// global-related options alone give (xoptseq_flags_irrelevant, xoptseq_denied_stays_denied)
	all := append([]string{}, topNames...)
	sort.Strings(all)
	// d3. one other option and one removed / overridden / re-supplied top-level default name: every
	// name with a random option (thorough: with every option)
	for _, n := range all {
		for k := range c11FlagNames {
			if e.Quick && k != rng.Intn(len(c11FlagNames)) && !rng.Chance(15) {
				continue
			}
			w := "D"
			switch rng.Intn(6) {
			case 0:
				w = "DG"
			case 1:
				w = "GD"
			case 2:
				w = "O"
			}
			seq := c11InsertFlag(rng, c11Word(rng, w, n), k)
			r.runCase(&c11Case{seq: seq, kind: "one other option + word on one top-level default name", later: rng.Intn(2)}, rng.Fork())
		}
	}
	flagSets := [][]int{{0}, {1}, {2}, {0, 1, 2}}
	for _, fs := range flagSets {
		// d1. every top-level default name removed in one configuration, the other options before / after
		for _, after := range []bool{false, true} {
			var seq []c11Opt
			for _, n := range all {
				seq = append(seq, c11Opt{kind: 'd', name: n, plural: true})
			}
			for _, k := range fs {
				if after {
					seq = append(seq, c11Opt{kind: 'f', flag: k})
				} else {
					seq = append([]c11Opt{{kind: 'f', flag: k}}, seq...)
				}
			}
			r.runCase(&c11Case{seq: seq, kind: "other options + removal of every top-level default"}, rng.Fork())
		}
		// d2. WithoutDefaultGlobals (+ one host global) and the other options
		seq := []c11Opt{{kind: 'n'}}
		if rng.Bool() {
			seq = append(seq, c11Opt{kind: 'g', name: "zz_host", val: c11OvValue(rng, 0)})
		}
		for _, k := range fs {
			seq = c11InsertFlag(rng, seq, k)
		}
		r.runCase(&c11Case{seq: seq, kind: "other options + WithoutDefaultGlobals"}, rng.Fork())
	}
}

// c11InsertFlag puts the other option number k at a random position of the sequence.
func c11InsertFlag(rng *RNG, seq []c11Opt, k int) []c11Opt {
	at := rng.Intn(len(seq) + 1)
	out := append([]c11Opt{}, seq[:at]...)
	out = append(out, c11Opt{kind: 'f', flag: k})
	return append(out, seq[at:]...)
}

func (r *c11Run) runReuses(rng *RNG, topNames, memberNames []string) {
	e := r.e
	mk := func(ops ...string) []c11Opt { // "d:name" "o:name" "g:name" "n"
		seq := []c11Opt{}
		for i, s := range ops {
			if s == "n" {
				seq = append(seq, c11Opt{kind: 'n'})
				continue
			}
			seq = append(seq, c11Opt{kind: s[0], name: s[2:]})
			if s[0] != 'd' {
				seq[len(seq)-1].val = c11SeqVal(rng, s[2:], i)
			}
		}
		return seq
	}
	// a. directed: a first configuration, then one with no new names but other objects
	directed := [][][]string{
		{{}, {"d:os.getenv"}},
		{{}, {"o:os.getenv"}},
		{{}, {"o:getenv"}},
		{{}, {"d:os.exit"}, {}},
		{{"d:os.exit"}, {}},
		{{}, {"d:os"}},
		{{"d:os"}, {}},
		{{"o:os"}, {}, {"o:os"}},
		{{}, {"g:zz_host"}, {}},
		{{"g:hostmod_a"}, {"g:hostmod_a", "d:hostmod_a.f"}},
		{{"n", "g:hostmod_a"}, {"n", "g:hostmod_a", "o:hostmod_a.f"}, {}},
		{{"d:math.abs", "d:strings"}, {"d:strings.contains"}, {"o:math.abs"}},
	}
	for _, d := range directed {
		reps := 1
		if !e.Quick {
			reps = 4
		}
		for q := 0; q < reps; q++ {
			var seqs [][]c11Opt
			for _, ops := range d {
				seqs = append(seqs, mk(ops...))
			}
			r.runReuse(seqs, rng.Fork(), "reused VM: directed")
		}
	}
	// b. random: 2-4 configurations over one small pool of names
	n := 45
	if !e.Quick {
		n = 900
	}
	for i := 0; i < n; i++ {
		var pool []string
		for j := 0; j < 2+rng.Intn(2); j++ {
			switch rng.Intn(3) {
			case 0:
				pool = append(pool, Pick(rng, topNames))
			case 1:
				m := Pick(rng, memberNames)
				pool = append(pool, m)
			default:
				pool = append(pool, Pick(rng, []string{"os", "os.exit", "os.getenv", "getenv", "exec", "hostmod_a", "hostmod_a.f", "zz_host"}))
			}
		}
		K := 2 + rng.Intn(3)
		var seqs [][]c11Opt
		for k := 0; k < K; k++ {
			seqs = append(seqs, c11GenSeq(rng, pool, rng.Intn(4), rng.Chance(10)))
		}
		r.runReuse(seqs, rng.Fork(), "reused VM: random")
	}
}
