package main

// C04 on C01's proved CONTAINER fragment F6 (lean/RisorModel/C04/SeqCert*.lean).  The theorem
// `seq_compile_balanced` says: for EVERY program p of the fragment (lists with identity, index reads
// and writes incl. `a[i] op= e`, the four range-loop forms over lists and ints, break / continue
// inside them; operand nesting within the frame's limit) the verified checker `check` accepts the
// code `SeqC.toC04 (compSeq p)` with the certificate `certSeq p`, computed from the syntax tree
// alone (`SeqC.hts`): the body of a range loop runs one above the loop's entry height (the ITERATOR
// in its stack slot), FOR_ITER's exhaustion edge drops it, a `break` pops it before it jumps.  This
// file ties the objects of that theorem to the real compiler and the real VM, on C01's directed F6
// programs and on programs of C01's F6 generator (reused: c01seqDirected, c01seqProgram):
//
//   (A) the real main code object with the operands `check` never reads erased (pool index of
//       LOAD_CONST, table index of LOAD_GLOBAL / STORE_GLOBAL; theorem `check_eraseIdx`) must BE
//       `SeqC.toC04 (compSeq p)`, slot for slot (C01's link A compares the assembled code; here the
//       erased form the theorem is about is compared), and the program compiles to ONE code object;
//   (B) the certificate computed by Lean from the SYNTAX TREE is laid over the bytecode the REAL
//       compiler emitted and must be accepted by `check` on those instructions; the certificate the
//       (unverified) inference finds on the real bytecode must agree with it; the proved statement
//       itself, evaluated, must hold;
//   (C) every program is RUN on the real VM with the height hook (vm.VerifTrace): at every
//       instruction the real VM dispatches the real operand-stack height (sp relative to the
//       frame's entry) must equal the SYNTAX-TREE certificate's entry for that slot — in the body
//       of a range loop, at FOR_ITER on every round, after a break, after exhaustion.
//
// Any difference is a correspondence mismatch (e.R.Mismatch): the theorem would no longer be
// about the code.

import (
	"fmt"
	"strconv"
	"strings"
	"time"

	"github.com/risor-io/risor/compiler"
	"github.com/risor-io/risor/op"
	"github.com/risor-io/risor/vm"
)

var c04seqRuleDone = false
var c04seqRng *RNG
var c04seqCalls = 0

// c04SeqBreakInRange: the text contains the `POP_TOP JUMP_FORWARD` of a break out of a range loop
// between a FOR_ITER and its JUMP_BACKWARD (the only place the fragment's compiler emits the pair
// before the loop's own closing POP_TOP JUMP_BACKWARD)
func c04SeqBreakInRange(text string) bool {
	i := strings.Index(text, "FOR_ITER")
	return i >= 0 && strings.Contains(text[i:], "POP_TOP JUMP_FORWARD")
}

func c04SeqNonTrivial(text string) bool {
	return strings.Contains(text, "FOR_ITER") &&
		(c04NonTrivial(text) || strings.Contains(text, "STORE_SUBSCR") || strings.Contains(text, "BINARY_SUBSCR"))
}

// c04SeqOne checks ties (A) and (B) on one program; it returns (inside the fragment, everything
// accepted, the syntax-tree certificate, the real code's id).
func c04SeqOne(e *Env, p *N, src, origin string) (bool, bool, []int, string) {
	code, err := CompileSrc(src)
	if err != nil {
		// whether fragment programs compile is C01's link A; here there is nothing to check
		e.R.H("seqcert", origin+":does-not-compile")
		return false, false, nil, ""
	}
	var root *compiler.Code
	nCodes := 0
	for _, cc := range code.Flatten() {
		nCodes++
		if cc.IsRoot() {
			root = cc
		}
	}
	if root == nil {
		return false, false, nil, ""
	}
	text := CodeText(root)
	if text == "" {
		return false, false, nil, ""
	}
	rep := e.O.Ask("C04", "seqcert", Sexp(p), c01Globals, text)
	f := strings.Split(rep, "\t")
	if f[0] == "out" {
		return false, false, nil, ""
	}
	if f[0] != "in" || len(f) != 8 {
		e.R.Mismatch(src, text, rep[:min(len(rep), 300)], "C04 seqcert: malformed oracle reply")
		return false, false, nil, ""
	}
	realOK, same, modelOK, fits, peak, inferred, certText := f[1], f[2], f[3], f[4], f[5], f[6], f[7]
	e.R.H("seqcert", origin+":"+fits)
	var pk int
	fmt.Sscanf(peak, "%d", &pk)
	e.R.H("seqcert_peak", fmt.Sprintf("%02d", min(pk, 40)))
	e.R.Case("seq:"+text, c04SeqNonTrivial(text))
	// which iteration forms / container instructions the code has
	for _, tok := range strings.Fields(text) {
		switch {
		case strings.HasPrefix(tok, "FOR_ITER:"):
			parts := strings.Split(tok, ":")
			if len(parts) == 3 {
				e.R.H("seqcert_for_iter_names", parts[2])
			}
		case strings.HasPrefix(tok, "BUILD_LIST:"):
			e.R.H("seqcert_build_list_items", strings.TrimPrefix(tok, "BUILD_LIST:"))
		case tok == "BINARY_SUBSCR" || tok == "STORE_SUBSCR" || tok == "GET_ITER":
			e.R.H("seqcert_container_ops", tok)
		}
	}
	if c04SeqBreakInRange(text) {
		e.R.H("seqcert_container_ops", "break-out-of-range-loop")
	}
	ok := fits == "fits"
	if nCodes != 1 {
		ok = false
		e.R.Mismatch(src, fmt.Sprintf("%d code objects", nCodes), "1 code object", "container fragment: the program compiled to more than its main code object")
	}
	if same != "same" {
		ok = false
		e.R.Mismatch(src, text, rep[:min(len(rep), 300)], "container fragment (A): the real main code object with pool/table indices erased is not SeqC.toC04 (compSeq p) — seq_compile_balanced is not about this bytecode")
	}
	if fits == "fits" {
		if realOK != "accept" {
			ok = false
			e.R.Mismatch(src, text, rep[:min(len(rep), 300)], "container fragment (B): the certificate computed from the syntax tree (certSeq: SeqC.hts) is refused by the verified checker on the REAL compiler's bytecode")
		}
		if modelOK != "accept" {
			ok = false
			e.R.Mismatch(src, text, rep[:min(len(rep), 300)], "container fragment: check (SeqC.toC04 (compSeq p)) (certSeq p) evaluates to false although seq_compile_balanced proves it (inconsistent build)")
		}
		if inferred != "agree" {
			ok = false
			e.R.Mismatch(src, text, rep[:min(len(rep), 300)], "container fragment: the certificate inferred from the real bytecode disagrees with the syntax tree's certificate")
		}
	} else {
		e.R.Note("container-fragment program nests operands deeper than the frame's limit (guard fitsSeq of seq_compile_balanced): peak %s", peak)
	}
	var hs []int
	for _, x := range strings.Split(certText, ",") {
		if x == "-" {
			hs = append(hs, -1)
		} else {
			v, _ := strconv.Atoi(x)
			hs = append(hs, v)
		}
	}
	return true, ok, hs, root.ID()
}

// c04SeqHeights (tie C) runs a program on the real VM and compares, at every instruction the VM
// dispatches, the real operand-stack height with the SYNTAX-TREE certificate.
func c04SeqHeights(e *Env, src string, cert []int, rootID string, timeout time.Duration) {
	base, haveBase := 0, false
	mismatch := ""
	n := 0
	ops := map[op.Code]int{}
	exhausted := 0 // FOR_ITER followed by a slot other than its fall-through: the exhaustion edge
	var prevOp op.Code
	prevIP := -1
	vm.VerifTrace = func(_ *vm.VirtualMachine, id string, ip int, opc op.Code, sp int, fp int) {
		if mismatch != "" {
			return
		}
		n++
		if id != rootID {
			mismatch = fmt.Sprintf("instruction #%d: code %s slot %d: the program runs a code object other than its main code", n, id, ip)
			return
		}
		if !haveBase {
			// the first dispatched instruction is slot 0 of the main code: the frame's entry height
			base, haveBase = sp+1, true
		}
		if prevOp == op.ForIter && prevIP >= 0 && ip != prevIP+3 {
			exhausted++
		}
		prevOp, prevIP = opc, ip
		switch opc {
		case op.ForIter, op.GetIter, op.BuildList, op.BinarySubscr, op.StoreSubscr:
			ops[opc]++
		}
		h := sp + 1 - base
		want := -1
		if ip < len(cert) {
			want = cert[ip]
		}
		if want != h {
			mismatch = fmt.Sprintf("instruction #%d: slot %d (%s): real height %d, certSeq %d", n, ip, op.GetInfo(opc).Name, h, want)
		}
	}
	out := EvalSrc(src, timeout)
	vm.VerifTrace = nil
	bucket := func(k int) string {
		switch {
		case k == 0:
			return "0"
		case k <= 3:
			return "1-3"
		case k <= 20:
			return "4-20"
		default:
			return ">20"
		}
	}
	switch {
	case n == 0:
		e.R.H("seq_real_heights", "not-run")
	case mismatch == "":
		e.R.H("seq_real_heights", "agree")
		if out.Err != "" {
			e.R.H("seq_real_heights_run", "ended-in-error")
		} else {
			e.R.H("seq_real_heights_run", "finished")
		}
		e.R.H("seq_traced_FOR_ITER", bucket(ops[op.ForIter]))
		e.R.H("seq_traced_FOR_ITER_exhausted", bucket(exhausted))
		e.R.H("seq_traced_GET_ITER", bucket(ops[op.GetIter]))
		e.R.H("seq_traced_BUILD_LIST", bucket(ops[op.BuildList]))
		e.R.H("seq_traced_BINARY_SUBSCR", bucket(ops[op.BinarySubscr]))
		e.R.H("seq_traced_STORE_SUBSCR", bucket(ops[op.StoreSubscr]))
	default:
		e.R.H("seq_real_heights", "differ")
		e.R.Mismatch(src, mismatch, "certSeq (seq_compile_balanced + check_sound)", "container fragment (C): real operand-stack height at a dispatched instruction vs the height the syntax-tree certificate gives for that slot")
	}
}

// c04SeqTie is called once per program of the shared generator (the program itself is not used:
// the shared generator's container programs use calls — len, append — outside F6; C01's own F6
// generator is reused instead).  Quick: the directed programs and one generated program per 8
// calls (≈ 310); thorough: one per 4 calls (15 000).
func c04SeqTie(e *Env, _ *N) {
	if !c04seqRuleDone {
		c04seqRuleDone = true
		c04seqRng = NewRNG(e.Seed*0x9E3779B9 + 0xC045E9) // own stream: the other generators' streams are untouched
		e.R.Rule += "; proved container fragment (seq_compile_balanced): C01's directed F6 programs (aliasing, literal freshness, negative / out-of-range indices, nested lists, " +
			"the four range forms over lists and ints, break / continue in range loops, bodies writing to the list ranged over, compound item assignment) and programs of C01's F6 generator " +
			"(list declarations and aliases, index reads, item writes plain and compound, range loops of all four forms with forced bodies incl. break / continue, nested loops, injected errors): " +
			"the certificate certSeq computes from the syntax tree (iterator slots of the enclosing range loops included) must be accepted by the verified checker on the real compiler's bytecode, " +
			"that bytecode with pool/table indices erased must equal SeqC.toC04 (compSeq p), and at every instruction the real VM dispatches the real height must equal certSeq's entry; " +
			"a container-fragment case is one main code object (key seq:<instruction text>), non-trivial when it has a FOR_ITER together with a break/continue inside a loop or an index read / item write"
		for _, q := range c01seqDirected() {
			src := c01seqSrc(q)
			in, ok, cert, id := c04SeqOne(e, q, src, "c01-directed")
			if !in {
				e.R.Mismatch(src, "-", "out", "container fragment: a directed program of C01's fragment F6 is outside the fragment")
				continue
			}
			if ok {
				c04SeqHeights(e, src, cert, id, 5*time.Second)
			}
		}
	}
	c04seqCalls++
	every := 8
	if !e.Quick {
		every = 4
	}
	if c04seqCalls%every != 0 {
		return
	}
	q, shapes := c01seqProgram(c04seqRng.Fork())
	src := c01seqSrc(q)
	in, ok, cert, id := c04SeqOne(e, q, src, "own")
	if !in {
		e.R.H("seqcert", "own:outside")
		return
	}
	for s := range shapes {
		e.R.H("seqcert_shapes", s)
	}
	if ok {
		c04SeqHeights(e, src, cert, id, 5*time.Second)
	}
}

// development aid (not a registered check): `harness C04seq -oracle …` runs only the container
// fragment's directed and generated programs
func init() {
	commands["C04seq"] = func(e *Env) {
		e.R.Rule = "container fragment only (development aid)"
		nProg := 2400
		if !e.Quick {
			nProg = 24000
		}
		for i := 0; i < nProg; i++ {
			c04SeqTie(e, n("prog"))
		}
	}
}
