package main

// C10 part K (round 6): HOW MANY ARGUMENTS A SPAWNED CALL RECEIVES.
//
// A scenario is one spawner (main program, or a function of it) with 1..5 variables and 3..10
// statements: assignments and CALL STATEMENTS of functions with `req` required parameters and
// `nd` parameters with default values (0..48 parameters in all, drawn around 8/9, 16/17, 32/33
// as well as small), given n arguments (req <= n <= req+nd: some defaults are overridden by the
// statement, some are not; a quarter of the go statements: one too few / one too many = the arity
// error, which is fatal for every other form), the
// argument expressions those of part C (variable | literal | tick_i() | dbl(A)).  A call
// statement is a DIRECT call or a spawn in one of the six forms (go f(), go o.m(), go pick()(),
// spawn(), f.spawn(), host object.Spawn); every spawned call is held at a gate and runs only
// after the spawner's last statement (all reassignments done).  Each call reports the values of
// ALL its parameters.
//
//   correspondence: parameters bound / arity error of every call statement and the spawner's
//     final variables against the model (`C10 wide` = wideRun on the thread machine);
//   Spec (evaluated on the real results): a spawned call binds the first n parameters to the
//     values the n argument expressions had at the spawn statement (the harness's own reading,
//     c10ArgEval) and the others to their defaults, and raises the arity error exactly when the
//     direct call would; wait() hands out that result.

import (
	"context"
	"fmt"
	"runtime"
	"strconv"
	"strings"
	"sync"
	"time"

	"github.com/risor-io/risor"
	"github.com/risor-io/risor/object"
)

type c10WStmt struct {
	kind string // a | call
	i, v int    // assignment
	form string // direct | go | gom | goc | spawn | fnspawn | host
	req  int
	defs []int
	args []string
}

type c10WScn struct {
	layout string
	vars   []int
	stmts  []c10WStmt
	procs  int
}

func (s c10WScn) ops() []string {
	var out []string
	for _, st := range s.stmts {
		if st.kind == "a" {
			out = append(out, fmt.Sprintf("a:%d:%d", st.i, st.v))
			continue
		}
		k := "s"
		if st.form == "direct" {
			k = "d"
		}
		d, a := "-", "-"
		if len(st.defs) > 0 {
			var ds []string
			for _, x := range st.defs {
				ds = append(ds, strconv.Itoa(x))
			}
			d = strings.Join(ds, ".")
		}
		if len(st.args) > 0 {
			a = strings.Join(st.args, ".")
		}
		out = append(out, fmt.Sprintf("%s:%d:%s:%s", k, st.req, d, a))
	}
	return out
}

func (s c10WScn) key() string {
	var forms []string
	for _, st := range s.stmts {
		if st.kind == "call" {
			forms = append(forms, st.form)
		}
	}
	return fmt.Sprintf("wide layout=%s procs=%d vars=%v forms=%v ops=%s", s.layout, s.procs, s.vars, forms, strings.Join(s.ops(), ","))
}

func c10WParamCount(rng *RNG) int {
	switch x := rng.Intn(100); {
	case x < 25:
		return rng.Intn(7)
	case x < 55:
		return 7 + rng.Intn(4) // 7..10
	case x < 75:
		return 11 + rng.Intn(10) // 11..20
	case x < 90:
		return 30 + rng.Intn(6) // 30..35
	}
	return 21 + rng.Intn(28) // 21..48
}

func c10GenWide(rng *RNG) c10WScn {
	s := c10WScn{layout: Pick(rng, []string{"global", "local"}), procs: Pick(rng, []int{1, 2, 4, 16})}
	nv := 1 + rng.Intn(5)
	for i := 0; i < nv; i++ {
		s.vars = append(s.vars, rng.Intn(2000)-1000)
	}
	var genArg func(depth int) string
	genArg = func(depth int) string {
		switch x := rng.Intn(100); {
		case x < 50:
			return strconv.Itoa(rng.Intn(nv))
		case x < 65:
			if rng.Bool() {
				return "cm" + strconv.Itoa(1+rng.Intn(999))
			}
			return "c" + strconv.Itoa(rng.Intn(1000))
		case x < 85:
			return "t" + strconv.Itoa(rng.Intn(nv))
		case depth < 2:
			return "d" + genArg(depth+1)
		}
		return strconv.Itoa(rng.Intn(nv))
	}
	n := 3 + rng.Intn(8)
	calls := 0
	for len(s.stmts) < n || calls == 0 {
		if rng.Chance(35) && len(s.stmts) > 0 {
			s.stmts = append(s.stmts, c10WStmt{kind: "a", i: rng.Intn(nv), v: rng.Intn(2000) - 1000})
			continue
		}
		st := c10WStmt{kind: "call", form: Pick(rng, []string{"direct", "go", "gom", "goc", "spawn", "spawn", "fnspawn", "fnspawn", "host"})}
		p := c10WParamCount(rng)
		nd := 0
		if p > 0 && rng.Chance(75) {
			nd = 1 + rng.Intn(p)
			if nd > 12 && rng.Chance(70) {
				nd = 1 + rng.Intn(12)
			}
		}
		st.req = p - nd
		for j := 0; j < nd; j++ {
			st.defs = append(st.defs, 9000+rng.Intn(1000)) // default values are non-negative literals
		}
		argc := st.req + rng.Intn(nd+1)
		// (the arity error is fatal — try() does not stop it — so only a go statement, whose thread's
		// error nobody reads, can be given a wrong number of arguments without ending the program)
		if c10IsGo(st.form) && rng.Chance(25) {
			if rng.Bool() && st.req > 0 {
				argc = st.req - 1
			} else {
				argc = p + 1
			}
		}
		for j := 0; j < argc; j++ {
			st.args = append(st.args, genArg(0))
		}
		s.stmts = append(s.stmts, st)
		calls++
	}
	return s
}

// c10DirectedWide: every spawn form at the argument counts around 8, 16, 32 with defaults
// behind the arguments and required parameters only
func c10DirectedWide() []c10WScn {
	var out []c10WScn
	forms := []string{"go", "gom", "goc", "spawn", "fnspawn", "host"}
	for i, n := range []int{7, 8, 9, 10, 16, 17, 33, 40} {
		for j, form := range forms {
			var args []string
			for k := 0; k < n; k++ {
				args = append(args, []string{"0", "c" + strconv.Itoa(k+1), "t1", "1"}[(k+j)%4])
			}
			// all but the first few parameters have defaults, every one of them overridden
			req := n / 3
			var defs []int
			for k := req; k < n+2; k++ {
				defs = append(defs, 9000+k)
			}
			s := c10WScn{layout: []string{"global", "local"}[(i+j)%2], procs: 2, vars: []int{5, 70},
				stmts: []c10WStmt{
					{kind: "call", form: form, req: req, defs: defs, args: args},
					{kind: "a", i: 0, v: -1},
					{kind: "call", form: form, req: n, args: args},
					{kind: "call", form: "direct", req: req, defs: defs, args: args},
					{kind: "a", i: 1, v: -2},
				}}
			out = append(out, s)
		}
	}
	return out
}

func (s c10WScn) script() string {
	var b strings.Builder
	w := func(format string, a ...any) { fmt.Fprintf(&b, format+"\n", a...) }
	ind := ""
	if s.layout == "local" {
		w("func main() {")
		ind = "  "
	}
	var vnames []string
	for i, v := range s.vars {
		w("%sv%d := %d", ind, i, v)
		vnames = append(vnames, fmt.Sprintf("v%d", i))
	}
	for i := range s.vars {
		w("%stick%d := func() { v%d = v%d + 1; return v%d }", ind, i, i, i, i)
	}
	w("%sdbl := func(x) { return 2 * x }", ind)
	w("%sonerr := func(e) { return \"ERR:\" + string(e) }", ind)
	var ends []string
	for idx, st := range s.stmts {
		if st.kind == "a" {
			w("%sv%d = %d", ind, st.i, st.v)
			continue
		}
		var ps, names, as []string
		for j := 0; j < st.req+len(st.defs); j++ {
			names = append(names, fmt.Sprintf("p%d", j))
			if j < st.req {
				ps = append(ps, fmt.Sprintf("p%d", j))
			} else {
				ps = append(ps, fmt.Sprintf("p%d=%d", j, st.defs[j-st.req]))
			}
		}
		for _, a := range st.args {
			as = append(as, c10ArgSrc(a))
		}
		gate := fmt.Sprintf("gate(%d)", idx)
		if st.form == "direct" {
			gate = "nil"
		}
		w("%sf%d := func(%s) {\n%s  %s\n%s  r := [%s]\n%s  rep(%d, r)\n%s  return r\n%s}", ind, idx, strings.Join(ps, ", "), ind, gate, ind, strings.Join(names, ", "), ind, idx, ind, ind)
		al := strings.Join(as, ", ")
		switch st.form {
		case "direct":
			w("%sres(%d, try(func() { return f%d(%s) }, onerr))", ind, idx, idx, al)
		case "go":
			w("%sgo f%d(%s)", ind, idx, al)
		case "gom":
			w("%sm%d := {run: f%d}", ind, idx, idx)
			w("%sgo m%d.run(%s)", ind, idx, al)
		case "goc":
			w("%spick%d := func() { return f%d }", ind, idx, idx)
			w("%sgo pick%d()(%s)", ind, idx, al)
		case "spawn":
			w("%sth%d := spawn(%s)", ind, idx, strings.Join(append([]string{fmt.Sprintf("f%d", idx)}, as...), ", "))
		case "fnspawn":
			w("%sth%d := f%d.spawn(%s)", ind, idx, idx, al)
		default:
			w("%sth%d := hspawn(%s)", ind, idx, strings.Join(append([]string{fmt.Sprintf("f%d", idx)}, as...), ", "))
		}
		if st.form != "direct" {
			if c10IsGo(st.form) {
				ends = append(ends, fmt.Sprintf("%sjoin(%d)", ind, idx))
			} else {
				ends = append(ends, fmt.Sprintf("%sres(%d, try(func() { return th%d.wait() }, onerr))", ind, idx, idx))
			}
		}
	}
	w("%ssnap([%s])", ind, strings.Join(vnames, ", "))
	w("%srelease()", ind)
	for _, e := range ends {
		w("%s", e)
	}
	if s.layout == "local" {
		w("}\nmain()")
	}
	return b.String()
}

func c10Wide(e *Env) {
	rng := e.Rng.Fork()
	n := 700
	budget := 20 * time.Second
	if !e.Quick {
		n = 12000
		budget = 3 * time.Minute
	}
	scns := c10DirectedWide()
	for i := 0; i < n; i++ {
		scns = append(scns, c10GenWide(rng))
	}
	reqs := make([]string, len(scns))
	for i, s := range scns {
		var vs []string
		for _, v := range s.vars {
			vs = append(vs, strconv.Itoa(v))
		}
		reqs[i] = "C10\twide\t" + strings.Join(vs, ",") + "\t" + strings.Join(s.ops(), ",")
	}
	reps := e.O.AskBatch(reqs)
	deadline := time.Now().Add(budget)
	done := 0
	for i, s := range scns {
		if time.Now().After(deadline) {
			e.R.Note("wide-call scenarios stopped at the tier's time budget after %d of %d", done, len(scns))
			break
		}
		done++
		if !c10RunWide(e, s, reps[i]) {
			e.R.Note("wide-call scenarios stopped after a scenario that did not complete")
			break
		}
	}
	e.R.Note("wide-call scenarios (spawned and direct calls with 0..49 arguments) run: %d", done)
}

func c10WBucket(n int) string {
	switch {
	case n <= 4:
		return "0..4"
	case n <= 8:
		return "5..8"
	case n <= 16:
		return "9..16"
	case n <= 32:
		return "17..32"
	}
	return "33.."
}

// c10WOutcome: what a call statement's result says (list of parameter values | arity error | other)
func c10WOutcome(o object.Object) string {
	switch v := o.(type) {
	case *object.List:
		return "p:" + c10Ints(v)
	case *object.String:
		if strings.HasPrefix(v.Value(), "ERR:") && strings.Contains(v.Value(), "args error") {
			return "E"
		}
		return "str(" + v.Value() + ")"
	case *object.Error:
		if strings.Contains(v.Value().Error(), "args error") {
			return "E"
		}
		return "error(" + v.Value().Error() + ")"
	case *object.NilType:
		return "nil"
	}
	return "other(" + o.Inspect() + ")"
}

func c10RunWide(e *Env, s c10WScn, rep string) bool {
	key := s.key()
	// the Spec's own reading: evaluate the argument expressions at each statement
	cur := append([]int{}, s.vars...)
	spec := map[int]string{}
	nontrivial := false
	for idx, st := range s.stmts {
		if st.kind == "a" {
			cur[st.i] = st.v
			continue
		}
		var vals []string
		for _, a := range st.args {
			vals = append(vals, strconv.Itoa(c10ArgEval(a, cur)))
		}
		n, p := len(st.args), st.req+len(st.defs)
		e.R.H("wide_form", st.form)
		e.R.H("wide_args_"+map[bool]string{true: "direct", false: "spawned"}[st.form == "direct"], c10WBucket(n))
		if n < st.req || n > p {
			spec[idx] = "E"
			e.R.H("wide_outcome", "arity error")
			continue
		}
		for j := n - st.req; j < len(st.defs); j++ {
			vals = append(vals, strconv.Itoa(st.defs[j]))
		}
		spec[idx] = "p:-"
		if len(vals) > 0 {
			spec[idx] = "p:" + strings.Join(vals, ".")
		}
		e.R.H("wide_outcome", map[bool]string{true: "some defaults used", false: "no default used"}[n < p])
		if st.form != "direct" && n > 8 {
			nontrivial = true
		}
	}
	e.R.Case(key, nontrivial)
	f := strings.Split(rep, "\t")
	if len(f) != 2 {
		e.R.Mismatch(key, "-", rep, "oracle reply malformed")
		return true
	}
	var model []string
	if f[0] != "-" {
		model = strings.Split(f[0], ",")
	}

	var mu sync.Mutex
	reports := map[int]string{}
	results := map[int]string{}
	snap := ""
	var hung string
	rel := make(chan struct{})
	fins := map[int]chan struct{}{}
	for idx := range s.stmts {
		fins[idx] = make(chan struct{})
	}
	intArg := func(o object.Object) int {
		if v, ok := o.(*object.Int); ok {
			return int(v.Value())
		}
		return -1
	}
	globals := map[string]any{
		"gate": object.NewBuiltin("gate", func(ctx context.Context, args ...object.Object) object.Object {
			select {
			case <-rel:
			case <-time.After(c10Wait):
				mu.Lock()
				hung = fmt.Sprintf("call %d was never released", intArg(args[0]))
				mu.Unlock()
			}
			return object.Nil
		}),
		"release": object.NewBuiltin("release", func(ctx context.Context, args ...object.Object) object.Object {
			close(rel)
			return object.Nil
		}),
		"rep": object.NewBuiltin("rep", func(ctx context.Context, args ...object.Object) object.Object {
			mu.Lock()
			idx := intArg(args[0])
			reports[idx] = "p:" + c10Ints(args[1])
			ch := fins[idx]
			mu.Unlock()
			if ch != nil {
				close(ch)
			}
			return object.Nil
		}),
		"res": object.NewBuiltin("res", func(ctx context.Context, args ...object.Object) object.Object {
			mu.Lock()
			defer mu.Unlock()
			results[intArg(args[0])] = c10WOutcome(args[1])
			return object.Nil
		}),
		"snap": object.NewBuiltin("snap", func(ctx context.Context, args ...object.Object) object.Object {
			mu.Lock()
			defer mu.Unlock()
			snap = c10Ints(args[0])
			return object.Nil
		}),
		// a go statement hands out nothing: the host waits until the call reported (or, for a call
		// that is to raise the arity error, a moment)
		"join": object.NewBuiltin("join", func(ctx context.Context, args ...object.Object) object.Object {
			idx := intArg(args[0])
			mu.Lock()
			ch := fins[idx]
			mu.Unlock()
			wait := 3 * time.Second
			if spec[idx] == "E" {
				wait = 20 * time.Millisecond
			}
			select {
			case <-ch:
			case <-time.After(wait):
			}
			return object.Nil
		}),
		"hspawn": object.NewBuiltin("hspawn", func(ctx context.Context, args ...object.Object) object.Object {
			th, err := object.Spawn(ctx, args[0], args[1:])
			if err != nil {
				return object.NewError(err)
			}
			return th
		}),
	}
	src := s.script()
	runtime.GOMAXPROCS(s.procs)
	ctx, cancel := context.WithTimeout(context.Background(), 2*c10Wait)
	var err error
	finished := c10_withWatch(func() {
		defer func() {
			if r := recover(); r != nil {
				err = fmt.Errorf("panic: %v", r)
			}
		}()
		_, err = risor.Eval(ctx, src, risor.WithConcurrency(), risor.WithGlobals(globals))
	})
	cancel()
	mu.Lock()
	defer mu.Unlock()
	if finished && err != nil && strings.Contains(err.Error(), "args error") {
		// every statement whose error can reach the main program was given a valid number of arguments
		e.R.Spec(key, fmt.Sprintf("the program ended with %q although every direct call, spawn(), f.spawn() and object.Spawn in it is given between req and req+nd arguments (the same statements as direct calls raise nothing)\n%s", err.Error(), src), "")
		return true
	}
	if !finished || err != nil || hung != "" {
		e.R.Mismatch(key, fmt.Sprintf("finished=%v err=%v hung=%q", finished, err, hung), rep, "wide-call script did not complete\n"+src)
		return finished && hung == ""
	}
	if snap != f[1] {
		e.R.Mismatch(key, "spawner's variables after the last statement: "+snap, f[1], "real run vs C10.wideRun\n"+src)
	}
	ci := 0
	for idx, st := range s.stmts {
		if st.kind != "call" {
			continue
		}
		m := "?"
		if ci < len(model) {
			m = model[ci]
		}
		ci++
		what := fmt.Sprintf("statement %d: %s with %d arguments for a function with %d required parameters and %d defaults", idx, c10SpawnSrc(st.form, strings.Join(st.args, ".")), len(st.args), st.req, len(st.defs))
		if st.form == "direct" {
			what = fmt.Sprintf("statement %d: direct call with %d arguments for a function with %d required parameters and %d defaults", idx, len(st.args), st.req, len(st.defs))
		}
		// what the call itself saw (its report), and what the statement / wait() handed out
		got := reports[idx]
		if got == "" {
			got = "E" // the body never ran
			if r, ok := results[idx]; ok && r != "E" {
				got = "norun+" + r
			}
		} else if r, ok := results[idx]; ok && r != got {
			got = got + " but handed out " + r
		}
		if got != m {
			e.R.Mismatch(key, got, m, what+": real call vs C10.wideRun (p:… = the parameter values bound, E = arity error)\n"+src)
		}
		if got != spec[idx] && st.form != "direct" {
			e.R.Spec(key, fmt.Sprintf("%s: the spawned call observed %s; the same statement made as a direct call at the spawn site binds %s (p:… = the values of all parameters, E = arity error)", what, got, spec[idx]), "")
		}
		if got != spec[idx] && st.form == "direct" {
			e.R.Spec(key, fmt.Sprintf("%s: observed %s; arguments then defaults are %s", what, got, spec[idx]), "")
		}
	}
	return true
}
