package main

// C13 — rooted filesystems and mounts: real code (os.ResolvePath, localfs, VirtualOS)
// against the Lean model (RisorModel/C13) and against the Spec (component-wise
// confinement evaluated directly on the Go results).

import (
	"context"
	"fmt"
	"io/fs"
	"os"
	"path/filepath"
	"sort"
	"strings"

	ros "github.com/risor-io/risor/os"
	"github.com/risor-io/risor/os/localfs"
)

func init() { commands["C13"] = runC13 }

var c13Alphabet = []string{"", ".", "..", "a", "b", "..a", "a.."}

// enumPaths enumerates every path over the alphabet with 1..maxSeg segments, absolute and
// relative, with and without trailing separator.
func enumPaths(maxSeg int, emit func(string)) {
	var rec func(prefix []string, n int)
	rec = func(prefix []string, n int) {
		if len(prefix) == n {
			body := strings.Join(prefix, "/")
			emit(body)
			emit("/" + body)
			emit(body + "/")
			emit("/" + body + "/")
			return
		}
		for _, s := range c13Alphabet {
			rec(append(prefix, s), n)
		}
	}
	for n := 1; n <= maxSeg; n++ {
		rec(nil, n)
	}
	emit("")
}

func c13Nontrivial(p string) bool {
	segs := strings.Split(p, "/")
	if len(segs) >= 2 {
		return true
	}
	return p == "." || p == ".." || p == ""
}

// under reports whether r is base itself or below it at a component boundary.
func under(base, r string) bool {
	if base == "" || base == "/" {
		return true
	}
	if base == "." {
		return r != ".." && !strings.HasPrefix(r, "../") && !filepath.IsAbs(r)
	}
	return r == base || strings.HasPrefix(r, base+"/")
}

func hasDotDotComp(p string) bool {
	for _, s := range strings.Split(p, "/") {
		if s == ".." {
			return true
		}
	}
	return false
}

func runC13(e *Env) {
	e.R.Rule = "paths enumerated exhaustively over the segment alphabet {'', '.', '..', 'a', 'b', '..a', 'a..'} " +
		"(abs/rel, with/without trailing '/') plus seeded random Unicode/byte segments; a case is " +
		"(operation, layout, path); non-trivial when the path has >= 2 segments or is '', '.' or '..'; distinct by that triple; " +
		"mount layouts include mount points registered WITH a trailing separator ('/a/' below '/', '/a/b/' below '/a', alone, beside others); " +
		"two-path operations (every method of *VirtualOS with two path arguments, found by reflection, and the builtins os.rename/os.symlink/cp) " +
		"over nested, sibling and seeded mount layouts x working directories at and inside every mount x ordered PAIRS of a structured path pool " +
		"(at/inside/above/beside every mount point, absolute and relative to the working directory, clean and unclean): a case is " +
		"(layout, cwd, operation, path, path2), all non-trivial; " +
		"SESSIONS on one rooted local filesystem over a real tree (absolute base and relative spellings of it): 12-16 calls of all 15 methods whose " +
		"arguments are host paths the filesystem handed out earlier in the session (MkdirTemp results, WalkDir callback paths, File.Name()) with a suffix " +
		"(MkdirTemp with a name PATTERN from a pool: plain ones with/without '*', and ones with path separators and '..' segments) " +
		"(mostly as many '..' as lead to the directory above the base, then a name that exists there), literals built from the host base directory, or short literals: " +
		"a quarter of the calls through a VirtualOS that mounts the filesystem at '/'; " +
		"a case is (base spelling, where the referenced handed-out paths came from, the last three calls, the call and its route), all non-trivial; " +
		"LINK SESSIONS on one rooted local filesystem over a real tree (absolute base and relative spellings): 10-14 calls with plain (sometimes decorated) in-base paths — " +
		"Symlink(file/dir/link/missing name, dir/name), Rename (mostly of a link or of a directory that contains links, to a place at another depth), Remove/RemoveAll, " +
		"and reads/WriteFile mostly through a link; a quarter through a VirtualOS mount; a case is (base spelling, the last four calls, the call and its route), all non-trivial"
	maxSeg := 4
	if !e.Quick {
		maxSeg = 6
	}
	var paths []string
	enumPaths(maxSeg, func(p string) { paths = append(paths, p) })
	// random segments (bytes incl. multi-byte runes, NUL, backslash, spaces)
	rng := e.Rng.Fork()
	segPool := []string{"", ".", "..", "...", "a", "é", "日本", "a b", "\\", "..\\", "\x00", ".a", "a.", "\xff", "~", "-", "%2e%2e", "a/.."}
	nRand := 3000
	if !e.Quick {
		nRand = 60000
	}
	for i := 0; i < nRand; i++ {
		n := 1 + rng.Intn(7)
		segs := make([]string, n)
		for j := range segs {
			segs[j] = Pick(rng, segPool)
		}
		p := strings.Join(segs, "/")
		if rng.Chance(40) {
			p = "/" + p
		}
		paths = append(paths, p)
	}
	e.R.Exhaustive = true
	e.R.Note("exhaustive over the alphabet up to %d segments; %d random paths on top", maxSeg, nRand)

	c13Clean(e, paths)
	c13Resolve(e, paths)
	c13Mounts(e, paths)
	c13MountSessions(e)
	c13TwoPath(e, paths)
	c13LocalFS(e, paths)
	c13Handed(e)
	c13Links(e)
}

// 1. filepath.Clean / Join vs the model's cleanStr / join2 (ties the hand-written model
// of the Go library function to the real one).
func c13Clean(e *Env, paths []string) {
	reqs := make([]string, len(paths))
	for i, p := range paths {
		reqs[i] = "C13\tclean\t" + Hex(p)
	}
	reps := e.O.AskBatch(reqs)
	for i, p := range paths {
		got := filepath.Clean(p)
		e.R.Case("clean "+fmt.Sprintf("%q", p), c13Nontrivial(p))
		if Hex(got) != reps[i] {
			e.R.Mismatch(fmt.Sprintf("clean %q", p), got, UnHex(reps[i]), "filepath.Clean vs C13.cleanStr")
		}
	}
}

var c13Bases = []string{"", "/", "/srv/base", "/srv/base/", "rel/base", ".", "/a", "/a/../b", "base/./x/"}

// 2. ros.ResolvePath vs model, and the Spec evaluated on the Go result.
func c13Resolve(e *Env, paths []string) {
	for _, b0 := range c13Bases {
		// what localfs.New stores
		nb := e.O.Ask("C13", "newbase", Hex(b0))
		if nb == "reject" {
			continue
		}
		base := UnHex(strings.TrimPrefix(nb, "ok\t"))
		wantBase := b0
		if b0 != "" {
			wantBase = filepath.Clean(b0)
		}
		if base != wantBase {
			e.R.Mismatch(fmt.Sprintf("newbase %q", b0), wantBase, base, "localfs.New base cleaning")
		}
		reqs := make([]string, len(paths))
		for i, p := range paths {
			reqs[i] = "C13\tresolve\t" + Hex(base) + "\t" + Hex(p)
		}
		reps := e.O.AskBatch(reqs)
		for i, p := range paths {
			r, err := ros.ResolvePath(base, p, "op")
			goOut := "invalid"
			if err == nil {
				goOut = "ok\t" + Hex(r)
			}
			c := fmt.Sprintf("resolve base=%q path=%q", base, p)
			e.R.Case(c, c13Nontrivial(p))
			if goOut != reps[i] {
				e.R.Mismatch(c, strings.ReplaceAll(goOut, "\t", " "), strings.ReplaceAll(reps[i], "\t", " "), "os.ResolvePath vs C13.resolvePath")
			}
			if err == nil {
				e.R.H("resolve", "accepted")
				// Spec: the result lies under the base at a component boundary and has no '..' component
				if !under(base, r) || (base != "" && hasDotDotComp(r)) {
					e.R.Spec(c, fmt.Sprintf("resolved to %q which is outside base %q", r, base), "")
				}
			} else {
				e.R.H("resolve", "rejected")
				// Spec: only escaping requests may be refused with ErrInvalid... a request whose
				// cleaned form stays inside must not fail *silently wrong*; refusing more than
				// necessary (e.g. "..a") is an error, not wrong data, and is not a violation.
			}
		}
	}
}

// recFS records which mount served which path.
type recFS struct {
	name string
	log  *[]recEntry
}

type recEntry struct {
	mount, op string
	paths     []string
}

func (f recFS) rec(op string, paths ...string) {
	*f.log = append(*f.log, recEntry{f.name, op, paths})
}
func (f recFS) Create(name string) (ros.File, error) {
	f.rec("create", name)
	return nil, fs.ErrNotExist
}
func (f recFS) Mkdir(name string, perm ros.FileMode) error {
	f.rec("mkdir", name)
	return nil
}
func (f recFS) MkdirAll(path string, perm ros.FileMode) error { f.rec("mkdirall", path); return nil }
func (f recFS) Open(name string) (ros.File, error)            { f.rec("open", name); return nil, fs.ErrNotExist }
func (f recFS) OpenFile(name string, flag int, perm ros.FileMode) (ros.File, error) {
	f.rec("openfile", name)
	return nil, fs.ErrNotExist
}
func (f recFS) ReadFile(name string) ([]byte, error) {
	f.rec("readfile", name)
	return nil, fs.ErrNotExist
}
func (f recFS) Remove(name string) error    { f.rec("remove", name); return nil }
func (f recFS) RemoveAll(path string) error { f.rec("removeall", path); return nil }
func (f recFS) Rename(o, n string) error    { f.rec("rename", o, n); return nil }
func (f recFS) Stat(name string) (ros.FileInfo, error) {
	f.rec("stat", name)
	return nil, fs.ErrNotExist
}
func (f recFS) Symlink(o, n string) error { f.rec("symlink", o, n); return nil }
func (f recFS) WriteFile(name string, data []byte, perm ros.FileMode) error {
	f.rec("writefile", name)
	return nil
}
func (f recFS) ReadDir(name string) ([]ros.DirEntry, error) { f.rec("readdir", name); return nil, nil }
func (f recFS) WalkDir(root string, fn ros.WalkDirFunc) error {
	f.rec("walkdir", root)
	return nil
}

var c13Layouts = [][]string{
	{"/"},
	{"/a"},
	{"/a", "/a/b"},
	{"/a", "/b", "/a/b/a"},
	{"/a", "/ab"},
	{"/a..", "/..a"},
	{"/", "/a"},
}

// mount points registered WITH a trailing separator ("/a/": what `risor --virtual-os --mount
// dir:/a/` produces — cmd/risor uses the destination string verbatim as key and Target), below
// an enclosing mount, beside other mounts, and on their own (theorems
// trailing_sep_mount_serves_below, findMount_serves_every_match)
var c13LayoutsSep = [][]string{
	{"/", "/a/"},
	{"/a", "/a/b/"},
	{"/a/"},
	{"/", "/b/", "/a/b/"},
	{"/a/", "/ab/", "/a/b"},
}

type vosOp struct {
	name string
	two  bool
	call func(v *ros.VirtualOS, p, q string) error
}

var c13VosOps = []vosOp{
	{"stat", false, func(v *ros.VirtualOS, p, q string) error { _, err := v.Stat(p); return err }},
	{"open", false, func(v *ros.VirtualOS, p, q string) error { _, err := v.Open(p); return err }},
	{"create", false, func(v *ros.VirtualOS, p, q string) error { _, err := v.Create(p); return err }},
	{"mkdir", false, func(v *ros.VirtualOS, p, q string) error { return v.Mkdir(p, 0o755) }},
	{"mkdirall", false, func(v *ros.VirtualOS, p, q string) error { return v.MkdirAll(p, 0o755) }},
	{"openfile", false, func(v *ros.VirtualOS, p, q string) error { _, err := v.OpenFile(p, 0, 0); return err }},
	{"open", false, func(v *ros.VirtualOS, p, q string) error { _, err := v.ReadFile(p); return err }},
	{"remove", false, func(v *ros.VirtualOS, p, q string) error { return v.Remove(p) }},
	{"removeall", false, func(v *ros.VirtualOS, p, q string) error { return v.RemoveAll(p) }},
	{"writefile", false, func(v *ros.VirtualOS, p, q string) error { return v.WriteFile(p, []byte("x"), 0o644) }},
	{"readdir", false, func(v *ros.VirtualOS, p, q string) error { _, err := v.ReadDir(p); return err }},
	{"walkdir", false, func(v *ros.VirtualOS, p, q string) error { return v.WalkDir(p, nil) }},
	{"rename", true, func(v *ros.VirtualOS, p, q string) error { return v.Rename(p, q) }},
	{"symlink", true, func(v *ros.VirtualOS, p, q string) error { return v.Symlink(p, q) }},
}

// 3. VirtualOS mount selection through the public operations, with recording sources.
func c13Mounts(e *Env, paths []string) {
	rng := e.Rng.Fork()
	cwds := []string{"/", "/a", "/a/b", "/b/"}
	allLayouts := append(append([][]string{}, c13Layouts...), c13LayoutsSep...)
	for li, layout := range allLayouts {
		var log []recEntry
		mounts := map[string]*ros.Mount{}
		for _, t := range layout {
			mounts[t] = &ros.Mount{Source: recFS{name: t, log: &log}, Target: t, Type: "rec"}
		}
		hexMounts := make([]string, len(layout))
		for i, t := range layout {
			hexMounts[i] = Hex(t)
		}
		msField := strings.Join(hexMounts, ",")
		sepLayout := li >= len(c13Layouts)
		for _, cwd := range cwds {
			vos := ros.NewVirtualOS(context.Background(), ros.WithMounts(mounts), ros.WithCwd(cwd))
			// sample the path list for all but the first two layouts in the quick tier
			stride := 1
			if e.Quick && li >= 2 {
				stride = 7
			}
			var sel []string
			for i := 0; i < len(paths); i += stride {
				sel = append(sel, paths[i])
			}
			reqs := make([]string, len(sel))
			for i, p := range sel {
				reqs[i] = "C13\tmount\t" + Hex(cwd) + "\t" + Hex(p) + "\t" + msField
			}
			reps := e.O.AskBatch(reqs)
			for i, p := range sel {
				op := c13VosOps[rng.Intn(len(c13VosOps))]
				q := sel[rng.Intn(len(sel))]
				log = log[:0]
				err := op.call(vos, p, q)
				c := fmt.Sprintf("mounts=%q cwd=%q op=%s path=%q", layout, cwd, op.name, p)
				e.R.Case(c, c13Nontrivial(p))
				f := strings.Split(reps[i], "\t")
				if len(f) != 3 {
					e.R.Mismatch(c, "-", reps[i], "oracle reply malformed")
					continue
				}
				// what Go did: single-path operations forward (mount, relative path); two-path
				// operations forward only when both arguments resolve to the same mount
				goImpl := "none"
				want := f[0]
				if op.two {
					c += fmt.Sprintf(" path2=%q", q)
					f2 := strings.Split(e.O.Ask("C13", "mount", Hex(cwd), Hex(q), msField), "\t")
					if len(f2) != 3 {
						e.R.Mismatch(c, "-", strings.Join(f2, " "), "oracle reply malformed")
						continue
					}
					w1, w2 := strings.Fields(f[0]), strings.Fields(f2[0])
					if len(w1) == 3 && len(w2) == 3 && w1[1] == w2[1] {
						want = "some " + w1[1] + " " + w1[2] + " " + w2[2]
					} else {
						want = "none"
					}
					if len(log) > 0 {
						goImpl = "some " + Hex(log[0].mount) + " " + Hex(log[0].paths[0]) + " " + Hex(log[0].paths[1])
					}
					_ = err
				} else if len(log) > 0 {
					goImpl = "some " + Hex(log[0].mount) + " " + Hex(log[0].paths[0])
				}
				if len(log) > 0 && log[0].op != op.name {
					e.R.Mismatch(c, log[0].op, op.name, "operation forwarded under a different name")
				}
				if goImpl != want {
					e.R.Mismatch(c, goImpl, want, "VirtualOS.findMount vs C13.findMount")
				}
				if op.two {
					e.R.H("mount2", strings.SplitN(goImpl, " ", 2)[0])
					continue // the Spec comparison below is per path; two-path cases are covered by their single-path twins
				}
				e.R.H("mount", strings.SplitN(goImpl, " ", 2)[0])
				// Spec on the Go answer: the serving mount must be the longest component-wise prefix
				goMount := "none"
				if len(log) > 0 {
					goMount = "some " + Hex(log[0].mount)
				}
				if sepLayout {
					below := "not under a mount point with a trailing separator"
					for _, t := range layout {
						if len(t) > 1 && strings.HasSuffix(t, "/") && strings.HasPrefix(c13Key(cwd, p), t) && c13Key(cwd, p) != t {
							below = "strictly below a mount point with a trailing separator"
						}
					}
					e.R.H("mount_trailing_sep", below)
				}
				if sepLayout && goImpl == f[0] && strings.HasPrefix(f[1], "some ") {
					// the mount point itself, spelled WITHOUT the separator it was registered with
					// ("/a" for the mount "/a/"): as a string it is not under "/a/", and both the code
					// and the model hand it to the enclosing mount (or refuse it).  The property's
					// text (paths UNDER a mount point) does not decide this spelling; it is counted,
					// compared with the model above, and not judged.
					if sm := UnHex(strings.TrimPrefix(f[1], "some ")); len(sm) > 1 && strings.HasSuffix(sm, "/") && c13Key(cwd, p) == strings.TrimSuffix(sm, "/") {
						e.R.H("mount_trailing_sep", "the mount point spelled without its separator (not judged)")
						continue
					}
				}
				if goMount != f[1] {
					finding := ""
					if f[2] == "true" && goImpl == f[0] {
						finding = "C13-mount-string-prefix"
					}
					e.R.Spec(c, fmt.Sprintf("served by %s, spec (longest component-wise prefix) says %s", goMount, f[1]), finding)
				}
			}
		}
	}
}

// c13Key is the string VirtualOS.findMount matches against the mount table (C13.mountKeyPath).
func c13Key(cwd, p string) string {
	ends := strings.HasSuffix(p, "/")
	if !filepath.IsAbs(p) {
		p = filepath.Join(cwd, p)
	}
	p = filepath.Clean(p)
	if ends && p != "/" {
		p += "/"
	}
	return p
}

// 3b. sessions on ONE VirtualOS: lookups of a small pool of (mostly relative) paths
// interleaved with Chdir.  The answer to a lookup must be findMount at the CURRENT working
// directory (theorem `session_answers`): nothing may be remembered from earlier lookups of
// the same path string under another working directory.
func c13MountSessions(e *Env) {
	rng := e.Rng.Fork()
	pool := []string{"x", "a/x", "./x", "../x", "b/../x", "a", ".", "..", "/a/x", "/x", "b/a/x", "x/", "../a/x", "../ab/x"}
	cwds := []string{"/", "/a", "/a/b", "/b", "/ab", "/b/a", "/a/", "/a/b/a", "a"}
	sessions, steps := 40, 60
	if !e.Quick {
		sessions, steps = 600, 120
	}
	for si := 0; si < sessions; si++ {
		layout := c13Layouts[si%len(c13Layouts)]
		var log []recEntry
		mounts := map[string]*ros.Mount{}
		hexMounts := make([]string, len(layout))
		for i, t := range layout {
			mounts[t] = &ros.Mount{Source: recFS{name: t, log: &log}, Target: t, Type: "rec"}
			hexMounts[i] = Hex(t)
		}
		msField := strings.Join(hexMounts, ",")
		vos := ros.NewVirtualOS(context.Background(), ros.WithMounts(mounts), ros.WithCwd("/"))
		var hist []string
		for st := 0; st < steps; st++ {
			if rng.Chance(30) {
				d := Pick(rng, cwds)
				vos.Chdir(d)
				hist = append(hist, "cd "+d)
				e.R.H("session_op", "chdir")
				continue
			}
			cwd, _ := vos.Getwd()
			p := Pick(rng, pool)
			log = log[:0]
			_, _ = vos.Stat(p)
			hist = append(hist, "stat "+p)
			e.R.H("session_op", "lookup")
			f := strings.Split(e.O.Ask("C13", "mount", Hex(cwd), Hex(p), msField), "\t")
			goImpl := "none"
			if len(log) > 0 {
				goImpl = "some " + Hex(log[0].mount) + " " + Hex(log[0].paths[0])
			}
			tail := hist
			if len(tail) > 8 {
				tail = tail[len(tail)-8:]
			}
			c := fmt.Sprintf("session mounts=%q ...%s (cwd=%q)", layout, strings.Join(tail, "; "), cwd)
			e.R.Case(fmt.Sprintf("session %q cwd=%q path=%q after %d chdirs", layout, cwd, p, strings.Count(strings.Join(hist, ";"), "cd ")), true)
			if len(f) != 3 {
				e.R.Mismatch(c, "-", strings.Join(f, " "), "oracle reply malformed")
				continue
			}
			if goImpl != f[0] {
				e.R.Mismatch(c, goImpl, f[0], "VirtualOS.findMount in a session vs C13.findMount at the current working directory")
				goMount := "none"
				if len(log) > 0 {
					goMount = "some " + Hex(log[0].mount)
				}
				if goMount != f[1] {
					e.R.Spec(c, fmt.Sprintf("served by %s, spec (longest component-wise prefix at the current working directory) says %s", goMount, f[1]), "")
				}
			}
		}
	}
}

type snap map[string]string

func snapshot(root, skip string) snap {
	s := snap{}
	filepath.WalkDir(root, func(p string, d fs.DirEntry, err error) error {
		if err != nil {
			return nil
		}
		if p == skip {
			return filepath.SkipDir
		}
		if d.Type()&fs.ModeSymlink != 0 {
			t, _ := os.Readlink(p)
			s[p] = "link:" + t
		} else if d.IsDir() {
			s[p] = "dir"
		} else {
			b, _ := os.ReadFile(p)
			s[p] = "file:" + string(b)
		}
		return nil
	})
	return s
}

func diffSnap(a, b snap) string {
	var out []string
	for k, v := range a {
		if w, ok := b[k]; !ok {
			out = append(out, "removed "+k)
		} else if w != v {
			out = append(out, "changed "+k)
		}
	}
	for k := range b {
		if _, ok := a[k]; !ok {
			out = append(out, "added "+k)
		}
	}
	sort.Strings(out)
	return strings.Join(out, "; ")
}

// 4. every localfs operation against a temp tree with sentinels outside the base: nothing
// outside the base may be created, changed, removed or read.
// c13Jailed reports whether this process may issue destructive filesystem operations whose
// confinement is the very thing under test: only inside the driver's mount namespace, where
// every filesystem but the scratch directory is read-only (./check: jail_cmd).  A change to
// risor that breaks confinement turns RemoveAll("/..") into a removal of the host's root
// directory; this happened once during development (seeded change C13-r2m2, base "." treated
// as unrooted) and is why the probes are refused anywhere else.
func c13Jailed() bool {
	if os.Getenv("VERIF_JAIL") != "1" {
		return false
	}
	for _, p := range []string{"/.verif-jail-probe", "/tmp/.verif-jail-probe"} {
		if f, err := os.Create(p); err == nil {
			f.Close()
			os.Remove(p)
			return false
		}
	}
	return true
}

func c13LocalFS(e *Env, paths []string) {
	if !c13Jailed() {
		e.R.Note("localfs operations against a real directory tree were SKIPPED: the harness is not running inside the read-only mount namespace that ./check sets up, and these probes remove and overwrite whatever an unconfined filesystem lets them reach")
		return
	}
	orig, _ := os.Getwd()
	defer os.Chdir(orig)
	// the base as an absolute path, and spelled relative to the process's working directory
	// (".", "./", "a/..", "base", …): every spelling that localfs.New accepts must confine
	// exactly like the absolute one
	type spelling struct{ chdir, base string }
	spellings := []spelling{{"", ""}, {"base", "."}, {"base", "./"}, {"base", "a/.."}, {"base", "./a/b/../../."}, {".", "base"}, {".", "./base/"}, {".", "base/a/.."}, {"base/a", ".."}}
	for i, sp := range spellings {
		n := 4000
		if !e.Quick {
			n = 60000
		}
		if i > 0 {
			n /= 10
		}
		c13LocalFSWith(e, paths, sp.chdir, sp.base, n)
		os.Chdir(orig)
	}
}

func c13LocalFSWith(e *Env, paths []string, chdirTo, baseSpelling string, n int) {
	outer, err := os.MkdirTemp("", "verif-c13-")
	if err != nil {
		e.R.Note("cannot create temp tree: %v", err)
		return
	}
	defer os.RemoveAll(outer)
	base := filepath.Join(outer, "base")
	systmp := filepath.Join(outer, "systmp")
	os.MkdirAll(filepath.Join(base, "a", "b"), 0o755)
	os.MkdirAll(systmp, 0o755)
	os.WriteFile(filepath.Join(outer, "sentinel.txt"), []byte("SECRET-OUTSIDE"), 0o644)
	os.WriteFile(filepath.Join(outer, "a"), []byte("SECRET-OUTSIDE-A"), 0o644)
	os.WriteFile(filepath.Join(outer, "baseX"), []byte("SECRET-SIBLING"), 0o644)
	os.WriteFile(filepath.Join(base, "a", "in.txt"), []byte("inside"), 0o644)
	oldTmp := os.Getenv("TMPDIR")
	os.Setenv("TMPDIR", systmp)
	defer os.Setenv("TMPDIR", oldTmp)

	given := base
	label := "<tmp>/base"
	if baseSpelling != "" {
		if err := os.Chdir(filepath.Join(outer, chdirTo)); err != nil {
			e.R.Note("chdir: %v", err)
			return
		}
		given = baseSpelling
		label = fmt.Sprintf("%q (working directory <tmp>/%s)", baseSpelling, chdirTo)
	}
	lfs, err := localfs.New(context.Background(), localfs.WithBase(given))
	if err != nil {
		// ".." from <tmp>/base/a is <tmp>/base, but a base starting with ".." is refused by New: as modelled
		if nb := e.O.Ask("C13", "newbase", Hex(given)); nb != "reject" {
			e.R.Mismatch("localfs.New base="+label, "rejected: "+err.Error(), nb, "localfs.New vs C13.newBase")
		}
		e.R.Case("localfs.New base="+label+" rejected", true)
		return
	}
	if nb := e.O.Ask("C13", "newbase", Hex(given)); nb == "reject" {
		e.R.Mismatch("localfs.New base="+label, "accepted", nb, "localfs.New vs C13.newBase")
	}
	type op struct {
		name string
		run  func(p, q string) (string, error)
	}
	readAll := func(f ros.File, err error) (string, error) {
		if err != nil {
			return "", err
		}
		defer f.Close()
		buf := make([]byte, 64)
		n, _ := f.Read(buf)
		return string(buf[:n]), nil
	}
	ops := []op{
		{"Create", func(p, q string) (string, error) {
			f, err := lfs.Create(p)
			if err == nil {
				f.Close()
			}
			return "", err
		}},
		{"Mkdir", func(p, q string) (string, error) { return "", lfs.Mkdir(p, 0o755) }},
		{"MkdirAll", func(p, q string) (string, error) { return "", lfs.MkdirAll(p, 0o755) }},
		{"MkdirTemp", func(p, q string) (string, error) { return lfs.MkdirTemp(p, "t") }},
		{"Open", func(p, q string) (string, error) { return readAll(lfs.Open(p)) }},
		{"OpenFile", func(p, q string) (string, error) { return readAll(lfs.OpenFile(p, os.O_RDWR|os.O_CREATE, 0o644)) }},
		{"ReadFile", func(p, q string) (string, error) { b, err := lfs.ReadFile(p); return string(b), err }},
		{"Remove", func(p, q string) (string, error) { return "", lfs.Remove(p) }},
		{"RemoveAll", func(p, q string) (string, error) { return "", lfs.RemoveAll(p) }},
		{"Rename", func(p, q string) (string, error) { return "", lfs.Rename(p, q) }},
		{"Stat", func(p, q string) (string, error) {
			fi, err := lfs.Stat(p)
			if err != nil {
				return "", err
			}
			return fi.Name(), nil
		}},
		{"Symlink", func(p, q string) (string, error) { return "", lfs.Symlink(p, q) }},
		{"WriteFile", func(p, q string) (string, error) { return "", lfs.WriteFile(p, []byte("w"), 0o644) }},
		{"ReadDir", func(p, q string) (string, error) {
			es, err := lfs.ReadDir(p)
			var names []string
			for _, d := range es {
				names = append(names, d.Name())
			}
			return strings.Join(names, ","), err
		}},
		{"WalkDir", func(p, q string) (string, error) {
			var names []string
			err := lfs.WalkDir(p, func(path string, d fs.DirEntry, err error) error {
				names = append(names, path)
				return nil
			})
			return strings.Join(names, ","), err
		}},
	}
	rng := e.Rng.Fork()
	before := snapshot(outer, base)
	directed := []string{"", ".", "..", "/", "../sentinel.txt", "/../sentinel.txt", "a/../../sentinel.txt", "../baseX",
		"../a", "a/../../a", "..a", "/..", "a/b/../../..", "../base/a/in.txt", "a/in.txt", "./a/../a/in.txt",
		filepath.Join(outer, "sentinel.txt"), outer, "lnk", "a/lnk2"}
	nd := len(directed) * len(directed) * len(ops)
	for i := 0; i < nd+n; i++ {
		o := ops[i%len(ops)]
		var p, q string
		if i < nd {
			p = directed[(i/len(ops))%len(directed)]
			q = directed[i/len(ops)/len(directed)]
		} else {
			p = paths[rng.Intn(len(paths))]
			q = paths[rng.Intn(len(paths))]
		}
		if strings.ContainsRune(p, 0) || strings.ContainsRune(q, 0) {
			continue
		}
		out, err := o.run(p, q)
		c := fmt.Sprintf("localfs base=%s op=%s path=%q path2=%q", label, o.name, p, q)
		e.R.Case(c, c13Nontrivial(p))
		e.R.H("localfs_op", o.name)
		if err == nil {
			e.R.H("localfs_outcome", "ok")
		} else {
			e.R.H("localfs_outcome", "error")
		}
		if strings.Contains(out, "SECRET") {
			e.R.Spec(c, "read data from outside the base: "+out, "")
		}
		// two-step escapes: a link created inside the base must not lead outside it
		if o.name == "Symlink" && err == nil {
			if b, rerr := lfs.ReadFile(q); rerr == nil && strings.Contains(string(b), "SECRET") {
				e.R.Spec(c, "Symlink then ReadFile through the link read data from outside the base: "+string(b), "")
			}
		}
		filepath.WalkDir(base, func(pth string, d fs.DirEntry, werr error) error {
			if werr != nil || d.Type()&fs.ModeSymlink == 0 {
				return nil
			}
			t, _ := os.Readlink(pth)
			if !filepath.IsAbs(t) {
				t = filepath.Join(filepath.Dir(pth), t)
			}
			t = filepath.Clean(t)
			if t != base && !strings.HasPrefix(t, base+"/") {
				e.R.Spec(c, fmt.Sprintf("a symbolic link inside the base points outside it: %s -> %s", strings.ReplaceAll(pth, outer, "<tmp>"), strings.ReplaceAll(t, outer, "<tmp>")), "")
				os.Remove(pth)
			}
			return nil
		})
		// the tree must stay usable for the next case
		if _, err := os.Stat(filepath.Join(base, "a")); err != nil {
			os.MkdirAll(filepath.Join(base, "a", "b"), 0o755)
			os.WriteFile(filepath.Join(base, "a", "in.txt"), []byte("inside"), 0o644)
		}
		after := snapshot(outer, base)
		if d := diffSnap(before, after); d != "" {
			finding := ""
			if o.name == "MkdirTemp" && p == "" && strings.HasPrefix(d, "added "+systmp) && !strings.Contains(d, ";") {
				finding = "C13-mkdirtemp-empty-dir"
			}
			e.R.Spec(c, "host paths outside the base changed: "+strings.ReplaceAll(d, outer, "<tmp>"), finding)
			// restore
			for k := range after {
				if _, ok := before[k]; !ok {
					os.RemoveAll(k)
				}
			}
			os.WriteFile(filepath.Join(outer, "sentinel.txt"), []byte("SECRET-OUTSIDE"), 0o644)
			os.WriteFile(filepath.Join(outer, "a"), []byte("SECRET-OUTSIDE-A"), 0o644)
			os.WriteFile(filepath.Join(outer, "baseX"), []byte("SECRET-SIBLING"), 0o644)
			os.MkdirAll(systmp, 0o755)
			before = snapshot(outer, base)
		}
	}
}
