package main

// C17 — sessions: sequences of MarshalCode / UnmarshalCode calls on several code objects whose
// results are KEPT and used later.
//
// The Lean model (Model.lean "sessions", Props: session_results_independent,
// session_retained_read_back, session_store_append_only, session_closed_partial) evaluates a
// session with the pure functions `marshal` / `unmarshal`: what a call returned is a value, no
// later call changes it.  Here the same session is run on the real code, on one goroutine
// pinned to its OS thread, with every returned slice and code object retained exactly as
// returned, and at the END of the session
//   (Code vs Impl)  every retained result is compared with the model's result of that call
//                   (the retained bytes structurally with the model's JSON, the retained code
//                   tree with the model's reloaded tree);
//   (Code vs Spec)  every retained byte slice must equal the private copy taken the moment it
//                   was returned, every retained code tree (the compiled ones included) must
//                   still export as it did when it was returned, every retained code object
//                   must evaluate like the program it descends from, every retained byte slice
//                   must still unmarshal into code that evaluates like that program and
//                   re-marshals to the same bytes, and all byte strings that descend from one
//                   program must be equal.  Every second UnmarshalCode call is given a scratch
//                   copy of the bytes that is overwritten as soon as the call has returned (a
//                   caller reusing its read buffer): the returned code must not depend on it.

import (
	"bytes"
	"fmt"
	"runtime"
	"strconv"
	"strings"
	"time"

	"github.com/risor-io/risor/compiler"
)

type c17SessOp struct {
	kind byte // 'm' MarshalCode(codes[idx]) | 'u' UnmarshalCode(blobs[idx])
	idx  int
}

type c17Session struct {
	progs   []string // sources of the compiled programs the store starts with
	ops     []c17SessOp
	pattern string
}

func c17OpsText(ops []c17SessOp) string {
	var parts []string
	for _, o := range ops {
		parts = append(parts, string(o.kind)+strconv.Itoa(o.idx))
	}
	return strings.Join(parts, " ")
}

// Text is the canonical form of the case (and what a replay file shows).
func (s *c17Session) Text() string {
	var sb strings.Builder
	sb.WriteString("session " + c17OpsText(s.ops) + "   (m<i> = MarshalCode(code i), u<j> = UnmarshalCode(bytes returned by the j-th MarshalCode); codes 0.." +
		strconv.Itoa(len(s.progs)-1) + " are the programs below, each successful UnmarshalCode adds one; every result is kept and checked after the last call)")
	for i, p := range s.progs {
		sb.WriteString("\n== program " + strconv.Itoa(i) + "\n" + p)
	}
	return sb.String()
}

type c17SessViol struct {
	detail string
	src    int  // program the violated result descends from (-1: none)
	purity bool // a result changed after it was returned: never explained by a known finding
}

type c17SessVerdict struct {
	ok       bool // every program compiled
	mismatch string
	viol     []c17SessViol
	finding  string // set when every violation falls under one known finding's guard (and Go agrees with Impl)
	unlisted []string
	sizes    []int // lengths of the marshalled results in call order
	nontriv  bool
}

type c17SessItem struct {
	op       c17SessOp
	kind     byte // 'b' bytes, 'c' code, 'e' failed
	retained []byte
	private  []byte
	code     *compiler.Code
	expN     string // export of the code tree the moment it was returned
	expT     string
	err      string
	src      int
}

func c17FirstDiff(a, b []byte) string {
	i := 0
	for i < len(a) && i < len(b) && a[i] == b[i] {
		i++
	}
	cut := func(x []byte) string {
		lo, hi := max(0, i-20), min(len(x), i+40)
		if lo > hi {
			lo = hi
		}
		return string(x[lo:hi])
	}
	return fmt.Sprintf("first difference at offset %d of %d/%d bytes: returned …%s… now …%s…", i, len(a), len(b), cut(a), cut(b))
}

// c17RunSession runs one session on the real code and compares it with the model.  When
// record is false nothing is written to the result (used while shrinking).
func c17RunSession(e *Env, s *c17Session, record bool) (v c17SessVerdict) {
	text := s.Text()
	H := func(h, k string) {
		if record {
			e.R.H(h, k)
		}
	}
	mism := func(goS, model, what string) {
		if v.mismatch == "" {
			v.mismatch = what
		}
		if record {
			e.R.Mismatch(text, goS, model, what)
		}
	}
	viol := func(src int, purity bool, format string, a ...any) {
		v.viol = append(v.viol, c17SessViol{fmt.Sprintf(format, a...), src, purity})
	}
	n := len(s.progs)
	codes := make([]*compiler.Code, 0, n+len(s.ops))
	codeSrc := make([]int, 0, n+len(s.ops))
	type initial struct{ nodes, table string }
	inits := make([]initial, n)
	for i, src := range s.progs {
		c, err := CompileSrc(src)
		if err != nil {
			return
		}
		nodes, table, probs := c17Export(c)
		for _, p := range probs {
			mism(p, "representation assumption of the model", "compiled tree outside the model's representation")
		}
		inits[i] = initial{nodes, table}
		codes = append(codes, c)
		codeSrc = append(codeSrc, i)
	}
	v.ok = true

	// ---- the session proper: one goroutine, pinned; nothing but the calls and the copies
	items := make([]*c17SessItem, len(s.ops))
	var blobs []*c17SessItem
	runtime.LockOSThread()
	for k, op := range s.ops {
		it := &c17SessItem{op: op, src: -1}
		items[k] = it
		switch op.kind {
		case 'm':
			if op.idx >= len(codes) {
				it.kind = 'x'
				continue
			}
			it.src = codeSrc[op.idx]
			b, err := c17Marshal(codes[op.idx])
			if err != nil {
				it.kind, it.err = 'e', err.Error()
				continue
			}
			it.kind, it.retained, it.private = 'b', b, bytes.Clone(b)
			blobs = append(blobs, it)
		case 'u':
			if op.idx >= len(blobs) {
				it.kind = 'x'
				continue
			}
			it.src = blobs[op.idx].src
			in := blobs[op.idx].retained
			if k%2 == 1 {
				// the caller's buffer is reused after the call: the returned code must not depend on it
				in = bytes.Clone(in)
			}
			c, err := c17Unmarshal(in)
			if k%2 == 1 {
				for q := range in {
					in[q] = 'x'
				}
			}
			if err != nil {
				it.kind, it.err = 'e', err.Error()
				continue
			}
			it.kind, it.code = 'c', c
			it.expN, it.expT, _ = c17Export(c)
			codes = append(codes, c)
			codeSrc = append(codeSrc, it.src)
		}
	}
	runtime.UnlockOSThread()

	// ---- END of the session.  1. purity: nothing that was returned has changed since
	for k, it := range items {
		switch it.kind {
		case 'b':
			v.sizes = append(v.sizes, len(it.private))
			if !bytes.Equal(it.private, it.retained) {
				viol(it.src, true, "the bytes returned by call #%d (%s%d, program %d) were changed by a later call: %s", k, string(it.op.kind), it.op.idx, it.src, c17FirstDiff(it.private, it.retained))
			}
		case 'c':
			nodes, table, _ := c17Export(it.code)
			if nodes != it.expN || table != it.expT {
				viol(it.src, true, "the code object returned by call #%d (%s%d, program %d) was changed by a later call: %s", k, string(it.op.kind), it.op.idx, it.src, c17Diff(nodes+"|"+table, it.expN+"|"+it.expT))
			}
		}
	}
	for i := 0; i < n; i++ {
		nodes, table, _ := c17Export(codes[i])
		if nodes != inits[i].nodes || table != inits[i].table {
			viol(i, true, "the compiled code of program %d was changed by the session's MarshalCode/UnmarshalCode calls: %s", i, c17Diff(nodes+"|"+table, inits[i].nodes+"|"+inits[i].table))
		}
	}

	// ---- 2. the model's session (Code vs Impl): every retained result, as it reads now
	req := []string{"C17", "sess", c17OpsText(s.ops)}
	for _, in := range inits {
		req = append(req, in.nodes, in.table)
	}
	rep := strings.Split(e.O.Ask(req...), "\t")
	guardsOK := make([][4]bool, n) // named, utf8, CompileNames, HasMainFn
	if len(rep) != 3+len(s.ops) || rep[0] != "ok" {
		mism("session request", strings.Join(rep, " ")[:min(200, len(strings.Join(rep, " ")))], "oracle could not decode the session request")
		for i := range guardsOK {
			guardsOK[i] = [4]bool{true, true, true, false}
		}
	} else {
		g := strings.Fields(rep[1])
		for i := range guardsOK {
			guardsOK[i] = [4]bool{true, true, true, false}
			if i < len(g) && len(g[i]) == 4 {
				guardsOK[i] = [4]bool{g[i][0] == '1', g[i][1] == '1', g[i][2] == '1', g[i][3] == '1'}
			}
			if !guardsOK[i][2] {
				mism("program "+strconv.Itoa(i)+" compiled by the real compiler: "+c17NamesDetail(codes[i]), "CompileNames = false",
					"compile produced a tree outside the naming discipline (a code object carries a name exactly when it is a named function): isNamed is not serialised")
			}
		}
		if want := fmt.Sprintf("%d %d", len(codes), len(blobs)); rep[2] != want {
			mism("codes/blobs in the store at the end: "+want, rep[2], "the real session retained a different number of results than the model's")
		}
		for k, it := range items {
			m := rep[3+k]
			where := fmt.Sprintf("call #%d (%s%d, program %d)", k, string(it.op.kind), it.op.idx, it.src)
			switch it.kind {
			case 'x':
				if m != "x" {
					mism("operand does not exist", m[:min(80, len(m))], where+": the model's store has an operand the real session has not")
				}
			case 'e':
				viol(it.src, false, "%s failed on data the session itself produced: %s", where, it.err)
				if !strings.HasPrefix(m, "e ") {
					mism("error: "+it.err, m[:min(80, len(m))], where+" fails where the model's call succeeds")
				}
			case 'b':
				if !strings.HasPrefix(m, "b ") {
					mism("bytes", m[:min(80, len(m))], where+" returned bytes where the model's call did not")
					continue
				}
				gj, err := c17CanonJSON(it.retained)
				if err != nil {
					mism("retained bytes no longer parse as JSON: "+err.Error(), "…"+m[2:min(len(m), 82)], where+": the retained bytes, read at the end of the session, differ from the model's result (= marshal alone: session_results_independent)")
				} else if gj != m[2:] {
					mism(c17Diff(gj, m[2:]), c17Diff(m[2:], gj), where+": the retained bytes, read at the end of the session, differ from the model's result (= marshal alone: session_results_independent)")
				}
			case 'c':
				if !strings.HasPrefix(m, "c ") {
					mism("code", m[:min(80, len(m))], where+" returned code where the model's call failed")
					continue
				}
				nodes, table, probs := c17Export(it.code)
				for _, p := range probs {
					mism(p, "representation assumption of the model", where+": reloaded tree outside the model's representation")
				}
				if got := nodes + "|" + table; got != m[2:] {
					mism(c17Diff(got, m[2:]), c17Diff(m[2:], got), where+": the retained code object, read at the end of the session, differs from the model's result (= unmarshal alone: session_results_independent)")
				}
			}
		}
	}

	// ---- 3. Spec on the real results: every retained result still behaves like its source
	outs := make([]c17Out, n)
	repeatable := make([]bool, n)
	for i := 0; i < n; i++ {
		outs[i] = c17Run(codes[i])
		repeatable[i] = outs[i] == c17Run(codes[i])
		if !repeatable[i] {
			H("session_run", "original-not-repeatable(skipped)")
		}
	}
	first := map[int]*c17SessItem{} // first byte string obtained for each program
	for k, it := range items {
		where := fmt.Sprintf("call #%d (%s%d, program %d)", k, string(it.op.kind), it.op.idx, it.src)
		switch it.kind {
		case 'c':
			// the retained code object IS the compiled program it descends from (session_closed_compiled)
			if nodes, table, _ := c17Export(it.code); nodes != inits[it.src].nodes || table != inits[it.src].table {
				viol(it.src, false, "the code returned by %s differs from the compiled program %d: retained %s | compiled %s%s", where, it.src,
					c17Diff(nodes+"|"+table, inits[it.src].nodes+"|"+inits[it.src].table), c17Diff(inits[it.src].nodes+"|"+inits[it.src].table, nodes+"|"+table), c17NamedDiff(codes[it.src], it.code))
			}
			if f0, _ := c17FramesFit(codes[it.src]); f0 {
				if f1, why := c17FramesFit(it.code); !f1 {
					viol(it.src, false, "every function of program %d fits its frame, but in the code returned by %s %s: calling it writes past the frame's locals", it.src, where, why)
				}
			}
			if repeatable[it.src] {
				if o := c17Run(it.code); o != outs[it.src] {
					viol(it.src, false, "the code returned by %s behaves differently from program %d: original %s | retained code %s", where, it.src, outs[it.src].String(), o.String())
				}
			}
		case 'b':
			if f, ok := first[it.src]; !ok {
				first[it.src] = it
			} else if !bytes.Equal(f.retained, it.retained) {
				viol(it.src, false, "%s: the retained bytes differ from the bytes retained earlier for the same program %d: %s", where, it.src, c17FirstDiff(f.retained, it.retained))
			}
			c, err := c17Unmarshal(it.retained)
			if err != nil {
				viol(it.src, false, "the bytes retained from %s no longer unmarshal at the end of the session: %s", where, err.Error())
				continue
			}
			if repeatable[it.src] {
				if o := c17Run(c); o != outs[it.src] {
					viol(it.src, false, "the bytes retained from %s unmarshal into code that behaves differently from program %d: original %s | reloaded %s", where, it.src, outs[it.src].String(), o.String())
				}
			}
			if b2, err := c17Marshal(c); err != nil || !bytes.Equal(b2, it.private) {
				viol(it.src, false, "marshalling the code reloaded from the bytes of %s does not reproduce the bytes that call returned", where)
			}
		}
	}

	// ---- attribution
	for _, x := range v.viol {
		fid := ""
		if !x.purity && v.mismatch == "" && x.src >= 0 {
			switch {
			case !guardsOK[x.src][1]:
				fid = c17FindUtf8
			case !guardsOK[x.src][0] && guardsOK[x.src][2] && guardsOK[x.src][3]:
				fid = c17FindMain // exact guard: a compiled tree with a function called __main__
			}
		}
		if fid == "" {
			v.unlisted = append(v.unlisted, x.detail)
		} else if v.finding == "" {
			v.finding = fid
		}
	}

	// a session is non-trivial when a result is used or checked after a later MarshalCode of a
	// different program: ≥ 2 programs marshalled and ≥ 3 calls
	marshalled := map[int]bool{}
	for _, it := range items {
		if it.kind == 'b' {
			marshalled[it.src] = true
		}
	}
	v.nontriv = len(marshalled) >= 2 && len(s.ops) >= 3
	if record {
		H("session_pattern", s.pattern)
		H("session_programs", strconv.Itoa(n))
		H("session_calls", fmt.Sprintf("%02d", len(s.ops)))
		for _, it := range items {
			H("session_results", map[byte]string{'b': "bytes", 'c': "code", 'e': "failed", 'x': "no-operand"}[it.kind])
		}
		for i := 1; i < len(v.sizes); i++ {
			switch {
			case v.sizes[i] < v.sizes[i-1]:
				H("session_next_marshal_output", "smaller-than-previous")
			case v.sizes[i] > v.sizes[i-1]:
				H("session_next_marshal_output", "larger-than-previous")
			default:
				H("session_next_marshal_output", "same-length")
			}
		}
		// how results are reused: bytes unmarshalled after a later marshal, reloaded code marshalled after a later marshal
		lastMarshal := -1
		blobAt := []int{}
		for k, it := range items {
			if it.kind == 'c' && it.op.idx < len(blobAt) && lastMarshal > blobAt[it.op.idx] {
				H("session_reuse", "bytes-unmarshalled-after-a-later-marshal")
			}
			if it.kind == 'b' {
				if it.op.idx >= n {
					H("session_reuse", "reloaded-code-marshalled-again")
				}
				blobAt = append(blobAt, k)
				lastMarshal = k
			}
		}
		for i := range guardsOK {
			if !guardsOK[i][1] {
				H("session_program_guards", "outside:utf8")
			} else if !guardsOK[i][0] {
				H("session_program_guards", "outside:main")
			} else {
				H("session_program_guards", "inside")
			}
		}
	}
	return
}

// ---------------------------------------------------------------- generation

var c17SessTiny = []string{"1", "nil", "\"a\"", "x := 1\nx", "1.5", "[1, 2]", "func f() { return 1 }\nf()"}

// c17SessProgram returns a compiling program of one of three size classes, so that the outputs
// of successive MarshalCode calls are both smaller and larger than the ones before.
func c17SessProgram(r *RNG, id int) string {
	for try := 0; try < 20; try++ {
		var src string
		switch cls := r.Intn(10); {
		case cls < 2: // tiny
			src = Pick(r, c17SessTiny)
		case cls < 4: // a directed program (the last four leave the guards)
			if r.Chance(10) {
				src = Pick(r, c17Directed)
			} else {
				src = Pick(r, c17Directed[:len(c17Directed)-4])
			}
		case cls < 5: // one C17-specific statement alone (small)
			d := Pick(r, c17Decos)
			if d.guard != "" && !r.Chance(10) {
				continue
			}
			src = d.gen(r, id)
		default: // the generator of the main loop (medium … large)
			p, _, outside := c17Program(r, id*5*(1+r.Intn(2)))
			if outside != "" && !r.Chance(25) { // keep ≥ 85 % of the sessions inside both guards
				continue
			}
			src = Src(p)
		}
		if _, err := CompileSrc(src); err == nil {
			return src
		}
	}
	return Pick(r, c17SessTiny)
}

func c17GenSession(r *RNG, i int) *c17Session {
	n := 2 + r.Intn(3)
	s := &c17Session{}
	for k := 0; k < n; k++ {
		s.progs = append(s.progs, c17SessProgram(r, i*4+k))
	}
	codes, blobs := n, 0
	add := func(kind byte, idx int) {
		s.ops = append(s.ops, c17SessOp{kind, idx})
		if kind == 'm' {
			blobs++
		} else {
			codes++
		}
	}
	random := func(k int) {
		for ; k > 0; k-- {
			if blobs == 0 || r.Chance(55) {
				add('m', r.Intn(codes))
			} else {
				add('u', r.Intn(blobs))
			}
		}
	}
	switch r.Intn(4) {
	case 0: // Marshal(A), Marshal(B), …, then reload the bytes obtained FIRST, re-marshal; then the others
		s.pattern = "marshal-all-then-reload-from-the-first"
		for k := 0; k < n; k++ {
			add('m', k)
		}
		for k := 0; k < n; k++ {
			add('u', k)
			add('m', codes-1)
		}
		random(r.Intn(3))
	case 1: // Unmarshal(x), Marshal(y), then use x's code
		s.pattern = "reload-x-marshal-y-use-x"
		add('m', 0)
		for k := 1; k < n; k++ {
			add('u', blobs-1)
			x := codes - 1
			add('m', k)
			add('m', x)
		}
		add('u', 0)
		random(r.Intn(3))
	case 2: // the same programs marshalled repeatedly in both orders, every result reloaded afterwards
		s.pattern = "up-and-down-then-reload-all"
		for k := 0; k < n; k++ {
			add('m', k)
		}
		for k := n - 1; k >= 0; k-- {
			add('m', k)
		}
		for k := 0; k < blobs; k++ {
			if r.Chance(60) {
				add('u', k)
			}
		}
		random(r.Intn(3))
	default:
		s.pattern = "random"
		random(3 + r.Intn(10))
	}
	return s
}

// ---------------------------------------------------------------- shrinking

// c17SessDeleteOp removes call k if no later call uses its result; later operands are renumbered.
func c17SessDeleteOp(s *c17Session, k int) *c17Session {
	n := len(s.progs)
	codes, blobs := n, 0
	slot := -1
	for i := 0; i < k; i++ {
		if s.ops[i].kind == 'm' {
			blobs++
		} else {
			codes++
		}
	}
	kind := s.ops[k].kind
	if kind == 'm' {
		slot = blobs
	} else {
		slot = codes
	}
	out := &c17Session{progs: s.progs, pattern: s.pattern}
	out.ops = append(out.ops, s.ops[:k]...)
	for _, o := range s.ops[k+1:] {
		// a result of kind 'm' (bytes) is an operand of 'u'; a result of 'u' (code) of 'm'
		if o.kind != kind {
			if o.idx == slot {
				return nil
			}
			if o.idx > slot {
				o.idx--
			}
		}
		out.ops = append(out.ops, o)
	}
	return out
}

// c17SessDropProg removes program p if no call marshals it; code operands are renumbered.
func c17SessDropProg(s *c17Session, p int) *c17Session {
	if len(s.progs) <= 1 {
		return nil
	}
	out := &c17Session{pattern: s.pattern}
	for i, src := range s.progs {
		if i != p {
			out.progs = append(out.progs, src)
		}
	}
	for _, o := range s.ops {
		if o.kind == 'm' {
			if o.idx == p {
				return nil
			}
			if o.idx > p {
				o.idx--
			}
		}
		out.ops = append(out.ops, o)
	}
	return out
}

func c17ShrinkSession(e *Env, s *c17Session) *c17Session {
	shrinkUntil := time.Now().Add(40 * time.Second) // a budget for the whole shrink (see c17Report)
	fails := func(t *c17Session) bool {
		if t == nil || len(t.ops) == 0 || time.Now().After(shrinkUntil) {
			return false
		}
		w := c17RunSession(e, t, false)
		return w.ok && len(w.unlisted) > 0
	}
	cur := s
	// shortest failing prefix
	for l := 1; l < len(cur.ops); l++ {
		t := &c17Session{progs: cur.progs, ops: append([]c17SessOp{}, cur.ops[:l]...), pattern: cur.pattern}
		if fails(t) {
			cur = t
			break
		}
	}
	for changed := true; changed; {
		changed = false
		for k := len(cur.ops) - 1; k >= 0; k-- {
			if t := c17SessDeleteOp(cur, k); fails(t) {
				cur, changed = t, true
			}
		}
		for p := len(cur.progs) - 1; p >= 0; p-- {
			if t := c17SessDropProg(cur, p); fails(t) {
				cur, changed = t, true
			}
		}
	}
	// smaller programs
	for p := range cur.progs {
		for _, tiny := range c17SessTiny {
			if len(tiny) >= len(cur.progs[p]) {
				continue
			}
			t := &c17Session{progs: append([]string{}, cur.progs...), ops: cur.ops, pattern: cur.pattern}
			t.progs[p] = tiny
			if fails(t) {
				cur = t
				break
			}
		}
	}
	return cur
}

var c17SessUnlisted int

func c17ReportSession(e *Env, s *c17Session, v c17SessVerdict) {
	if len(v.viol) == 0 {
		return
	}
	if len(v.unlisted) == 0 {
		var ds []string
		for _, x := range v.viol {
			ds = append(ds, x.detail)
		}
		e.R.Spec(s.Text(), strings.Join(ds, "; "), v.finding)
		return
	}
	c17SessUnlisted++
	if c17SessUnlisted <= 2 {
		small := c17ShrinkSession(e, s)
		if w := c17RunSession(e, small, false); w.ok && len(w.unlisted) > 0 {
			e.R.Spec(small.Text(), strings.Join(w.unlisted, "; "), "")
			if small.Text() == s.Text() {
				return
			}
		}
	}
	e.R.Spec(s.Text(), strings.Join(v.unlisted, "; "), "")
}

// directed sessions: the shapes the scenario class names, on fixed programs
func c17DirectedSessions() []*c17Session {
	big := c17Directed[0]
	mid := c17Directed[2]
	small := "x := 1\nx"
	mk := func(pattern string, progs []string, ops ...c17SessOp) *c17Session {
		return &c17Session{progs: progs, ops: ops, pattern: "directed:" + pattern}
	}
	m := func(i int) c17SessOp { return c17SessOp{'m', i} }
	u := func(j int) c17SessOp { return c17SessOp{'u', j} }
	return []*c17Session{
		mk("marshal-A-then-smaller-B-then-reload-A", []string{big, small}, m(0), m(1), u(0), m(2)),
		mk("marshal-A-then-larger-B-then-reload-A", []string{small, big}, m(0), m(1), u(0), m(2)),
		mk("marshal-A-B-C-reload-in-order", []string{mid, big, small}, m(0), m(1), m(2), u(0), u(1), u(2), m(3), m(4), m(5)),
		mk("reload-x-marshal-y-use-x", []string{mid, big}, m(0), u(0), m(1), m(2), u(1), m(3)),
		mk("same-program-twice", []string{mid, mid}, m(0), m(1), m(0), u(0), u(1), u(2)),
		mk("same-length-outputs", []string{"x := 1\nx", "x := 2\nx"}, m(0), m(1), u(0), u(1), m(2), m(3)),
		mk("reload-of-reload", []string{big, small}, m(0), u(0), m(1), m(2), u(2), m(3), u(1), m(4)),
	}
}

func c17Sessions(e *Env) {
	n := 500
	budget := 40 * time.Second
	if !e.Quick {
		n = 8000
		budget = 6 * time.Minute
	}
	started := time.Now()
	done := 0
	one := func(s *c17Session) {
		v := c17RunSession(e, s, true)
		if !v.ok {
			e.R.H("session_compile", "failed")
			return
		}
		done++
		e.R.Case(s.Text(), v.nontriv)
		c17ReportSession(e, s, v)
	}
	for _, s := range c17DirectedSessions() {
		one(s)
	}
	rng := e.Rng.Fork()
	for i := 0; i < n; i++ {
		if time.Since(started) > budget {
			e.R.Note("sessions: time budget of %v reached after %d of %d generated sessions", budget, i, n)
			break
		}
		one(c17GenSession(rng.Fork(), i))
		if c17SessUnlisted >= 10 {
			e.R.Note("sessions: stopped after %d sessions: %d with unlisted violations already found", i+1, c17SessUnlisted)
			break
		}
	}
	e.R.Note("sessions: %d histories of MarshalCode/UnmarshalCode calls with retained results compared with the model's session at the end of each", done)
}
