package main

// C10, part D — NESTED spawn topologies: thread trees of depth 2–3.
//
// A spawned function itself starts threads (producers, pipeline stages, consumers, further
// coordinators) with spawn(), fn.spawn() or `go`, and returns before they finish, or waits
// for some of them only; the main program collects.  The model (RisorModel/C10, `Net`:
// parent links, `returned` flags, a context per thread) says — theorems
// `thread_ctx_is_run_ctx`, `abort_only_after_run_cancel`, `parent_return_preserves_delivery`,
// `delivery_independent_of_returns`, `net_exactly_once` — that none of that matters for
// delivery.  Each generated tree is
//   * run for real (goroutines, varied GOMAXPROCS, injected yields); every host builtin a
//     thread calls looks at the context that thread runs under (a logical observation);
//   * sequentialised into one canonical schedule of the model (`C10 net …`), whose per-thread
//     outcomes (returned, context never done, all values through every channel) are compared
//     with what the real threads reported;
//   * judged by the oracle's validHistory on the logs of the final receivers.

import (
	"context"
	"fmt"
	"runtime"
	"sort"
	"strconv"
	"strings"
	"sync"
	"time"

	"github.com/risor-io/risor"
	"github.com/risor-io/risor/object"
)

type c10Node struct {
	id, parent int
	kind       string // main | coord | producer | stage | consumer | closer
	form       string // spawn | fnspawn | go: how the parent starts it
	children   []int
	waits      []int  // coord/main: children (coordinators; free-running producers) it waits for before it returns
	sender     int    // producer: sender number i of the messages (i,k)
	count      int    // producer: how many values
	hop        int    // stage: reads data channel hop, writes hop+1
	rid        int    // consumer: receiver number
	style      string // stage/consumer: explicit | method | range | forin
	sendForm   string // producer/stage: op | method
}

type c10Nest struct {
	nodes        []c10Node // index = thread id of the model; nodes[0] = the main program
	caps         []int     // data channels d0 → d1 → … (one more than stages)
	gated        bool      // producers start only after every coordinator has signalled its return
	mainConsumes string    // "" or the style in which the main program itself receives from the last channel
	mainRid      int
	procs        int
	yields       []uint64
}

func (t *c10Nest) depth(id int) int {
	d := 0
	for id != 0 {
		id = t.nodes[id].parent
		d++
	}
	return d
}

func (t *c10Nest) key() string {
	var ns []string
	for _, n := range t.nodes[1:] {
		s := fmt.Sprintf("%d<%d:%s/%s", n.id, n.parent, n.kind, n.form)
		switch n.kind {
		case "coord":
			s += fmt.Sprintf("w%v", n.waits)
		case "producer":
			s += fmt.Sprintf("(s%d n%d %s)", n.sender, n.count, n.sendForm)
		case "stage":
			s += fmt.Sprintf("(d%d>d%d %s %s)", n.hop, n.hop+1, n.style, n.sendForm)
		case "consumer":
			s += fmt.Sprintf("(r%d %s)", n.rid, n.style)
		}
		ns = append(ns, s)
	}
	return fmt.Sprintf("nested caps=%v gated=%v mainWaits=%v mainConsumes=%q procs=%d yields=%x tree=[%s]",
		t.caps, t.gated, t.nodes[0].waits, t.mainConsumes, t.procs, t.yields[:4], strings.Join(ns, " "))
}

func (t *c10Nest) byKind(kind string) []int {
	var r []int
	for _, n := range t.nodes {
		if n.kind == kind {
			r = append(r, n.id)
		}
	}
	return r
}

// c10GenNest builds a tree: coordinators first (ids 1..nc, each under the main program or an
// earlier coordinator, depth <= 2), then the leaves (producers, stages, consumers, closer),
// each under a coordinator (mostly) or the main program.
func c10GenNest(rng *RNG, quick bool) *c10Nest {
	t := &c10Nest{procs: Pick(rng, []int{1, 2, 4, 16})}
	t.nodes = append(t.nodes, c10Node{kind: "main"})
	forms := []string{"spawn", "fnspawn", "go"}
	oneForm := ""
	if rng.Chance(30) {
		oneForm = Pick(rng, forms)
	}
	form := func() string {
		if oneForm != "" {
			return oneForm
		}
		return Pick(rng, forms)
	}
	add := func(n c10Node) int {
		n.id = len(t.nodes)
		n.form = form()
		t.nodes = append(t.nodes, n)
		t.nodes[n.parent].children = append(t.nodes[n.parent].children, n.id)
		return n.id
	}
	nc := 1 + rng.Intn(4)
	for i := 0; i < nc; i++ {
		p := 0
		if i > 0 && rng.Chance(60) {
			p = 1 + rng.Intn(i)
			if t.depth(p) >= 2 {
				p = t.nodes[p].parent
			}
		}
		add(c10Node{parent: p, kind: "coord"})
	}
	coords := t.byKind("coord")
	place := func() int {
		if rng.Chance(15) {
			return 0
		}
		return Pick(rng, coords)
	}
	nprod := 1 + rng.Intn(3)
	nstage := rng.Intn(3)
	ncons := 1 + rng.Intn(3)
	var total int
	switch x := rng.Intn(100); {
	case x < 8:
		total = 1 + rng.Intn(20)
	case x < 80:
		total = 50 + rng.Intn(350)
	default:
		total = 400 + rng.Intn(600)
	}
	if !quick && rng.Chance(5) {
		total = 1000 + rng.Intn(2000)
	}
	counts := make([]int, nprod)
	for i := 0; i < total; i++ {
		counts[rng.Intn(nprod)]++
	}
	styles := []string{"explicit", "method", "range", "forin"}
	atLeastOneDeep := false
	for i := 0; i < nprod; i++ {
		p := place()
		if i == 0 && p == 0 { // the first producer is always started by a coordinator
			p = Pick(rng, coords)
		}
		atLeastOneDeep = atLeastOneDeep || p != 0
		add(c10Node{parent: p, kind: "producer", sender: i, count: counts[i], sendForm: Pick(rng, []string{"op", "op", "method"})})
	}
	for h := 0; h < nstage; h++ {
		add(c10Node{parent: place(), kind: "stage", hop: h, style: Pick(rng, styles), sendForm: Pick(rng, []string{"op", "op", "method"})})
	}
	t.caps = make([]int, nstage+1)
	for i := range t.caps {
		t.caps[i] = rng.Intn(9)
		if rng.Chance(30) {
			t.caps[i] = 0
		}
	}
	if rng.Chance(35) {
		t.mainConsumes = Pick(rng, styles)
		ncons--
	}
	// receive styles of the last channel: mostly at most one iterating receiver (inside the
	// guard of the recorded finding)
	mode := rng.Intn(100)
	for j := 0; j < ncons; j++ {
		st := styles[rng.Intn(2)]
		switch {
		case mode < 35:
		case mode < 80:
			if j == 0 && (t.mainConsumes == "" || t.mainConsumes == "explicit" || t.mainConsumes == "method") {
				st = styles[2+rng.Intn(2)]
			}
		default:
			st = styles[rng.Intn(4)]
		}
		add(c10Node{parent: place(), kind: "consumer", rid: j, style: st})
	}
	t.mainRid = ncons
	if t.mainConsumes != "" {
		add(c10Node{parent: place(), kind: "closer"})
	}
	t.gated = rng.Chance(70)
	// who waits for whom: a coordinator (or the main program) waits for some of the
	// coordinators it started with a handle; when the producers run free and threads consume
	// (nothing a producer needs depends on a coordinator having returned) also for some of
	// its producers — "waits for only some of them"
	for id := range t.nodes {
		n := &t.nodes[id]
		if n.kind != "coord" && n.kind != "main" {
			continue
		}
		for _, c := range n.children {
			ch := t.nodes[c]
			if ch.form == "go" {
				continue
			}
			if ch.kind == "coord" && rng.Chance(50) {
				n.waits = append(n.waits, c)
			}
			if ch.kind == "producer" && !t.gated && t.mainConsumes == "" && rng.Chance(50) {
				n.waits = append(n.waits, c)
			}
		}
	}
	t.yields = make([]uint64, len(t.nodes)+1)
	ymode := rng.Intn(3)
	for i := range t.yields {
		switch ymode {
		case 0:
		case 1:
			t.yields[i] = rng.Next() & rng.Next() & rng.Next()
		default:
			t.yields[i] = rng.Next()
		}
	}
	return t
}

// c10DirectedNest: the smallest trees of the class, one per spawn form, buffer and receive
// style — main → coordinator → producer (the coordinator returns at once; the main program
// collects), and main → coordinator → {producer, stage, consumer}.
func c10DirectedNests() []*c10Nest {
	var out []*c10Nest
	for _, form := range []string{"spawn", "fnspawn", "go"} {
		for _, cap := range []int{0, 1, 8} {
			for _, style := range []string{"range", "explicit"} {
				t := &c10Nest{procs: 4, caps: []int{cap}, gated: true, mainConsumes: style, mainRid: 0, yields: make([]uint64, 8)}
				t.nodes = []c10Node{
					{id: 0, kind: "main", children: []int{1, 3}},
					{id: 1, parent: 0, kind: "coord", form: form, children: []int{2}},
					{id: 2, parent: 1, kind: "producer", form: form, sender: 0, count: 60, sendForm: "op"},
					{id: 3, parent: 0, kind: "closer", form: form},
				}
				if form != "go" {
					t.nodes[0].waits = []int{1}
				}
				out = append(out, t)
				p := &c10Nest{procs: 4, caps: []int{cap, 2}, gated: cap != 1, mainRid: 1, yields: make([]uint64, 8)}
				p.nodes = []c10Node{
					{id: 0, kind: "main", children: []int{1}},
					{id: 1, parent: 0, kind: "coord", form: form, children: []int{2}},
					{id: 2, parent: 1, kind: "coord", form: form, children: []int{3, 4, 5}},
					{id: 3, parent: 2, kind: "producer", form: form, sender: 0, count: 50, sendForm: "method"},
					{id: 4, parent: 2, kind: "stage", form: form, hop: 0, style: style, sendForm: "op"},
					{id: 5, parent: 2, kind: "consumer", form: form, rid: 0, style: style},
				}
				out = append(out, p)
			}
		}
	}
	return out
}

func c10SpawnStmt(form, fn string, args []string, handle string) string {
	a := strings.Join(args, ", ")
	switch form {
	case "go":
		return fmt.Sprintf("go %s(%s)", fn, a)
	case "fnspawn":
		return fmt.Sprintf("%s := %s.spawn(%s)", handle, fn, a)
	}
	return fmt.Sprintf("%s := spawn(%s)", handle, strings.Join(append([]string{fn}, args...), ", "))
}

func (t *c10Nest) script() string {
	var b strings.Builder
	w := func(format string, a ...any) { fmt.Fprintf(&b, format+"\n", a...) }
	last := len(t.caps) - 1
	for i, c := range t.caps {
		w("d%d := chan(%d)", i, c)
	}
	ncoord, nprod := len(t.byKind("coord")), len(t.byKind("producer"))
	nother := len(t.byKind("stage")) + len(t.byKind("consumer")) + len(t.byKind("closer"))
	w("start := chan()\ncdone := chan(%d)\npdone := chan(%d)\nxdone := chan(%d)", ncoord+1, nprod+1, nother+1)
	gate := ""
	if t.gated {
		gate = "  <-start\n"
	}
	for _, sf := range []string{"op", "method"} {
		send := "m := sid * 100000 + k\n    c <- m"
		fwd := "cout <- v"
		if sf == "method" {
			send = "c.send(sid * 100000 + k)"
			fwd = "cout.send(v)"
		}
		w("func producer_%s(tid, sid, n, c) {\n%s  for k := 0; k < n; k++ {\n    %s\n    sent(tid)\n    yield(tid)\n  }\n  fin(tid, n * 7 + sid)\n  pdone <- tid\n  return n * 7 + sid\n}", sf, gate, send)
		w("func stage_explicit_%s(tid, cin, cout) {\n  for {\n    v := <-cin\n    if v == nil { break }\n    %s\n    sent(tid)\n    yield(tid)\n  }\n  close(cout)\n  fin(tid, 3000 + tid)\n  xdone <- tid\n  return 3000 + tid\n}", sf, fwd)
		w("func stage_method_%s(tid, cin, cout) {\n  for {\n    v := cin.receive()\n    if v == nil { break }\n    %s\n    sent(tid)\n    yield(tid)\n  }\n  close(cout)\n  fin(tid, 3000 + tid)\n  xdone <- tid\n  return 3000 + tid\n}", sf, fwd)
		w("func stage_range_%s(tid, cin, cout) {\n  for _, v := range cin {\n    %s\n    sent(tid)\n    yield(tid)\n  }\n  close(cout)\n  fin(tid, 3000 + tid)\n  xdone <- tid\n  return 3000 + tid\n}", sf, fwd)
		w("func stage_forin_%s(tid, cin, cout) {\n  for v in cin {\n    %s\n    sent(tid)\n    yield(tid)\n  }\n  close(cout)\n  fin(tid, 3000 + tid)\n  xdone <- tid\n  return 3000 + tid\n}", sf, fwd)
	}
	w("func rx_explicit(tid, rid, c) {\n  for {\n    v := <-c\n    if v == nil { break }\n    rec(tid, rid, v)\n    yield(tid)\n  }\n  fin(tid, 1000 + rid)\n  xdone <- tid\n  return 1000 + rid\n}")
	w("func rx_method(tid, rid, c) {\n  for {\n    v := c.receive()\n    if v == nil { break }\n    rec(tid, rid, v)\n    yield(tid)\n  }\n  fin(tid, 1000 + rid)\n  xdone <- tid\n  return 1000 + rid\n}")
	w("func rx_range(tid, rid, c) {\n  for _, v := range c {\n    rec(tid, rid, v)\n    yield(tid)\n  }\n  fin(tid, 1000 + rid)\n  xdone <- tid\n  return 1000 + rid\n}")
	w("func rx_forin(tid, rid, c) {\n  for v in c {\n    rec(tid, rid, v)\n    yield(tid)\n  }\n  fin(tid, 1000 + rid)\n  xdone <- tid\n  return 1000 + rid\n}")
	w("func closer(tid, n) {\n  for i := 0; i < n; i++ { <-pdone }\n  close(d0)\n  fin(tid, 4000 + tid)\n  xdone <- tid\n  return 4000 + tid\n}")
	spawnChildren := func(n c10Node, ind string) {
		for _, c := range n.children {
			ch := t.nodes[c]
			var fn string
			var args []string
			switch ch.kind {
			case "coord":
				fn = fmt.Sprintf("coord_%d", c)
			case "producer":
				fn = "producer_" + ch.sendForm
				args = []string{strconv.Itoa(c), strconv.Itoa(ch.sender), strconv.Itoa(ch.count), "d0"}
			case "stage":
				fn = "stage_" + ch.style + "_" + ch.sendForm
				args = []string{strconv.Itoa(c), fmt.Sprintf("d%d", ch.hop), fmt.Sprintf("d%d", ch.hop+1)}
			case "consumer":
				fn = "rx_" + ch.style
				args = []string{strconv.Itoa(c), strconv.Itoa(ch.rid), fmt.Sprintf("d%d", last)}
			case "closer":
				fn = "closer"
				args = []string{strconv.Itoa(c), strconv.Itoa(nprod)}
			}
			w("%s%s", ind, c10SpawnStmt(ch.form, fn, args, fmt.Sprintf("t%d", c)))
		}
		for _, c := range n.waits {
			w("%swaited(%d, %d, t%d.wait())", ind, n.id, c, c)
		}
	}
	// coordinators, innermost (largest id) first: a function must exist before it is named
	coords := t.byKind("coord")
	sort.Sort(sort.Reverse(sort.IntSlice(coords)))
	for _, c := range coords {
		w("func coord_%d() {", c)
		spawnChildren(t.nodes[c], "  ")
		w("  fin(%d, %d)\n  cdone <- %d\n  return %d\n}", c, 2000+c, c, 2000+c)
	}
	// the main program
	spawnChildren(t.nodes[0], "")
	w("for i := 0; i < %d; i++ { <-cdone }", ncoord)
	if t.gated {
		w("close(start)")
	}
	if t.mainConsumes != "" {
		switch t.mainConsumes {
		case "explicit":
			w("for {\n  v := <-d%d\n  if v == nil { break }\n  rec(0, %d, v)\n  yield(0)\n}", last, t.mainRid)
		case "method":
			w("for {\n  v := d%d.receive()\n  if v == nil { break }\n  rec(0, %d, v)\n  yield(0)\n}", last, t.mainRid)
		case "range":
			w("for _, v := range d%d {\n  rec(0, %d, v)\n  yield(0)\n}", last, t.mainRid)
		default:
			w("for v in d%d {\n  rec(0, %d, v)\n  yield(0)\n}", last, t.mainRid)
		}
	} else {
		w("for i := 0; i < %d; i++ { <-pdone }\nclose(d0)", nprod)
	}
	w("for i := 0; i < %d; i++ { <-xdone }", nother)
	// the handles the main program holds: wait() returns the call's result whatever the depth below it
	for _, c := range t.nodes[0].children {
		if t.nodes[c].form != "go" {
			w("waited(0, %d, t%d.wait())", c, c)
		}
	}
	w("after(<-d%d)\nafter(d%d.receive())\nfor _, v := range d%d { after(v) }\nafter(<-d%d)", last, last, last, last)
	return b.String()
}

// expected result of thread id's call
func (t *c10Nest) result(id int) int64 {
	n := t.nodes[id]
	switch n.kind {
	case "coord":
		return int64(2000 + id)
	case "producer":
		return int64(n.count*7 + n.sender)
	case "stage":
		return int64(3000 + id)
	case "consumer":
		return int64(1000 + n.rid)
	case "closer":
		return int64(4000 + id)
	}
	return -1
}

// schedule: one canonical schedule of the model for the tree — spawns in id order, the
// coordinators that wait for no producer return innermost first (after their waits), the gate
// opens, every message is pushed through the whole pipeline before the next one is sent
// (senders and final receivers take turns), the producers return, the coordinators that
// waited for them return, then the closes cascade and everybody else returns.
func (t *c10Nest) schedule() (caps []int, ops []string) {
	last := len(t.caps) - 1
	gateCh := len(t.caps)
	caps = append(append([]int{}, t.caps...), 0)
	for id := 1; id < len(t.nodes); id++ {
		ops = append(ops, fmt.Sprintf("sp:%d", t.nodes[id].parent))
	}
	// a coordinator is "late" when it waits for a producer, or for a late coordinator: it
	// returns only after the values have flowed; all others return before the first send
	late := map[int]bool{}
	for id := len(t.nodes) - 1; id >= 0; id-- {
		if k := t.nodes[id].kind; k != "coord" && k != "main" {
			continue
		}
		for _, c := range t.nodes[id].waits {
			if t.nodes[c].kind == "producer" || late[c] {
				late[id] = true
			}
		}
	}
	coordRets := func(wantLate bool) {
		for id := len(t.nodes) - 1; id >= 1; id-- {
			if t.nodes[id].kind != "coord" || late[id] != wantLate {
				continue
			}
			for _, c := range t.nodes[id].waits {
				ops = append(ops, fmt.Sprintf("w:%d:%d", id, c))
			}
			ops = append(ops, fmt.Sprintf("ret:%d", id))
		}
		if late[0] == wantLate {
			for _, c := range t.nodes[0].waits {
				ops = append(ops, fmt.Sprintf("w:0:%d", c))
			}
		}
	}
	coordRets(false)
	prods := t.byKind("producer")
	if t.gated {
		ops = append(ops, fmt.Sprintf("ch:%d:c:0", gateCh))
		for _, p := range prods {
			ops = append(ops, fmt.Sprintf("ch:%d:r:%d", gateCh, p))
		}
	}
	stages := t.byKind("stage") // in hop order
	type rcv struct {
		tid  int
		iter bool
	}
	isIter := func(style string) bool { return style == "range" || style == "forin" }
	var finals []rcv
	for _, c := range t.byKind("consumer") {
		finals = append(finals, rcv{c, isIter(t.nodes[c].style)})
	}
	if t.mainConsumes != "" {
		finals = append(finals, rcv{0, isIter(t.mainConsumes)})
	}
	// one value from thread `from` into channel k, taken by receiver r
	pass := func(k, from int, msg string, r rcv) {
		it := 0
		if r.iter {
			it = 1
		}
		if caps[k] == 0 {
			ops = append(ops, fmt.Sprintf("ch:%d:h:%d:%d:%s:%d", k, from, r.tid, msg, it))
		} else {
			ops = append(ops, fmt.Sprintf("ch:%d:s:%d:%s", k, from, msg))
			if r.iter {
				ops = append(ops, fmt.Sprintf("ch:%d:n:%d", k, r.tid))
			} else {
				ops = append(ops, fmt.Sprintf("ch:%d:r:%d", k, r.tid))
			}
		}
		if r.iter {
			ops = append(ops, fmt.Sprintf("ch:%d:e:%d", k, r.tid))
		}
	}
	left := map[int]int{}
	remaining := 0
	for _, p := range prods {
		left[p] = 0
		remaining += t.nodes[p].count
	}
	turn := 0
	for remaining > 0 {
		for _, p := range prods {
			n := t.nodes[p]
			if left[p] >= n.count {
				continue
			}
			msg := fmt.Sprintf("%d:%d", n.sender, left[p])
			left[p]++
			remaining--
			from := p
			for h, s := range stages {
				pass(h, from, msg, rcv{s, isIter(t.nodes[s].style)})
				from = s
			}
			pass(last, from, msg, finals[turn%len(finals)])
			turn++
		}
	}
	for _, p := range prods {
		ops = append(ops, fmt.Sprintf("ret:%d", p))
	}
	coordRets(true)
	// closes cascade
	closerT := 0
	if cl := t.byKind("closer"); len(cl) > 0 {
		closerT = cl[0]
	}
	ops = append(ops, fmt.Sprintf("ch:0:c:%d", closerT))
	end := func(k int, r rcv) {
		if r.iter {
			ops = append(ops, fmt.Sprintf("ch:%d:n:%d", k, r.tid))
		} else {
			ops = append(ops, fmt.Sprintf("ch:%d:r:%d", k, r.tid))
		}
	}
	for h, s := range stages {
		end(h, rcv{s, isIter(t.nodes[s].style)})
		ops = append(ops, fmt.Sprintf("ch:%d:c:%d", h+1, s))
	}
	for _, r := range finals {
		end(last, r)
	}
	for id := 1; id < len(t.nodes); id++ {
		if k := t.nodes[id].kind; k != "coord" && k != "producer" {
			ops = append(ops, fmt.Sprintf("ret:%d", id))
		}
	}
	for _, c := range t.nodes[0].children {
		if t.nodes[c].form != "go" {
			ops = append(ops, fmt.Sprintf("w:0:%d", c))
		}
	}
	ops = append(ops, fmt.Sprintf("ch:%d:r:0", last), fmt.Sprintf("ch:%d:n:0", last))
	return caps, ops
}

type c10NestRun struct {
	mu       sync.Mutex
	recv     [][]string
	fins     map[int]int64
	waited   map[[2]int]int64
	after    []string
	sent     map[int]int
	ctxDead  map[int]string // thread -> the first host call in which its context was found done while the run's was live
	lastCall map[int]string
	yieldN   []uint64
}

func c10Nested(e *Env) {
	rng := e.Rng.Fork()
	runs := 220
	if !e.Quick {
		runs = 6000
	}
	var cases []*c10Nest
	cases = append(cases, c10DirectedNests()...)
	for i := 0; i < runs; i++ {
		cases = append(cases, c10GenNest(rng, e.Quick))
	}
	// the model's side of every tree in one batch
	reqs := make([]string, len(cases))
	for i, t := range cases {
		caps, ops := t.schedule()
		cs := make([]string, len(caps))
		for j, c := range caps {
			cs[j] = strconv.Itoa(c)
		}
		reqs[i] = fmt.Sprintf("C10\tnet\t%s\t%s", strings.Join(cs, ","), strings.Join(ops, ","))
	}
	reps := e.O.AskBatch(reqs)
	incomplete, done, msgs := 0, 0, 0
	deadline := time.Now().Add(45 * time.Second)
	if !e.Quick {
		deadline = time.Now().Add(6 * time.Minute)
	}
	for i, t := range cases {
		if time.Now().After(deadline) {
			e.R.Note("nested topology runs stopped at the tier's time budget after %d of %d runs", done, len(cases))
			break
		}
		ok, n := c10RunNest(e, t, reps[i])
		done++
		msgs += n
		if !ok {
			incomplete++
			if incomplete >= 2 {
				e.R.Note("nested topology runs stopped after %d runs that did not complete", incomplete)
				break
			}
		}
	}
	e.R.Note("nested topology runs: %d, messages sent by threads of depth >= 1 in thread trees: %d", done, msgs)
}

// c10NestModel reads the oracle's reply for the canonical schedule: every step enabled, every
// thread returned with a context that was never done, every channel closed and drained with
// as many deliveries as sends.
func c10NestModel(t *c10Nest, rep string) (problem string, returned map[int]bool) {
	f := strings.Split(rep, "\t")
	if len(f) != 3 {
		return "oracle reply malformed: " + rep, nil
	}
	for i, o := range strings.Split(f[0], ",") {
		if o == "B" || o == "se" || o == "ce" {
			_, ops := t.schedule()
			return fmt.Sprintf("the model does not admit step %d (%s) of the canonical schedule: %s", i, ops[i], o), nil
		}
	}
	returned = map[int]bool{}
	for _, th := range strings.Split(f[1], ";") {
		x := strings.Split(th, ":")
		if len(x) != 5 {
			return "oracle reply malformed: " + th, nil
		}
		id, _ := strconv.Atoi(x[0])
		if p, _ := strconv.Atoi(x[1]); p != t.nodes[id].parent {
			return fmt.Sprintf("model thread %d has parent %s, the tree says %d", id, x[1], t.nodes[id].parent), nil
		}
		returned[id] = x[2] == "1"
		if x[3] != "0" || x[4] != "0" {
			return fmt.Sprintf("model: thread %d's context is done (%s) / was done at some point (%s) in a schedule without cancel", id, x[3], x[4]), nil
		}
		if id != 0 && x[2] != "1" {
			return fmt.Sprintf("model: thread %d has not returned at the end of the canonical schedule", id), nil
		}
	}
	total := 0
	for _, p := range t.byKind("producer") {
		total += t.nodes[p].count
	}
	for k, c := range strings.Split(f[2], ";") {
		if k >= len(t.caps) {
			break
		}
		want := fmt.Sprintf("0:true:%d:%d:%d:0", total, total, total)
		if c != want {
			return fmt.Sprintf("model: channel d%d ends as %s (buf:closed:sent:dequeued:delivered:pending), expected %s", k, c, want), nil
		}
	}
	return "", returned
}

func c10RunNest(e *Env, t *c10Nest, modelRep string) (completed bool, messages int) {
	key := t.key()
	nrecv := len(t.byKind("consumer"))
	if t.mainConsumes != "" {
		nrecv++
	}
	run := &c10NestRun{recv: make([][]string, nrecv), fins: map[int]int64{}, waited: map[[2]int]int64{}, sent: map[int]int{},
		ctxDead: map[int]string{}, lastCall: map[int]string{}, yieldN: make([]uint64, len(t.nodes)+1)}
	total, maxDepth := 0, 0
	for _, n := range t.nodes {
		if n.kind == "producer" {
			total += n.count
		}
		if d := t.depth(n.id); d > maxDepth {
			maxDepth = d
		}
	}
	runCtx, cancel := context.WithTimeout(context.Background(), c10Wait)
	defer cancel()
	// every host call looks at the context of the thread that makes it: a logical observation
	// of "which context does this thread run under", independent of any timing
	see := func(ctx context.Context, tid int, what string) {
		dead := ctx.Err() != nil
		live := runCtx.Err() == nil // read after: if the run's context is live now it was live then
		run.mu.Lock()
		run.lastCall[tid] = what
		if dead && live {
			if _, seen := run.ctxDead[tid]; !seen {
				run.ctxDead[tid] = what
			}
		}
		run.mu.Unlock()
	}
	intArg := func(o object.Object) int { return int(o.(*object.Int).Value()) }
	globals := map[string]any{
		"rec": object.NewBuiltin("rec", func(ctx context.Context, args ...object.Object) object.Object {
			tid, rid := intArg(args[0]), intArg(args[1])
			see(ctx, tid, "rec")
			s := "9:0"
			if v, ok := args[2].(*object.Int); ok && v.Value() >= 0 {
				s = fmt.Sprintf("%d:%d", v.Value()/100000, v.Value()%100000)
			}
			run.recv[rid] = append(run.recv[rid], s) // each receiver appends to its own log only
			return object.Nil
		}),
		"sent": object.NewBuiltin("sent", func(ctx context.Context, args ...object.Object) object.Object {
			tid := intArg(args[0])
			see(ctx, tid, "sent")
			run.mu.Lock()
			run.sent[tid]++
			run.mu.Unlock()
			return object.Nil
		}),
		"yield": object.NewBuiltin("yield", func(ctx context.Context, args ...object.Object) object.Object {
			tid := intArg(args[0])
			see(ctx, tid, "yield")
			n := run.yieldN[tid]
			run.yieldN[tid] = n + 1
			if t.yields[tid%len(t.yields)]>>(n%64)&1 == 1 {
				runtime.Gosched()
			}
			return object.Nil
		}),
		"fin": object.NewBuiltin("fin", func(ctx context.Context, args ...object.Object) object.Object {
			tid := intArg(args[0])
			see(ctx, tid, "fin")
			run.mu.Lock()
			run.fins[tid] = int64(intArg(args[1]))
			run.mu.Unlock()
			return object.Nil
		}),
		"waited": object.NewBuiltin("waited", func(ctx context.Context, args ...object.Object) object.Object {
			see(ctx, intArg(args[0]), "waited")
			v := int64(-1)
			if x, ok := args[2].(*object.Int); ok {
				v = x.Value()
			}
			run.mu.Lock()
			run.waited[[2]int{intArg(args[0]), intArg(args[1])}] = v
			run.mu.Unlock()
			return object.Nil
		}),
		"after": object.NewBuiltin("after", func(ctx context.Context, args ...object.Object) object.Object {
			run.mu.Lock()
			run.after = append(run.after, args[0].Inspect())
			run.mu.Unlock()
			return object.Nil
		}),
	}
	runtime.GOMAXPROCS(t.procs)
	src := t.script()
	var err error
	finished := c10_withWatch(func() {
		defer func() {
			if r := recover(); r != nil {
				err = fmt.Errorf("panic: %v", r)
			}
		}()
		_, err = risor.Eval(runCtx, src, risor.WithConcurrency(), risor.WithGlobals(globals))
	})
	cancel()
	run.mu.Lock()
	defer run.mu.Unlock()

	iterating := 0
	for _, c := range t.byKind("consumer") {
		if s := t.nodes[c].style; s == "range" || s == "forin" {
			iterating++
		}
	}
	if t.mainConsumes == "range" || t.mainConsumes == "forin" {
		iterating++
	}
	e.R.Case(key, maxDepth >= 2 && total >= 50)
	e.R.H("nest_threads", strconv.Itoa(len(t.nodes)-1))
	e.R.H("nest_max_depth", strconv.Itoa(maxDepth))
	e.R.H("nest_gated", strconv.FormatBool(t.gated))
	e.R.H("nest_main_consumes", strconv.FormatBool(t.mainConsumes != ""))
	e.R.H("nest_stages", strconv.Itoa(len(t.caps)-1))
	e.R.H("nest_iterating_final_receivers", strconv.Itoa(iterating))
	for _, n := range t.nodes[1:] {
		e.R.H("nest_spawn_form", n.form)
		e.R.H("nest_kind_at_depth", fmt.Sprintf("%s@%d", n.kind, t.depth(n.id)))
		if len(n.waits) > 0 {
			e.R.H("nest_coordinator_waits", fmt.Sprintf("%d of %d", len(n.waits), len(n.children)))
		}
	}
	for _, c := range t.caps {
		e.R.H("nest_cap", strconv.Itoa(c))
	}

	// the model's side
	problem, _ := c10NestModel(t, modelRep)
	if problem != "" {
		e.R.Mismatch(key, "-", problem, "canonical schedule of the tree on C10.nstep")
		return true, total
	}
	describe := func(id int) string {
		n := t.nodes[id]
		s := fmt.Sprintf("thread %d (%s, started with %s by ", id, n.kind, n.form)
		var chain []string
		for p := n.parent; ; p = t.nodes[p].parent {
			if p == 0 {
				chain = append(chain, "the main program")
				break
			}
			chain = append(chain, fmt.Sprintf("thread %d (%s, %s)", p, t.nodes[p].kind, t.nodes[p].form))
		}
		return s + strings.Join(chain, " started by ") + ")"
	}

	// (1) the context each thread runs under: the model says the run's, for every thread
	var deadIDs []int
	for id := range run.ctxDead {
		deadIDs = append(deadIDs, id)
	}
	sort.Ints(deadIDs)
	if len(deadIDs) > 0 {
		id := deadIDs[0]
		anc := "its spawner had"
		if _, ok := run.fins[t.nodes[id].parent]; !ok || t.nodes[id].parent == 0 {
			anc = "its spawner had not"
		}
		detail := fmt.Sprintf("%s ran under a CANCELLED context (seen in its host call %s(), %d values sent by it so far) although the run's context was live; %s reached the end of its function; threads that saw a cancelled context: %v. "+
			"The property demands delivery whatever ancestors have returned: a thread's context is its spawner's (the run's)",
			describe(id), run.ctxDead[id], run.sent[id], anc, deadIDs)
		e.R.Mismatch(key, fmt.Sprintf("threads under a done context: %v", deadIDs), "ctxDone t = false for every thread (thread_ctx_is_run_ctx, no cancel in the schedule)", "context of a nested thread")
		e.R.Spec(key, detail, "")
	}

	// (2) completion and per-thread outcomes
	var notFin []string
	for id := 1; id < len(t.nodes); id++ {
		if v, ok := run.fins[id]; !ok {
			extra := ""
			if k := t.nodes[id].kind; k == "producer" {
				extra = fmt.Sprintf(", completed %d of %d sends", run.sent[id], t.nodes[id].count)
			} else if k == "stage" {
				extra = fmt.Sprintf(", forwarded %d of %d", run.sent[id], total)
			}
			lc := run.lastCall[id]
			if lc == "" {
				lc = "none"
			}
			notFin = append(notFin, fmt.Sprintf("%s never reached the end of its function (last host call: %s%s)", describe(id), lc, extra))
		} else if v != t.result(id) {
			notFin = append(notFin, fmt.Sprintf("%s reported %d, expected %d", describe(id), v, t.result(id)))
		}
	}
	received := 0
	for _, l := range run.recv {
		received += len(l)
	}
	if !finished || err != nil {
		detail := fmt.Sprintf("the run did not complete (finished=%v err=%v): %d of %d values reached the final receivers; ", finished, err, received, total)
		if len(notFin) > 4 {
			notFin = append(notFin[:4], fmt.Sprintf("… and %d more", len(notFin)-4))
		}
		detail += strings.Join(notFin, "; ")
		e.R.Mismatch(key, fmt.Sprintf("finished=%v err=%v", finished, err), "the model's schedule completes: every thread returns, every channel is closed and drained", "nested script run did not complete\n"+src)
		e.R.Spec(key, detail, "")
		return false, total
	}
	if len(notFin) > 0 {
		e.R.Mismatch(key, strings.Join(notFin, "; "), "every thread returns its value", "per-thread outcomes of the tree")
		e.R.Spec(key, "per-thread outcomes: "+strings.Join(notFin, "; "), "")
	}
	for _, s := range t.byKind("stage") {
		if run.sent[s] != total {
			e.R.Mismatch(key, fmt.Sprintf("stage %d forwarded %d", s, run.sent[s]), fmt.Sprintf("%d", total), "values through a pipeline stage")
			e.R.Spec(key, fmt.Sprintf("%s forwarded %d values, %d were sent into the pipeline", describe(s), run.sent[s], total), "")
		}
	}

	// (3) wait() values: exactly the call's result, whatever the depth below
	var badWaits []string
	expectWait := func(w, c int) {
		if got, ok := run.waited[[2]int{w, c}]; !ok || got != t.result(c) {
			badWaits = append(badWaits, fmt.Sprintf("thread %d waiting for %s got %d (present=%v), the call returned %d", w, describe(c), got, ok, t.result(c)))
		}
	}
	for _, n := range t.nodes {
		for _, c := range n.waits {
			expectWait(n.id, c)
		}
	}
	for _, c := range t.nodes[0].children {
		if t.nodes[c].form != "go" {
			expectWait(0, c)
		}
	}
	if len(badWaits) > 0 {
		e.R.Mismatch(key, strings.Join(badWaits, "; "), "wait returns the call's result", "wait() in a thread tree")
		e.R.Spec(key, strings.Join(badWaits, "; "), "")
	}

	// (4) the history of the final receivers
	counts := make([]string, 0, 4)
	for _, p := range t.byKind("producer") {
		counts = append(counts, strconv.Itoa(t.nodes[p].count))
	}
	logs := make([]string, len(run.recv))
	for j, l := range run.recv {
		logs[j] = strings.Join(l, ",")
		if len(l) == 0 {
			logs[j] = "-"
		}
	}
	rep := e.O.Ask("C10", "hist", strings.Join(counts, ","), strings.Join(logs, ";"))
	f := strings.Split(rep, "\t")
	if len(f) != 3 {
		e.R.Mismatch(key, "-", rep, "oracle reply malformed")
		return true, total
	}
	e.R.H("nest_verdict", f[0])
	if f[0] != "valid" {
		detail := fmt.Sprintf("history of the final receivers rejected by validHistory: surplus deliveries:lost:alien = %s; logs (first 12 per receiver): %s", f[2], c10Head(run.recv, 12))
		if iterating >= 2 && f[1] == "pattern" && len(deadIDs) == 0 {
			e.R.H("nest_defect_manifested", f[2])
			e.R.Spec(key, detail, c10Finding)
		} else {
			e.R.Mismatch(key, "dups:lost:alien="+f[2], "valid history (net_exactly_once: at most one iterating receiver per channel)", "observed history of a thread tree is not a history of the model")
			e.R.Spec(key, detail, "")
		}
	}
	if strings.Join(run.after, ",") != "nil,nil,nil" {
		e.R.Mismatch(key, strings.Join(run.after, ","), "nil,nil,nil", "receive / range on the closed and drained last channel")
		e.R.Spec(key, "after close and drain: <-ch, ch.receive(), range ch, <-ch observed "+strings.Join(run.after, ","), "")
	}
	return true, total
}
