package main

// C05 — evaluation and compilation are deterministic.
//
// Four streams (all randomness from e.Rng):
//  A. fragment programs (literals, globals, +, list/map/set literals, index, print): compiled
//     and run by the REAL compiler/VM several times; the Lean Impl model (compile under every
//     adversary annotation, then its VM) must produce exactly the observed (bytecode, constants)
//     and, for that bytecode, the observed result and stdout.  Spec = all repetitions identical.
//  B. general programs (shared generator + a prelude exercising map/set literals, default
//     arguments, map/set iteration, printing, method results): compiled and evaluated 8x
//     in-process and in 4 fresh child processes (64/16 thorough); MarshalCode bytes, result,
//     error text and stdout must be identical.
//  C. site probes against the Lean site-class models: SortedKeys / set order / VirtualOS.Environ (sorted
//     since its repair) / first-failure loops (function defaults, conversions) / applyOverrides /
//     MockFS.ReadDir (sorted by filename since its repair).
//  C2/C3. sets of every hashable type (floats, NaN, bytes, ...) against the model's order over FULL hash keys;
//     sorted(set|map, cmp) with ties against the model's stable sort of the ordered listing.
//  D. configuration probes (denylist, global names, shuffled option order), law-based; D2: module globals
//     whose module names differ from / collide with the global names, against the model's import cache.
//  E. every callable x (map | mixed set | float set | list of objects without String()) at every argument position, evaluated repeatedly.
//  G. (c05walk.go) containers with SEVERAL failing elements: generated value trees through json.marshal (6 routes) against the Lean
//     model JV.marshal, text for text, repeated in fresh VMs and processes; every callable of E x {map of unmarshalable values,
//     heterogeneous set}; site probes for modules/exec (parameter map, env map) and modules/http (header names that differ in case).
//  F. (c05render.go) object graphs of every object type rendered through every printing route against the Lean render model.
//  H. (c05select.go) the choosing loop of VirtualOS.findMount: nested mount tables x paths x script-level and host-level file operations,
//     which mount serves the access against the Lean model findMount, repeated with fresh maps.
//  I. (c05select.go) HashKey() of every hashable type incl. long byte slices and strings against HV.key; set listings against setListing,
//     the sorted-by-value law, and scripts over such sets in fresh processes.

import (
	"bufio"
	"bytes"
	"context"
	"crypto/sha256"
	"encoding/hex"
	"encoding/json"
	"fmt"
	"math"
	"os"
	"os/exec"
	"regexp"
	"sort"
	"strconv"
	"strings"
	"time"

	"github.com/risor-io/risor"
	"github.com/risor-io/risor/compiler"
	"github.com/risor-io/risor/object"
	"github.com/risor-io/risor/op"
	ros "github.com/risor-io/risor/os"
	"github.com/risor-io/risor/parser"
)

const (
	c05_fMapLit    = "C05-map-literal-order"
	c05_fSetNaN    = "C05-set-nan-order"
)

func init() {
	commands["C05"] = c05_runC05
	childCommands["C05-child"] = c05Child
}

// ------------------------------------------------------------------ stream A: the fragment

type c05_fe struct {
	k    string // int str t f n var add index print list set map
	s    string
	i    int64
	c    []*c05_fe
	keys []string // map: one key per child
	id   int      // map: ordinal among the map literals with >= 2 entries (-1 otherwise)
}

type c05_fstmt struct {
	name string // "" = expression statement
	e    *c05_fe
}

type c05_fprog struct {
	stmts []c05_fstmt
	last  *c05_fe
	maps  []int // entry count of every annotated map literal, by id
}

type c05_fvar struct {
	name, ty string
	keys     []string // map: keys present; list: length in i
	n        int
}

type c05_fgen struct {
	r     *RNG
	vars  []c05_fvar
	perms int // product of k! so far
	maps  []int
	next  int
}

var c05_fkeys = []string{"a", "b", "c", "d", "ab"}
var c05_fwords = []string{"", "a", "b", "xy", "q"}

func c05_fact(k int) int {
	f := 1
	for i := 2; i <= k; i++ {
		f *= i
	}
	return f
}

func (g *c05_fgen) varsOf(ty string) []c05_fvar {
	var out []c05_fvar
	for _, v := range g.vars {
		if v.ty == ty {
			out = append(out, v)
		}
	}
	return out
}

func (g *c05_fgen) intE(d int) *c05_fe {
	if d <= 0 {
		if vs := g.varsOf("int"); len(vs) > 0 && g.r.Chance(40) {
			return &c05_fe{k: "var", s: Pick(g.r, vs).name}
		}
		return &c05_fe{k: "int", i: int64(g.r.Intn(9))}
	}
	switch g.r.Intn(6) {
	case 0, 1:
		return &c05_fe{k: "add", c: []*c05_fe{g.intE(d - 1), g.intE(d - 1)}}
	case 2:
		if vs := g.varsOf("list"); len(vs) > 0 {
			v := Pick(g.r, vs)
			if v.n > 0 {
				idx := int64(g.r.Intn(v.n))
				if g.r.Chance(6) {
					idx = int64(v.n) + 1
				}
				return &c05_fe{k: "index", c: []*c05_fe{{k: "var", s: v.name}, {k: "int", i: idx}}}
			}
		}
	case 3:
		if vs := g.varsOf("map"); len(vs) > 0 {
			v := Pick(g.r, vs)
			if len(v.keys) > 0 {
				key := Pick(g.r, v.keys)
				if g.r.Chance(6) {
					key = "zz"
				}
				return &c05_fe{k: "index", c: []*c05_fe{{k: "var", s: v.name}, {k: "str", s: key}}}
			}
		}
	}
	return g.intE(0)
}

func (g *c05_fgen) strE(d int) *c05_fe {
	if d > 0 && g.r.Chance(35) {
		return &c05_fe{k: "add", c: []*c05_fe{g.strE(d - 1), g.strE(d - 1)}}
	}
	if vs := g.varsOf("str"); len(vs) > 0 && g.r.Chance(40) {
		return &c05_fe{k: "var", s: Pick(g.r, vs).name}
	}
	return &c05_fe{k: "str", s: Pick(g.r, c05_fwords)}
}

func (g *c05_fgen) scalarE(d int) *c05_fe {
	switch g.r.Intn(8) {
	case 0, 1, 2:
		return g.intE(d)
	case 3, 4:
		return g.strE(d)
	case 5:
		return &c05_fe{k: "t"}
	case 6:
		return &c05_fe{k: "f"}
	}
	return &c05_fe{k: "n"}
}

func (g *c05_fgen) printE(d int) *c05_fe {
	k := 1 + g.r.Intn(2)
	x := &c05_fe{k: "print"}
	for i := 0; i < k; i++ {
		if g.r.Chance(25) && len(g.vars) > 0 {
			x.c = append(x.c, &c05_fe{k: "var", s: Pick(g.r, g.vars).name})
		} else {
			x.c = append(x.c, g.scalarE(d))
		}
	}
	return x
}

// mapE builds a map literal; big = allow >= 2 entries (outside the guard NoBigMap).
func (g *c05_fgen) mapE(d int, big bool) (*c05_fe, []string) {
	k := g.r.Intn(2)
	if big {
		k = 2 + g.r.Intn(3)
		for k > 1 && g.perms*c05_fact(k) > 150 {
			k--
		}
	}
	x := &c05_fe{k: "map", id: -1}
	if k >= 2 {
		x.id = len(g.maps)
		g.maps = append(g.maps, k)
		g.perms *= c05_fact(k)
	}
	dup := g.r.Chance(40)
	var present []string
	for i := 0; i < k; i++ {
		key := c05_fkeys[i%len(c05_fkeys)]
		if dup || g.r.Chance(20) {
			key = Pick(g.r, c05_fkeys[:3])
		}
		var v *c05_fe
		switch g.r.Intn(10) {
		case 0, 1:
			v = g.printE(d - 1) // side effect inside an entry
		case 2:
			if d > 0 {
				v, _ = g.mapE(d-1, big && g.r.Chance(40))
				break
			}
			v = g.intE(0)
		case 3:
			v = g.listE(d - 1)
		default:
			v = g.intE(d - 1)
		}
		x.c = append(x.c, v)
		x.keys = append(x.keys, key)
		seen := false
		for _, p := range present {
			if p == key {
				seen = true
			}
		}
		if !seen {
			present = append(present, key)
		}
	}
	return x, present
}

func (g *c05_fgen) listE(d int) *c05_fe {
	x := &c05_fe{k: "list"}
	k := g.r.Intn(4)
	for i := 0; i < k; i++ {
		x.c = append(x.c, g.intE(d-1))
	}
	return x
}

func (g *c05_fgen) setE(d int) *c05_fe {
	x := &c05_fe{k: "set"}
	k := 1 + g.r.Intn(4)
	for i := 0; i < k; i++ {
		x.c = append(x.c, g.scalarE(0))
	}
	return x
}

func c05_genFragment(r *RNG, big bool) *c05_fprog {
	g := &c05_fgen{r: r, perms: 1}
	p := &c05_fprog{}
	n := 2 + r.Intn(5)
	for i := 0; i < n; i++ {
		name := fmt.Sprintf("w%d", i)
		switch r.Intn(9) {
		case 0, 1:
			p.stmts = append(p.stmts, c05_fstmt{name, g.intE(2)})
			g.vars = append(g.vars, c05_fvar{name: name, ty: "int"})
		case 2:
			p.stmts = append(p.stmts, c05_fstmt{name, g.strE(2)})
			g.vars = append(g.vars, c05_fvar{name: name, ty: "str"})
		case 3, 4:
			m, keys := g.mapE(2, big)
			p.stmts = append(p.stmts, c05_fstmt{name, m})
			// values may be non-ints; index expressions over this map are used in int position
			// only when every value is an int expression
			allInt := true
			for _, v := range m.c {
				if v.k != "int" && v.k != "add" && v.k != "var" && v.k != "index" {
					allInt = false
				}
			}
			if allInt {
				g.vars = append(g.vars, c05_fvar{name: name, ty: "map", keys: keys})
			} else {
				g.vars = append(g.vars, c05_fvar{name: name, ty: "other"})
			}
		case 5:
			l := g.listE(2)
			p.stmts = append(p.stmts, c05_fstmt{name, l})
			g.vars = append(g.vars, c05_fvar{name: name, ty: "list", n: len(l.c)})
		case 6:
			p.stmts = append(p.stmts, c05_fstmt{name, g.setE(1)})
			g.vars = append(g.vars, c05_fvar{name: name, ty: "other"})
		case 7:
			p.stmts = append(p.stmts, c05_fstmt{"", g.printE(1)})
		default:
			m, present := g.mapE(1, big)
			key := Pick(r, c05_fkeys[:3])
			if len(present) > 0 && r.Chance(85) {
				key = Pick(r, present)
			}
			p.stmts = append(p.stmts, c05_fstmt{"", &c05_fe{k: "index", c: []*c05_fe{m, {k: "str", s: key}}}})
		}
	}
	last := &c05_fe{k: "list"}
	for _, v := range g.vars {
		if r.Chance(70) {
			last.c = append(last.c, &c05_fe{k: "var", s: v.name})
		}
	}
	if big || r.Chance(30) {
		m, _ := g.mapE(1, big)
		last.c = append(last.c, m)
	}
	last.c = append(last.c, g.setE(0))
	p.last = last
	p.maps = g.maps
	return p
}

func (x *c05_fe) src() string {
	switch x.k {
	case "int":
		if x.i < 0 {
			return "(" + strconv.FormatInt(x.i, 10) + ")"
		}
		return strconv.FormatInt(x.i, 10)
	case "str":
		return strconv.Quote(x.s)
	case "t":
		return "true"
	case "f":
		return "false"
	case "n":
		return "nil"
	case "var":
		return x.s
	case "add":
		return "(" + x.c[0].src() + " + " + x.c[1].src() + ")"
	case "index":
		return x.c[0].src() + "[" + x.c[1].src() + "]"
	case "print", "list", "set":
		parts := make([]string, len(x.c))
		for i, c := range x.c {
			parts[i] = c.src()
		}
		switch x.k {
		case "print":
			return "print(" + strings.Join(parts, ", ") + ")"
		case "list":
			return "[" + strings.Join(parts, ", ") + "]"
		}
		if len(parts) == 0 {
			return "set()" // `{}` is the empty map
		}
		return "{" + strings.Join(parts, ", ") + "}"
	case "map":
		parts := make([]string, len(x.c))
		for i, c := range x.c {
			parts[i] = strconv.Quote(x.keys[i]) + ": " + c.src()
		}
		return "{" + strings.Join(parts, ", ") + "}"
	}
	return "<?>"
}

// tokens renders the expression for the oracle; ann[id] is the adversary's choice for map id.
func (x *c05_fe) tokens(ann [][]int, out *[]string) {
	switch x.k {
	case "int":
		*out = append(*out, "i", strconv.FormatInt(x.i, 10))
	case "str":
		*out = append(*out, "s", Hex(x.s))
	case "t", "f", "n":
		*out = append(*out, x.k)
	case "var":
		*out = append(*out, "v", x.s)
	case "add":
		*out = append(*out, "+")
		x.c[0].tokens(ann, out)
		x.c[1].tokens(ann, out)
	case "index":
		*out = append(*out, "x")
		x.c[0].tokens(ann, out)
		x.c[1].tokens(ann, out)
	case "print", "list", "set":
		*out = append(*out, map[string]string{"print": "p", "list": "l", "set": "S"}[x.k], strconv.Itoa(len(x.c)))
		for _, c := range x.c {
			c.tokens(ann, out)
		}
	case "map":
		perm := "-"
		if x.id >= 0 && ann != nil {
			parts := make([]string, len(ann[x.id]))
			for i, v := range ann[x.id] {
				parts[i] = strconv.Itoa(v)
			}
			perm = strings.Join(parts, ".")
		}
		*out = append(*out, "m", strconv.Itoa(len(x.c)), perm)
		for i, c := range x.c {
			*out = append(*out, Hex(x.keys[i]))
			c.tokens(ann, out)
		}
	}
}

func (p *c05_fprog) src() string {
	var sb strings.Builder
	for _, s := range p.stmts {
		if s.name != "" {
			sb.WriteString(s.name + " := " + s.e.src() + "\n")
		} else {
			sb.WriteString(s.e.src() + "\n")
		}
	}
	sb.WriteString(p.last.src() + "\n")
	return sb.String()
}

func (p *c05_fprog) tokens(ann [][]int) string {
	out := []string{strconv.Itoa(len(p.stmts))}
	for _, s := range p.stmts {
		if s.name != "" {
			out = append(out, "d", s.name)
		} else {
			out = append(out, "e")
		}
		s.e.tokens(ann, &out)
	}
	p.last.tokens(ann, &out)
	return strings.Join(out, " ")
}

func c05_permsOf(n int) [][]int {
	if n == 0 {
		return [][]int{{}}
	}
	var out [][]int
	var rec func(cur []int, used []bool)
	rec = func(cur []int, used []bool) {
		if len(cur) == n {
			out = append(out, append([]int{}, cur...))
			return
		}
		for i := 0; i < n; i++ {
			if !used[i] {
				used[i] = true
				rec(append(cur, i), used)
				used[i] = false
			}
		}
	}
	rec(nil, make([]bool, n))
	return out
}

// annotations enumerates every adversary for the program's annotated map literals.
func (p *c05_fprog) annotations() [][][]int {
	out := [][][]int{{}}
	for _, k := range p.maps {
		var next [][][]int
		for _, a := range out {
			for _, pm := range c05_permsOf(k) {
				next = append(next, append(append([][]int{}, a...), pm))
			}
		}
		out = next
	}
	return out
}

func c05_constsText(c *compiler.Code) string {
	var parts []string
	for i := 0; i < c.ConstantsCount(); i++ {
		switch v := c.Constant(i).(type) {
		case int64:
			parts = append(parts, "i:"+strconv.FormatInt(v, 10))
		case string:
			parts = append(parts, "s:"+Hex(v))
		default:
			parts = append(parts, fmt.Sprintf("?:%T", v))
		}
	}
	if len(parts) == 0 {
		return "-"
	}
	return strings.Join(parts, " ")
}

type c05_fragRun struct {
	code, consts, result, stdout string
}

// runFragment compiles with the configuration's global names handed over in a shuffled order
// (compiler.New must sort them) and runs that very code object in a fresh VM.
func c05_runFragment(src string, names []string, r *RNG) (out c05_fragRun) {
	defer func() {
		if rec := recover(); rec != nil {
			out.result = "e:panic"
		}
	}()
	ctx, cancel := context.WithTimeout(context.Background(), 5*time.Second)
	defer cancel()
	prog, err := parser.Parse(ctx, src)
	if err != nil {
		return c05_fragRun{result: "e:parse"}
	}
	sh := append([]string{}, names...)
	for i := len(sh) - 1; i > 0; i-- {
		j := r.Intn(i + 1)
		sh[i], sh[j] = sh[j], sh[i]
	}
	code, err := compiler.Compile(prog, compiler.WithGlobalNames(sh))
	if err != nil {
		return c05_fragRun{result: "e:compile", code: err.Error()}
	}
	out.code, out.consts = CodeText(code), c05_constsText(code)
	buf := &bytes.Buffer{}
	vos := ros.NewVirtualOS(ctx, ros.WithStdout(&memFile{buf: buf}))
	res, err := risor.EvalCode(ctx, code, risor.WithOS(vos))
	out.stdout = buf.String()
	if err != nil {
		out.result = "e:" + ErrClass(err.Error())
		return
	}
	out.result = "v:" + Hex(res.Inspect())
	return
}

func c05Fragments(e *Env, n int, reps int) {
	rng := e.Rng.Fork()
	names := risor.NewConfig().GlobalNames()
	namesField := strings.Join(names, ",")
	for i := 0; i < n; i++ {
		r := rng.Fork()
		big := i%8 == 0 // 87 % of the programs stay inside the guard NoBigMap
		p := c05_genFragment(r, big)
		src := p.src()
		anns := p.annotations()
		reqs := make([]string, len(anns))
		for j, a := range anns {
			reqs[j] = "C05\tfrag\t" + namesField + "\t" + p.tokens(a)
		}
		reps2 := e.O.AskBatch(reqs)
		model := map[string][2]string{} // code+consts -> result, stdout
		modelBig := false
		bad := ""
		for j, rep := range reps2 {
			f := strings.Split(rep, "\t")
			if len(f) != 6 || f[0] != "ok" {
				bad = fmt.Sprintf("oracle reply %q to %q", rep, reqs[j])
				break
			}
			key := f[1] + "|" + f[2]
			val := [2]string{f[3], UnHex(f[4])}
			if old, ok := model[key]; ok && old != val {
				bad = "model: the same bytecode evaluates to two different outcomes"
			}
			model[key] = val
			modelBig = f[5] == "false"
		}
		if bad != "" {
			e.R.Mismatch(src, "-", bad, "fragment oracle")
			continue
		}
		guard := len(p.maps) > 0
		if guard != modelBig {
			e.R.Mismatch(src, fmt.Sprint("bigMap=", guard), fmt.Sprint("noBigMap=", !modelBig), "guard predicate disagrees")
		}
		e.R.Case(src, true)
		e.R.H("fragment_annotations", fmt.Sprintf("%03d", len(anns)))
		e.R.H("fragment_model_outcomes", fmt.Sprintf("%03d", len(model)))
		seen := map[c05_fragRun]int{}
		agree := true
		for k := 0; k < reps; k++ {
			got := c05_runFragment(src, names, r)
			seen[got]++
			want, ok := model[got.code+"|"+got.consts]
			if !ok {
				agree = false
				e.R.Mismatch(src, got.code+" | "+got.consts, fmt.Sprintf("%d possible bytecodes, this is none of them", len(model)), "fragment compile")
				break
			}
			if want[0] != got.result || want[1] != got.stdout {
				agree = false
				e.R.Mismatch(src, got.result+" out="+strconv.Quote(got.stdout), want[0]+" out="+strconv.Quote(want[1]), "fragment eval of "+got.code)
				break
			}
			e.R.H("fragment_result", strings.SplitN(got.result, ":", 2)[0]+":"+func() string {
				if strings.HasPrefix(got.result, "e:") {
					return got.result[2:]
				}
				return "value"
			}())
		}
		if len(seen) > 1 {
			results := map[string]bool{}
			for s := range seen {
				results[s.result+s.stdout] = true
			}
			codes := map[string]bool{}
			for s := range seen {
				codes[s.code+s.consts] = true
			}
			var parts []string
			if len(codes) > 1 {
				parts = append(parts, "bytecode")
			}
			if len(results) > 1 {
				parts = append(parts, "result/stdout")
			}
			what := strings.Join(parts, ", ")
			finding := ""
			if guard && agree {
				finding = c05_fMapLit
			}
			e.R.H("fragment_variation", what)
			e.R.Spec(src, fmt.Sprintf("%d repetitions gave %d different outcomes (%s vary)", reps, len(seen), what), finding)
		} else {
			e.R.H("fragment_variation", "none")
		}
	}
}

// ------------------------------------------------------------------ stream B: general programs

type c05Obs struct {
	Code   string `json:"code"` // sha256 of MarshalCode bytes, or "ERR:"+text
	Shape  string `json:"shape"`
	Value  string `json:"value"`
	Err    string `json:"err"`
	Stdout string `json:"stdout"`
}

func c05_codeShape(code *compiler.Code) string {
	var names []string
	consts := 0
	for _, cc := range code.Flatten() {
		n := cc.InstructionCount()
		for i := 0; i < n; {
			info := op.GetInfo(cc.Instruction(i))
			names = append(names, info.Name)
			i += 1 + info.OperandCount
		}
		consts += cc.ConstantsCount()
	}
	sort.Strings(names)
	h := sha256.Sum256([]byte(strings.Join(names, " ")))
	return fmt.Sprintf("%d/%d/%s", len(names), consts, hex.EncodeToString(h[:6]))
}

func c05Observe(src string) (o c05Obs) {
	func() {
		defer func() {
			if r := recover(); r != nil {
				o.Code = fmt.Sprintf("ERR:PANIC %v", r)
			}
		}()
		code, err := CompileSrc(src)
		if err != nil {
			o.Code = "ERR:" + err.Error()
			return
		}
		b, err := compiler.MarshalCode(code)
		if err != nil {
			o.Code = "ERR:marshal " + err.Error()
			return
		}
		h := sha256.Sum256(b)
		o.Code = hex.EncodeToString(h[:])
		o.Shape = c05_codeShape(code)
	}()
	var opts []risor.Option
	if strings.HasPrefix(src, c05_renderMarker) {
		opts = c05_renderOpts() // stream F: spawn() available, host-built objects as globals
	}
	out := EvalSrc(src, 5*time.Second, opts...)
	o.Value, o.Err, o.Stdout = out.Value, out.Err, out.Stdout
	return
}

func c05Child(args []string) {
	sc := bufio.NewScanner(os.Stdin)
	sc.Buffer(make([]byte, 1<<20), 1<<26)
	w := bufio.NewWriter(os.Stdout)
	defer w.Flush()
	for sc.Scan() {
		var src string
		if err := json.Unmarshal(sc.Bytes(), &src); err != nil {
			continue
		}
		b, _ := json.Marshal(c05Observe(src))
		w.Write(b)
		w.WriteByte('\n')
	}
}

func c05RunChildren(srcs []string, n int) [][]c05Obs {
	var in bytes.Buffer
	for _, s := range srcs {
		b, _ := json.Marshal(s)
		in.Write(b)
		in.WriteByte('\n')
	}
	out := make([][]c05Obs, 0, n)
	for i := 0; i < n; i++ {
		ctx, cancel := context.WithTimeout(context.Background(), 10*time.Minute)
		cmd := exec.CommandContext(ctx, os.Args[0], "C05-child")
		cmd.Stdin = bytes.NewReader(in.Bytes())
		var ob bytes.Buffer
		cmd.Stdout = &ob
		cmd.Env = append(os.Environ(), "GOMEMLIMIT=1GiB")
		err := cmd.Run()
		cancel()
		var obs []c05Obs
		sc := bufio.NewScanner(&ob)
		sc.Buffer(make([]byte, 1<<20), 1<<26)
		for sc.Scan() {
			var o c05Obs
			if json.Unmarshal(sc.Bytes(), &o) == nil {
				obs = append(obs, o)
			}
		}
		if err != nil || len(obs) != len(srcs) {
			obs = nil // reported by the caller
		}
		out = append(out, obs)
	}
	return out
}

var c05LocalNames = regexp.MustCompile(`\b(qf|qg|qh|qb|qe|qi|qj|qn|qo|qt|qu|qc|qy|qv)\b`)

// prelude pieces.  big = contains a map literal with >= 2 entries (outside the guard).
type c05Piece struct {
	src  string
	big  bool
	kind string
}

func c05Prelude(r *RNG, allowBig bool) (string, bool, []string) {
	key := func() string { return Pick(r, []string{"a", "b", "c", "k1", "k2", "zeta", "Alpha", "é", ""}) }
	num := func() int { return r.Intn(20) - 3 }
	var pieces []c05Piece
	add := func(kind string, big bool, format string, a ...any) {
		// names local to a piece get the piece's index so that pieces can repeat
		text := c05LocalNames.ReplaceAllString(fmt.Sprintf(format, a...), fmt.Sprintf("${1}_%d", len(pieces)))
		pieces = append(pieces, c05Piece{text, big, kind})
	}
	pos := func() int { return r.Intn(20) }
	// maps built without a multi-entry literal
	add("map-setitem", false, "qm := {%q: %d}\nqm[%q] = %d\nqm[%q] = [%d, %d]\nqm[%q] = %q", key(), num(), key(), num(), key(), num(), num(), key(), key())
	add("set-literal", false, "qs := {%d, %d, %q, %d, %q, true, nil, %d.5, 0.5, %d.0, 2.25}", num(), num(), key(), num(), key(), pos(), pos())
	for i := 0; i < 6; i++ {
		switch r.Intn(22) {
		case 0:
			add("map-iter", false, "for k, v := range qm { print(k, v) }")
		case 1:
			add("map-iter", false, "for k in qm { print(k) }")
		case 2:
			add("set-iter", false, "for x in qs { print(x) }\nfor i, x := range qs { print(i, x) }")
		case 3:
			add("map-methods", false, "print(qm.keys(), qm.values(), qm.items(), keys(qm), len(qm))")
		case 4:
			add("print-containers", false, "print(qm, qs, string(qm), string(qs), [qm, qs])\nprint('{qm} {qs}')")
		case 5:
			add("defaults", false, "func qf(a, b=%d, c=%q, e=true, f=1.5) { return [a, b, c, e, f] }\nprint(qf(1), qf(1, 2), qf(1, 2, 3, 4, 5))", pos(), key())
		case 6:
			add("set-ops", false, "qt := {%d, %d, %q}\nprint(qs.union(qt), qs.intersection(qt), qs == qt, qs == qs, list(qs), qt.union(qs))", num(), num(), key())
		case 7:
			add("map-ops", false, "qn := qm.copy()\nqn.update({%q: %d})\nprint(qn, qn == qm, qm == qm, qn.pop(%q, 0), qn)", key(), num(), key())
		case 8:
			add("json", false, "print(json.marshal(qm), json.marshal(list(qs)))")
		case 9:
			add("all-any", false, "print(all(qs), any(qs), all(qm), any({0, false}), %q in qm, %d in qs)", key(), num())
		case 10:
			add("print-callables", false, "print(print, len, qm.keys, type(qm), type(qs))")
		case 11:
			add("errors", false, "print(try(func() { return qm[\"nokey\"] }, func(e) { return string(e) }))")
		case 12:
			add("map-one-entry", false, "qo := {%q: {%q: %d}}\nprint(qo, {})", key(), key(), num())
		case 13:
			add("iter", false, "qi := iter(qm)\nprint(qi.next(), qi.next())")
		case 14:
			add("sprintf", false, "print(sprintf(\"%%v %%v\", qm, qs))")
		case 15:
			add("closure-default", false, "func qg(x, y=%d) { return func() { return [x, y, qm] } }\nprint(qg(%d)())", pos(), num())
		case 16:
			// comparison functions that cannot tell some keys/items apart: ties must come out in the ordered listing
			add("sorted-cmp-ties", false, "print(sorted(qm, func(a, b) { return len(a) < len(b) }), sorted(qs, func(a, b) { return type(a) < type(b) }), sorted(qs, func(a, b) { return false }), sorted({3, 1, 2.0, 2, 1.0, %d}))", pos())
		case 17:
			add("float-set", false, "qu := {2.5, 0.5, 1.5, %d.25, %d.75, (-1.5)}\nfor k, v := range qu { print(k, v) }\nprint(qu, list(qu), string(qu), math.sum(list(qu)), json.marshal(list(qu)), qu.union({9.5, 8.5}))", pos(), pos())
		case 18:
			add("containers-as-arguments", false, "print(list(qs), list(qm), set(qm), set(list(qs)), reversed(list(qs)), chunk(list(qs), 2), strings.join(list(qm), \"-\"), sprintf(\"%%v\", list(qs)))")
		case 19:
			// objects without a String() method through every formatting builtin
			add("print-chan-entry", false, "qc := chan(%d)\nqy := iter(qm)\nqy.next()\nprint(qc, qy.entry(), [qc, qy.entry()], sprintf(\"%%v %%s\", qc, qy.entry()), string(errorf(\"e %%v\", qc)), string(qc), '{qc} {qy.entry()}')", pos()%4)
		case 20:
			add("print-iterators-callables", false, "print(iter(qs), iter(qm), iter(3), iter(\"ab\"), [len, math, qm.keys, func(a, b=1) { return a }], sprintf(\"%%v|%%v|%%v\", len, math, iter(qs)), string(errors.new(\"n %%v %%v\", chan(), iter([chan(1)]))))")
		case 21:
			// members longer than 32 bytes that agree on their first 40: their order in the set is the order of their whole contents
			stem := strings.Repeat(Pick(r, []string{"k", "ab", "stem/"}), 40)[:40]
			add("long-members-set", false, "qv := {byte_slice(%q), byte_slice(%q), byte_slice(%q), %q, %q}\nfor x in qv { print(x) }\nprint(qv, list(qv), json.marshal(qv), qv == qv)",
				stem+key()+"2", stem+key()+"1", stem, stem+"b", stem+"a")
		}
		if !allowBig {
			continue
		}
		switch r.Intn(10) {
		case 0:
			add("big-map-distinct", true, "qb := {%q: %d, %q: %d, %q: %d}\nprint(qb)", "a", num(), "b", num(), "c", num())
		case 1:
			k := Pick(r, []string{"a", "b"})
			add("big-map-dup-key", true, "print({%q: %d, %q: %d}[%q])", k, num(), k, num(), k)
		case 2:
			add("big-map-side-effects", true, "qe := {\"x\": print(\"first\"), \"y\": print(\"second\")}")
		case 3:
			add("big-map-in-func", true, "func qh() { return {\"p\": 1, \"q\": 2} }\nprint(qh())")
		case 4:
			add("big-map-funcs", true, "qj := {\"f\": func() { return 1 }, \"g\": func() { return 2 }}\nprint(qj[\"f\"](), qj[\"g\"]())")
		}
	}
	var sb strings.Builder
	big := false
	var kinds []string
	for _, p := range pieces {
		sb.WriteString(p.src + "\n")
		big = big || p.big
		kinds = append(kinds, p.kind)
	}
	return sb.String(), big, kinds
}

type c05Prog struct {
	src   string
	big   bool
	kinds []string
}

func c05Compare(e *Env, p c05Prog, obs []c05Obs, where string) {
	first := obs[0]
	var diff []string
	shapesEqual := true
	for _, o := range obs[1:] {
		if o.Code != first.Code {
			diff = append(diff, "bytecode")
		}
		if o.Value != first.Value {
			diff = append(diff, "result")
		}
		if o.Err != first.Err {
			diff = append(diff, "error")
		}
		if o.Stdout != first.Stdout {
			diff = append(diff, "stdout")
		}
		if o.Shape != first.Shape {
			shapesEqual = false
		}
	}
	if len(diff) == 0 {
		e.R.H("general_variation_"+where, "none")
		return
	}
	sort.Strings(diff)
	var uniq []string
	for i, d := range diff {
		if i == 0 || d != diff[i-1] {
			uniq = append(uniq, d)
		}
	}
	what := strings.Join(uniq, ",")
	e.R.H("general_variation_"+where, what)
	finding := ""
	if p.big && shapesEqual {
		// inside the known finding's guard, and the observations are what the Impl model
		// predicts: the same instructions and constants, in a different order
		finding = c05_fMapLit
	}
	if p.big && !shapesEqual {
		e.R.Mismatch(p.src, "instruction/constant multisets differ between compilations", "same multiset, entries permuted", "general program, "+where)
	}
	caseSrc := p.src
	if finding == "" && where == "in-process" && c05Shrunk < 5 {
		c05Shrunk++
		// unattributed: drop source lines while the variation persists (12 observations)
		caseSrc = c05ShrinkLines(p.src, func(src string) bool {
			a := c05Observe(src)
			if strings.HasPrefix(a.Code, "ERR:") && strings.Contains(a.Code, "parse") {
				return false
			}
			if ErrClass(a.Err) == "context" {
				return false // dropping the line made the program run into the time limit: not a candidate
			}
			for k := 0; k < 11; k++ {
				if c05Observe(src) != a {
					return true
				}
			}
			return false
		})
	}
	detail := fmt.Sprintf("%s: %s differ between repetitions; first: code=%s value=%q err=%q stdout=%q", where, what, first.Code[:min(12, len(first.Code))], first.Value, first.Err, first.Stdout)
	for _, o := range obs[1:] {
		if o != first {
			detail += fmt.Sprintf(" | other: code=%s value=%q err=%q stdout=%q", o.Code[:min(12, len(o.Code))], o.Value, o.Err, o.Stdout)
			break
		}
	}
	if caseSrc != p.src {
		detail += " | shrunk from a generated program of " + strconv.Itoa(strings.Count(p.src, "\n")) + " lines"
	}
	e.R.Spec(caseSrc, detail, finding)
}

var c05Shrunk int

// c05ShrinkLines greedily removes lines (one at a time, last first) while `varies` holds.
func c05ShrinkLines(src string, varies func(string) bool) string {
	lines := strings.Split(strings.TrimRight(src, "\n"), "\n")
	if len(lines) > 80 || !varies(src) {
		return src
	}
	for changed := true; changed; {
		changed = false
		for i := len(lines) - 1; i >= 0; i-- {
			cand := append(append([]string{}, lines[:i]...), lines[i+1:]...)
			if len(cand) == 0 {
				continue
			}
			if varies(strings.Join(cand, "\n") + "\n") {
				lines = cand
				changed = true
			}
		}
	}
	return strings.Join(lines, "\n") + "\n"
}

func c05General(e *Env, n, reps, children int) {
	rng := e.Rng.Fork()
	var progs []c05Prog
	for i := 0; i < n; i++ {
		r := rng.Fork()
		allowBig := i%8 == 0
		pre, big, kinds := c05Prelude(r, allowBig)
		o := GenOpts{MaxStmts: 2 + r.Intn(3), MaxDepth: 2 + r.Intn(2), Budget: 40 + r.Intn(120), Funcs: true, Closures: true,
			Containers: true, Strings: r.Bool(), NoCtlInSwitch: true}
		body := Src(GenProgram(r, o))
		if r.Chance(12) {
			// end in an uncaught error: the error text is part of what must not vary
			body += Pick(r, []string{"qm[\"nokey\"]\n", "qs + 1\n", "qm.keys(1)\n", "error(string(qm))\n", "[1, 2][len(qm) + 5]\n"})
			kinds = append(kinds, "uncaught-error")
		}
		progs = append(progs, c05Prog{pre + body, big, kinds})
	}
	// directed programs (always present)
	for _, d := range []c05Prog{
		{"{\"a\": 1, \"a\": 2}[\"a\"]\n", true, []string{"big-map-dup-key"}},
		{"x := {\"a\": 1, \"b\": 2, \"c\": 3}\nl := []\nfor k, v := range x { l.append(k) }\n[l, keys(x)]\n", true, []string{"big-map-distinct"}},
		{"m := {}\nfor i := 0; i < 40; i++ { m[string(i)] = i }\nl := []\nfor k, v := range m { l.append(v) }\nprint(m)\n[l, m.keys(), {9, 8, 7, 6, 5, 4, 3, 2, 1, 0, 10, 11, 12, 13, 14, 15, 16, 17}]\n", false, []string{"large-map", "map-iter"}},
		{"func f(a, b=2, c=\"x\", d=false) { return [a, b, c, d] }\n[f(1), f(1, 5), f(1, 5, 6, 7)]\n", false, []string{"defaults"}},
		{"s := {3, 1, 2}\nt := {\"b\", \"a\", 1}\n[s.union(t), s.intersection(t), list(s), s == {1, 2, 3}]\n", false, []string{"set-ops"}},
		{"s := {2.5, 0.5, 1.5, 3.5, 4.5, 10.5}\nprint(s)\nl := []\nfor k, v := range s { l.append(k) }\n[l, list(s), string(s), s.union({7.5, 6.5})]\n", false, []string{"float-set"}},
		{"m := {}\nfor i, w := range [\"fig\", \"yam\", \"date\", \"kiwi\", \"pear\", \"apple\"] { m[w] = i }\n[sorted(m, func(a, b) { return len(a) < len(b) }), sorted({1, 1.0, 2, 2.0, 3, 3.0}), sorted({\"b\", 1.5, \"a\", 0.5, 2}, func(a, b) { return type(a) < type(b) })]\n", false, []string{"sorted-cmp-ties"}},
	} {
		progs = append(progs, d)
	}
	srcs := make([]string, len(progs))
	for i, p := range progs {
		srcs[i] = p.src
	}
	kids := c05RunChildren(srcs, children)
	for ci, k := range kids {
		if k == nil {
			e.R.Mismatch(fmt.Sprintf("child process %d", ci), "did not return one observation per program", "-", "child process failed")
		}
	}
	for i, p := range progs {
		e.R.Case(p.src, true)
		for _, k := range p.kinds {
			e.R.H("prelude_pieces", k)
		}
		if p.big {
			e.R.H("general_guard", "outside NoBigMap")
		} else {
			e.R.H("general_guard", "inside NoBigMap")
		}
		obs := make([]c05Obs, 0, reps)
		timedOut := false
		for k := 0; k < reps && !timedOut; k++ {
			o := c05Observe(p.src)
			obs = append(obs, o)
			timedOut = ErrClass(o.Err) == "context"
		}
		for _, k := range kids {
			if k != nil && ErrClass(k[i].Err) == "context" {
				timedOut = true
			}
		}
		if timedOut {
			// timing is never a verdict: a run cut off by the time limit is not compared
			e.R.H("general_outcome", "time-limit (not compared)")
			continue
		}
		e.R.H("general_outcome", ErrClass(func() string {
			if strings.HasPrefix(obs[0].Code, "ERR:") {
				return obs[0].Code[4:]
			}
			return obs[0].Err
		}()))
		if strings.HasPrefix(obs[0].Code, "ERR:") {
			msg := obs[0].Code[4:]
			if i := strings.Index(msg, "(line"); i > 0 {
				msg = msg[:i]
			}
			e.R.H("general_compile_errors", msg[:min(60, len(msg))])
		}
		c05Compare(e, p, obs, "in-process")
		// no observable text may contain a Go pointer (the generator writes no 0x… literal)
		if !strings.Contains(p.src, "0x") {
			for _, t := range []string{obs[0].Value, obs[0].Err, obs[0].Stdout} {
				if m := c05_ptrPattern.FindString(t); m != "" {
					e.R.H("general_pointer_text", "found")
					e.R.Spec(p.src, fmt.Sprintf("the result, error text or stdout contains a Go pointer (%s): value=%q err=%q stdout=%q", m, obs[0].Value, obs[0].Err, obs[0].Stdout), "")
					break
				}
			}
		}
		all := []c05Obs{obs[0]}
		for _, k := range kids {
			if k != nil {
				all = append(all, k[i])
			}
		}
		if len(all) > 1 {
			c05Compare(e, p, all, "fresh-processes")
		}
	}
}

// ------------------------------------------------------------------ stream C: site probes

func c05_hexList(xs []string) string {
	if len(xs) == 0 {
		return "-"
	}
	h := make([]string, len(xs))
	for i, x := range xs {
		h[i] = Hex(x)
		if x == "" {
			h[i] = "-"
		}
	}
	return strings.Join(h, ",")
}

func c05_permField(p []int) string {
	if len(p) == 0 {
		return "-"
	}
	s := make([]string, len(p))
	for i, v := range p {
		s[i] = strconv.Itoa(v)
	}
	return strings.Join(s, ".")
}

var c05_keyAlphabet = []string{"a", "b", "B", "ab", "a0", "", "z", "é", "日本", "~", "A", "aa", "ÿ", "k10", "k9", "_x"}

func c05_randKeys(r *RNG, n int) []string {
	seen := map[string]bool{}
	var out []string
	for len(out) < n {
		k := Pick(r, c05_keyAlphabet)
		if r.Chance(40) {
			k += Pick(r, c05_keyAlphabet)
		}
		if !seen[k] {
			seen[k] = true
			out = append(out, k)
		}
	}
	return out
}

func c05SiteSorted(e *Env, n int) {
	rng := e.Rng.Fork()
	for i := 0; i < n; i++ {
		r := rng.Fork()
		k := r.Intn(12)
		if r.Chance(10) {
			k = 20 + r.Intn(40) // more than one bucket
		}
		keys := c05_randKeys(r, k)
		items := map[string]object.Object{}
		for j, key := range keys {
			items[key] = object.NewInt(int64(j))
		}
		m := object.NewMap(items)
		want := e.O.Ask("C05", "sortedKeys", c05_hexList(keys))
		caseKey := "sortedKeys " + strconv.Quote(strings.Join(keys, "|"))
		e.R.Case(caseKey, k >= 2)
		e.R.H("site_sortedKeys_size", fmt.Sprintf("%02d", min(k, 20)))
		var seen []string
		for rep := 0; rep < 4; rep++ {
			got := c05_hexList(m.SortedKeys())
			var viaKeys, viaIter []string
			for _, o := range m.Keys().Value() {
				viaKeys = append(viaKeys, o.(*object.String).Value())
			}
			it := m.Iter()
			for {
				o, ok := it.Next(context.Background())
				if !ok {
					break
				}
				viaIter = append(viaIter, o.(*object.String).Value())
			}
			if got != want || c05_hexList(viaKeys) != want || c05_hexList(viaIter) != want {
				e.R.Mismatch(caseKey, got+" keys="+c05_hexList(viaKeys)+" iter="+c05_hexList(viaIter), want, "Map.SortedKeys/Keys/Iter against sortedKeys")
				break
			}
			seen = append(seen, m.Inspect())
		}
		for _, s := range seen {
			if s != seen[0] {
				e.R.Spec(caseKey, "Map.Inspect differs between calls: "+seen[0]+" / "+s, "")
			}
		}
		// object.Keys and Config.GlobalNames use the same collect-then-sort
		if got := c05_hexList(object.Keys(items)); got != want {
			e.R.Mismatch(caseKey, got, want, "object.Keys against sortedKeys")
		}
	}
	// sets
	for i := 0; i < n; i++ {
		r := rng.Fork()
		k := r.Intn(10)
		if r.Chance(10) {
			k = 20 + r.Intn(30)
		}
		var objs []object.Object
		var toks []string
		for j := 0; j < k; j++ {
			switch r.Intn(7) {
			case 0, 1, 2:
				v := int64(r.Intn(30)) - 10
				if r.Chance(10) {
					v = int64(r.Next())
				}
				objs = append(objs, object.NewInt(v))
				toks = append(toks, "i:"+strconv.FormatInt(v, 10))
			case 3, 4:
				s := Pick(r, []string{"a", "b", "ab", "", "z", "B"})
				objs = append(objs, object.NewString(s))
				toks = append(toks, "s:"+Hex(s))
			case 5:
				b := r.Bool()
				objs = append(objs, object.NewBool(b))
				toks = append(toks, map[bool]string{true: "t", false: "f"}[b])
			default:
				objs = append(objs, object.Nil)
				toks = append(toks, "n")
			}
		}
		field := "-"
		if len(toks) > 0 {
			field = strings.Join(toks, ",")
		}
		want := e.O.Ask("C05", "setSorted", field)
		caseKey := "setSorted " + field
		e.R.Case(caseKey, k >= 2)
		set, ok := object.NewSet(objs).(*object.Set)
		if !ok {
			e.R.Mismatch(caseKey, "NewSet failed", want, "set construction")
			continue
		}
		for rep := 0; rep < 4; rep++ {
			ins := set.Inspect()
			got := "-"
			if len(ins) > 2 {
				got = ins[1 : len(ins)-1]
			}
			var viaIter []string
			it := set.Iter()
			for {
				o, ok := it.Next(context.Background())
				if !ok {
					break
				}
				viaIter = append(viaIter, o.Inspect())
			}
			vi := "-"
			if len(viaIter) > 0 {
				vi = strings.Join(viaIter, ", ")
			}
			if got != want || vi != want {
				e.R.Mismatch(caseKey, got+" iter="+vi, want, "Set.Inspect/Iter against sortSet")
				break
			}
		}
	}
}

// permTo returns the permutation p with applyPerm p base = observed (entries distinct).
func c05_permTo(base, observed []string) []int {
	idx := map[string]int{}
	for i, b := range base {
		idx[b] = i
	}
	p := make([]int, 0, len(observed))
	for _, o := range observed {
		i, ok := idx[o]
		if !ok {
			return nil
		}
		p = append(p, i)
	}
	return p
}

// c05_randPerm returns a random permutation of 0..n-1.
func c05_randPerm(r *RNG, n int) []int {
	p := make([]int, n)
	for i := range p {
		p[i] = i
	}
	for i := n - 1; i > 0; i-- {
		j := r.Intn(i + 1)
		p[i], p[j] = p[j], p[i]
	}
	return p
}

// c05SiteEnviron: VirtualOS.Environ (repaired in /repo: the KEY=value lines are sorted).  The
// model's listing (`environ`, the same for every visiting order: asked under three of them) must
// be what os.environ() and VirtualOS.Environ() return, in every evaluation.  Names and values
// are chosen so that the order of the lines differs from the order of insertion, from the order
// of the keys (V1 / V10: '=' sorts after '0') and from case-insensitive order.
func c05SiteEnviron(e *Env, n, reps int) {
	rng := e.Rng.Fork()
	names := []string{"V1", "V10", "V2", "B", "a", "A", "A.B", "A_B", "Z9", "é", "HOME", "PATH"}
	for i := 0; i < n; i++ {
		r := rng.Fork()
		k := r.Intn(7)
		if i == 0 {
			k = 3
		}
		env := map[string]string{}
		var base, fields []string
		for _, j := range c05_randPerm(r, len(names))[:k] {
			name := names[j]
			val := Pick(r, []string{"1", "x", "", "a b", "=", "/usr/bin:/bin"})
			env[name] = val
			base = append(base, name+"="+val)
			fields = append(fields, c05_hexField(name)+":"+c05_hexField(val))
		}
		caseKey := "VirtualOS env=" + strings.Join(base, ";") + " script: os.environ()"
		e.R.Case(caseKey, k >= 2)
		e.R.H("site_environ_vars", strconv.Itoa(k))
		field := "-"
		if len(fields) > 0 {
			field = strings.Join(fields, ",")
		}
		// the model under three visiting orders: one listing
		want := e.O.Ask("C05", "environ", "-", field)
		for t := 0; t < 2; t++ {
			if w := e.O.Ask("C05", "environ", c05_permField(c05_randPerm(r, k)), field); w != want {
				e.R.Mismatch(caseKey, w, want, "model: environ under two visiting orders")
			}
		}
		seen := map[string]bool{}
		for rep := 0; rep < reps; rep++ {
			vos := ros.NewVirtualOS(context.Background(), ros.WithEnvironment(env))
			res, err := risor.Eval(context.Background(), "os.environ()", risor.WithOS(vos))
			if err != nil {
				e.R.Mismatch(caseKey, err.Error(), "a list", "os.environ() failed")
				break
			}
			var got []string
			for _, o := range res.(*object.List).Value() {
				got = append(got, o.(*object.String).Value())
			}
			g := c05_hexList(got)
			if d := c05_hexList(vos.Environ()); d != g {
				e.R.Mismatch(caseKey, c05_unhexList(d), c05_unhexList(g), "VirtualOS.Environ() called directly against os.environ() on the same OS")
			}
			seen[g] = true
			if g != want {
				e.R.Mismatch(caseKey, strings.Join(got, ";"), c05_unhexList(want), "VirtualOS.Environ against the model (environ: collected, then sorted)")
				if len(seen) > 1 {
					break
				}
			}
		}
		if len(seen) > 1 {
			var orders []string
			for g := range seen {
				orders = append(orders, c05_unhexList(g))
			}
			sort.Strings(orders)
			e.R.Spec(caseKey, fmt.Sprintf("os.environ() returned %d different orders in %d evaluations: %s", len(seen), reps, strings.Join(orders, " | ")), "")
		}
	}
}

func c05_unhexList(f string) string {
	if f == "-" {
		return ""
	}
	var out []string
	for _, h := range strings.Split(f, ",") {
		out = append(out, UnHex(h))
	}
	return strings.Join(out, ";")
}

type c05S struct{}

func (c05S) F(m map[string]int) int { return len(m) }

type c05P struct {
	A int
	B int
	C int
}

func (c05S) G(p c05P) int { return p.A }

// c05SiteFirstFailure: loops that return the error of the first visited failing entry.
func c05SiteFirstFailure(e *Env, n, reps int) {
	rng := e.Rng.Fork()
	badDefaults := []string{"[1]", "[2]", "{1}", "-1", "1 + 1", "x"}
	// how ast.String() prints them inside the error message
	printed := map[string]string{"[1]": "[1]", "[2]": "[2]", "{1}": "{1}", "-1": "(-1)", "1 + 1": "(1 + 1)", "x": "x"}
	shown := func(param string) string {
		v := strings.SplitN(param, "=", 2)[1]
		if p, ok := printed[v]; ok {
			return p
		}
		return v
	}
	okDefaults := []string{"1", "\"s\"", "true", "nil", "2.5"}
	for i := 0; i < n; i++ {
		r := rng.Fork()
		// ---- compileFunc defaults
		k := 1 + r.Intn(4)
		var params, flags []string
		var bads []string
		for j := 0; j < k; j++ {
			if r.Chance(45) {
				b := badDefaults[(j+r.Intn(2))%len(badDefaults)]
				params = append(params, fmt.Sprintf("p%d=%s", j, b))
				flags = append(flags, fmt.Sprintf("e%d", j))
				bads = append(bads, b)
			} else {
				params = append(params, fmt.Sprintf("p%d=%s", j, Pick(r, okDefaults)))
				flags = append(flags, "ok")
			}
		}
		src := "x := 0\nfunc f(" + strings.Join(params, ", ") + ") { return 1 }\nf()\n"
		distinctBad := map[string]bool{}
		for _, b := range bads {
			distinctBad[b] = true
		}
		e.R.Case(src, len(bads) >= 1)
		e.R.H("site_defaults_bad", strconv.Itoa(len(bads)))
		seen := map[string]bool{}
		agree := true
		for rep := 0; rep < reps; rep++ {
			_, err := CompileSrc(src)
			got := "none"
			if err != nil {
				got = err.Error()
			}
			seen[got] = true
			// which entry does the error name?  put it first in the visiting order
			var perm []int
			reported := -1
			for j := range params {
				if flags[j] != "ok" && strings.Contains(got, "(got "+shown(params[j])+",") {
					reported = j
					break
				}
			}
			if reported >= 0 {
				perm = append(perm, reported)
			}
			for j := range params {
				if j != reported {
					perm = append(perm, j)
				}
			}
			// since the repair of compileFunc the model walks the parameters in declaration order
			// and only looks the defaults up: the visiting order handed over does not matter
			want := e.O.Ask("C05", "funcDefaults", "impl", c05_permField(perm), strings.Join(flags, ","))
			ok := (want == "none" && err == nil) || (reported >= 0 && flags[reported] == want) ||
				// two parameters with the same unsupported text are indistinguishable in the message
				(reported >= 0 && want != "none" && shown(params[reported]) == shown(params[func() int { v, _ := strconv.Atoi(want[1:]); return v }()]))
			if !ok && agree {
				agree = false
				e.R.Mismatch(src, got, "first failure in declaration order: "+want, "compileFunc defaults against funcDefaults")
			}
		}
		_ = distinctBad
		if len(seen) > 1 {
			// finding C05-func-defaults-error-order is fixed: a recurrence is an unlisted violation
			var texts []string
			for t := range seen {
				texts = append(texts, t)
			}
			sort.Strings(texts)
			e.R.Spec(src, fmt.Sprintf("compile error text varies: %d different messages in %d compilations: %s", len(seen), reps, strings.Join(texts, " / ")), "")
		}
	}
	// ---- conversions at the host boundary: a script map passed to a Go method
	type conv struct {
		src     string
		opts    func() []risor.Option
		nBadMsg int
		entries string            // key=ok|key=e<id> for the oracle (convertSorted)
		texts   map[string]string // e<id> -> the text the error of that entry contains
	}
	cases := []conv{
		{`s.F({"a": 1})`, nil, 0, "a=ok", nil},
		{`s.F({"a": "x"})`, nil, 1, "a=e0", map[string]string{"e0": "string given"}},
		{`m := {"a": 1}; m["b"] = 2; m["c"] = 3; s.F(m)`, nil, 0, "a=ok,b=ok,c=ok", nil},
		{`m := {"a": "x"}; m["b"] = [1]; s.F(m)`, nil, 2, "a=e0,b=e1", map[string]string{"e0": "string given", "e1": "list given"}},
		{`m := {"z": "x"}; m["b"] = [1]; m["k"] = 1.5; m["c"] = 2; s.F(m)`, nil, 3, "z=e0,b=e1,k=e2,c=ok", map[string]string{"e0": "string given", "e1": "list given", "e2": "float given"}},
		{`m := {"a": "x"}; m["b"] = "y"; s.F(m)`, nil, 1, "a=e0,b=e0", map[string]string{"e0": "string given"}},
		{`m := {"A": "x"}; m["B"] = [1]; s.G(m)`, nil, 2, "A=e0,B=e1", map[string]string{"e0": "string given", "e1": "list given"}},
		{`m := {"A": 1}; m["B"] = 2; m["C"] = 3; s.G(m)`, nil, 0, "A=ok,B=ok,C=ok", nil},
		{`1`, func() []risor.Option {
			return []risor.Option{risor.WithGlobals(map[string]any{"ga": make(chan int), "gb": complex64(1)})}
		}, 2, "ga=e0,gb=e1", map[string]string{"e0": "chan", "e1": "complex64"}},
		{`1`, func() []risor.Option {
			return []risor.Option{risor.WithGlobals(map[string]any{"ga": make(chan int), "gb": 3})}
		}, 1, "ga=e0,gb=ok", map[string]string{"e0": "chan"}},
		{`[ga, gb, gc]`, func() []risor.Option {
			return []risor.Option{risor.WithGlobals(map[string]any{"ga": 1, "gb": "x", "gc": []int{1, 2}})}
		}, 0, "ga=ok,gb=ok,gc=ok", nil},
	}
	for _, c := range cases {
		e.R.Case("conversion: "+c.src, true)
		e.R.H("site_conversion_failing_kinds", strconv.Itoa(c.nBadMsg))
		seen := map[string]bool{}
		mism := false
		for rep := 0; rep < reps*2; rep++ {
			opts := []risor.Option{risor.WithGlobal("s", c05S{})}
			if c.opts != nil {
				opts = c.opts()
			}
			out := EvalSrc(c.src, 5*time.Second, opts...)
			seen[out.Value+"|"+out.Err] = true
			// Impl since the repair (convertSorted): the error of the smallest failing key,
			// whatever the visiting order (asked under a rotating one)
			nEnt := strings.Count(c.entries, ",") + 1
			perm := make([]int, nEnt)
			for j := range perm {
				perm[j] = (j + rep) % nEnt
			}
			want := e.O.Ask("C05", "convert", "impl", c05_permField(perm), c.entries)
			okc := (want == "none" && out.Err == "") || (want != "none" && out.Err != "" && strings.Contains(out.Err, c.texts[want]))
			if !okc && !mism {
				mism = true
				e.R.Mismatch("conversion: "+c.src, out.Value+"|"+out.Err, "error of the smallest failing key: "+want+" ("+c.texts[want]+")", "conversion against convertSorted")
			}
		}
		if len(seen) > 1 {
			// finding C05-conversion-error-order is fixed: a recurrence is an unlisted violation
			finding := ""
			var texts []string
			for s := range seen {
				texts = append(texts, s)
			}
			sort.Strings(texts)
			e.R.Spec("conversion: "+c.src, "error text varies: "+strings.Join(texts, " / "), finding)
		}
	}
}

func c05SiteOverrides(e *Env, n, reps int) {
	rng := e.Rng.Fork()
	attrs := []string{"abs", "sqrt", "min", "max", "pow"}
	for i := 0; i < n; i++ {
		r := rng.Fork()
		k := 1 + r.Intn(4)
		var entries []string
		valid := map[string]bool{}
		nBad, nOk := 0, 0
		for j := 0; j < k; j++ {
			if r.Chance(35) {
				entries = append(entries, attrs[j]+"=bad")
				nBad++
			} else {
				entries = append(entries, attrs[j]+"=ok")
				valid[attrs[j]] = true
				nOk++
			}
		}
		caseKey := "overrides math.{" + strings.Join(entries, ",") + "}"
		e.R.Case(caseKey, nBad > 0 && nOk > 0)
		e.R.H("site_overrides", fmt.Sprintf("bad=%d ok=%d", nBad, nOk))
		var probe []string
		for j := 0; j < k; j++ {
			probe = append(probe, "math."+attrs[j]+" == 777")
		}
		src := "[" + strings.Join(probe, ", ") + "]"
		seen := map[string]bool{}
		agree := true
		for rep := 0; rep < reps; rep++ {
			var opts []risor.Option
			for j := 0; j < k; j++ {
				if valid[attrs[j]] {
					opts = append(opts, risor.WithGlobalOverride("math."+attrs[j], 777))
				} else {
					opts = append(opts, risor.WithGlobalOverride("math."+attrs[j], make(chan int)))
				}
			}
			out := EvalSrc(src, 5*time.Second, opts...)
			if out.Err != "" || out.Obj == nil {
				e.R.Mismatch(caseKey, out.Err, "a list", "override probe failed")
				agree = false
				break
			}
			var applied []string
			for j, o := range out.Obj.(*object.List).Value() {
				if o == object.True {
					applied = append(applied, attrs[j])
				}
			}
			// a visiting order that explains it: applied ones, then an invalid one, then the rest
			var perm []int
			isApplied := map[string]bool{}
			for _, a := range applied {
				isApplied[a] = true
			}
			for j := 0; j < k; j++ {
				if isApplied[attrs[j]] {
					perm = append(perm, j)
				}
			}
			for j := 0; j < k; j++ {
				if !valid[attrs[j]] {
					perm = append(perm, j)
				}
			}
			for j := 0; j < k; j++ {
				if valid[attrs[j]] && !isApplied[attrs[j]] {
					perm = append(perm, j)
				}
			}
			want := e.O.Ask("C05", "overrides", c05_permField(perm), strings.Join(entries, ","))
			sort.Strings(applied)
			got := "-"
			if len(applied) > 0 {
				got = strings.Join(applied, ",")
			}
			if got != want && agree {
				// applyOverridesSorted: the overrides whose names sort before the smallest invalid name
				e.R.Mismatch(caseKey+" script: "+src, "applied {"+got+"}", "applied {"+want+"}", "applyOverrides against applyOverridesSorted")
				agree = false
			}
			seen[got] = true
		}
		if len(seen) > 1 {
			// finding C05-overrides-abort-order is fixed: a recurrence is an unlisted violation
			finding := ""
			var sets []string
			for s := range seen {
				sets = append(sets, "{"+s+"}")
			}
			sort.Strings(sets)
			e.R.Spec(caseKey+" script: "+src, "the set of overrides that take effect varies: "+strings.Join(sets, " / "), finding)
		}
	}
}

// c05SiteMockFS: MockFS.ReadDir (repaired in /repo: sorted by filename, the path breaks ties).
// A mock filesystem with files in /d and /e (filenames repeat across the two), a sub-directory
// and files created in random order is listed through ReadDir("/d") and ReadDir("/") (which
// includes every descendant, so filenames repeat); the entries returned — identified by
// filename, directory flag and size — must be the model's listing (`readDir`, the same for
// every visiting order: asked under three of them) in every call.
func c05SiteMockFS(e *Env, n, reps int) {
	rng := e.Rng.Fork()
	pool := []string{"f1.txt", "f10.txt", "f2.txt", "B", "a", "Z.md", "_x", "a.b", "a-b", "é"}
	type ent struct {
		path, name string
		size       int
		dir        bool
	}
	for i := 0; i < n; i++ {
		r := rng.Fork()
		fs := ros.NewMockFS()
		ents := []ent{{"/", "/", 0, true}, {"/d", "d", 0, true}, {"/e", "e", 0, true}}
		fs.Mkdir("/", 0o755)
		fs.MkdirAll("/d", 0o755)
		fs.MkdirAll("/e", 0o755)
		if r.Chance(50) {
			fs.MkdirAll("/d/sub", 0o755)
			ents = append(ents, ent{"/d/sub", "sub", 0, true})
		}
		k := r.Intn(8)
		if i == 0 {
			k = 3
		}
		seenPath := map[string]bool{}
		var created []string
		for j := 0; j < k; j++ {
			dir := Pick(r, []string{"/d", "/d", "/e"})
			name := Pick(r, pool)
			if i == 0 {
				dir, name = "/d", pool[2-j] // f2.txt, f10.txt, f1.txt: created in descending order
			}
			path := dir + "/" + name
			if seenPath[path] {
				continue
			}
			seenPath[path] = true
			size := len(ents) + 1
			fs.WriteFile(path, bytes.Repeat([]byte("x"), size), 0o644)
			ents = append(ents, ent{path, name, size, false})
			created = append(created, path)
		}
		for _, listed := range []string{"/d", "/"} {
			var members []int
			for idx, en := range ents {
				parent := "/"
				if j := strings.LastIndex(en.path, "/"); j > 0 {
					parent = en.path[:j]
				}
				if en.path != "/" && parent == listed || listed == "/" {
					members = append(members, idx)
				}
			}
			var fields []string
			ident := map[string]int{}
			for pos, idx := range members {
				en := ents[idx]
				fields = append(fields, c05_hexField(en.path)+":"+c05_hexField(en.name))
				ident[fmt.Sprintf("%s|%v|%d", en.name, en.dir, en.size)] = pos
			}
			caseKey := fmt.Sprintf("MockFS files created in this order: %s: ReadDir(%q)", strings.Join(created, ", "), listed)
			e.R.Case(caseKey, len(members) >= 2)
			e.R.H("site_mockfs_entries", strconv.Itoa(len(members)))
			field := "-"
			if len(fields) > 0 {
				field = strings.Join(fields, ",")
			}
			want := e.O.Ask("C05", "readDir", "-", field)
			for t := 0; t < 2; t++ {
				if w := e.O.Ask("C05", "readDir", c05_permField(c05_randPerm(r, len(members))), field); w != want {
					e.R.Mismatch(caseKey, w, want, "model: readDir under two visiting orders")
				}
			}
			seen := map[string]bool{}
			for rep := 0; rep < reps; rep++ {
				got, err := fs.ReadDir(listed)
				if err != nil {
					e.R.Mismatch(caseKey, err.Error(), "a listing", "MockFS.ReadDir failed")
					break
				}
				var pos, shown []string
				for _, en := range got {
					size := 0
					if info, err := en.Info(); err == nil && !en.IsDir() {
						size = int(info.Size())
					}
					p, ok := ident[fmt.Sprintf("%s|%v|%d", en.Name(), en.IsDir(), size)]
					if !ok {
						p = -1
					}
					pos = append(pos, strconv.Itoa(p))
					shown = append(shown, en.Name())
				}
				g := "-"
				if len(pos) > 0 {
					g = strings.Join(pos, ".")
				}
				first := !seen[g]
				seen[g] = true
				if g != want && first {
					e.R.Mismatch(caseKey, g+" ("+strings.Join(shown, ", ")+")", want, "MockFS.ReadDir against the model (readDir: positions of the entries, sorted by filename then path)")
				}
				if len(seen) > 1 {
					break
				}
			}
			if len(seen) > 1 {
				e.R.Spec(caseKey, fmt.Sprintf("%d different entry orders in at most %d calls: %s", len(seen), reps, strings.Join(sortedKeys(seen), " | ")), "")
			}
		}
	}
}

// ------------------------------------------------------------------ streams C2/C3: hash keys of every type

// c05_item is one hashable value: the object, its oracle token, and (when it has one) its
// literal in a script.
type c05_item struct {
	obj   object.Object
	tok   string
	src   string // "" = no script literal (only used at the object level)
	desc  string // how the case text names it
	ty    string
	num2  int64 // 2*value for ints and floats with a script literal
	isNum bool
	nan   bool
}

// c05_fltOrd maps a non-NaN float64 to its position among the non-NaN floats (order
// isomorphism; -0 and +0 share position 0).
func c05_fltOrd(f float64) int64 {
	b := math.Float64bits(f)
	if b>>63 != 0 {
		return -int64(b & 0x7fffffffffffffff)
	}
	return int64(b)
}

func c05_fltItem(f float64, src string) c05_item {
	it := c05_item{obj: object.NewFloat(f), src: src, ty: "float"}
	if f != f {
		it.tok, it.desc, it.nan = "D", "float(\"nan\")", true
		return it
	}
	it.tok = "d:" + strconv.FormatInt(c05_fltOrd(f), 10)
	it.desc = src
	if src == "" {
		it.desc = "float(" + strconv.FormatFloat(f, 'g', -1, 64) + ")"
	} else {
		it.num2, it.isNum = int64(f*2), true
	}
	return it
}

func c05_intItem(v int64, script bool) c05_item {
	it := c05_item{obj: object.NewInt(v), tok: "i:" + strconv.FormatInt(v, 10), ty: "int", desc: strconv.FormatInt(v, 10)}
	if script {
		it.src = it.desc
		if v < 0 {
			it.src = "(" + it.desc + ")"
		}
		it.desc = it.src
		it.num2, it.isNum = 2*v, true
	}
	return it
}

func c05_strItem(v string) c05_item {
	tok := "s:" + Hex(v)
	if v == "" {
		tok = "s:-"
	}
	return c05_item{obj: object.NewString(v), tok: tok, src: strconv.Quote(v), desc: strconv.Quote(v), ty: "string"}
}

var c05_scriptFloats = []struct {
	f   float64
	src string
}{{0.5, "0.5"}, {1.5, "1.5"}, {2.5, "2.5"}, {-0.5, "(-0.5)"}, {-2.5, "(-2.5)"}, {10.5, "10.5"}, {1, "1.0"}, {2, "2.0"},
	{3, "3.0"}, {-1, "(-1.0)"}, {0, "0.0"}, {6.5, "6.5"}, {7.5, "7.5"}, {4, "4.0"}}

var c05_objectFloats = []float64{1e300, -1e300, 5e-324, -5e-324, math.Inf(1), math.Inf(-1), math.MaxFloat64, 0.1 + 0.2, 0.3, 1e-7}

var c05_itemWords = []string{"", "a", "b", "ab", "B", "z", "fig", "yam", "kiwi", "date", "pear", "1", "1.5", "apple"}

// c05_genItems draws k pairwise distinct hashable values.  mode: 0 every type, 1 floats only,
// 2 ints and floats, 3 strings only.  script = only values that have a script literal.
func c05_genItems(r *RNG, k, mode int, script bool, nans int) []c05_item {
	seen := map[string]bool{}
	var out []c05_item
	for tries := 0; len(out) < k && tries < 40*k+40; tries++ {
		var it c05_item
		kind := r.Intn(9)
		switch mode {
		case 1:
			kind = 0
		case 2:
			kind = r.Intn(3) // 0,1 float  2 int
			if kind == 1 {
				kind = 0
			}
		case 3:
			kind = 3
		}
		switch kind {
		case 0, 1:
			if !script && r.Chance(30) {
				it = c05_fltItem(Pick(r, c05_objectFloats), "")
			} else {
				f := Pick(r, c05_scriptFloats)
				it = c05_fltItem(f.f, f.src)
			}
		case 2, 8:
			v := int64(r.Intn(10)) - 3
			if !script && r.Chance(10) {
				v = Pick(r, []int64{math.MaxInt64, math.MinInt64, 1 << 53})
			}
			it = c05_intItem(v, true)
		case 3, 4:
			it = c05_strItem(Pick(r, c05_itemWords))
		case 5:
			b := r.Bool()
			it = c05_item{obj: object.NewBool(b), tok: map[bool]string{true: "t", false: "f"}[b], src: strconv.FormatBool(b), desc: strconv.FormatBool(b), ty: "bool"}
		case 6:
			it = c05_item{obj: object.Nil, tok: "n", src: "nil", desc: "nil", ty: "nil"}
		default:
			if script {
				continue
			}
			if r.Bool() {
				b := byte(r.Intn(6))
				it = c05_item{obj: object.NewByte(b), tok: "b:" + strconv.Itoa(int(b)), desc: fmt.Sprintf("byte(%d)", b), ty: "byte"}
			} else {
				v := Pick(r, []string{"", "a", "ab", "b", "\x00", "\xff"})
				tok := "y:" + Hex(v)
				if v == "" {
					tok = "y:-"
				}
				it = c05_item{obj: object.NewByteSlice([]byte(v)), tok: tok, desc: fmt.Sprintf("byte_slice(%q)", v), ty: "byte_slice"}
			}
		}
		if seen[it.tok] {
			continue
		}
		seen[it.tok] = true
		out = append(out, it)
	}
	for i := 0; i < nans; i++ {
		at := r.Intn(len(out) + 1)
		out = append(out[:at], append([]c05_item{c05_fltItem(math.NaN(), "")}, out[at:]...)...)
	}
	return out
}

func c05_itemToks(items []c05_item) string {
	if len(items) == 0 {
		return "-"
	}
	t := make([]string, len(items))
	for i, it := range items {
		t[i] = it.tok
	}
	return strings.Join(t, ",")
}

func c05_itemDescs(items []c05_item) string {
	t := make([]string, len(items))
	for i, it := range items {
		t[i] = it.desc
	}
	return strings.Join(t, ", ")
}

// c05_inspectAt renders the items at the positions of an oracle reply ("2.0.1" or "-").
func c05_inspectAt(items []c05_item, pos string) string {
	if pos == "-" || pos == "" {
		return ""
	}
	var parts []string
	for _, p := range strings.Split(pos, ".") {
		i, err := strconv.Atoi(p)
		if err != nil || i < 0 || i >= len(items) {
			return "<bad position " + p + ">"
		}
		parts = append(parts, items[i].obj.Inspect())
	}
	return strings.Join(parts, ", ")
}

type c05_setObs struct{ pos, ins, iter, list string }

// c05_observeSet builds a fresh set of the items and reads it by every route: SortedItems (as
// positions; every NaN counts as the first NaN, as in the oracle's reply), Inspect, the
// iterator (as positions) and List().
func c05_observeSet(items []c05_item) (o c05_setObs, err string) {
	defer func() {
		if rec := recover(); rec != nil {
			err = fmt.Sprintf("PANIC %v", rec)
		}
	}()
	objs := make([]object.Object, len(items))
	index := map[object.Object]int{}
	firstNaN := -1
	for i, it := range items {
		objs[i] = it.obj
		if it.nan {
			if firstNaN < 0 {
				firstNaN = i
			}
			index[it.obj] = firstNaN
			continue
		}
		index[it.obj] = i
	}
	set, ok := object.NewSet(objs).(*object.Set)
	if !ok {
		return o, "NewSet failed"
	}
	posOf := func(xs []object.Object) string {
		if len(xs) == 0 {
			return "-"
		}
		p := make([]string, len(xs))
		for i, x := range xs {
			j, ok := index[x]
			if !ok {
				j = -1
			}
			p[i] = strconv.Itoa(j)
		}
		return strings.Join(p, ".")
	}
	o.pos = posOf(set.SortedItems())
	o.ins = set.Inspect()
	var via []object.Object
	it := set.Iter()
	for {
		x, ok := it.Next(context.Background())
		if !ok {
			break
		}
		via = append(via, x)
	}
	o.iter = posOf(via)
	o.list = set.List().Inspect()
	return o, ""
}

// c05SiteSetOrder: Set.SortedItems / Inspect / Iter / List against the model's sortedItems and
// iterItems over FULL hash keys (type, int, string, float), every hashable type.
func c05SiteSetOrder(e *Env, n, reps int) {
	rng := e.Rng.Fork()
	shrunk := 0
	for i := 0; i < n; i++ {
		r := rng.Fork()
		k := 2 + r.Intn(7)
		if r.Chance(12) {
			k = 13 + r.Intn(30) // several buckets; sort.Slice leaves its insertion-sort range
		}
		mode := Pick(r, []int{0, 0, 0, 1, 1, 2, 3})
		nans := 0
		if r.Chance(8) {
			k, nans = 1+r.Intn(3), 1+r.Intn(2)
		}
		items := c05_genItems(r, k, mode, false, nans)
		switch i { // directed: the smallest sets with two members that differ only in the float field / with a NaN
		case 0:
			items, nans = []c05_item{c05_fltItem(2.5, "2.5"), c05_fltItem(1.5, "1.5")}, 0
		case 1:
			items, nans = []c05_item{c05_fltItem(math.NaN(), ""), c05_fltItem(1.5, "1.5"), c05_fltItem(2.5, "2.5")}, 1
		}
		caseKey := "object.NewSet{" + c05_itemDescs(items) + "}: SortedItems/Inspect/Iter/List"
		e.R.Case(caseKey, len(items) >= 2)
		types := map[string]int{}
		for _, it := range items {
			types[it.ty]++
		}
		for t, c := range types {
			if c >= 2 {
				e.R.H("site_setOrder_types_with_2+_members", t)
			}
		}
		e.R.H("site_setOrder_size", fmt.Sprintf("%02d", min(len(items), 20)))
		toks := c05_itemToks(items)
		// what the model allows: one listing (NaN-free) or one per visiting order; SortedItems
		// and the iterator range over the Go map separately, so their visiting orders are independent
		allowedPos, allowedIter := map[string]bool{}, map[string]bool{}
		if nans == 0 {
			reps2 := e.O.AskBatch([]string{"C05\tsetOrder\t-\t" + toks, "C05\tsetIter\t-\t" + toks})
			allowedPos[reps2[0]], allowedIter[reps2[1]] = true, true
		} else {
			var reqs []string
			for _, pm := range c05_permsOf(len(items)) {
				reqs = append(reqs, "C05\tsetOrder\t"+c05_permField(pm)+"\t"+toks, "C05\tsetIter\t"+c05_permField(pm)+"\t"+toks)
			}
			reps2 := e.O.AskBatch(reqs)
			for j := 0; j+1 < len(reps2); j += 2 {
				allowedPos[reps2[j]], allowedIter[reps2[j+1]] = true, true
			}
			e.R.H("site_setOrder_nan_model_listings", fmt.Sprintf("%02d", len(allowedPos)))
		}
		seen := map[c05_setObs]bool{}
		agree := true
		mismatch := func(got, want, what string) {
			if agree { // one report per case; the readings go on, so that a variation is seen as well
				e.R.Mismatch(caseKey, got, want, what)
			}
			agree = false
		}
		for rep := 0; rep < reps; rep++ {
			o, err := c05_observeSet(items)
			if err != "" {
				mismatch(err, "a set", "set construction")
				break
			}
			seen[o] = true
			if !allowedPos[o.pos] || !allowedIter[o.iter] {
				var want []string
				for a := range allowedPos {
					want = append(want, a)
				}
				sort.Strings(want)
				var wantI []string
				for a := range allowedIter {
					wantI = append(wantI, a)
				}
				sort.Strings(wantI)
				mismatch(o.pos+" iter "+o.iter, strings.Join(want[:min(4, len(want))], " / ")+" iter "+strings.Join(wantI[:min(4, len(wantI))], " / "), "Set.SortedItems/Iter positions against sortedItems/iterItems")
			}
			// Inspect and List range over the map again: only comparable when the order cannot vary
			if wantIns := "{" + c05_inspectAt(items, o.pos) + "}"; o.ins != wantIns && nans == 0 {
				mismatch(o.ins, wantIns, "Set.Inspect against SortedItems")
			}
			if wantList := "[" + c05_inspectAt(items, o.iter) + "]"; o.list != wantList && nans == 0 {
				mismatch(o.list, wantList, "Set.List against the iterator")
			}
		}
		if len(seen) > 1 {
			var texts []string
			for o := range seen {
				texts = append(texts, fmt.Sprintf("SortedItems [%s] Inspect %s Iter [%s]", c05_inspectAt(items, o.pos), o.ins, c05_inspectAt(items, o.iter)))
			}
			sort.Strings(texts)
			finding := ""
			if nans > 0 && agree {
				finding = c05_fSetNaN
			}
			report := items
			if finding == "" && shrunk < 5 {
				shrunk++
				report = c05_shrinkItems(items, func(sub []c05_item) bool {
					first, _ := c05_observeSet(sub)
					for q := 0; q < 96; q++ {
						if o, _ := c05_observeSet(sub); o != first {
							return true
						}
					}
					return false
				})
			}
			key := "object.NewSet{" + c05_itemDescs(report) + "}: SortedItems/Inspect/Iter/List"
			detail := fmt.Sprintf("the same set is listed in %d different ways in %d readings: %s", len(seen), reps, strings.Join(texts[:min(3, len(texts))], " / "))
			if len(report) != len(items) {
				detail += " | shrunk from " + caseKey
			}
			e.R.Spec(key, detail, finding)
		}
	}
}

// c05SiteSetNaNScript: the NaN finding as a script sees it.
func c05SiteSetNaNScript(e *Env, reps int) {
	items := []c05_item{c05_fltItem(math.NaN(), ""), c05_fltItem(0.5, "0.5"), c05_fltItem(1.5, "1.5"), c05_fltItem(2.5, "2.5")}
	src := "s := {float(\"nan\"), 0.5, 1.5, 2.5}\n[string(s), list(s)]\n"
	e.R.Case(src, true)
	toks := c05_itemToks(items)
	var reqs []string
	for _, pm := range c05_permsOf(len(items)) {
		reqs = append(reqs, "C05\tsetOrder\t"+c05_permField(pm)+"\t"+toks, "C05\tsetIter\t"+c05_permField(pm)+"\t"+toks)
	}
	reps2 := e.O.AskBatch(reqs)
	listings, iters := map[string]bool{}, map[string]bool{}
	for j := 0; j+1 < len(reps2); j += 2 {
		listings[strconv.Quote("{"+c05_inspectAt(items, reps2[j])+"}")] = true
		iters["["+c05_inspectAt(items, reps2[j+1])+"]"] = true
	}
	seen := map[string]bool{}
	agree := true
	for rep := 0; rep < reps; rep++ {
		out := EvalSrc(src, 5*time.Second)
		seen[out.Value+out.Err] = true
		ok := false
		for l := range listings {
			for it := range iters {
				ok = ok || out.Value == "["+l+", "+it+"]"
			}
		}
		if !ok && agree {
			agree = false
			e.R.Mismatch(src, out.Value+out.Err, fmt.Sprintf("one of %d listings x %d iterations", len(listings), len(iters)), "set with a NaN member against sortedItems/iterItems")
		}
	}
	if len(seen) > 1 {
		var texts []string
		for t := range seen {
			texts = append(texts, t)
		}
		sort.Strings(texts)
		finding := ""
		if agree {
			finding = c05_fSetNaN
		}
		e.R.Spec(src, fmt.Sprintf("%d different results in %d evaluations: %s", len(seen), reps, strings.Join(texts[:min(3, len(texts))], " / ")), finding)
	}
}

// c05_shrinkItems greedily drops items while `varies` holds.
func c05_shrinkItems(items []c05_item, varies func([]c05_item) bool) []c05_item {
	if !varies(items) {
		return items
	}
	for changed := true; changed; {
		changed = false
		for i := len(items) - 1; i >= 0 && len(items) > 1; i-- {
			cand := append(append([]c05_item{}, items[:i]...), items[i+1:]...)
			if varies(cand) {
				items = cand
				changed = true
			}
		}
	}
	return items
}

// c05SiteSortedBy: sorted(set|map, cmp) with comparison functions that produce ties, and the
// one-argument sorted(set) over ints and numerically equal floats, against the model's
// sortedBuiltin (stable sort of the ORDERED listing).  The case is the script.
func c05SiteSortedBy(e *Env, n, reps int) {
	rng := e.Rng.Fork()
	for i := 0; i < n; i++ {
		r := rng.Fork()
		k := 2 + r.Intn(8)
		if r.Chance(15) {
			k = 10 + r.Intn(12)
		}
		container := Pick(r, []string{"set", "set", "map"})
		cmpKind := Pick(r, []string{"type", "len", "false", "default", "half"})
		mode := 0
		switch {
		case container == "map":
			mode = 3
			if cmpKind == "type" || cmpKind == "default" || cmpKind == "half" {
				cmpKind = "len"
			}
		case cmpKind == "len":
			mode = 3
		case cmpKind == "default" || cmpKind == "half":
			mode = 2
		}
		items := c05_genItems(r, k, mode, true, 0)
		switch i { // directed: the smallest containers on which a tie shows the starting order
		case 0:
			container, cmpKind, items = "map", "len", []c05_item{c05_strItem("yam"), c05_strItem("fig"), c05_strItem("date")}
		case 1:
			container, cmpKind, items = "set", "default", []c05_item{c05_intItem(1, true), c05_fltItem(1, "1.0"), c05_intItem(2, true), c05_fltItem(2, "2.0")}
		case 2:
			container, cmpKind, items = "set", "false", []c05_item{c05_strItem("b"), c05_intItem(1, true), c05_fltItem(0.5, "0.5")}
		}
		if len(items) < 2 {
			continue
		}
		var sb strings.Builder
		if container == "set" {
			srcs := make([]string, len(items))
			for j, it := range items {
				srcs[j] = it.src
			}
			sb.WriteString("c := {" + strings.Join(srcs, ", ") + "}\n")
		} else {
			sb.WriteString("c := {}\n")
			for j, it := range items {
				fmt.Fprintf(&sb, "c[%s] = %d\n", it.src, j)
			}
		}
		ranks := make([]string, len(items))
		switch cmpKind {
		case "type":
			rk := map[string]int{}
			var tys []string
			for _, it := range items {
				if _, ok := rk[it.ty]; !ok {
					rk[it.ty] = r.Intn(3)
					tys = append(tys, it.ty)
				}
			}
			sb.WriteString("rk := {}\n")
			for _, t := range tys {
				fmt.Fprintf(&sb, "rk[%q] = %d\n", t, rk[t])
			}
			sb.WriteString("sorted(c, func(a, b) { return rk[type(a)] < rk[type(b)] })\n")
			for j, it := range items {
				ranks[j] = strconv.Itoa(rk[it.ty])
			}
		case "len":
			sb.WriteString("sorted(c, func(a, b) { return len(a) < len(b) })\n")
			for j, it := range items {
				ranks[j] = strconv.Itoa(len(it.obj.(*object.String).Value()))
			}
		case "false":
			sb.WriteString("sorted(c, func(a, b) { return false })\n")
			for j := range items {
				ranks[j] = "0"
			}
		case "half":
			// compares the integer parts: 1.5, 1.0 and 1 tie
			sb.WriteString("sorted(c, func(a, b) { return int(a) < int(b) })\n")
			for j, it := range items {
				ranks[j] = strconv.FormatInt(int64(math.Trunc(float64(it.num2)/2)), 10)
			}
		default:
			sb.WriteString("sorted(c)\n")
			for j, it := range items {
				ranks[j] = strconv.FormatInt(it.num2, 10)
			}
		}
		src := sb.String()
		tie := false
		cnt := map[string]int{}
		for _, rk := range ranks {
			cnt[rk]++
			tie = tie || cnt[rk] >= 2
		}
		e.R.Case(src, tie)
		e.R.H("site_sortedBy", container+"/"+cmpKind+map[bool]string{true: "/ties", false: "/no-ties"}[tie])
		want := "[" + c05_inspectAt(items, e.O.Ask("C05", "sortedBy", "-", c05_itemToks(items), strings.Join(ranks, ","))) + "]"
		seen := map[string]bool{}
		agree := true
		nrep := reps
		if i < 3 {
			nrep = reps * 4
		}
		for rep := 0; rep < nrep; rep++ {
			out := EvalSrc(src, 5*time.Second)
			got := out.Value
			if out.Err != "" {
				got = "error: " + out.Err
			}
			seen[got] = true
			if got != want && agree {
				agree = false
				e.R.Mismatch(src, got, want, "sorted() against sortedBuiltin")
			}
		}
		if len(seen) > 1 {
			var texts []string
			for t := range seen {
				texts = append(texts, t)
			}
			sort.Strings(texts)
			e.R.Spec(src, fmt.Sprintf("%d different results in %d evaluations: %s", len(seen), nrep, strings.Join(texts[:min(3, len(texts))], " / ")), "")
		}
	}
}

// ------------------------------------------------------------------ stream E: every callable x container argument

var c05_callables = []string{
	// builtins
	"all", "any", "assert", "bool", "buffer", "byte", "byte_slice", "call", "chr", "chunk", "coalesce", "decode", "encode",
	"error", "errorf", "float", "float_slice", "getattr", "hash", "int", "is_hashable", "iter", "keys", "len", "list", "map",
	"ord", "reversed", "set", "sorted", "sprintf", "string", "try", "type", "print", "printf", "delete",
	// modules without effects outside the VM
	"math.sum", "math.min", "math.max", "math.abs", "strings.join", "strings.contains", "strings.fields", "json.marshal",
	"fmt.sprintf", "fmt.println", "fmt.printf", "errors.new", "bytes.join", "regexp.match", "strconv.atoi", "base64.encode",
	// methods of containers and strings
	"cm.update", "cm.get", "cm.pop", "cm.setdefault", "cm.copy().update", "cs.union", "cs.intersection", "cs.difference",
	"cs.add", "cs.remove", "cf.union", "cf.difference", "[0].extend", "[0].append", "\", \".join", "[3, 1, 2].map", "[3, 1, 2].filter",
	"[3, 1, 2].each",
}

var c05_containerDefs = map[string]string{
	"cm":  "cm := {}\ncm[\"fig\"] = 1\ncm[\"yam\"] = 2.5\ncm[\"kiwi\"] = \"x\"\ncm[\"date\"] = [1]\ncm[\"apple\"] = nil\ncm[\"pear\"] = 1.5\n",
	"cs":  "cs := {2.5, 1.5, 0.5, 1, 1.0, \"a\", \"b\", true, nil, 10.5}\n",
	"cf":  "cf := {2.5, 1.5, 0.5, 10.5, 3.0, (-1.5)}\n",
	"cmp": "cmp := func(a, b) { return len(string(a)) < len(string(b)) }\n",
	// objects without a String() method, a builtin and an iterator inside a list (their printed form must not be an address)
	"co": "co := [chan(1), func() { it := iter([\"x\"]); it.next(); return it.entry() }(), len, iter({2}), chan()]\n",
}

func c05_argScript(callee string, args []string) string {
	call := callee + "(" + strings.Join(args, ", ") + ")"
	var sb strings.Builder
	for _, name := range []string{"cm", "cs", "cf", "cmp", "co"} {
		if regexp.MustCompile(`\b` + name + `\b`).MatchString(call) {
			sb.WriteString(c05_containerDefs[name])
		}
	}
	sb.WriteString(call + "\n")
	return sb.String()
}

// c05BuiltinArgs: a multi-entry map, a mixed set and a float set at every argument position
// (arity 1 and 2) of every callable above, next to a number, a string, a list, another
// container and a comparison function that produces ties; each script is evaluated `reps`
// times in fresh VMs and value, error text and stdout must not change.
func c05BuiltinArgs(e *Env, reps int) {
	fillers := []string{"0", "\"json\"", "cmp", "[1, 2]", "cm"}
	for _, callee := range c05_callables {
		for _, c := range []string{"cm", "cs", "cf", "co"} {
			forms := [][]string{{c}}
			for _, f := range fillers {
				forms = append(forms, []string{c, f}, []string{f, c})
			}
			for _, args := range forms {
				src := c05_argScript(callee, args)
				e.R.Case(src, true)
				var first EvalOut
				varied := ""
				for rep := 0; rep < reps; rep++ {
					out := EvalSrc(src, 5*time.Second)
					if ErrClass(out.Err) == "context" {
						varied = ""
						break
					}
					if rep == 0 {
						first = out
						continue
					}
					if out.Value != first.Value || out.Err != first.Err || out.Stdout != first.Stdout {
						varied = fmt.Sprintf("value=%q err=%q stdout=%q | value=%q err=%q stdout=%q", first.Value, first.Err, first.Stdout, out.Value, out.Err, out.Stdout)
						break
					}
				}
				cls := "value"
				if first.Err != "" {
					cls = ErrClass(first.Err)
				}
				e.R.H("callable_args_outcome", cls)
				if varied != "" {
					e.R.H("callable_args_varied", callee)
					e.R.Spec(src, "evaluations of the same script differ: "+varied, "")
				}
				for _, t := range []string{first.Value, first.Err, first.Stdout} {
					if m := c05_ptrPattern.FindString(t); m != "" {
						e.R.H("callable_args_pointer_text", callee)
						e.R.Spec(src, fmt.Sprintf("the result, error text or stdout contains a Go pointer (%s): value=%q err=%q stdout=%q", m, first.Value, first.Err, first.Stdout), "")
						break
					}
				}
			}
		}
	}
}

// ------------------------------------------------------------------ stream D2: module globals and the import cache

// c05ConfigModules: the host supplies globals some of which hold modules; a module's own name
// need not be the name of its global and two modules may share a name.  `import X` must bind
// the module held by the global X (model: moduleCache, an insertFold under the global's name)
// in every evaluation.
func c05ConfigModules(e *Env, n, reps int) {
	rng := e.Rng.Fork()
	pool := []string{"ma", "mb", "conf", "conf_dev", "mc"}
	for i := 0; i < n; i++ {
		r := rng.Fork()
		k := 1 + r.Intn(4)
		if i == 0 {
			k = 2
		}
		type glob struct {
			name, mod string
			id        int
		}
		var globs []glob
		used := map[string]bool{}
		for j := 0; j < k; j++ {
			name := Pick(r, pool)
			if used[name] {
				continue
			}
			used[name] = true
			g := glob{name: name, id: j + 1}
			if r.Chance(85) || i == 0 {
				g.mod = Pick(r, pool[:3+r.Intn(3)])
				if r.Chance(35) {
					g.mod = name
				}
			}
			globs = append(globs, g)
		}
		if i == 0 { // the directed case: two modules called "conf" under the globals conf and conf_dev
			globs = []glob{{"conf", "conf", 1}, {"conf_dev", "conf", 2}}
		}
		mk := func() map[string]any {
			m := map[string]any{}
			for _, g := range globs {
				if g.mod == "" {
					m[g.name] = g.id
				} else {
					m[g.name] = object.NewBuiltinsModule(g.mod, map[string]object.Object{"id": object.NewInt(int64(g.id))})
				}
			}
			return m
		}
		var parts, fields, descs []string
		sameName := map[string]int{}
		for _, g := range globs {
			if g.mod == "" {
				fields = append(fields, g.name+"=-")
				descs = append(descs, fmt.Sprintf("%s: %d", g.name, g.id))
			} else {
				fields = append(fields, fmt.Sprintf("%s=%s:%d", g.name, g.mod, g.id))
				descs = append(descs, fmt.Sprintf("%s: module %q #%d", g.name, g.mod, g.id))
				sameName[g.mod]++
			}
		}
		// the names worth importing: those of the globals and those the modules give themselves
		var queries []string
		for _, q := range pool {
			occurs := false
			for _, g := range globs {
				occurs = occurs || g.name == q || g.mod == q
			}
			if occurs {
				queries = append(queries, q)
			}
		}
		for _, q := range queries {
			parts = append(parts, fmt.Sprintf("try(func() { import %s; return %s.id }, \"-\")", q, q))
		}
		for _, q := range queries {
			parts = append(parts, fmt.Sprintf("try(func() { from %s import id; return id }, \"-\")", q))
		}
		for _, g := range globs {
			if g.mod != "" {
				parts = append(parts, g.name+".id")
			}
		}
		src := "[" + strings.Join(parts, ", ") + "]\n"
		caseKey := "WithGlobals{" + strings.Join(descs, ", ") + "} script: " + src
		collide := false
		for _, c := range sameName {
			collide = collide || c >= 2
		}
		for _, g := range globs {
			collide = collide || (g.mod != "" && g.mod != g.name)
		}
		e.R.Case(caseKey, collide)
		e.R.H("config_modules", fmt.Sprintf("globals=%d alias-or-shared-name=%v", len(globs), collide))
		cache := strings.Split(e.O.Ask("C05", "importCache", "-", strings.Join(fields, ","), strings.Join(queries, ",")), ",")
		var wantParts []string
		for round := 0; round < 2; round++ {
			for j := range queries {
				w := "\"-\""
				if j < len(cache) && cache[j] != "-" {
					w = cache[j]
				}
				wantParts = append(wantParts, w)
			}
		}
		for _, g := range globs {
			if g.mod != "" {
				wantParts = append(wantParts, strconv.Itoa(g.id))
			}
		}
		want := "[" + strings.Join(wantParts, ", ") + "]"
		seen := map[string]bool{}
		agree := true
		for rep := 0; rep < reps; rep++ {
			out := EvalSrc(src, 5*time.Second, risor.WithGlobals(mk()))
			got := out.Value
			if out.Err != "" {
				got = "error: " + out.Err
			}
			seen[got] = true
			if got != want && agree {
				agree = false
				e.R.Mismatch(caseKey, got, want, "import of host-supplied modules against moduleCache")
			}
		}
		if len(seen) > 1 {
			var texts []string
			for t := range seen {
				texts = append(texts, t)
			}
			sort.Strings(texts)
			e.R.Spec(caseKey, fmt.Sprintf("%d different results in %d evaluations with the same globals: %s", len(seen), reps, strings.Join(texts[:min(3, len(texts))], " / ")), "")
		}
	}
}

// ------------------------------------------------------------------ stream D: configuration

func c05Config(e *Env, n, reps int) {
	rng := e.Rng.Fork()
	deny := []string{"os", "os.exit", "math", "math.abs", "exec", "strings.split", "print", "json.marshal", "os.environ"}
	for i := 0; i < n; i++ {
		r := rng.Fork()
		var picked []string
		for _, d := range deny {
			if r.Chance(40) {
				picked = append(picked, d)
			}
		}
		src := "[try(func() { return string(os.exit) }, \"E\"), try(func() { return string(math.abs) }, \"E\"), try(func() { return string(math.sqrt) }, \"E\"), try(func() { return string(strings.split) }, \"E\"), try(func() { return string(json.marshal) }, \"E\")]"
		caseKey := "WithoutGlobals(" + strings.Join(picked, ",") + ")"
		e.R.Case(caseKey, len(picked) >= 2)
		e.R.H("config_denylist_size", strconv.Itoa(len(picked)))
		seen := map[string]bool{}
		for rep := 0; rep < reps; rep++ {
			// option order is part of the input: keep it fixed, only the map order can vary
			cfg := risor.NewConfig(risor.WithoutGlobals(picked...))
			names := strings.Join(cfg.GlobalNames(), ",")
			out := EvalSrc(src, 5*time.Second, risor.WithoutGlobals(picked...))
			code := "-"
			if c, err := func() (c *compiler.Code, err error) {
				defer func() {
					if rec := recover(); rec != nil {
						err = fmt.Errorf("PANIC %v", rec)
					}
				}()
				prog, err := parser.Parse(context.Background(), src)
				if err != nil {
					return nil, err
				}
				return compiler.Compile(prog, cfg.CompilerOpts()...)
			}(); err == nil {
				code = CodeText(c)
			} else {
				code = err.Error()
			}
			seen[names+"|"+out.Value+"|"+out.Err+"|"+code] = true
		}
		if len(seen) > 1 {
			e.R.Spec(caseKey+" script: "+src, fmt.Sprintf("%d different (global names, result, bytecode) in %d runs", len(seen), reps), "")
		}
		// GlobalNames is sorted: compare with the model's collect-then-sort
		cfg := risor.NewConfig(risor.WithoutGlobals(picked...))
		names := cfg.GlobalNames()
		var raw []string
		for k := range cfg.Globals() {
			raw = append(raw, k)
		}
		if want := e.O.Ask("C05", "sortedKeys", c05_hexList(raw)); want != c05_hexList(names) {
			e.R.Mismatch(caseKey, c05_hexList(names), want, "Config.GlobalNames against sortedKeys")
		}
	}
}

// ------------------------------------------------------------------ driver

func c05_runC05(e *Env) {
	e.R.Rule = "A: fragment programs (literals, globals, +, list/map/set literals with duplicate keys and print() side effects inside entries, " +
		"index, print) run on the real compiler/VM and on the Lean Impl model under every adversary annotation; B: programs from the shared " +
		"generator behind a prelude of map/set construction, iteration, printing, method results, default arguments, compiled and evaluated " +
		"repeatedly in-process and in fresh child processes; C: site probes (sorted keys/set items, first-failure loops, applyOverrides; VirtualOS.Environ with 0-6 variables whose " +
		"line order differs from insertion and key order, and MockFS.ReadDir of a directory and of / with files created in random order and filenames " +
		"repeated across directories, both against the model's sorted listing under three visiting orders and repeated) against the Lean site-class models; C2: sets of 2-42 hashable values of every type (int, float incl. " +
		"+-Inf/denormals/NaN, string, bool, nil, byte, byte_slice; a third of them floats only) read through SortedItems/Inspect/Iter/List against " +
		"sortedItems/iterItems over full hash keys; C3: sorted(set|map, cmp) scripts whose cmp produces ties (by type, by len, by integer part, " +
		"constant false) and sorted(set) over ints and equal floats against sortedBuiltin; E: a 6-entry map, a mixed set and a float set at every " +
		"argument position (arity 1-2) of 72 builtins/module functions/methods (plus a list of channels, an iterator entry, a builtin and an iterator) next to a number, a string, a list, a map and a tie-producing " +
		"comparison function, each script evaluated repeatedly; D: denylist configurations; D2: host globals holding modules whose own names " +
		"differ from / collide with the globals' names, imported by every name, against moduleCache; F: object graphs of depth 1-4 over every " +
		"object type a script or a host can produce (scalars, strings with quotes/newlines/0x…, errors, time, byte_slice, float_slice, buffer, functions with " +
		"defaults, closures, builtins, bound methods, modules, channels, int/slice/list/map/set iterators, iterator entries, threads, host-built partials, " +
		"cells, dynamic attributes, nested in lists, maps, sets) rendered by one script through print, printf, fmt.println, sprintf %v/%s, fmt.sprintf, " +
		"string(), interpolation, inside a list and a map, errorf, errors.new, error() and directly through Inspect()/PrintableValue, every text compared " +
		"with the model's render (addresses chosen by the harness) and evaluated repeatedly in fresh VMs and fresh processes; no text may contain a Go " +
		"pointer; G: value trees (maps of 0-12 entries filled entry by entry in a random insertion order, sets incl. +-Inf members, lists, nested to depth 3; " +
		"values are scalars, 13 kinds of unmarshalable values — function, module, builtin, channel, error value, five iterators, +Inf, -Inf, NaN — or containers; " +
		"most trees have >= 2 failing elements in one map) marshalled through json.marshal, json.marshal with indent, under try, nested in a list, nested in a map " +
		"next to a failing sibling, and by the host's json.Marshal on the returned object, every outcome (JSON text or error text) compared byte for byte with the " +
		"model JV.marshal (asked under two random choices of visiting orders) and repeated 8-192 times in fresh VMs and in fresh processes; encode(x, \"json\") and the " +
		"data of an http request by repetition; 5 directed trees (failing values in slots 0 and 4 of an 8-entry map, all 8 values failing, a function and a module, " +
		"failures in two inner maps, a set with +Inf and -Inf); every callable of E plus 20 module functions x {map of 8 unmarshalable/unsummable values, heterogeneous set of 10} " +
		"at every argument position; exec() with 1-5 parameter keys / env values of which 1-5 are invalid against firstFailure, the child's environment order, http.request " +
		"headers with names that differ in case against headerValues; non-trivial when >= 2 elements fail; " +
		"H: mount tables of 1-6 mount points, most of them nested (/, /data, /data/sub, /data/sub/deep, with and without a trailing slash, string-prefix neighbours such as /data2), " +
		"registered in a random order, working directories at and below mount points, paths below the innermost mount, exactly on a mount point, relative, with .., . and a trailing slash; " +
		"every mount's Source records its calls, so which mount serves os.read_file/write_file/stat/remove/remove_all/mkdir/mkdir_all/read_dir/rename/symlink in a script (55 %) or the " +
		"VirtualOS method called by the host, and the path it is handed, is compared with the model's findMount and repeated 16-48 times with a fresh mount map and a fresh VirtualOS; " +
		"25 % of the tables spell Mount.Target unlike the key (empty, trailing slash, mixed): ordinary cases since the repair of findMount (one model answer, tables of <= 4 mounts asked under every visiting order; every repetition must show it); " +
		"non-trivial when >= 2 mount points qualify for the path; I: sets of 2-32 hashable values at least two of which are byte slices or strings of 15-200 bytes (lengths around 16/32/33/64/65, " +
		"70 % sharing a 32-48 byte stem, printable and arbitrary bytes), next to short byte slices, bytes 0-255, ints up to 2^40, floats, bools, nil: HashKey() of every member against HV.key, " +
		"SortedItems/Iter/Inspect/List against setListing, the law 'listed in ascending order of the values' on the real listing, and 60 % of the sets (<= 12 members) built, iterated, printed, " +
		"converted (string, list, json.marshal, sprintf) by a script evaluated 2-8 times in-process and once in each of 4-16 fresh processes; non-trivial when >= 2 members are longer than 32 bytes; " +
		"J: risor.DefaultGlobals: every name that more than one of the five builtin tables (builtins, http, fmt, os, dns) defines, plus a sample of the others, probed (0 and 65 arguments) on 48-64 fresh DefaultGlobals() maps " +
		"against the entry of the table the model's mergeTables names (the last table of the slice that defines it), and scripts calling each shared name with 0/1/2/64/65/66/100 arguments, bare and under try, evaluated 48-64 times under default globals; " +
		"non-trivial when >= 2 tables define the name; K: FSImporter over an in-memory filesystem that records every Open and delays chosen files (0-3 ms: the file the model picks, random, descending), extension lists (default or 1-4 custom in random order), " +
		"0-4 candidate files per module name (70 % each) with different bodies, `import m` in a script or Import() by the host, 16-24 times: the file read and the files probed against pickExtension; non-trivial when >= 2 candidate files exist; " +
		"L: programs of 1-5 declaring statements — multi-name from-imports of math/strings (1-5 names; plain, aliased, parenthesised on one or several lines, a name imported twice, two imports under one alias, an alias that the scope has already), " +
		"destructuring assignments of 2-4 names, single declarations, functions with 0-4 parameters (trailing defaults) whose bodies hold 1-3 declaring statements — compiled by the real compiler 32-48 times in-process: instructions, constants, names and local symbols of every code object, " +
		"GlobalNames() and the MarshalCode bytes must be identical in all compilations, and the global table and every function's local table must be the model's declProgram declStmt (slots in source order; asked under a random annotation per statement), for import-only programs also the StoreGlobal operands; non-trivial when a from-import introduces >= 2 names; " +
		"C (first-failure loops) since their repair: compileFunc defaults against funcDefaults (the first unsupported default in declaration order), conversions of maps with 0-3 failing entries against convertSorted (the error of the smallest failing key), applyOverrides against applyOverridesSorted (the overrides sorting before the smallest invalid name); any variation is an unlisted violation; " +
		"module-defined and OS-backed objects and error messages about such objects by repetition and the pointer rule only. A case is one program / one probe input; " +
		"distinct by its text; non-trivial when it contains a map/set literal, a default argument or a map/set iteration (all A and B programs do), " +
		"or, for probes, when the map has >= 2 entries. 7 of 8 programs stay inside the guard NoBigMap."
	nFrag, nGen, reps, kids, nSite := 500, 160, 8, 4, 150
	if !e.Quick {
		nFrag, nGen, reps, kids, nSite = 6000, 1500, 64, 16, 1500
	}
	// the targeted probes run first: their cases are the smallest, and the first violation recorded
	// becomes the replay
	// streams H and I (c05select.go): the choosing loop of VirtualOS.findMount over nested mount
	// tables; hash keys and listings of sets of long byte slices / strings, also in fresh processes
	// wall time per stream goes into the evidence as a note (supporting numbers, never a verdict)
	timed := func(name string, f func()) {
		t0 := time.Now()
		f()
		e.R.Note("stream %s: %.1fs", name, time.Since(t0).Seconds())
	}
	// streams J and K (c05merge.go): tables merged in the fixed order of a slice (DefaultGlobals);
	// candidates probed in a priority order (FSImporter's extension list) under filesystem latencies
	// stream L (c05decl.go): declarations that introduce several names at once, compiled >= 32 times
	timed("c05DeclSlots", func() { c05DeclSlots(e, min(nSite*2, 1200), max(32, min(reps, 48))) })
	// the loops repaired in /repo (compileFunc defaults, conversions, applyOverrides) come next: a
	// recurrence of one of those defects becomes the replay
	timed("c05SiteFirstFailure", func() { c05SiteFirstFailure(e, nSite/3, reps*2) })
	timed("c05SiteOverrides", func() { c05SiteOverrides(e, nSite/5, reps*2) })
	timed("c05DefaultGlobalsMerge", func() { c05DefaultGlobalsMerge(e, min(reps*6, 64)) })
	timed("c05ImportExtensions", func() { c05ImportExtensions(e, min(nSite, 400), min(reps*2, 24)) })
	timed("c05SiteMounts", func() { c05SiteMounts(e, min(nSite, 600), min(reps*2, 48)) })
	timed("c05HashKeys", func() { c05HashKeys(e, min(nSite, 600), min(reps, 32), kids) })
	// stream G (c05walk.go): containers with several failing elements
	timed("c05WalkMarshal", func() { c05WalkMarshal(e, min(nSite*2/3, 600), min(reps, 24), kids) })
	timed("c05WalkSites", func() { c05WalkSites(e, min(nSite/4, 300), min(reps*2, 32)) })
	timed("c05Render", func() { c05Render(e, nSite*2, reps, kids) })
	timed("c05RenderOpaque", func() { c05RenderOpaque(e, reps) })
	timed("c05SiteSorted", func() { c05SiteSorted(e, nSite) })
	timed("c05SiteSetOrder", func() { c05SiteSetOrder(e, nSite*2, reps*2) })
	timed("c05SiteSetNaNScript", func() { c05SiteSetNaNScript(e, reps*4) })
	timed("c05SiteSortedBy", func() { c05SiteSortedBy(e, nSite, reps) })
	timed("c05ConfigModules", func() { c05ConfigModules(e, nSite/3, reps*2) })
	timed("c05SiteEnviron", func() { c05SiteEnviron(e, nSite/3, reps*2) })
	timed("c05SiteMockFS", func() { c05SiteMockFS(e, nSite/5, reps*4) })
	timed("c05Config", func() { c05Config(e, nSite/10, reps) })
	timed("c05BuiltinArgs", func() { c05BuiltinArgs(e, reps) })
	timed("c05WalkCallables", func() { c05WalkCallables(e, min(reps, 32)*3/4) })
	timed("c05Fragments", func() { c05Fragments(e, nFrag, reps) })
	timed("c05General", func() { c05General(e, nGen, reps, kids) })
}
