package main

// C05 — evaluation and compilation are deterministic.
//
// Four streams (all randomness from e.Rng):
//  A. fragment programs (literals, globals, +, list/map/set literals, index, print): compiled
//     and run by the REAL compiler/VM several times; the Lean Impl model (compile under every
//     adversary annotation, then its VM) must produce exactly the observed (bytecode, constants)
//     and, for that bytecode, the observed result and stdout.  Spec = all repetitions identical.
//  B. general programs (shared generator + a prelude exercising map/set literals, default
//     arguments, map/set iteration, printing, method results): compiled and evaluated 8x
//     in-process and in 4 fresh child processes (64/16 thorough); MarshalCode bytes, result,
//     error text and stdout must be identical.
//  C. site probes against the Lean site-class models: SortedKeys / set order / VirtualOS.Environ /
//     first-failure loops (function defaults, conversions) / applyOverrides / MockFS.ReadDir.
//  D. configuration probes (denylist, global names, shuffled option order), law-based.

import (
	"bufio"
	"bytes"
	"context"
	"crypto/sha256"
	"encoding/hex"
	"encoding/json"
	"fmt"
	"os"
	"os/exec"
	"regexp"
	"sort"
	"strconv"
	"strings"
	"time"

	"github.com/risor-io/risor"
	"github.com/risor-io/risor/compiler"
	"github.com/risor-io/risor/object"
	"github.com/risor-io/risor/op"
	ros "github.com/risor-io/risor/os"
	"github.com/risor-io/risor/parser"
)

const (
	c05_fMapLit    = "C05-map-literal-order"
	c05_fDefaults  = "C05-func-defaults-error-order"
	c05_fEnviron   = "C05-virtualos-environ-order"
	c05_fConvert   = "C05-conversion-error-order"
	c05_fOverrides = "C05-overrides-abort-order"
	c05_fMockFS    = "C05-mockfs-readdir-order"
)

func init() {
	commands["C05"] = c05_runC05
	childCommands["C05-child"] = c05Child
}

// ------------------------------------------------------------------ stream A: the fragment

type c05_fe struct {
	k    string // int str t f n var add index print list set map
	s    string
	i    int64
	c    []*c05_fe
	keys []string // map: one key per child
	id   int      // map: ordinal among the map literals with >= 2 entries (-1 otherwise)
}

type c05_fstmt struct {
	name string // "" = expression statement
	e    *c05_fe
}

type c05_fprog struct {
	stmts []c05_fstmt
	last  *c05_fe
	maps  []int // entry count of every annotated map literal, by id
}

type c05_fvar struct {
	name, ty string
	keys     []string // map: keys present; list: length in i
	n        int
}

type c05_fgen struct {
	r     *RNG
	vars  []c05_fvar
	perms int // product of k! so far
	maps  []int
	next  int
}

var c05_fkeys = []string{"a", "b", "c", "d", "ab"}
var c05_fwords = []string{"", "a", "b", "xy", "q"}

func c05_fact(k int) int {
	f := 1
	for i := 2; i <= k; i++ {
		f *= i
	}
	return f
}

func (g *c05_fgen) varsOf(ty string) []c05_fvar {
	var out []c05_fvar
	for _, v := range g.vars {
		if v.ty == ty {
			out = append(out, v)
		}
	}
	return out
}

func (g *c05_fgen) intE(d int) *c05_fe {
	if d <= 0 {
		if vs := g.varsOf("int"); len(vs) > 0 && g.r.Chance(40) {
			return &c05_fe{k: "var", s: Pick(g.r, vs).name}
		}
		return &c05_fe{k: "int", i: int64(g.r.Intn(9))}
	}
	switch g.r.Intn(6) {
	case 0, 1:
		return &c05_fe{k: "add", c: []*c05_fe{g.intE(d - 1), g.intE(d - 1)}}
	case 2:
		if vs := g.varsOf("list"); len(vs) > 0 {
			v := Pick(g.r, vs)
			if v.n > 0 {
				idx := int64(g.r.Intn(v.n))
				if g.r.Chance(6) {
					idx = int64(v.n) + 1
				}
				return &c05_fe{k: "index", c: []*c05_fe{{k: "var", s: v.name}, {k: "int", i: idx}}}
			}
		}
	case 3:
		if vs := g.varsOf("map"); len(vs) > 0 {
			v := Pick(g.r, vs)
			if len(v.keys) > 0 {
				key := Pick(g.r, v.keys)
				if g.r.Chance(6) {
					key = "zz"
				}
				return &c05_fe{k: "index", c: []*c05_fe{{k: "var", s: v.name}, {k: "str", s: key}}}
			}
		}
	}
	return g.intE(0)
}

func (g *c05_fgen) strE(d int) *c05_fe {
	if d > 0 && g.r.Chance(35) {
		return &c05_fe{k: "add", c: []*c05_fe{g.strE(d - 1), g.strE(d - 1)}}
	}
	if vs := g.varsOf("str"); len(vs) > 0 && g.r.Chance(40) {
		return &c05_fe{k: "var", s: Pick(g.r, vs).name}
	}
	return &c05_fe{k: "str", s: Pick(g.r, c05_fwords)}
}

func (g *c05_fgen) scalarE(d int) *c05_fe {
	switch g.r.Intn(8) {
	case 0, 1, 2:
		return g.intE(d)
	case 3, 4:
		return g.strE(d)
	case 5:
		return &c05_fe{k: "t"}
	case 6:
		return &c05_fe{k: "f"}
	}
	return &c05_fe{k: "n"}
}

func (g *c05_fgen) printE(d int) *c05_fe {
	k := 1 + g.r.Intn(2)
	x := &c05_fe{k: "print"}
	for i := 0; i < k; i++ {
		if g.r.Chance(25) && len(g.vars) > 0 {
			x.c = append(x.c, &c05_fe{k: "var", s: Pick(g.r, g.vars).name})
		} else {
			x.c = append(x.c, g.scalarE(d))
		}
	}
	return x
}

// mapE builds a map literal; big = allow >= 2 entries (outside the guard NoBigMap).
func (g *c05_fgen) mapE(d int, big bool) (*c05_fe, []string) {
	k := g.r.Intn(2)
	if big {
		k = 2 + g.r.Intn(3)
		for k > 1 && g.perms*c05_fact(k) > 150 {
			k--
		}
	}
	x := &c05_fe{k: "map", id: -1}
	if k >= 2 {
		x.id = len(g.maps)
		g.maps = append(g.maps, k)
		g.perms *= c05_fact(k)
	}
	dup := g.r.Chance(40)
	var present []string
	for i := 0; i < k; i++ {
		key := c05_fkeys[i%len(c05_fkeys)]
		if dup || g.r.Chance(20) {
			key = Pick(g.r, c05_fkeys[:3])
		}
		var v *c05_fe
		switch g.r.Intn(10) {
		case 0, 1:
			v = g.printE(d - 1) // side effect inside an entry
		case 2:
			if d > 0 {
				v, _ = g.mapE(d-1, big && g.r.Chance(40))
				break
			}
			v = g.intE(0)
		case 3:
			v = g.listE(d - 1)
		default:
			v = g.intE(d - 1)
		}
		x.c = append(x.c, v)
		x.keys = append(x.keys, key)
		seen := false
		for _, p := range present {
			if p == key {
				seen = true
			}
		}
		if !seen {
			present = append(present, key)
		}
	}
	return x, present
}

func (g *c05_fgen) listE(d int) *c05_fe {
	x := &c05_fe{k: "list"}
	k := g.r.Intn(4)
	for i := 0; i < k; i++ {
		x.c = append(x.c, g.intE(d-1))
	}
	return x
}

func (g *c05_fgen) setE(d int) *c05_fe {
	x := &c05_fe{k: "set"}
	k := 1 + g.r.Intn(4)
	for i := 0; i < k; i++ {
		x.c = append(x.c, g.scalarE(0))
	}
	return x
}

func c05_genFragment(r *RNG, big bool) *c05_fprog {
	g := &c05_fgen{r: r, perms: 1}
	p := &c05_fprog{}
	n := 2 + r.Intn(5)
	for i := 0; i < n; i++ {
		name := fmt.Sprintf("w%d", i)
		switch r.Intn(9) {
		case 0, 1:
			p.stmts = append(p.stmts, c05_fstmt{name, g.intE(2)})
			g.vars = append(g.vars, c05_fvar{name: name, ty: "int"})
		case 2:
			p.stmts = append(p.stmts, c05_fstmt{name, g.strE(2)})
			g.vars = append(g.vars, c05_fvar{name: name, ty: "str"})
		case 3, 4:
			m, keys := g.mapE(2, big)
			p.stmts = append(p.stmts, c05_fstmt{name, m})
			// values may be non-ints; index expressions over this map are used in int position
			// only when every value is an int expression
			allInt := true
			for _, v := range m.c {
				if v.k != "int" && v.k != "add" && v.k != "var" && v.k != "index" {
					allInt = false
				}
			}
			if allInt {
				g.vars = append(g.vars, c05_fvar{name: name, ty: "map", keys: keys})
			} else {
				g.vars = append(g.vars, c05_fvar{name: name, ty: "other"})
			}
		case 5:
			l := g.listE(2)
			p.stmts = append(p.stmts, c05_fstmt{name, l})
			g.vars = append(g.vars, c05_fvar{name: name, ty: "list", n: len(l.c)})
		case 6:
			p.stmts = append(p.stmts, c05_fstmt{name, g.setE(1)})
			g.vars = append(g.vars, c05_fvar{name: name, ty: "other"})
		case 7:
			p.stmts = append(p.stmts, c05_fstmt{"", g.printE(1)})
		default:
			m, present := g.mapE(1, big)
			key := Pick(r, c05_fkeys[:3])
			if len(present) > 0 && r.Chance(85) {
				key = Pick(r, present)
			}
			p.stmts = append(p.stmts, c05_fstmt{"", &c05_fe{k: "index", c: []*c05_fe{m, {k: "str", s: key}}}})
		}
	}
	last := &c05_fe{k: "list"}
	for _, v := range g.vars {
		if r.Chance(70) {
			last.c = append(last.c, &c05_fe{k: "var", s: v.name})
		}
	}
	if big || r.Chance(30) {
		m, _ := g.mapE(1, big)
		last.c = append(last.c, m)
	}
	last.c = append(last.c, g.setE(0))
	p.last = last
	p.maps = g.maps
	return p
}

func (x *c05_fe) src() string {
	switch x.k {
	case "int":
		if x.i < 0 {
			return "(" + strconv.FormatInt(x.i, 10) + ")"
		}
		return strconv.FormatInt(x.i, 10)
	case "str":
		return strconv.Quote(x.s)
	case "t":
		return "true"
	case "f":
		return "false"
	case "n":
		return "nil"
	case "var":
		return x.s
	case "add":
		return "(" + x.c[0].src() + " + " + x.c[1].src() + ")"
	case "index":
		return x.c[0].src() + "[" + x.c[1].src() + "]"
	case "print", "list", "set":
		parts := make([]string, len(x.c))
		for i, c := range x.c {
			parts[i] = c.src()
		}
		switch x.k {
		case "print":
			return "print(" + strings.Join(parts, ", ") + ")"
		case "list":
			return "[" + strings.Join(parts, ", ") + "]"
		}
		if len(parts) == 0 {
			return "set()" // `{}` is the empty map
		}
		return "{" + strings.Join(parts, ", ") + "}"
	case "map":
		parts := make([]string, len(x.c))
		for i, c := range x.c {
			parts[i] = strconv.Quote(x.keys[i]) + ": " + c.src()
		}
		return "{" + strings.Join(parts, ", ") + "}"
	}
	return "<?>"
}

// tokens renders the expression for the oracle; ann[id] is the adversary's choice for map id.
func (x *c05_fe) tokens(ann [][]int, out *[]string) {
	switch x.k {
	case "int":
		*out = append(*out, "i", strconv.FormatInt(x.i, 10))
	case "str":
		*out = append(*out, "s", Hex(x.s))
	case "t", "f", "n":
		*out = append(*out, x.k)
	case "var":
		*out = append(*out, "v", x.s)
	case "add":
		*out = append(*out, "+")
		x.c[0].tokens(ann, out)
		x.c[1].tokens(ann, out)
	case "index":
		*out = append(*out, "x")
		x.c[0].tokens(ann, out)
		x.c[1].tokens(ann, out)
	case "print", "list", "set":
		*out = append(*out, map[string]string{"print": "p", "list": "l", "set": "S"}[x.k], strconv.Itoa(len(x.c)))
		for _, c := range x.c {
			c.tokens(ann, out)
		}
	case "map":
		perm := "-"
		if x.id >= 0 && ann != nil {
			parts := make([]string, len(ann[x.id]))
			for i, v := range ann[x.id] {
				parts[i] = strconv.Itoa(v)
			}
			perm = strings.Join(parts, ".")
		}
		*out = append(*out, "m", strconv.Itoa(len(x.c)), perm)
		for i, c := range x.c {
			*out = append(*out, Hex(x.keys[i]))
			c.tokens(ann, out)
		}
	}
}

func (p *c05_fprog) src() string {
	var sb strings.Builder
	for _, s := range p.stmts {
		if s.name != "" {
			sb.WriteString(s.name + " := " + s.e.src() + "\n")
		} else {
			sb.WriteString(s.e.src() + "\n")
		}
	}
	sb.WriteString(p.last.src() + "\n")
	return sb.String()
}

func (p *c05_fprog) tokens(ann [][]int) string {
	out := []string{strconv.Itoa(len(p.stmts))}
	for _, s := range p.stmts {
		if s.name != "" {
			out = append(out, "d", s.name)
		} else {
			out = append(out, "e")
		}
		s.e.tokens(ann, &out)
	}
	p.last.tokens(ann, &out)
	return strings.Join(out, " ")
}

func c05_permsOf(n int) [][]int {
	if n == 0 {
		return [][]int{{}}
	}
	var out [][]int
	var rec func(cur []int, used []bool)
	rec = func(cur []int, used []bool) {
		if len(cur) == n {
			out = append(out, append([]int{}, cur...))
			return
		}
		for i := 0; i < n; i++ {
			if !used[i] {
				used[i] = true
				rec(append(cur, i), used)
				used[i] = false
			}
		}
	}
	rec(nil, make([]bool, n))
	return out
}

// annotations enumerates every adversary for the program's annotated map literals.
func (p *c05_fprog) annotations() [][][]int {
	out := [][][]int{{}}
	for _, k := range p.maps {
		var next [][][]int
		for _, a := range out {
			for _, pm := range c05_permsOf(k) {
				next = append(next, append(append([][]int{}, a...), pm))
			}
		}
		out = next
	}
	return out
}

func c05_constsText(c *compiler.Code) string {
	var parts []string
	for i := 0; i < c.ConstantsCount(); i++ {
		switch v := c.Constant(i).(type) {
		case int64:
			parts = append(parts, "i:"+strconv.FormatInt(v, 10))
		case string:
			parts = append(parts, "s:"+Hex(v))
		default:
			parts = append(parts, fmt.Sprintf("?:%T", v))
		}
	}
	if len(parts) == 0 {
		return "-"
	}
	return strings.Join(parts, " ")
}

type c05_fragRun struct {
	code, consts, result, stdout string
}

// runFragment compiles with the configuration's global names handed over in a shuffled order
// (compiler.New must sort them) and runs that very code object in a fresh VM.
func c05_runFragment(src string, names []string, r *RNG) (out c05_fragRun) {
	defer func() {
		if rec := recover(); rec != nil {
			out.result = "e:panic"
		}
	}()
	ctx, cancel := context.WithTimeout(context.Background(), 5*time.Second)
	defer cancel()
	prog, err := parser.Parse(ctx, src)
	if err != nil {
		return c05_fragRun{result: "e:parse"}
	}
	sh := append([]string{}, names...)
	for i := len(sh) - 1; i > 0; i-- {
		j := r.Intn(i + 1)
		sh[i], sh[j] = sh[j], sh[i]
	}
	code, err := compiler.Compile(prog, compiler.WithGlobalNames(sh))
	if err != nil {
		return c05_fragRun{result: "e:compile", code: err.Error()}
	}
	out.code, out.consts = CodeText(code), c05_constsText(code)
	buf := &bytes.Buffer{}
	vos := ros.NewVirtualOS(ctx, ros.WithStdout(&memFile{buf: buf}))
	res, err := risor.EvalCode(ctx, code, risor.WithOS(vos))
	out.stdout = buf.String()
	if err != nil {
		out.result = "e:" + ErrClass(err.Error())
		return
	}
	out.result = "v:" + Hex(res.Inspect())
	return
}

func c05Fragments(e *Env, n int, reps int) {
	rng := e.Rng.Fork()
	names := risor.NewConfig().GlobalNames()
	namesField := strings.Join(names, ",")
	for i := 0; i < n; i++ {
		r := rng.Fork()
		big := i%8 == 0 // 87 % of the programs stay inside the guard NoBigMap
		p := c05_genFragment(r, big)
		src := p.src()
		anns := p.annotations()
		reqs := make([]string, len(anns))
		for j, a := range anns {
			reqs[j] = "C05\tfrag\t" + namesField + "\t" + p.tokens(a)
		}
		reps2 := e.O.AskBatch(reqs)
		model := map[string][2]string{} // code+consts -> result, stdout
		modelBig := false
		bad := ""
		for j, rep := range reps2 {
			f := strings.Split(rep, "\t")
			if len(f) != 6 || f[0] != "ok" {
				bad = fmt.Sprintf("oracle reply %q to %q", rep, reqs[j])
				break
			}
			key := f[1] + "|" + f[2]
			val := [2]string{f[3], UnHex(f[4])}
			if old, ok := model[key]; ok && old != val {
				bad = "model: the same bytecode evaluates to two different outcomes"
			}
			model[key] = val
			modelBig = f[5] == "false"
		}
		if bad != "" {
			e.R.Mismatch(src, "-", bad, "fragment oracle")
			continue
		}
		guard := len(p.maps) > 0
		if guard != modelBig {
			e.R.Mismatch(src, fmt.Sprint("bigMap=", guard), fmt.Sprint("noBigMap=", !modelBig), "guard predicate disagrees")
		}
		e.R.Case(src, true)
		e.R.H("fragment_annotations", fmt.Sprintf("%03d", len(anns)))
		e.R.H("fragment_model_outcomes", fmt.Sprintf("%03d", len(model)))
		seen := map[c05_fragRun]int{}
		agree := true
		for k := 0; k < reps; k++ {
			got := c05_runFragment(src, names, r)
			seen[got]++
			want, ok := model[got.code+"|"+got.consts]
			if !ok {
				agree = false
				e.R.Mismatch(src, got.code+" | "+got.consts, fmt.Sprintf("%d possible bytecodes, this is none of them", len(model)), "fragment compile")
				break
			}
			if want[0] != got.result || want[1] != got.stdout {
				agree = false
				e.R.Mismatch(src, got.result+" out="+strconv.Quote(got.stdout), want[0]+" out="+strconv.Quote(want[1]), "fragment eval of "+got.code)
				break
			}
			e.R.H("fragment_result", strings.SplitN(got.result, ":", 2)[0]+":"+func() string {
				if strings.HasPrefix(got.result, "e:") {
					return got.result[2:]
				}
				return "value"
			}())
		}
		if len(seen) > 1 {
			results := map[string]bool{}
			for s := range seen {
				results[s.result+s.stdout] = true
			}
			codes := map[string]bool{}
			for s := range seen {
				codes[s.code+s.consts] = true
			}
			var parts []string
			if len(codes) > 1 {
				parts = append(parts, "bytecode")
			}
			if len(results) > 1 {
				parts = append(parts, "result/stdout")
			}
			what := strings.Join(parts, ", ")
			finding := ""
			if guard && agree {
				finding = c05_fMapLit
			}
			e.R.H("fragment_variation", what)
			e.R.Spec(src, fmt.Sprintf("%d repetitions gave %d different outcomes (%s vary)", reps, len(seen), what), finding)
		} else {
			e.R.H("fragment_variation", "none")
		}
	}
}

// ------------------------------------------------------------------ stream B: general programs

type c05Obs struct {
	Code   string `json:"code"` // sha256 of MarshalCode bytes, or "ERR:"+text
	Shape  string `json:"shape"`
	Value  string `json:"value"`
	Err    string `json:"err"`
	Stdout string `json:"stdout"`
}

func c05_codeShape(code *compiler.Code) string {
	var names []string
	consts := 0
	for _, cc := range code.Flatten() {
		n := cc.InstructionCount()
		for i := 0; i < n; {
			info := op.GetInfo(cc.Instruction(i))
			names = append(names, info.Name)
			i += 1 + info.OperandCount
		}
		consts += cc.ConstantsCount()
	}
	sort.Strings(names)
	h := sha256.Sum256([]byte(strings.Join(names, " ")))
	return fmt.Sprintf("%d/%d/%s", len(names), consts, hex.EncodeToString(h[:6]))
}

func c05Observe(src string) (o c05Obs) {
	func() {
		defer func() {
			if r := recover(); r != nil {
				o.Code = fmt.Sprintf("ERR:PANIC %v", r)
			}
		}()
		code, err := CompileSrc(src)
		if err != nil {
			o.Code = "ERR:" + err.Error()
			return
		}
		b, err := compiler.MarshalCode(code)
		if err != nil {
			o.Code = "ERR:marshal " + err.Error()
			return
		}
		h := sha256.Sum256(b)
		o.Code = hex.EncodeToString(h[:])
		o.Shape = c05_codeShape(code)
	}()
	out := EvalSrc(src, 5*time.Second)
	o.Value, o.Err, o.Stdout = out.Value, out.Err, out.Stdout
	return
}

func c05Child(args []string) {
	sc := bufio.NewScanner(os.Stdin)
	sc.Buffer(make([]byte, 1<<20), 1<<26)
	w := bufio.NewWriter(os.Stdout)
	defer w.Flush()
	for sc.Scan() {
		var src string
		if err := json.Unmarshal(sc.Bytes(), &src); err != nil {
			continue
		}
		b, _ := json.Marshal(c05Observe(src))
		w.Write(b)
		w.WriteByte('\n')
	}
}

func c05RunChildren(srcs []string, n int) [][]c05Obs {
	var in bytes.Buffer
	for _, s := range srcs {
		b, _ := json.Marshal(s)
		in.Write(b)
		in.WriteByte('\n')
	}
	out := make([][]c05Obs, 0, n)
	for i := 0; i < n; i++ {
		ctx, cancel := context.WithTimeout(context.Background(), 10*time.Minute)
		cmd := exec.CommandContext(ctx, os.Args[0], "C05-child")
		cmd.Stdin = bytes.NewReader(in.Bytes())
		var ob bytes.Buffer
		cmd.Stdout = &ob
		cmd.Env = append(os.Environ(), "GOMEMLIMIT=1GiB")
		err := cmd.Run()
		cancel()
		var obs []c05Obs
		sc := bufio.NewScanner(&ob)
		sc.Buffer(make([]byte, 1<<20), 1<<26)
		for sc.Scan() {
			var o c05Obs
			if json.Unmarshal(sc.Bytes(), &o) == nil {
				obs = append(obs, o)
			}
		}
		if err != nil || len(obs) != len(srcs) {
			obs = nil // reported by the caller
		}
		out = append(out, obs)
	}
	return out
}

var c05LocalNames = regexp.MustCompile(`\b(qf|qg|qh|qb|qe|qi|qj|qn|qo|qt)\b`)

// prelude pieces.  big = contains a map literal with >= 2 entries (outside the guard).
type c05Piece struct {
	src  string
	big  bool
	kind string
}

func c05Prelude(r *RNG, allowBig bool) (string, bool, []string) {
	key := func() string { return Pick(r, []string{"a", "b", "c", "k1", "k2", "zeta", "Alpha", "é", ""}) }
	num := func() int { return r.Intn(20) - 3 }
	var pieces []c05Piece
	add := func(kind string, big bool, format string, a ...any) {
		// names local to a piece get the piece's index so that pieces can repeat
		text := c05LocalNames.ReplaceAllString(fmt.Sprintf(format, a...), fmt.Sprintf("${1}_%d", len(pieces)))
		pieces = append(pieces, c05Piece{text, big, kind})
	}
	pos := func() int { return r.Intn(20) }
	// maps built without a multi-entry literal
	add("map-setitem", false, "qm := {%q: %d}\nqm[%q] = %d\nqm[%q] = [%d, %d]\nqm[%q] = %q", key(), num(), key(), num(), key(), num(), num(), key(), key())
	add("set-literal", false, "qs := {%d, %d, %q, %d, %q, true, nil}", num(), num(), key(), num(), key())
	for i := 0; i < 6; i++ {
		switch r.Intn(22) {
		case 0:
			add("map-iter", false, "for k, v := range qm { print(k, v) }")
		case 1:
			add("map-iter", false, "for k in qm { print(k) }")
		case 2:
			add("set-iter", false, "for x in qs { print(x) }\nfor i, x := range qs { print(i, x) }")
		case 3:
			add("map-methods", false, "print(qm.keys(), qm.values(), qm.items(), keys(qm), len(qm))")
		case 4:
			add("print-containers", false, "print(qm, qs, string(qm), string(qs), [qm, qs])\nprint('{qm} {qs}')")
		case 5:
			add("defaults", false, "func qf(a, b=%d, c=%q, e=true, f=1.5) { return [a, b, c, e, f] }\nprint(qf(1), qf(1, 2), qf(1, 2, 3, 4, 5))", pos(), key())
		case 6:
			add("set-ops", false, "qt := {%d, %d, %q}\nprint(qs.union(qt), qs.intersection(qt), qs == qt, qs == qs, list(qs), qt.union(qs))", num(), num(), key())
		case 7:
			add("map-ops", false, "qn := qm.copy()\nqn.update({%q: %d})\nprint(qn, qn == qm, qm == qm, qn.pop(%q, 0), qn)", key(), num(), key())
		case 8:
			add("json", false, "print(json.marshal(qm), json.marshal(list(qs)))")
		case 9:
			add("all-any", false, "print(all(qs), any(qs), all(qm), any({0, false}), %q in qm, %d in qs)", key(), num())
		case 10:
			add("print-callables", false, "print(print, len, qm.keys, type(qm), type(qs))")
		case 11:
			add("errors", false, "print(try(func() { return qm[\"nokey\"] }, func(e) { return string(e) }))")
		case 12:
			add("map-one-entry", false, "qo := {%q: {%q: %d}}\nprint(qo, {})", key(), key(), num())
		case 13:
			add("iter", false, "qi := iter(qm)\nprint(qi.next(), qi.next())")
		case 14:
			add("sprintf", false, "print(sprintf(\"%%v %%v\", qm, qs))")
		case 15:
			add("closure-default", false, "func qg(x, y=%d) { return func() { return [x, y, qm] } }\nprint(qg(%d)())", pos(), num())
		}
		if !allowBig {
			continue
		}
		switch r.Intn(10) {
		case 0:
			add("big-map-distinct", true, "qb := {%q: %d, %q: %d, %q: %d}\nprint(qb)", "a", num(), "b", num(), "c", num())
		case 1:
			k := Pick(r, []string{"a", "b"})
			add("big-map-dup-key", true, "print({%q: %d, %q: %d}[%q])", k, num(), k, num(), k)
		case 2:
			add("big-map-side-effects", true, "qe := {\"x\": print(\"first\"), \"y\": print(\"second\")}")
		case 3:
			add("big-map-in-func", true, "func qh() { return {\"p\": 1, \"q\": 2} }\nprint(qh())")
		case 4:
			add("big-map-funcs", true, "qj := {\"f\": func() { return 1 }, \"g\": func() { return 2 }}\nprint(qj[\"f\"](), qj[\"g\"]())")
		}
	}
	var sb strings.Builder
	big := false
	var kinds []string
	for _, p := range pieces {
		sb.WriteString(p.src + "\n")
		big = big || p.big
		kinds = append(kinds, p.kind)
	}
	return sb.String(), big, kinds
}

type c05Prog struct {
	src   string
	big   bool
	kinds []string
}

func c05Compare(e *Env, p c05Prog, obs []c05Obs, where string) {
	first := obs[0]
	var diff []string
	shapesEqual := true
	for _, o := range obs[1:] {
		if o.Code != first.Code {
			diff = append(diff, "bytecode")
		}
		if o.Value != first.Value {
			diff = append(diff, "result")
		}
		if o.Err != first.Err {
			diff = append(diff, "error")
		}
		if o.Stdout != first.Stdout {
			diff = append(diff, "stdout")
		}
		if o.Shape != first.Shape {
			shapesEqual = false
		}
	}
	if len(diff) == 0 {
		e.R.H("general_variation_"+where, "none")
		return
	}
	sort.Strings(diff)
	var uniq []string
	for i, d := range diff {
		if i == 0 || d != diff[i-1] {
			uniq = append(uniq, d)
		}
	}
	what := strings.Join(uniq, ",")
	e.R.H("general_variation_"+where, what)
	finding := ""
	if p.big && shapesEqual {
		// inside the known finding's guard, and the observations are what the Impl model
		// predicts: the same instructions and constants, in a different order
		finding = c05_fMapLit
	}
	if p.big && !shapesEqual {
		e.R.Mismatch(p.src, "instruction/constant multisets differ between compilations", "same multiset, entries permuted", "general program, "+where)
	}
	caseSrc := p.src
	if finding == "" && where == "in-process" && c05Shrunk < 5 {
		c05Shrunk++
		// unattributed: drop source lines while the variation persists (12 observations)
		caseSrc = c05ShrinkLines(p.src, func(src string) bool {
			a := c05Observe(src)
			if strings.HasPrefix(a.Code, "ERR:") && strings.Contains(a.Code, "parse") {
				return false
			}
			for k := 0; k < 11; k++ {
				if c05Observe(src) != a {
					return true
				}
			}
			return false
		})
	}
	detail := fmt.Sprintf("%s: %s differ between repetitions; first: code=%s value=%q err=%q stdout=%q", where, what, first.Code[:min(12, len(first.Code))], first.Value, first.Err, first.Stdout)
	for _, o := range obs[1:] {
		if o != first {
			detail += fmt.Sprintf(" | other: code=%s value=%q err=%q stdout=%q", o.Code[:min(12, len(o.Code))], o.Value, o.Err, o.Stdout)
			break
		}
	}
	if caseSrc != p.src {
		detail += " | shrunk from a generated program of " + strconv.Itoa(strings.Count(p.src, "\n")) + " lines"
	}
	e.R.Spec(caseSrc, detail, finding)
}

var c05Shrunk int

// c05ShrinkLines greedily removes lines (one at a time, last first) while `varies` holds.
func c05ShrinkLines(src string, varies func(string) bool) string {
	lines := strings.Split(strings.TrimRight(src, "\n"), "\n")
	if len(lines) > 80 || !varies(src) {
		return src
	}
	for changed := true; changed; {
		changed = false
		for i := len(lines) - 1; i >= 0; i-- {
			cand := append(append([]string{}, lines[:i]...), lines[i+1:]...)
			if len(cand) == 0 {
				continue
			}
			if varies(strings.Join(cand, "\n") + "\n") {
				lines = cand
				changed = true
			}
		}
	}
	return strings.Join(lines, "\n") + "\n"
}

func c05General(e *Env, n, reps, children int) {
	rng := e.Rng.Fork()
	var progs []c05Prog
	for i := 0; i < n; i++ {
		r := rng.Fork()
		allowBig := i%8 == 0
		pre, big, kinds := c05Prelude(r, allowBig)
		o := GenOpts{MaxStmts: 2 + r.Intn(3), MaxDepth: 2 + r.Intn(2), Budget: 40 + r.Intn(120), Funcs: true, Closures: true,
			Containers: true, Strings: r.Bool(), NoCtlInSwitch: true}
		body := Src(GenProgram(r, o))
		if r.Chance(12) {
			// end in an uncaught error: the error text is part of what must not vary
			body += Pick(r, []string{"qm[\"nokey\"]\n", "qs + 1\n", "qm.keys(1)\n", "error(string(qm))\n", "[1, 2][len(qm) + 5]\n"})
			kinds = append(kinds, "uncaught-error")
		}
		progs = append(progs, c05Prog{pre + body, big, kinds})
	}
	// directed programs (always present)
	for _, d := range []c05Prog{
		{"{\"a\": 1, \"a\": 2}[\"a\"]\n", true, []string{"big-map-dup-key"}},
		{"x := {\"a\": 1, \"b\": 2, \"c\": 3}\nl := []\nfor k, v := range x { l.append(k) }\n[l, keys(x)]\n", true, []string{"big-map-distinct"}},
		{"m := {}\nfor i := 0; i < 40; i++ { m[string(i)] = i }\nl := []\nfor k, v := range m { l.append(v) }\nprint(m)\n[l, m.keys(), {9, 8, 7, 6, 5, 4, 3, 2, 1, 0, 10, 11, 12, 13, 14, 15, 16, 17}]\n", false, []string{"large-map", "map-iter"}},
		{"func f(a, b=2, c=\"x\", d=false) { return [a, b, c, d] }\n[f(1), f(1, 5), f(1, 5, 6, 7)]\n", false, []string{"defaults"}},
		{"s := {3, 1, 2}\nt := {\"b\", \"a\", 1}\n[s.union(t), s.intersection(t), list(s), s == {1, 2, 3}]\n", false, []string{"set-ops"}},
	} {
		progs = append(progs, d)
	}
	srcs := make([]string, len(progs))
	for i, p := range progs {
		srcs[i] = p.src
	}
	kids := c05RunChildren(srcs, children)
	for ci, k := range kids {
		if k == nil {
			e.R.Mismatch(fmt.Sprintf("child process %d", ci), "did not return one observation per program", "-", "child process failed")
		}
	}
	for i, p := range progs {
		e.R.Case(p.src, true)
		for _, k := range p.kinds {
			e.R.H("prelude_pieces", k)
		}
		if p.big {
			e.R.H("general_guard", "outside NoBigMap")
		} else {
			e.R.H("general_guard", "inside NoBigMap")
		}
		obs := make([]c05Obs, 0, reps)
		timedOut := false
		for k := 0; k < reps && !timedOut; k++ {
			o := c05Observe(p.src)
			obs = append(obs, o)
			timedOut = ErrClass(o.Err) == "context"
		}
		for _, k := range kids {
			if k != nil && ErrClass(k[i].Err) == "context" {
				timedOut = true
			}
		}
		if timedOut {
			// timing is never a verdict: a run cut off by the time limit is not compared
			e.R.H("general_outcome", "time-limit (not compared)")
			continue
		}
		e.R.H("general_outcome", ErrClass(func() string {
			if strings.HasPrefix(obs[0].Code, "ERR:") {
				return obs[0].Code[4:]
			}
			return obs[0].Err
		}()))
		if strings.HasPrefix(obs[0].Code, "ERR:") {
			msg := obs[0].Code[4:]
			if i := strings.Index(msg, "(line"); i > 0 {
				msg = msg[:i]
			}
			e.R.H("general_compile_errors", msg[:min(60, len(msg))])
		}
		c05Compare(e, p, obs, "in-process")
		all := []c05Obs{obs[0]}
		for _, k := range kids {
			if k != nil {
				all = append(all, k[i])
			}
		}
		if len(all) > 1 {
			c05Compare(e, p, all, "fresh-processes")
		}
	}
}

// ------------------------------------------------------------------ stream C: site probes

func c05_hexList(xs []string) string {
	if len(xs) == 0 {
		return "-"
	}
	h := make([]string, len(xs))
	for i, x := range xs {
		h[i] = Hex(x)
		if x == "" {
			h[i] = "-"
		}
	}
	return strings.Join(h, ",")
}

func c05_permField(p []int) string {
	if len(p) == 0 {
		return "-"
	}
	s := make([]string, len(p))
	for i, v := range p {
		s[i] = strconv.Itoa(v)
	}
	return strings.Join(s, ".")
}

var c05_keyAlphabet = []string{"a", "b", "B", "ab", "a0", "", "z", "é", "日本", "~", "A", "aa", "ÿ", "k10", "k9", "_x"}

func c05_randKeys(r *RNG, n int) []string {
	seen := map[string]bool{}
	var out []string
	for len(out) < n {
		k := Pick(r, c05_keyAlphabet)
		if r.Chance(40) {
			k += Pick(r, c05_keyAlphabet)
		}
		if !seen[k] {
			seen[k] = true
			out = append(out, k)
		}
	}
	return out
}

func c05SiteSorted(e *Env, n int) {
	rng := e.Rng.Fork()
	for i := 0; i < n; i++ {
		r := rng.Fork()
		k := r.Intn(12)
		if r.Chance(10) {
			k = 20 + r.Intn(40) // more than one bucket
		}
		keys := c05_randKeys(r, k)
		items := map[string]object.Object{}
		for j, key := range keys {
			items[key] = object.NewInt(int64(j))
		}
		m := object.NewMap(items)
		want := e.O.Ask("C05", "sortedKeys", c05_hexList(keys))
		caseKey := "sortedKeys " + strconv.Quote(strings.Join(keys, "|"))
		e.R.Case(caseKey, k >= 2)
		e.R.H("site_sortedKeys_size", fmt.Sprintf("%02d", min(k, 20)))
		var seen []string
		for rep := 0; rep < 4; rep++ {
			got := c05_hexList(m.SortedKeys())
			var viaKeys, viaIter []string
			for _, o := range m.Keys().Value() {
				viaKeys = append(viaKeys, o.(*object.String).Value())
			}
			it := m.Iter()
			for {
				o, ok := it.Next(context.Background())
				if !ok {
					break
				}
				viaIter = append(viaIter, o.(*object.String).Value())
			}
			if got != want || c05_hexList(viaKeys) != want || c05_hexList(viaIter) != want {
				e.R.Mismatch(caseKey, got+" keys="+c05_hexList(viaKeys)+" iter="+c05_hexList(viaIter), want, "Map.SortedKeys/Keys/Iter against sortedKeys")
				break
			}
			seen = append(seen, m.Inspect())
		}
		for _, s := range seen {
			if s != seen[0] {
				e.R.Spec(caseKey, "Map.Inspect differs between calls: "+seen[0]+" / "+s, "")
			}
		}
		// object.Keys and Config.GlobalNames use the same collect-then-sort
		if got := c05_hexList(object.Keys(items)); got != want {
			e.R.Mismatch(caseKey, got, want, "object.Keys against sortedKeys")
		}
	}
	// sets
	for i := 0; i < n; i++ {
		r := rng.Fork()
		k := r.Intn(10)
		if r.Chance(10) {
			k = 20 + r.Intn(30)
		}
		var objs []object.Object
		var toks []string
		for j := 0; j < k; j++ {
			switch r.Intn(7) {
			case 0, 1, 2:
				v := int64(r.Intn(30)) - 10
				if r.Chance(10) {
					v = int64(r.Next())
				}
				objs = append(objs, object.NewInt(v))
				toks = append(toks, "i:"+strconv.FormatInt(v, 10))
			case 3, 4:
				s := Pick(r, []string{"a", "b", "ab", "", "z", "B"})
				objs = append(objs, object.NewString(s))
				toks = append(toks, "s:"+Hex(s))
			case 5:
				b := r.Bool()
				objs = append(objs, object.NewBool(b))
				toks = append(toks, map[bool]string{true: "t", false: "f"}[b])
			default:
				objs = append(objs, object.Nil)
				toks = append(toks, "n")
			}
		}
		field := "-"
		if len(toks) > 0 {
			field = strings.Join(toks, ",")
		}
		want := e.O.Ask("C05", "setSorted", field)
		caseKey := "setSorted " + field
		e.R.Case(caseKey, k >= 2)
		set, ok := object.NewSet(objs).(*object.Set)
		if !ok {
			e.R.Mismatch(caseKey, "NewSet failed", want, "set construction")
			continue
		}
		for rep := 0; rep < 4; rep++ {
			ins := set.Inspect()
			got := "-"
			if len(ins) > 2 {
				got = ins[1 : len(ins)-1]
			}
			var viaIter []string
			it := set.Iter()
			for {
				o, ok := it.Next(context.Background())
				if !ok {
					break
				}
				viaIter = append(viaIter, o.Inspect())
			}
			vi := "-"
			if len(viaIter) > 0 {
				vi = strings.Join(viaIter, ", ")
			}
			if got != want || vi != want {
				e.R.Mismatch(caseKey, got+" iter="+vi, want, "Set.Inspect/Iter against sortSet")
				break
			}
		}
	}
}

// permTo returns the permutation p with applyPerm p base = observed (entries distinct).
func c05_permTo(base, observed []string) []int {
	idx := map[string]int{}
	for i, b := range base {
		idx[b] = i
	}
	p := make([]int, 0, len(observed))
	for _, o := range observed {
		i, ok := idx[o]
		if !ok {
			return nil
		}
		p = append(p, i)
	}
	return p
}

func c05SiteEnviron(e *Env, n, reps int) {
	rng := e.Rng.Fork()
	for i := 0; i < n; i++ {
		r := rng.Fork()
		k := r.Intn(6)
		env := map[string]string{}
		var base []string
		for j := 0; j < k; j++ {
			name := fmt.Sprintf("V%d", j)
			val := Pick(r, []string{"1", "x", "", "a b"})
			env[name] = val
			base = append(base, name+"="+val)
		}
		caseKey := "VirtualOS env=" + strings.Join(base, ";") + " script: os.environ()"
		e.R.Case(caseKey, k >= 2)
		e.R.H("site_environ_vars", strconv.Itoa(k))
		seen := map[string]bool{}
		agree := true
		for rep := 0; rep < reps; rep++ {
			vos := ros.NewVirtualOS(context.Background(), ros.WithEnvironment(env))
			res, err := risor.Eval(context.Background(), "os.environ()", risor.WithOS(vos))
			if err != nil {
				e.R.Mismatch(caseKey, err.Error(), "a list", "os.environ() failed")
				agree = false
				break
			}
			var got []string
			for _, o := range res.(*object.List).Value() {
				got = append(got, o.(*object.String).Value())
			}
			p := c05_permTo(base, got)
			if p == nil || len(p) != len(base) {
				e.R.Mismatch(caseKey, strings.Join(got, ";"), "a permutation of the environment", "os.environ()")
				agree = false
				break
			}
			field := "-"
			if len(base) > 0 {
				field = strings.Join(base, ",")
			}
			want := e.O.Ask("C05", "visit", c05_permField(p), field)
			g := "-"
			if len(got) > 0 {
				g = strings.Join(got, ",")
			}
			if want != g {
				e.R.Mismatch(caseKey, g, want, "VirtualOS.Environ against inVisitingOrder")
				agree = false
				break
			}
			seen[g] = true
		}
		if len(seen) > 1 {
			finding := ""
			if k >= 2 && agree {
				finding = c05_fEnviron
			}
			e.R.Spec(caseKey, fmt.Sprintf("os.environ() returned %d different orders in %d evaluations", len(seen), reps), finding)
		}
	}
}

type c05S struct{}

func (c05S) F(m map[string]int) int { return len(m) }

type c05P struct {
	A int
	B int
	C int
}

func (c05S) G(p c05P) int { return p.A }

// c05SiteFirstFailure: loops that return the error of the first visited failing entry.
func c05SiteFirstFailure(e *Env, n, reps int) {
	rng := e.Rng.Fork()
	badDefaults := []string{"[1]", "[2]", "{1}", "-1", "1 + 1", "x"}
	// how ast.String() prints them inside the error message
	printed := map[string]string{"[1]": "[1]", "[2]": "[2]", "{1}": "{1}", "-1": "(-1)", "1 + 1": "(1 + 1)", "x": "x"}
	shown := func(param string) string {
		v := strings.SplitN(param, "=", 2)[1]
		if p, ok := printed[v]; ok {
			return p
		}
		return v
	}
	okDefaults := []string{"1", "\"s\"", "true", "nil", "2.5"}
	for i := 0; i < n; i++ {
		r := rng.Fork()
		// ---- compileFunc defaults
		k := 1 + r.Intn(4)
		var params, flags []string
		var bads []string
		for j := 0; j < k; j++ {
			if r.Chance(45) {
				b := badDefaults[(j+r.Intn(2))%len(badDefaults)]
				params = append(params, fmt.Sprintf("p%d=%s", j, b))
				flags = append(flags, fmt.Sprintf("e%d", j))
				bads = append(bads, b)
			} else {
				params = append(params, fmt.Sprintf("p%d=%s", j, Pick(r, okDefaults)))
				flags = append(flags, "ok")
			}
		}
		src := "x := 0\nfunc f(" + strings.Join(params, ", ") + ") { return 1 }\nf()\n"
		distinctBad := map[string]bool{}
		for _, b := range bads {
			distinctBad[b] = true
		}
		e.R.Case(src, len(bads) >= 1)
		e.R.H("site_defaults_bad", strconv.Itoa(len(bads)))
		seen := map[string]bool{}
		agree := true
		for rep := 0; rep < reps; rep++ {
			_, err := CompileSrc(src)
			got := "none"
			if err != nil {
				got = err.Error()
			}
			seen[got] = true
			// which entry does the error name?  put it first in the visiting order
			var perm []int
			reported := -1
			for j := range params {
				if flags[j] != "ok" && strings.Contains(got, "(got "+shown(params[j])+",") {
					reported = j
					break
				}
			}
			if reported >= 0 {
				perm = append(perm, reported)
			}
			for j := range params {
				if j != reported {
					perm = append(perm, j)
				}
			}
			want := e.O.Ask("C05", "firstFailure", c05_permField(perm), strings.Join(flags, ","))
			ok := (want == "none" && err == nil) || (reported >= 0 && flags[reported] == want) ||
				// two parameters with the same unsupported text are indistinguishable in the message
				(reported >= 0 && want != "none" && shown(params[reported]) == shown(params[func() int { v, _ := strconv.Atoi(want[1:]); return v }()]))
			if !ok {
				agree = false
				e.R.Mismatch(src, got, "first failure "+want, "compileFunc defaults against firstFailure")
				break
			}
		}
		if len(seen) > 1 {
			finding := ""
			if len(distinctBad) >= 2 && agree {
				finding = c05_fDefaults
			}
			e.R.Spec(src, fmt.Sprintf("compile error text varies: %d different messages in %d compilations", len(seen), reps), finding)
		}
	}
	// ---- conversions at the host boundary: a script map passed to a Go method
	type conv struct {
		src     string
		opts    func() []risor.Option
		nBadMsg int
	}
	cases := []conv{
		{`s.F({"a": 1})`, nil, 0},
		{`s.F({"a": "x"})`, nil, 1},
		{`m := {"a": 1}; m["b"] = 2; m["c"] = 3; s.F(m)`, nil, 0},
		{`m := {"a": "x"}; m["b"] = [1]; s.F(m)`, nil, 2},
		{`m := {"a": "x"}; m["b"] = "y"; s.F(m)`, nil, 1},
		{`m := {"A": "x"}; m["B"] = [1]; s.G(m)`, nil, 2},
		{`m := {"A": 1}; m["B"] = 2; m["C"] = 3; s.G(m)`, nil, 0},
		{`1`, func() []risor.Option {
			return []risor.Option{risor.WithGlobals(map[string]any{"ga": make(chan int), "gb": complex64(1)})}
		}, 2},
		{`1`, func() []risor.Option {
			return []risor.Option{risor.WithGlobals(map[string]any{"ga": make(chan int), "gb": 3})}
		}, 1},
		{`[ga, gb, gc]`, func() []risor.Option {
			return []risor.Option{risor.WithGlobals(map[string]any{"ga": 1, "gb": "x", "gc": []int{1, 2}})}
		}, 0},
	}
	for _, c := range cases {
		e.R.Case("conversion: "+c.src, true)
		e.R.H("site_conversion_failing_kinds", strconv.Itoa(c.nBadMsg))
		seen := map[string]bool{}
		for rep := 0; rep < reps*2; rep++ {
			opts := []risor.Option{risor.WithGlobal("s", c05S{})}
			if c.opts != nil {
				opts = c.opts()
			}
			out := EvalSrc(c.src, 5*time.Second, opts...)
			seen[out.Value+"|"+out.Err] = true
		}
		// Impl (firstFailure): one outcome when at most one kind of failure is present
		if c.nBadMsg <= 1 && len(seen) > 1 {
			e.R.Mismatch("conversion: "+c.src, fmt.Sprintf("%d outcomes", len(seen)), "1 outcome", "firstFailure with <= 1 failing kind")
		}
		if len(seen) > 1 {
			finding := ""
			if c.nBadMsg >= 2 {
				finding = c05_fConvert
			}
			var texts []string
			for s := range seen {
				texts = append(texts, s)
			}
			sort.Strings(texts)
			e.R.Spec("conversion: "+c.src, "error text varies: "+strings.Join(texts, " / "), finding)
		}
	}
}

func c05SiteOverrides(e *Env, n, reps int) {
	rng := e.Rng.Fork()
	attrs := []string{"abs", "sqrt", "min", "max", "pow"}
	for i := 0; i < n; i++ {
		r := rng.Fork()
		k := 1 + r.Intn(4)
		var entries []string
		valid := map[string]bool{}
		nBad, nOk := 0, 0
		for j := 0; j < k; j++ {
			if r.Chance(35) {
				entries = append(entries, attrs[j]+"=bad")
				nBad++
			} else {
				entries = append(entries, attrs[j]+"=ok")
				valid[attrs[j]] = true
				nOk++
			}
		}
		caseKey := "overrides math.{" + strings.Join(entries, ",") + "}"
		e.R.Case(caseKey, nBad > 0 && nOk > 0)
		e.R.H("site_overrides", fmt.Sprintf("bad=%d ok=%d", nBad, nOk))
		var probe []string
		for j := 0; j < k; j++ {
			probe = append(probe, "math."+attrs[j]+" == 777")
		}
		src := "[" + strings.Join(probe, ", ") + "]"
		seen := map[string]bool{}
		agree := true
		for rep := 0; rep < reps; rep++ {
			var opts []risor.Option
			for j := 0; j < k; j++ {
				if valid[attrs[j]] {
					opts = append(opts, risor.WithGlobalOverride("math."+attrs[j], 777))
				} else {
					opts = append(opts, risor.WithGlobalOverride("math."+attrs[j], make(chan int)))
				}
			}
			out := EvalSrc(src, 5*time.Second, opts...)
			if out.Err != "" || out.Obj == nil {
				e.R.Mismatch(caseKey, out.Err, "a list", "override probe failed")
				agree = false
				break
			}
			var applied []string
			for j, o := range out.Obj.(*object.List).Value() {
				if o == object.True {
					applied = append(applied, attrs[j])
				}
			}
			// a visiting order that explains it: applied ones, then an invalid one, then the rest
			var perm []int
			isApplied := map[string]bool{}
			for _, a := range applied {
				isApplied[a] = true
			}
			for j := 0; j < k; j++ {
				if isApplied[attrs[j]] {
					perm = append(perm, j)
				}
			}
			for j := 0; j < k; j++ {
				if !valid[attrs[j]] {
					perm = append(perm, j)
				}
			}
			for j := 0; j < k; j++ {
				if valid[attrs[j]] && !isApplied[attrs[j]] {
					perm = append(perm, j)
				}
			}
			want := e.O.Ask("C05", "overrides", c05_permField(perm), strings.Join(entries, ","))
			sort.Strings(applied)
			got := "-"
			if len(applied) > 0 {
				got = strings.Join(applied, ",")
			}
			if got != want {
				e.R.Mismatch(caseKey, got, want, "applyOverrides against the model")
				agree = false
				break
			}
			seen[got] = true
		}
		if len(seen) > 1 {
			finding := ""
			if nBad > 0 && nOk > 0 && agree {
				finding = c05_fOverrides
			}
			var sets []string
			for s := range seen {
				sets = append(sets, "{"+s+"}")
			}
			sort.Strings(sets)
			e.R.Spec(caseKey+" script: "+src, "the set of overrides that take effect varies: "+strings.Join(sets, " / "), finding)
		}
	}
}

func c05SiteMockFS(e *Env, reps int) {
	for _, k := range []int{0, 1, 2, 3, 5} {
		fs := ros.NewMockFS()
		fs.MkdirAll("/d", 0o755)
		var base []string
		for j := 0; j < k; j++ {
			name := fmt.Sprintf("/d/f%d.txt", j)
			fs.WriteFile(name, []byte("x"), 0o644)
			base = append(base, fmt.Sprintf("f%d.txt", j))
		}
		caseKey := fmt.Sprintf("MockFS with %d files in /d: ReadDir(\"/d\")", k)
		e.R.Case(caseKey, k >= 2)
		seen := map[string]bool{}
		agree := true
		for rep := 0; rep < reps; rep++ {
			ents, err := fs.ReadDir("/d")
			if err != nil {
				e.R.Note("MockFS.ReadDir: %v", err)
				agree = false
				break
			}
			var got []string
			for _, en := range ents {
				got = append(got, en.Name())
			}
			p := c05_permTo(base, got)
			if p == nil || len(p) != len(base) {
				agree = false
				e.R.Note("MockFS.ReadDir(\"/\") with files %v returned %v (not a permutation; not compared)", base, got)
				break
			}
			field := "-"
			if len(base) > 0 {
				field = strings.Join(base, ",")
			}
			want := e.O.Ask("C05", "visit", c05_permField(p), field)
			g := "-"
			if len(got) > 0 {
				g = strings.Join(got, ",")
			}
			if g != want {
				e.R.Mismatch(caseKey, g, want, "MockFS.ReadDir against inVisitingOrder")
				agree = false
				break
			}
			seen[g] = true
		}
		if len(seen) > 1 {
			finding := ""
			if k >= 2 && agree {
				finding = c05_fMockFS
			}
			e.R.Spec(caseKey, fmt.Sprintf("%d different entry orders in %d calls", len(seen), reps), finding)
		}
	}
}

// ------------------------------------------------------------------ stream D: configuration

func c05Config(e *Env, n, reps int) {
	rng := e.Rng.Fork()
	deny := []string{"os", "os.exit", "math", "math.abs", "exec", "strings.split", "print", "json.marshal", "os.environ"}
	for i := 0; i < n; i++ {
		r := rng.Fork()
		var picked []string
		for _, d := range deny {
			if r.Chance(40) {
				picked = append(picked, d)
			}
		}
		src := "[try(func() { return string(os.exit) }, \"E\"), try(func() { return string(math.abs) }, \"E\"), try(func() { return string(math.sqrt) }, \"E\"), try(func() { return string(strings.split) }, \"E\"), try(func() { return string(json.marshal) }, \"E\")]"
		caseKey := "WithoutGlobals(" + strings.Join(picked, ",") + ")"
		e.R.Case(caseKey, len(picked) >= 2)
		e.R.H("config_denylist_size", strconv.Itoa(len(picked)))
		seen := map[string]bool{}
		for rep := 0; rep < reps; rep++ {
			// option order is part of the input: keep it fixed, only the map order can vary
			cfg := risor.NewConfig(risor.WithoutGlobals(picked...))
			names := strings.Join(cfg.GlobalNames(), ",")
			out := EvalSrc(src, 5*time.Second, risor.WithoutGlobals(picked...))
			code := "-"
			if c, err := func() (c *compiler.Code, err error) {
				defer func() {
					if rec := recover(); rec != nil {
						err = fmt.Errorf("PANIC %v", rec)
					}
				}()
				prog, err := parser.Parse(context.Background(), src)
				if err != nil {
					return nil, err
				}
				return compiler.Compile(prog, cfg.CompilerOpts()...)
			}(); err == nil {
				code = CodeText(c)
			} else {
				code = err.Error()
			}
			seen[names+"|"+out.Value+"|"+out.Err+"|"+code] = true
		}
		if len(seen) > 1 {
			e.R.Spec(caseKey+" script: "+src, fmt.Sprintf("%d different (global names, result, bytecode) in %d runs", len(seen), reps), "")
		}
		// GlobalNames is sorted: compare with the model's collect-then-sort
		cfg := risor.NewConfig(risor.WithoutGlobals(picked...))
		names := cfg.GlobalNames()
		var raw []string
		for k := range cfg.Globals() {
			raw = append(raw, k)
		}
		if want := e.O.Ask("C05", "sortedKeys", c05_hexList(raw)); want != c05_hexList(names) {
			e.R.Mismatch(caseKey, c05_hexList(names), want, "Config.GlobalNames against sortedKeys")
		}
	}
}

// ------------------------------------------------------------------ driver

func c05_runC05(e *Env) {
	e.R.Rule = "A: fragment programs (literals, globals, +, list/map/set literals with duplicate keys and print() side effects inside entries, " +
		"index, print) run on the real compiler/VM and on the Lean Impl model under every adversary annotation; B: programs from the shared " +
		"generator behind a prelude of map/set construction, iteration, printing, method results, default arguments, compiled and evaluated " +
		"repeatedly in-process and in fresh child processes; C: site probes (sorted keys/set items, VirtualOS.Environ, first-failure loops, " +
		"applyOverrides, MockFS.ReadDir) against the Lean site-class models; D: denylist configurations. A case is one program / one probe input; " +
		"distinct by its text; non-trivial when it contains a map/set literal, a default argument or a map/set iteration (all A and B programs do), " +
		"or, for probes, when the map has >= 2 entries. 7 of 8 programs stay inside the guard NoBigMap."
	nFrag, nGen, reps, kids, nSite := 500, 160, 8, 4, 150
	if !e.Quick {
		nFrag, nGen, reps, kids, nSite = 6000, 1500, 64, 16, 1500
	}
	c05Fragments(e, nFrag, reps)
	c05General(e, nGen, reps, kids)
	c05SiteSorted(e, nSite)
	c05SiteEnviron(e, nSite/3, reps*2)
	c05SiteFirstFailure(e, nSite/3, reps*2)
	c05SiteOverrides(e, nSite/5, reps*2)
	c05SiteMockFS(e, reps*4)
	c05Config(e, nSite/10, reps)
}
