package main

// C18 — layer 7 sessions: top-level BLOCK-scoped declarations that shadow top-level names (see c18imp.go's header).

import (
	"fmt"
	"strconv"
	"strings"
)

type shX struct {
	k    byte // L literal, V variable, + addition
	v    int
	name string
	slot int
	a, b *shX
}

func (x *shX) src() string {
	switch x.k {
	case 'L':
		return strconv.Itoa(x.v)
	case 'V':
		return x.name
	}
	r := x.b.src()
	if x.b.k == '+' {
		r = "(" + r + ")"
	}
	return x.a.src() + " + " + r
}

func (x *shX) tok() string {
	switch x.k {
	case 'L':
		return "L" + strconv.Itoa(x.v)
	case 'V':
		return "S" + strconv.Itoa(x.slot)
	}
	return "+," + x.a.tok() + "," + x.b.tok()
}

func (x *shX) vars(f func(*shX)) {
	if x == nil {
		return
	}
	if x.k == 'V' {
		f(x)
	}
	x.a.vars(f)
	x.b.vars(f)
}

type shS struct {
	k          byte // d `n := e`  a `n = e`  p `n += e`  x `e`  F for-3  I if  W switch  R range  c function literal + call
	name       string
	slot       int
	e          *shX
	lo, hi     int
	cond       bool
	body, els  []*shS
	hasElse    bool
	val        int
	cases      []int
	blocks     [][]*shS
	def        []*shS
	hasDef     bool
	items      []int
	uslot      int
	fname      string
	fslot      int
	tk         byte // c: d `n := f()`  a `n = f()`  x `f()`
	declsAdded []string
}

func shIndent(d int) string { return strings.Repeat("  ", d) }

func shBlockSrc(ss []*shS, d int) string {
	var sb strings.Builder
	for _, s := range ss {
		sb.WriteString(s.src(d))
		sb.WriteByte('\n')
	}
	return sb.String()
}

func (s *shS) src(d int) string {
	in := shIndent(d)
	switch s.k {
	case 'd':
		return in + s.name + " := " + s.e.src()
	case 'a':
		return in + s.name + " = " + s.e.src()
	case 'p':
		return in + s.name + " += " + s.e.src()
	case 'x':
		return in + s.e.src()
	case 'F':
		return fmt.Sprintf("%sfor %s := %d; %s < %d; %s++ {\n%s%s}", in, s.name, s.lo, s.name, s.hi, s.name, shBlockSrc(s.body, d+1), in)
	case 'I':
		c := "2 < 1"
		if s.cond {
			c = "1 < 2"
		}
		out := fmt.Sprintf("%sif %s {\n%s%s}", in, c, shBlockSrc(s.body, d+1), in)
		if s.hasElse {
			out += fmt.Sprintf(" else {\n%s%s}", shBlockSrc(s.els, d+1), in)
		}
		return out
	case 'W':
		var sb strings.Builder
		fmt.Fprintf(&sb, "%sswitch %d {\n", in, s.val)
		for i, c := range s.cases {
			fmt.Fprintf(&sb, "%scase %d:\n%s", in, c, shBlockSrc(s.blocks[i], d+1))
		}
		if s.hasDef {
			fmt.Fprintf(&sb, "%sdefault:\n%s", in, shBlockSrc(s.def, d+1))
		}
		sb.WriteString(in + "}")
		return sb.String()
	case 'R':
		var it []string
		for _, v := range s.items {
			it = append(it, strconv.Itoa(v))
		}
		return fmt.Sprintf("%sfor _, %s := range [%s] {\n%s%s}", in, s.name, strings.Join(it, ", "), shBlockSrc(s.body, d+1), in)
	}
	out := fmt.Sprintf("%s%s := func() { return %s }\n%s", in, s.fname, s.e.src(), in)
	switch s.tk {
	case 'd':
		return out + s.name + " := " + s.fname + "()"
	case 'a':
		return out + s.name + " = " + s.fname + "()"
	}
	return out + s.fname + "()"
}

// ---- the root symbol table as the compiler builds it: every declaration claims the next index, also in blocks

type shScope struct {
	parent *shScope
	m      map[string]int
	loop   map[string]bool // loop variables: never assigned to by the generated bodies
}

func shChild(p *shScope) *shScope { return &shScope{parent: p, m: map[string]int{}, loop: map[string]bool{}} }

func (sc *shScope) lookup(name string) (int, bool, bool) {
	for s := sc; s != nil; s = s.parent {
		if i, ok := s.m[name]; ok {
			return i, s.loop[name], true
		}
	}
	return 0, false, false
}

type shComp struct{ table []string }

func (c *shComp) claim(sc *shScope, name string) int {
	idx := len(c.table)
	c.table = append(c.table, name)
	sc.m[name] = idx
	return idx
}

func (c *shComp) expr(sc *shScope, x *shX) {
	x.vars(func(v *shX) {
		i, _, ok := sc.lookup(v.name)
		if !ok {
			panic("c18 shadow generator: unresolved name " + v.name)
		}
		v.slot = i
	})
}

func (c *shComp) block(sc *shScope, ss []*shS) {
	b := shChild(sc)
	for _, s := range ss {
		c.stmt(b, s)
	}
}

func (c *shComp) stmt(sc *shScope, s *shS) {
	switch s.k {
	case 'd':
		c.expr(sc, s.e)
		s.slot = c.claim(sc, s.name)
	case 'a', 'p':
		s.slot, _, _ = sc.lookup(s.name)
		c.expr(sc, s.e)
	case 'x':
		c.expr(sc, s.e)
	case 'F':
		h := shChild(sc)
		s.slot = c.claim(h, s.name)
		h.loop[s.name] = true
		c.block(h, s.body)
	case 'I':
		c.block(sc, s.body)
		if s.hasElse {
			c.block(sc, s.els)
		}
	case 'W':
		for _, b := range s.blocks {
			c.block(sc, b)
		}
		if s.hasDef {
			c.block(sc, s.def)
		}
	case 'R':
		h := shChild(sc)
		s.uslot = c.claim(h, "_")
		s.slot = c.claim(h, s.name)
		h.loop[s.name], h.loop["_"] = true, true
		c.block(h, s.body)
	case 'c':
		c.expr(sc, s.e)
		s.fslot = c.claim(sc, s.fname)
		switch s.tk {
		case 'd':
			s.slot = c.claim(sc, s.name)
		case 'a':
			s.slot, _, _ = sc.lookup(s.name)
		}
	}
}

// ---- what the statements do, as straight-line slot statements (constant loops unrolled, constant branches chosen)

type shEmit struct{ out []string }

func (em *shEmit) set(slot int, e string) { em.out = append(em.out, "s"+strconv.Itoa(slot)+"="+e) }

func (em *shEmit) run(ss []*shS) {
	for _, s := range ss {
		em.stmt(s)
	}
}

func (em *shEmit) stmt(s *shS) {
	sl := func(i int) string { return "S" + strconv.Itoa(i) }
	switch s.k {
	case 'd', 'a':
		em.set(s.slot, s.e.tok())
	case 'p':
		em.set(s.slot, "+,"+sl(s.slot)+","+s.e.tok())
	case 'x':
		em.out = append(em.out, "x"+s.e.tok())
	case 'F':
		em.set(s.slot, "L"+strconv.Itoa(s.lo))
		for i := s.lo; i < s.hi; i++ {
			em.run(s.body)
			em.set(s.slot, "+,"+sl(s.slot)+",L1")
		}
	case 'I':
		if s.cond {
			em.run(s.body)
		} else if s.hasElse {
			em.run(s.els)
		}
	case 'W':
		for i, c := range s.cases {
			if c == s.val {
				em.run(s.blocks[i])
				return
			}
		}
		if s.hasDef {
			em.run(s.def)
		}
	case 'R':
		for i, it := range s.items {
			em.set(s.uslot, "L"+strconv.Itoa(i))
			em.set(s.slot, "L"+strconv.Itoa(it))
			em.run(s.body)
		}
	case 'c':
		em.set(s.fslot, "L0") // the function object: a stand-in, never compared
		switch s.tk {
		case 'd', 'a':
			em.set(s.slot, s.e.tok())
		default:
			em.out = append(em.out, "x"+s.e.tok())
		}
	}
}

// ---- generator

type shGen struct {
	r     *RNG
	pool  []string // top-level names
	nf    int
	nt    int
	depth int
}

func (g *shGen) expr(sc *shScope, d int) *shX {
	var visible []string
	seen := map[string]bool{}
	for s := sc; s != nil; s = s.parent {
		for n := range s.m {
			if !seen[n] && n != "_" && !strings.HasPrefix(n, "zfn") {
				seen[n] = true
			}
		}
	}
	for _, n := range sortedKeys(seen) {
		visible = append(visible, n)
	}
	switch c := g.r.Intn(10); {
	case c < 5 && len(visible) > 0:
		return &shX{k: 'V', name: Pick(g.r, visible)}
	case c < 8 && d > 0 && len(visible) > 0:
		return &shX{k: '+', a: &shX{k: 'V', name: Pick(g.r, visible)}, b: g.expr(sc, d-1)}
	}
	return &shX{k: 'L', v: Pick(g.r, []int{0, 1, 2, 3, 5, 7, 10, 40, 100, 1000})}
}

// assignable names: visible, not a loop variable, not a function
func (g *shGen) assignable(sc *shScope) []string {
	seen := map[string]bool{}
	var out []string
	for s := sc; s != nil; s = s.parent {
		for _, n := range sortedKeys(s.m) {
			if seen[n] {
				continue
			}
			seen[n] = true
			if !s.loop[n] && n != "_" && !strings.HasPrefix(n, "zfn") {
				out = append(out, n)
			}
		}
	}
	return out
}

// a name to declare in scope sc: mostly one that is (or will be) a top-level name — the shadowing the sessions are about
func (g *shGen) declName(sc *shScope) (string, bool) {
	var cands []string
	for _, n := range g.pool {
		if _, own := sc.m[n]; !own {
			cands = append(cands, n)
		}
	}
	if len(cands) == 0 || g.r.Chance(15) {
		g.nt++
		return "zt" + strconv.Itoa(g.nt), true
	}
	return Pick(g.r, cands), true
}

// block generates the statements of a block whose scope is a child of sc; the scope bookkeeping mirrors shComp
func (g *shGen) block(sc *shScope, d int) []*shS {
	b := shChild(sc)
	var out []*shS
	for i, n := 0, 1+g.r.Intn(3); i < n; i++ {
		out = append(out, g.stmt(b, d, false))
	}
	return out
}

func (g *shGen) stmt(sc *shScope, d int, top bool) *shS {
	asg := g.assignable(sc)
	for {
		switch c := g.r.Intn(20); {
		case c < 5: // declaration
			if top {
				var cands []string
				for _, n := range g.pool {
					if _, own := sc.m[n]; !own {
						cands = append(cands, n)
					}
				}
				if len(cands) == 0 {
					continue
				}
				s := &shS{k: 'd', name: Pick(g.r, cands)}
				s.e = g.expr(sc, 1)
				sc.m[s.name] = -1
				return s
			}
			name, _ := g.declName(sc)
			s := &shS{k: 'd', name: name}
			s.e = g.expr(sc, 1)
			sc.m[name] = -1
			return s
		case c < 8 && len(asg) > 0:
			return &shS{k: Pick(g.r, []byte{'a', 'p'}), name: Pick(g.r, asg), e: g.expr(sc, 1)}
		case c < 10:
			return &shS{k: 'x', e: g.expr(sc, 2)}
		case c < 13 && d > 0: // for-3: the header variable mostly shadows
			name, _ := g.declName(shChild(sc))
			s := &shS{k: 'F', name: name, lo: g.r.Intn(3)}
			s.hi = s.lo + g.r.Intn(4)
			h := shChild(sc)
			h.m[name], h.loop[name] = -1, true
			s.body = g.block(h, d-1)
			return s
		case c < 15 && d > 0:
			s := &shS{k: 'I', cond: g.r.Chance(70), hasElse: g.r.Chance(40)}
			s.body = g.block(sc, d-1)
			if s.hasElse {
				s.els = g.block(sc, d-1)
			}
			return s
		case c < 16 && d > 0:
			s := &shS{k: 'W', val: g.r.Intn(3), hasDef: g.r.Chance(60)}
			for k, n := 0, 1+g.r.Intn(2); k < n; k++ {
				s.cases = append(s.cases, k)
				s.blocks = append(s.blocks, g.block(sc, d-1))
			}
			if s.hasDef {
				s.def = g.block(sc, d-1)
			}
			return s
		case c < 18 && d > 0:
			name, _ := g.declName(shChild(sc))
			s := &shS{k: 'R', name: name}
			for k, n := 0, g.r.Intn(4); k < n; k++ {
				s.items = append(s.items, g.r.Intn(50))
			}
			h := shChild(sc)
			h.m["_"], h.m[name] = -1, -1
			h.loop["_"], h.loop[name] = true, true
			s.body = g.block(h, d-1)
			return s
		case c < 20:
			g.nf++
			s := &shS{k: 'c', fname: "zfn" + strconv.Itoa(g.nf), e: g.expr(sc, 1), tk: 'x'}
			if len(asg) > 0 && g.r.Chance(60) {
				s.tk, s.name = 'a', Pick(g.r, asg)
			}
			sc.m[s.fname] = -1
			return s
		}
	}
}

type shSession struct {
	stmts []*shS
	table []string
	tag   string
}

// c18ShadowResolve assigns slots; per top-level statement the names of the slots it adds.
func (s *shSession) resolve() {
	c := &shComp{}
	root := shChild(nil)
	for _, st := range s.stmts {
		before := len(c.table)
		c.stmt(root, st)
		st.declsAdded = append([]string{}, c.table[before:]...)
	}
	s.table = c.table
}

func c18GenShadow(r *RNG) *shSession {
	g := &shGen{r: r, pool: []string{"za", "zb", "zc"}[:2+r.Intn(2)]}
	root := shChild(nil)
	s := &shSession{tag: "random program"}
	// the first statement declares a top-level name; the others are declared somewhere along the way (possibly after a block
	// has declared its own variable of that name)
	first := &shS{k: 'd', name: g.pool[0], e: &shX{k: 'L', v: 100 + r.Intn(900)}}
	root.m[first.name] = -1
	s.stmts = append(s.stmts, first)
	for i, n := 0, 3+r.Intn(4); i < n; i++ {
		s.stmts = append(s.stmts, g.stmt(root, 2, true))
	}
	// every top-level name is read at the end
	var reads *shX
	for _, n := range g.pool {
		if _, ok := root.m[n]; !ok {
			continue
		}
		v := &shX{k: 'V', name: n}
		if reads == nil {
			reads = v
		} else {
			reads = &shX{k: '+', a: v, b: &shX{k: '+', a: reads, b: &shX{k: 'L', v: 0}}}
		}
	}
	s.stmts = append(s.stmts, &shS{k: 'x', e: reads})
	return s
}

// the model's name numbers: position of the name in the sorted set of names of the table
func shNameNumbers(table []string) map[string]int {
	set := map[string]bool{}
	for _, n := range table {
		set[n] = true
	}
	m := map[string]int{}
	for i, n := range sortedKeys(set) {
		m[n] = i
	}
	return m
}

func c18RunShadow(e *Env, env *c18Env, s *shSession, cuts []int, extra map[int]string) {
	num := shNameNumbers(s.table)
	var pieces [][]*shS
	start := 0
	for _, c := range append(append([]int{}, cuts...), len(s.stmts)) {
		if c > start {
			pieces = append(pieces, s.stmts[start:c])
			start = c
		}
	}
	var srcs, expect, model []string
	var modelIdx []int
	var lastExpr []bool
	var tableLen []int // per real piece: length of the table after it
	tl := 0
	for i, p := range pieces {
		var ss, decls []string
		em := &shEmit{}
		for _, st := range p {
			ss = append(ss, st.src(0))
			for _, d := range st.declsAdded {
				decls = append(decls, strconv.Itoa(num[d]))
			}
			tl += len(st.declsAdded)
			em.stmt(st)
		}
		ds, ms := "-", "-"
		if len(decls) > 0 {
			ds = strings.Join(decls, ".")
		}
		if len(em.out) > 0 {
			ms = strings.Join(em.out, ";")
		}
		srcs, expect, lastExpr, tableLen = append(srcs, strings.Join(ss, "\n")), append(expect, ""), append(lastExpr, p[len(p)-1].k == 'x'), append(tableLen, tl)
		modelIdx = append(modelIdx, len(model))
		model = append(model, ds+"@"+ms)
		switch extra[i] {
		case "F2":
			srcs, expect, lastExpr, tableLen = append(srcs, "[1][5]"), append(expect, "fail"), append(lastExpr, false), append(tableLen, tl)
			modelIdx = append(modelIdx, len(model))
			model = append(model, "-@-")
		case "RU":
			srcs, expect, lastExpr, tableLen = append(srcs, "undefined_zq"), append(expect, "compile"), append(lastExpr, false), append(tableLen, tl)
			modelIdx = append(modelIdx, -1)
		case "PX":
			srcs, expect, lastExpr, tableLen = append(srcs, "za := := 1"), append(expect, "parse"), append(lastExpr, false), append(tableLen, tl)
			modelIdx = append(modelIdx, -1)
		}
	}
	text := "shadowing session\n" + strings.Join(srcs, "\n----\n")
	rep := strings.Split(e.O.Ask("C18", "slots", "-", "-", strings.Join(model, "|")), "\t")
	if len(rep) != 6 || rep[0] != "ok" {
		e.R.Case(text, false)
		e.R.Mismatch(text, strings.Join(model, "|"), strings.Join(rep, " "), "oracle did not answer the slots request")
		return
	}
	sensitive := rep[1] != rep[3]
	repeated := len(num) < len(s.table)
	e.R.Case(text, len(srcs) >= 2 && repeated)
	e.R.H("history_kind", "shadowing: "+s.tag)
	if repeated {
		e.R.H("shadow_sessions", "the root table has repeated names")
	} else {
		e.R.H("shadow_sessions", "all names of the root table distinct")
	}
	if sensitive {
		e.R.H("shadow_sessions", "a by-name carry-over at the piece boundaries would show (Lean contrast reloadByName differs)")
	}
	if rep[5] != "1" {
		e.R.Mismatch(text, strings.Join(model, "|"), "scopedFrom = false", "the harness's slot program addresses a slot outside the table (hypothesis of reload_preserves_slots)")
	}
	// names compared through vm.Get: every top-level pool name and block-only name
	var names []string
	for _, n := range sortedKeys(num) {
		if n != "_" && !strings.HasPrefix(n, "zfn") {
			names = append(names, n)
		}
	}
	env.recNames = true
	real, whole, _ := c18VsWhole(e, env, text, srcs, expect, names)
	env.recNames = false
	nHost := len(env.host)
	parse := func(f string) (arrs [][]string, vals [][]string) {
		for _, p := range strings.Split(f, "|") {
			q := strings.SplitN(p, "/", 2)
			var a, v []string
			if q[0] != "-" {
				a = strings.Split(q[0], ".")
			}
			if len(q) > 1 && q[1] != "-" {
				v = strings.Split(q[1], ".")
			}
			arrs, vals = append(arrs, a), append(vals, v)
		}
		return
	}
	ia, iv := parse(rep[1])
	sa, sv := parse(rep[2])
	byName := func(arr []string, upto int, name string) string { // vm.Get: the first slot with that name
		for i := 0; i < upto && i < len(s.table); i++ {
			if s.table[i] == name {
				if i < len(arr) && arr[i] != "n" {
					return arr[i]
				}
				return ""
			}
		}
		return ""
	}
	mismatch, specDiff := "", ""
	cur := -1
	for i, r := range real {
		if expect[i] != "" && r.Class != expect[i] || expect[i] == "" && r.Class != "ok" {
			break
		}
		if modelIdx[i] >= 0 {
			cur = modelIdx[i]
		}
		if cur < 0 {
			continue
		}
		// the root symbol table, slot by slot
		if r.GNames != nil && mismatch == "" {
			got := r.GNames
			if len(got) >= nHost {
				got = got[nHost:]
			}
			if strings.Join(got, " ") != strings.Join(s.table[:tableLen[i]], " ") {
				mismatch = fmt.Sprintf("piece %d: the root symbol table after the host's names is [%s], the model's [%s]", i, strings.Join(got, " "),
					strings.Join(s.table[:tableLen[i]], " "))
			}
		}
		for which := 0; which < 2; which++ {
			arr, vals := ia[cur], iv[cur]
			if which == 1 {
				arr, vals = sa[cur], sv[cur]
			}
			diff := ""
			if r.Class == "ok" && lastExpr[i] && len(vals) > 0 && r.Value != vals[len(vals)-1] {
				diff = fmt.Sprintf("piece %d `%s`: value %s, expected %s", i, c18OneLine(srcs[i]), r.Value, vals[len(vals)-1])
			}
			if diff == "" {
				for _, n := range names {
					want := byName(arr, tableLen[i], n)
					if got := r.Globals[n]; got != want {
						diff = fmt.Sprintf("piece %d: global %s = %s (vm.Get), expected %s", i, n, c18_orUndef(got), c18_orUndef(want))
						break
					}
				}
			}
			if diff != "" {
				if which == 0 && mismatch == "" {
					mismatch = diff
				}
				if which == 1 && specDiff == "" {
					specDiff = diff + " (the concatenated program up to this piece)"
				}
			}
		}
	}
	if mismatch != "" {
		e.R.Mismatch(text, mismatch, rep[1], "real session vs Lean slot model (slotRun reloadBySlot, reload_preserves_slots)")
	}
	if specDiff != "" {
		e.R.Spec(text, specDiff, "")
		e.R.H("shadow_spec", "violated")
	} else {
		e.R.H("shadow_spec", "holds")
	}
	if whole != nil && whole.Class == "ok" && len(sa) > 0 {
		fa := sa[len(sa)-1]
		for _, n := range names {
			if got, want := whole.Globals[n], byName(fa, len(s.table), n); got != want {
				e.R.Mismatch(text, fmt.Sprintf("whole program: %s = %s", n, c18_orUndef(got)), c18_orUndef(want), "real whole-program evaluation vs the slot model's Spec")
				break
			}
		}
	}
}

// directed programs (the seeded shapes and their relatives), each under every partition
func c18ShadowDirected() []*shSession {
	L := func(v int) *shX { return &shX{k: 'L', v: v} }
	V := func(n string) *shX { return &shX{k: 'V', name: n} }
	add := func(a, b *shX) *shX { return &shX{k: '+', a: a, b: b} }
	d := func(n string, e *shX) *shS { return &shS{k: 'd', name: n, e: e} }
	a := func(n string, e *shX) *shS { return &shS{k: 'a', name: n, e: e} }
	p := func(n string, e *shX) *shS { return &shS{k: 'p', name: n, e: e} }
	x := func(e *shX) *shS { return &shS{k: 'x', e: e} }
	mk := func(tag string, ss ...*shS) *shSession { return &shSession{stmts: ss, tag: "directed: " + tag} }
	return []*shSession{
		mk("for header shadows a top-level variable",
			d("za", L(100)), d("zb", L(0)), &shS{k: 'F', name: "za", lo: 0, hi: 3, body: []*shS{p("zb", V("za"))}}, d("zc", V("za")), x(add(V("za"), V("zb")))),
		mk("if body shadows a top-level variable",
			d("za", L(7)), &shS{k: 'I', cond: true, body: []*shS{d("za", L(40)), d("zb", V("za"))}}, d("zb", V("za")), x(V("zb"))),
		mk("else body and a branch that is not taken",
			d("za", L(7)), &shS{k: 'I', cond: false, hasElse: true, body: []*shS{d("za", L(1))}, els: []*shS{d("za", L(2)), p("za", L(1))}}, x(V("za")), a("za", add(V("za"), L(1))), x(V("za"))),
		mk("switch case body shadows",
			d("za", L(5)), &shS{k: 'W', val: 1, cases: []int{0, 1}, blocks: [][]*shS{{d("za", L(10))}, {d("za", L(20)), p("za", L(2))}}, hasDef: true, def: []*shS{d("za", L(30))}}, x(V("za"))),
		mk("range variable shadows",
			d("za", L(9)), d("zb", L(0)), &shS{k: 'R', name: "za", items: []int{4, 5, 6}, body: []*shS{p("zb", V("za"))}}, x(add(V("za"), V("zb")))),
		mk("nested: for header, body and an inner if all declare the name",
			d("za", L(1000)), &shS{k: 'F', name: "za", lo: 1, hi: 3, body: []*shS{d("za", add(V("za"), L(10))), &shS{k: 'I', cond: true, body: []*shS{d("za", add(V("za"), L(100))), p("za", L(1))}}}}, x(V("za")), p("za", L(1)), x(V("za"))),
		mk("the block comes first, the top-level declaration later",
			d("zb", L(3)), &shS{k: 'I', cond: true, body: []*shS{d("za", L(50)), p("zb", V("za"))}}, d("za", L(8)), x(add(V("za"), V("zb"))), a("za", L(9)), x(V("za"))),
		mk("read through a function after the block",
			d("za", L(11)), &shS{k: 'F', name: "za", lo: 0, hi: 2, body: []*shS{x(V("za"))}}, &shS{k: 'c', fname: "zfn1", e: add(V("za"), L(1)), tk: 'x'}, &shS{k: 'c', fname: "zfn2", e: V("za"), tk: 'a', name: "za"}, x(V("za"))),
		mk("two blocks declare the same name, the outer one is assigned in between",
			d("za", L(1)), &shS{k: 'I', cond: true, body: []*shS{d("za", L(2))}}, a("za", L(3)), &shS{k: 'F', name: "za", lo: 5, hi: 7, body: []*shS{x(V("za"))}}, x(V("za")), p("za", L(10)), x(V("za"))),
	}
}

func c18Shadow(e *Env, env *c18Env) {
	run := func(s *shSession, maxParts int, r *RNG) {
		s.resolve()
		all := c18AllCuts(len(s.stmts))
		if len(all) > maxParts {
			sel := [][]int{all[0], all[len(all)-1]}
			for len(sel) < maxParts {
				sel = append(sel, all[r.Intn(len(all))])
			}
			all = sel
		}
		for _, cuts := range all {
			extra := map[int]string{}
			if r.Chance(15) {
				for j := 0; j <= len(cuts); j++ {
					if r.Chance(30) {
						extra[j] = Pick(r, []string{"F2", "RU", "PX"})
					}
				}
			}
			c18RunShadow(e, env, s, cuts, extra)
		}
	}
	r := e.Rng.Fork()
	for _, s := range c18ShadowDirected() {
		run(s, 64, r)
	}
	n, parts := 250, 12
	if !e.Quick {
		n, parts = 3000, 24
	}
	for i := 0; i < n; i++ {
		run(c18GenShadow(r.Fork()), parts, r)
	}
	// a host-supplied name shadowed inside a top-level block: the builtin must be the builtin in every later piece
	// (no slot model: the incremental run against the whole program, every host-supplied global compared)
	for _, prog := range [][]string{
		{"za := 1", "if 1 < 2 {\n  len := 3\n  za = len\n}", "zb := len([1, 2])", "[za, zb]"},
		{"za := 0", "for math := 0; math < 3; math++ {\n  za += math\n}", "zb := math.abs(-2)", "[za, zb]"},
		{"for _, string := range [1, 2] {\n  print(string)\n}", "za := string(5)", "za"},
		{"za := 1", "switch za {\ncase 1:\n  keys := 9\n  za = keys\n}", "zb := keys({\"a\": 1})", "[za, zb]"},
	} {
		for _, cuts := range c18AllCuts(len(prog)) {
			var srcs []string
			start := 0
			for _, c := range append(append([]int{}, cuts...), len(prog)) {
				srcs = append(srcs, strings.Join(prog[start:c], "\n"))
				start = c
			}
			text := "shadowing session (a host-supplied name declared inside a top-level block)\n" + strings.Join(srcs, "\n----\n")
			e.R.Case(text, len(srcs) >= 2)
			e.R.H("history_kind", "shadowing: a host-supplied name declared inside a top-level block")
			c18VsWhole(e, env, text, srcs, nil, []string{"za", "zb"})
		}
	}
}
