package main

// C14, stream 4 "session": SEVERAL EVALUATIONS THAT SHARE ONE IMPORTER.
//
// importer.NewLocalImporter / NewFSImporter are documented as safe to share between VMs and
// evaluations.  A session is 1-3 evaluations (each its own script, its own VM, its own tick/turn
// builtins) over one module tree and ONE importer instance, with overlapping lifetimes: every
// evaluation runs in its own goroutine and hands control back to a scheduler at the turn() calls
// the generator puts between the segments of its script, so the schedule (which evaluation runs
// its next statements) is exactly the generated one — nested (a host builtin that runs a plugin
// script to its end), alternating, or one after the other with the first VM still alive.
//
// Compared with the Lean model (`C14.session`: `sess` request): outcome and body executions PER
// EVALUATION, the files the shared importer opened, and for every evaluation the complete module
// state reachable from its script in BOTH views — attributes (`alias.x`, Module.GetAttr: the array
// the module object is bound to) and functions (`alias.get_x()`, run by vm.Call on the
// evaluation's VM: the array that VM has loaded for the module's code) — with module-object and
// code-object identities numbered across the whole session.
// Spec on the real results: (a) every evaluation of the plain fragment sees exactly what the
// reference semantics gives for it ALONE (`other_evaluations_untouched`), (b) the two views of every
// reachable module agree (`module_views_agree`), (c) no module object is reachable from two
// evaluations (`evaluations_share_nothing`).

import (
	"context"
	"fmt"
	"os"
	"path/filepath"
	"strconv"
	"strings"
	"sync"
	"testing/fstest"
	"time"

	"github.com/risor-io/risor"
	"github.com/risor-io/risor/compiler"
	"github.com/risor-io/risor/importer"
	"github.com/risor-io/risor/object"
	"github.com/risor-io/risor/parser"
	"github.com/risor-io/risor/vm"
)

type c14Sess struct {
	Files []c14File
	Mains [][]c14Stmt
	Sched []int // evaluation of every scheduled statement, in order (each evaluation's statements in script order)
	Shape string
}

func (p *c14Sess) prog(e int) *c14Prog {
	return &c14Prog{Files: p.Files, Main: p.Mains[e], Kind: "session"}
}

// turn() goes in front of statement k of evaluation e when the statement scheduled before it
// belongs to another evaluation (k > 0)
func (p *c14Sess) turns() []map[int]bool {
	out := make([]map[int]bool, len(p.Mains))
	next := make([]int, len(p.Mains))
	for i := range out {
		out[i] = map[int]bool{}
	}
	prev := -1
	for _, e := range p.Sched {
		if prev != e && next[e] > 0 {
			out[e][next[e]] = true
		}
		next[e]++
		prev = e
	}
	return out
}

// the segments of the schedule: (evaluation, number of statements)
func (p *c14Sess) segments() [][2]int {
	var segs [][2]int
	for _, e := range p.Sched {
		if n := len(segs); n > 0 && segs[n-1][0] == e {
			segs[n-1][1]++
		} else {
			segs = append(segs, [2]int{e, 1})
		}
	}
	return segs
}

func (p *c14Sess) text() string {
	var b strings.Builder
	tb := p.turns()
	for e, m := range p.Mains {
		fmt.Fprintf(&b, "evaluation %d:\n%s", e, c14RenderT("", m, tb[e]))
	}
	segs := p.segments()
	ss := make([]string, len(segs))
	for i, s := range segs {
		ss[i] = fmt.Sprintf("%d*%d", s[0], s[1])
	}
	b.WriteString("schedule (evaluation*statements): " + strings.Join(ss, " ") + "\n")
	for _, f := range p.Files {
		b.WriteString("--- root/" + f.Name + f.Ext + ":\n" + c14Render(f.loc(), f.Body))
	}
	return b.String()
}

// ---- generator

// a script in the style of a host application's plugin: imports modules of the tree under aliases,
// changes their state through the aliases (module functions), imports again
func (g *c14Gen) sessMain(mods []string, plain bool) []c14Stmt {
	r := g.rng
	main := []c14Stmt{{Kind: "set", Var: "x", Val: g.val()}, {Kind: "set", Var: "y", Val: g.val()}}
	aliases := append([]string{}, c14TwinAliases...)
	for i := len(aliases) - 1; i > 0; i-- {
		j := r.Intn(i + 1)
		aliases[i], aliases[j] = aliases[j], aliases[i]
	}
	var bound []string
	nextAlias := func() string {
		al := aliases[0]
		aliases = append(aliases[1:], al)
		return al
	}
	mutate := func(k int) {
		for j := 0; j < k && len(bound) > 0; j++ {
			al := Pick(r, bound)
			switch r.Intn(4) {
			case 0:
				main = append(main, c14Stmt{Kind: "via", Alias: al, Var: Pick(r, c14Vars), Val: g.val()})
			case 1:
				main = append(main, c14Stmt{Kind: "push", Alias: al, Var: c14List, Val: g.val()})
			default:
				main = append(main, c14Stmt{Kind: "add", Alias: al, Var: c14Counter, Val: 1 + r.Intn(9)})
			}
		}
	}
	importOne := func(nm string) {
		al := nextAlias()
		if i := strings.LastIndexByte(nm, '/'); i > 0 && r.Chance(35) {
			main = append(main, c14Stmt{Kind: "from", Name: nm[:i], Items: [][2]string{{nm[i+1:], al}}, Quoted: r.Chance(40), Grouped: r.Chance(20)})
		} else {
			main = append(main, c14Stmt{Kind: "imp", Name: nm, Alias: al, Quoted: r.Chance(40)})
		}
		bound = append(bound, al)
	}
	k := 1 + r.Intn(3)
	for i := 0; i < k; i++ {
		importOne(Pick(r, mods))
		mutate(r.Intn(3))
	}
	mutate(1 + r.Intn(3))
	if r.Chance(40) {
		importOne(Pick(r, mods))
		mutate(1 + r.Intn(2))
	}
	if !plain {
		at := 2 + r.Intn(len(main)-1)
		var extra c14Stmt
		switch r.Intn(4) {
		case 0:
			extra = c14Stmt{Kind: "try", Name: Pick(r, mods)}
		case 1:
			extra = c14Stmt{Kind: "spawn", Name: Pick(r, mods)}
		case 2:
			extra = c14Stmt{Kind: "imp", Name: "nope", Alias: "nope"}
		default:
			extra = c14Stmt{Kind: "fail"}
		}
		main = append(main[:at], append([]c14Stmt{extra}, main[at:]...)...)
	}
	return main
}

func (g *c14Gen) session() c14Sess {
	r := g.rng
	var p c14Sess
	var mods []string
	done := map[string][]c14Stmt{}
	plainTree := r.Chance(55)
	if plainTree {
		// leaf-like modules (own variables, counter, list), some importing a common helper
		pool := append([]string{}, c14ModPool...)
		for i := len(pool) - 1; i > 0; i-- {
			j := r.Intn(i + 1)
			pool[i], pool[j] = pool[j], pool[i]
		}
		mods = pool[:1+r.Intn(3)]
		helper := ""
		if r.Chance(40) {
			helper = "h"
			p.Files = append(p.Files, c14File{Name: "h", Ext: c14Exts[0], Body: []c14Stmt{
				{Kind: "set", Var: "x", Val: g.val()}, {Kind: "set", Var: "y", Val: g.val()}, {Kind: "set", Var: c14Counter, Val: g.val()}, {Kind: "newlist", Var: c14List}}})
		}
		for _, m := range mods {
			body := []c14Stmt{{Kind: "set", Var: "x", Val: g.val()}, {Kind: "set", Var: "y", Val: g.val()}, {Kind: "set", Var: c14Counter, Val: r.Intn(3) * 10}, {Kind: "newlist", Var: c14List}}
			if helper != "" && r.Chance(60) {
				body = append(body, c14Stmt{Kind: "imp", Name: helper, Alias: helper}, c14Stmt{Kind: "add", Alias: helper, Var: c14Counter, Val: 1 + r.Intn(5)})
			}
			ext := c14Exts[0]
			if r.Chance(15) {
				ext = c14Exts[1]
			}
			p.Files = append(p.Files, c14File{Name: m, Ext: ext, Body: body})
		}
		if helper != "" {
			mods = append(mods, helper)
		}
	} else {
		// the general random trees of the graph stream (transitive, failing, cyclic, try-, from-imports)
		pool := append([]string{}, c14ModPool...)
		for i := len(pool) - 1; i > 0; i-- {
			j := r.Intn(i + 1)
			pool[i], pool[j] = pool[j], pool[i]
		}
		mods = pool[:2+r.Intn(4)]
		for i := len(mods) - 1; i >= 0; i-- {
			m := mods[i]
			f := c14File{Name: m, Ext: c14Exts[0], Body: g.body(mods, i, false, r.Chance(3), done)}
			done[m] = f.Body
			p.Files = append(p.Files, f)
		}
	}
	n := 2
	switch k := r.Intn(100); {
	case k < 5:
		n = 1
	case k < 35:
		n = 3
	}
	for e := 0; e < n; e++ {
		switch {
		case plainTree:
			p.Mains = append(p.Mains, g.sessMain(mods, !r.Chance(15)))
		case r.Chance(50):
			p.Mains = append(p.Mains, g.sessMain(mods, r.Chance(70)))
		default:
			p.Mains = append(p.Mains, g.body(mods, -1, true, r.Chance(2), done))
		}
	}
	// a spawned clone must not reach a cyclic import (see c14Sanitize)
	for e := range p.Mains {
		q := c14Prog{Files: p.Files, Main: p.Mains[e]}
		c14Sanitize(&q)
		p.Mains[e] = q.Main
	}
	// schedule
	switch k := r.Intn(100); {
	case n == 1 || k < 15:
		p.Shape = "sequential"
		for e := 0; e < n; e++ {
			for range p.Mains[e] {
				p.Sched = append(p.Sched, e)
			}
		}
	case k < 45:
		// nested: evaluation 0 runs a prefix, the others run to their end (one inside the other), then 0 goes on
		p.Shape = "nested"
		var nest func(e int)
		nest = func(e int) {
			cut := len(p.Mains[e])
			if e+1 < n {
				cut = 1 + r.Intn(len(p.Mains[e]))
			}
			for i := 0; i < cut; i++ {
				p.Sched = append(p.Sched, e)
			}
			if e+1 < n {
				nest(e + 1)
			}
			for i := cut; i < len(p.Mains[e]); i++ {
				p.Sched = append(p.Sched, e)
			}
		}
		nest(0)
	default:
		p.Shape = "interleaved"
		left := make([]int, n)
		total := 0
		for e := range left {
			left[e] = len(p.Mains[e])
			total += left[e]
		}
		cur := r.Intn(n)
		for total > 0 {
			if left[cur] == 0 || !r.Chance(65) {
				var cands []int
				for e := range left {
					if left[e] > 0 {
						cands = append(cands, e)
					}
				}
				cur = Pick(r, cands)
			}
			p.Sched = append(p.Sched, cur)
			left[cur]--
			total--
		}
	}
	return p
}

// the scenarios the property is about, written out
func c14DirectedSessions() []c14Sess {
	set := func(v string, n int) c14Stmt { return c14Stmt{Kind: "set", Var: v, Val: n} }
	imp := func(n, a string) c14Stmt { return c14Stmt{Kind: "imp", Name: n, Alias: a} }
	add := func(al string, n int) c14Stmt { return c14Stmt{Kind: "add", Alias: al, Var: c14Counter, Val: n} }
	via := func(al, v string, n int) c14Stmt { return c14Stmt{Kind: "via", Alias: al, Var: v, Val: n} }
	push := func(al string, n int) c14Stmt { return c14Stmt{Kind: "push", Alias: al, Var: c14List, Val: n} }
	counter := func(name string, k int) c14File {
		return c14File{Name: name, Ext: ".risor", Body: []c14Stmt{set("x", k), set("y", k+1), set(c14Counter, 0), {Kind: "newlist", Var: c14List}}}
	}
	pre := func(k int) []c14Stmt { return []c14Stmt{set("x", k), set("y", k+1)} }
	mk := func(files []c14File, sched []int, mains ...[]c14Stmt) c14Sess {
		return c14Sess{Files: files, Mains: mains, Sched: sched, Shape: "directed"}
	}
	cat := func(a []c14Stmt, b ...c14Stmt) []c14Stmt { return append(append([]c14Stmt{}, a...), b...) }
	return []c14Sess{
		// a host builtin runs a plugin script between two looks at the module (nested)
		mk([]c14File{counter("c", 100)}, []int{0, 0, 0, 0, 0, 1, 1, 1, 1, 0, 0},
			cat(pre(9001), imp("c", "c"), add("c", 1), add("c", 1), add("c", 5), via("c", "x", 7)),
			cat(pre(9101), imp("c", "c"), add("c", 1))),
		// two request handlers taking turns over one module
		mk([]c14File{counter("c", 100)}, []int{0, 1, 0, 1, 0, 1, 0, 1, 0, 1, 0, 1},
			cat(pre(9001), imp("c", "p"), add("p", 2), push("p", 11), add("p", 3)),
			cat(pre(9101), imp("c", "q"), add("q", 40), push("q", 12), via("q", "y", 8))),
		// one after the other, the first VM still alive (its state is looked at after the second ended)
		mk([]c14File{counter("c", 100), counter("d/a", 300)}, []int{0, 0, 0, 0, 0, 1, 1, 1, 1, 1},
			cat(pre(9001), imp("c", "c"), add("c", 4), imp("d/a", "a")),
			cat(pre(9101), imp("d/a", "a"), add("a", 6), imp("c", "r"))),
		// three evaluations, a helper module imported by the module and by a script
		mk([]c14File{counter("h", 700), {Name: "c", Ext: ".risor", Body: []c14Stmt{set("x", 100), set("y", 101), set(c14Counter, 0), {Kind: "newlist", Var: c14List}, imp("h", "h"), add("h", 1)}}},
			[]int{0, 0, 0, 1, 1, 1, 2, 2, 2, 0, 1, 2, 2, 2},
			cat(pre(9001), imp("c", "c"), add("c", 1)),
			cat(pre(9101), imp("c", "c"), add("c", 2)),
			cat(pre(9201), imp("h", "h"), add("h", 30), imp("c", "c"), add("c", 3))),
		// the second evaluation's import fails half-way (the module is compiled and cached by then)
		mk([]c14File{{Name: "e", Ext: ".risor", Body: []c14Stmt{set("x", 400), set("y", 401), {Kind: "fail"}}}, counter("c", 100)},
			[]int{0, 0, 0, 1, 1, 1, 0, 0, 1, 1},
			cat(pre(9001), imp("c", "c"), c14Stmt{Kind: "try", Name: "e"}, add("c", 1)),
			cat(pre(9101), c14Stmt{Kind: "try", Name: "e"}, imp("c", "c"), add("c", 2))),
	}
}

// ---- the real run

type c14SessOut struct {
	class []string
	errs  []error
	ticks [][]string
	opens []string
	dump  [][]string // per evaluation; module and code ids numbered across the session
	note  string
}

type c14SessEv struct {
	e     int
	final bool
}

func c14RunSession(p *c14Sess, keys, fkeys []string, local bool, dir string) (out c14SessOut) {
	n := len(p.Mains)
	out.class = make([]string, n)
	out.errs = make([]error, n)
	out.ticks = make([][]string, n)
	out.dump = make([][]string, n)
	var mu sync.Mutex
	// the evaluations run under context.Background(): a cancellable context would leave a watcher
	// goroutine behind that may raise the VM's halt flag during the vm.Call of the final walk
	ctx := context.Background()
	giveUp := make(chan struct{})
	var giveUpOnce sync.Once
	cancel := func() { giveUpOnce.Do(func() { close(giveUp) }) }
	defer cancel()
	resume := make([]chan struct{}, n)
	events := make(chan c14SessEv, 4*n)
	mkTick := func(e int) *object.Builtin {
		return object.NewBuiltin("tick", func(ctx context.Context, args ...object.Object) object.Object {
			s := "?"
			if len(args) == 1 {
				if v, ok := args[0].(*object.String); ok {
					s = v.Value()
				}
			}
			mu.Lock()
			out.ticks[e] = append(out.ticks[e], s)
			mu.Unlock()
			return object.Nil
		})
	}
	mkTurn := func(e int) *object.Builtin {
		return object.NewBuiltin("turn", func(c context.Context, args ...object.Object) object.Object {
			events <- c14SessEv{e, false}
			select {
			case <-resume[e]:
				return object.Nil
			case <-giveUp:
				return object.NewError(fmt.Errorf("session scheduler gave up"))
			}
		})
	}
	nameOpts := []risor.Option{risor.WithGlobal("tick", mkTick(0)), risor.WithGlobal("turn", mkTurn(0)), risor.WithConcurrency()}
	gnames := risor.NewConfig(nameOpts...).GlobalNames()
	var shared importer.Importer
	var rfs *c14_recFSys
	if local {
		root := c14WriteTree(p.prog(0), dir)
		shared = importer.NewLocalImporter(importer.LocalImporterOptions{GlobalNames: gnames, SourceDir: root, Extensions: c14Exts})
	} else {
		m := fstest.MapFS{}
		for _, f := range p.Files {
			m[f.Name+f.Ext] = &fstest.MapFile{Data: []byte(c14Render(f.loc(), f.Body))}
		}
		rfs = &c14_recFSys{inner: m}
		shared = importer.NewFSImporter(importer.FSImporterOptions{GlobalNames: gnames, SourceFS: rfs})
	}
	tb := p.turns()
	machines := make([]*vm.VirtualMachine, n)
	static := false
	for e := 0; e < n; e++ {
		resume[e] = make(chan struct{}, 1)
		cfg := risor.NewConfig(risor.WithGlobal("tick", mkTick(e)), risor.WithGlobal("turn", mkTurn(e)), risor.WithConcurrency(), risor.WithImporter(shared))
		func() {
			defer func() {
				if r := recover(); r != nil {
					out.errs[e] = fmt.Errorf("COMPILE: panic %v", r)
				}
			}()
			ast, err := parser.Parse(ctx, c14RenderT("", p.Mains[e], tb[e]))
			if err != nil {
				out.errs[e] = fmt.Errorf("PARSE: %v", err)
				return
			}
			code, err := compiler.Compile(ast, cfg.CompilerOpts()...)
			if err != nil {
				out.errs[e] = fmt.Errorf("COMPILE: %v", err)
				return
			}
			machines[e] = vm.New(code, cfg.VMOpts()...)
		}()
		if machines[e] == nil {
			static = true
		}
	}
	if static {
		for e := range out.class {
			out.class[e] = "static"
			if out.errs[e] != nil {
				out.class[e] = "static:" + out.errs[e].Error()
			}
		}
		return out
	}
	for e := 0; e < n; e++ {
		go func(e int) {
			var err error
			defer func() {
				if r := recover(); r != nil {
					err = fmt.Errorf("panic: escaped the VM: %v", r)
				}
				mu.Lock()
				out.errs[e] = err
				mu.Unlock()
				events <- c14SessEv{e, true}
			}()
			select {
			case <-resume[e]:
			case <-giveUp:
				err = fmt.Errorf("session scheduler gave up")
				return
			}
			err = machines[e].Run(ctx)
		}(e)
	}
	finished := make([]bool, n)
	wait := func(e int) bool {
		for {
			select {
			case ev := <-events:
				if ev.final {
					finished[ev.e] = true
				}
				if ev.e == e {
					return true
				}
			case <-time.After(20 * time.Second):
				return false
			}
		}
	}
	for _, seg := range p.segments() {
		e := seg[0]
		if finished[e] {
			continue
		}
		resume[e] <- struct{}{}
		if !wait(e) {
			out.note = fmt.Sprintf("evaluation %d did not come back to the scheduler", e)
			break
		}
	}
	cancel() // nobody should be waiting any more; releases whoever is
	for e := 0; e < n; e++ {
		for !finished[e] {
			if !wait(e) {
				out.note = fmt.Sprintf("evaluation %d never ended", e)
				return out
			}
		}
	}
	for e := 0; e < n; e++ {
		mu.Lock()
		err := out.errs[e]
		mu.Unlock()
		out.class[e] = c14ErrClass(err)
	}
	if rfs != nil {
		out.opens = rfs.opens
	}
	// the reachable state of every evaluation, both views; identities numbered across the session
	canon := map[*object.Module]int{}
	canonCode := map[*compiler.Code]int{}
	isF := map[string]bool{}
	for _, k := range fkeys {
		isF[k] = true
	}
	flat := func(v object.Object) string {
		switch x := v.(type) {
		case *object.Int:
			return fmt.Sprintf("i%d", x.Value())
		case *object.NilType:
			return "n"
		case *object.List:
			items := make([]string, 0, len(x.Value()))
			for _, it := range x.Value() {
				if iv, ok := it.(*object.Int); ok {
					items = append(items, strconv.FormatInt(iv.Value(), 10))
				} else {
					items = append(items, "?"+string(it.Type()))
				}
			}
			return "l" + strings.Join(items, ";")
		case *object.Module:
			return "m"
		}
		return "?" + string(v.Type())
	}
	for e := 0; e < n; e++ {
		machine := machines[e]
		func() {
			defer func() {
				if r := recover(); r != nil {
					out.dump[e] = append(out.dump[e], fmt.Sprintf("<walk panic %v>", r))
				}
			}()
			var walk func(fuel int, pre string, get func(string) object.Object)
			walk = func(fuel int, pre string, get func(string) object.Object) {
				if fuel == 0 {
					return
				}
				for _, k := range keys {
					v := get(k)
					if v == nil {
						continue
					}
					path := pre + "." + k
					x, isMod := v.(*object.Module)
					if !isMod {
						out.dump[e] = append(out.dump[e], path+"="+flat(v))
						continue
					}
					id, ok := canon[x]
					if !ok {
						id = len(canon)
						canon[x] = id
					}
					cid, ok := canonCode[x.Code()]
					if !ok {
						cid = len(canonCode)
						canonCode[x.Code()] = cid
					}
					out.dump[e] = append(out.dump[e], fmt.Sprintf("%s=m%d:%s:c%d", path, id, x.Name().Value(), cid))
					walk(fuel-1, path, func(k string) object.Object {
						a, found := x.GetAttr(k)
						if !found {
							return nil
						}
						return a
					})
					// the function view: the module's own getter, run on THIS evaluation's VM
					for _, k := range keys {
						if !isF[k] {
							continue
						}
						a, found := x.GetAttr("get_" + k)
						if !found {
							continue
						}
						fn, ok := a.(*object.Function)
						if !ok {
							out.dump[e] = append(out.dump[e], path+"."+k+"()=?"+string(a.Type()))
							continue
						}
						res, err := machine.Call(context.Background(), fn, nil)
						if err != nil {
							out.dump[e] = append(out.dump[e], path+"."+k+"()=!"+err.Error())
						} else {
							out.dump[e] = append(out.dump[e], path+"."+k+"()="+flat(res))
						}
					}
				}
			}
			walk(5, "e"+strconv.Itoa(e), func(k string) object.Object {
				v, err := machine.Get(k)
				if err != nil {
					return nil
				}
				return v
			})
		}()
	}
	return out
}

// model dumps of a session (`|`-separated) in the textual form of the real ones: names unhexed,
// module and code ids renumbered by first occurrence across the whole session
func c14SessModelDumps(field string, n int) [][]string {
	parts := strings.Split(field, "|")
	out := make([][]string, n)
	canon := map[string]int{}
	canonCode := map[string]int{}
	for e := 0; e < n && e < len(parts); e++ {
		if parts[e] == "-" {
			continue
		}
		for _, line := range strings.Split(parts[e], ",") {
			eq := strings.IndexByte(line, '=')
			if eq < 0 {
				out[e] = append(out[e], line)
				continue
			}
			segs := strings.Split(line[:eq], ".")
			for i := 1; i < len(segs); i++ {
				call := strings.HasSuffix(segs[i], "()")
				segs[i] = UnHex(strings.TrimSuffix(segs[i], "()"))
				if call {
					segs[i] += "()"
				}
			}
			val := line[eq+1:]
			if strings.HasPrefix(val, "m") && strings.Count(val, ":") == 2 {
				f := strings.Split(val, ":")
				id, ok := canon[f[0]]
				if !ok {
					id = len(canon)
					canon[f[0]] = id
				}
				cid, ok := canonCode[f[2]]
				if !ok {
					cid = len(canonCode)
					canonCode[f[2]] = cid
				}
				name := UnHex(f[1])
				if f[1] == "~" {
					name = ""
				}
				val = fmt.Sprintf("m%d:%s:c%d", id, name, cid)
			}
			out[e] = append(out[e], strings.Join(segs, ".")+"="+val)
		}
	}
	return out
}

// a session dump as the evaluation alone would show it: function-view lines dropped, the root
// renamed to "main", module and code ids renumbered by first occurrence within this evaluation
func c14SessLocalDump(d []string, e int) []string {
	canon := map[string]int{}
	canonCode := map[string]int{}
	var out []string
	pre := "e" + strconv.Itoa(e)
	for _, line := range d {
		eq := strings.IndexByte(line, '=')
		if eq < 0 || strings.HasSuffix(line[:eq], "()") {
			continue
		}
		path, val := "main"+strings.TrimPrefix(line[:eq], pre), line[eq+1:]
		if strings.HasPrefix(val, "m") && strings.Count(val, ":") == 2 {
			f := strings.Split(val, ":")
			id, ok := canon[f[0]]
			if !ok {
				id = len(canon)
				canon[f[0]] = id
			}
			cid, ok := canonCode[f[2]]
			if !ok {
				cid = len(canonCode)
				canonCode[f[2]] = cid
			}
			val = fmt.Sprintf("m%d:%s:c%d", id, f[1], cid)
		}
		out = append(out, path+"="+val)
	}
	return out
}

func c14SessRequest(kind string, p *c14Sess, keys, fkeys []string) string {
	hx := func(xs []string) string {
		if len(xs) == 0 {
			return "-"
		}
		o := make([]string, len(xs))
		for i, x := range xs {
			o[i] = Hex(x)
		}
		return strings.Join(o, ",")
	}
	files := "-"
	if len(p.Files) > 0 {
		fs := make([]string, len(p.Files))
		for i, f := range p.Files {
			fs[i] = Hex(f.Name+f.Ext) + "@" + c14WireBody(f.Body)
		}
		files = strings.Join(fs, "|")
	}
	sched := "-"
	if len(p.Sched) > 0 {
		next := make([]int, len(p.Mains))
		ss := make([]string, len(p.Sched))
		for i, e := range p.Sched {
			ss[i] = strconv.Itoa(e) + "!" + p.Mains[e][next[e]].wire()
			next[e]++
		}
		sched = strings.Join(ss, ";")
	}
	return strings.Join([]string{"C14", kind, "4000", "1024", Hex(c14Root), hx(c14Exts), hx(keys), hx(fkeys), files, strconv.Itoa(len(p.Mains)), sched}, "\t")
}

func c14SessKeys(p *c14Sess) []string {
	set := map[string]bool{}
	for e := range p.Mains {
		for _, k := range c14Keys(p.prog(e)) {
			set[k] = true
		}
	}
	return sortedKeys(set)
}

func c14Sessions(e *Env) {
	n := 2500
	if !e.Quick {
		n = 20000
	}
	tmp, err := os.MkdirTemp("", "verif-c14s-")
	if err != nil {
		e.R.Note("cannot create temp tree: %v", err)
		return
	}
	defer os.RemoveAll(tmp)
	g := &c14Gen{rng: e.Rng.Fork()}
	sess := c14DirectedSessions()
	nd := len(sess)
	for i := 0; i < n; i++ {
		sess = append(sess, g.session())
	}
	fkeys := []string{c14List, c14Counter, "x", "y"}
	reqs := make([]string, len(sess))
	keysOf := make([][]string, len(sess))
	for i := range sess {
		cnt := make([]int, len(sess[i].Mains))
		for _, ev := range sess[i].Sched {
			cnt[ev]++
		}
		for ev, m := range sess[i].Mains {
			if cnt[ev] != len(m) {
				panic(fmt.Sprintf("C14 session %d: the schedule has %d statements of evaluation %d, its script has %d", i, cnt[ev], ev, len(m)))
			}
		}
		keysOf[i] = c14SessKeys(&sess[i])
		reqs[i] = c14SessRequest("sess", &sess[i], keysOf[i], fkeys)
	}
	reps := e.O.AskBatch(reqs)
	for i := range sess {
		c14SessionCase(e, &sess[i], keysOf[i], fkeys, reps[i], filepath.Join(tmp, "t"), i < nd || i%3 == 0)
	}
}

func c14SessionCase(e *Env, p *c14Sess, keys, fkeys []string, rep string, dir string, alsoLocal bool) {
	text := strings.ReplaceAll(strings.TrimSpace(p.text()), "\n", " ¦ ")
	n := len(p.Mains)
	// modules imported (by name, statically) by more than one evaluation
	importedBy := map[string]map[int]bool{}
	for ev, m := range p.Mains {
		for _, s := range m {
			var names []string
			switch s.Kind {
			case "imp", "try", "spawn":
				names = []string{s.Name}
			case "from":
				names = []string{s.Name}
				for _, it := range s.Items {
					names = append(names, s.Name+"/"+it[0])
				}
			}
			for _, nm := range names {
				if p.prog(ev).fileOf(nm) != nil {
					if importedBy[nm] == nil {
						importedBy[nm] = map[int]bool{}
					}
					importedBy[nm][ev] = true
				}
			}
		}
	}
	common := 0
	for _, evs := range importedBy {
		if len(evs) >= 2 {
			common++
		}
	}
	e.R.Case(text, common > 0)
	e.R.H("session_evaluations", strconv.Itoa(n))
	e.R.H("session_schedule", p.Shape)
	e.R.H("session_segments", strconv.Itoa(min(len(p.segments()), 8)))
	if common > 2 {
		common = 2
	}
	e.R.H("session_modules_imported_by_several_evaluations", map[int]string{0: "0", 1: "1", 2: ">=2"}[common])

	f := strings.Split(rep, "\t")
	if len(f) != 9 {
		e.R.Mismatch(text, "-", rep, "oracle reply malformed (sess)")
		return
	}
	mOuts := strings.Split(f[0], ",")
	mTicksF := strings.Split(f[1], "|")
	mOpens := c14Csv(f[2])
	mDumps := c14SessModelDumps(f[3], n)
	if f[6] == "true" {
		e.R.H("session_outcome", "model-out-of-fuel")
		e.R.Note("model ran out of fuel on a generated session (skipped)")
		return
	}
	if len(mOuts) != n || len(mTicksF) != n {
		e.R.Mismatch(text, "-", rep, "oracle reply malformed (sess: evaluations)")
		return
	}
	if f[4] != "true" {
		e.R.Mismatch(text, "-", f[3], "the model's session has a module whose two views differ (contradicts module_views_agree)")
	}
	if f[5] != "true" {
		e.R.Mismatch(text, "-", f[3], "the model's session has two evaluations sharing a module object or a globals array (contradicts evaluations_share_nothing)")
	}
	mTicks := make([][]string, n)
	for ev := 0; ev < n; ev++ {
		for _, t := range c14Csv(mTicksF[ev]) {
			mTicks[ev] = append(mTicks[ev], p.prog(ev).tickName(t))
		}
	}

	run := func(local bool) c14SessOut {
		out := c14RunSession(p, keys, fkeys, local, dir)
		for ev := range out.ticks { // location -> module name, as c14RunGo does
			for i, l := range out.ticks[ev] {
				if strings.HasPrefix(l, "root/") {
					nm := strings.TrimPrefix(l, "root/")
					for _, x := range c14Exts {
						nm = strings.TrimSuffix(nm, x)
					}
					out.ticks[ev][i] = nm
				}
			}
		}
		return out
	}
	agree := true
	mis := func(goV, modelV, what string) {
		agree = false
		e.R.Mismatch(text, goV, modelV, what)
	}
	against := func(out c14SessOut, which string) {
		if out.note != "" {
			mis(which+": "+out.note, strings.Join(mOuts, ","), "the session did not follow its schedule")
			return
		}
		for ev := 0; ev < n; ev++ {
			if strings.HasPrefix(out.class[ev], "static") {
				mis(which+": "+out.class[ev], mOuts[ev], "generated script does not parse/compile")
				return
			}
		}
		for ev := 0; ev < n; ev++ {
			tag := fmt.Sprintf("%s, evaluation %d: ", which, ev)
			if out.class[ev] != mOuts[ev] {
				mis(fmt.Sprintf("%s%s (%v)", tag, out.class[ev], out.errs[ev]), mOuts[ev], "outcome of the evaluation vs C14.session")
			}
			if strings.Join(out.ticks[ev], ",") != strings.Join(mTicks[ev], ",") {
				mis(tag+c14Short(out.ticks[ev]), c14Short(mTicks[ev]), "module body executions of the evaluation (tick log) vs C14.session")
			}
			if out.class[ev] != "panic" && mOuts[ev] != "panic" && strings.Join(out.dump[ev], ",") != strings.Join(mDumps[ev], ",") {
				what := "module state reachable from the evaluation's script, attribute view and function view, module and code identities numbered across the session, vs C14.session: " + c14FirstDiff(out.dump[ev], mDumps[ev])
				sh := strings.Split(e.O.Ask(strings.Split(c14SessRequest("sessmc", p, keys, fkeys), "\t")...), "\t")
				if len(sh) == 9 {
					if d := c14SessModelDumps(sh[3], n); strings.Join(d[ev], ",") == strings.Join(out.dump[ev], ",") {
						what += " — the real run equals the model of an importer that hands ONE module object per name to every VM (importModuleMC; fresh_module_objects_needed)"
					}
				}
				mis(tag+strings.Join(out.dump[ev], ","), strings.Join(mDumps[ev], ","), what)
			}
		}
		if which == "FSImporter" {
			want := make([]string, len(out.opens))
			for i, o := range out.opens {
				want[i] = c14Root + "/" + o
			}
			if strings.Join(want, ",") != strings.Join(mOpens, ",") {
				mis(which+": "+c14Short(want), c14Short(mOpens), "files opened by the shared importer vs C14.session opens")
			}
		}
	}
	goFS := run(false)
	against(goFS, "FSImporter")
	for ev := 0; ev < n && ev < len(goFS.class); ev++ {
		e.R.H("session_outcome", goFS.class[ev])
	}
	e.R.H("session_importer_runs", "FSImporter")
	var goL c14SessOut
	if alsoLocal {
		goL = run(true)
		against(goL, "LocalImporter")
		e.R.H("session_importer_runs", "LocalImporter")
	}
	_ = agree

	// ---- Spec on the real results
	spec := func(out c14SessOut, which string) {
		if out.note != "" {
			return
		}
		bad := func(detail string) { e.R.Spec(text, "["+which+"] "+detail, "") }
		holders := map[string]map[int]bool{} // module object (session-wide id) -> evaluations that reach it
		for ev := 0; ev < n; ev++ {
			if strings.HasPrefix(out.class[ev], "static") || out.class[ev] == "panic" {
				continue
			}
			vals := map[string]string{}
			for _, l := range out.dump[ev] {
				eq := strings.IndexByte(l, '=')
				vals[l[:eq]] = l[eq+1:]
				if v := l[eq+1:]; strings.HasPrefix(v, "m") && strings.Count(v, ":") == 2 {
					id := v[:strings.IndexByte(v, ':')] + " (" + strings.Split(v, ":")[1] + ")"
					if holders[id] == nil {
						holders[id] = map[int]bool{}
					}
					holders[id][ev] = true
				}
			}
			// (b) the two views of every reachable module agree
			for _, l := range out.dump[ev] {
				eq := strings.IndexByte(l, '=')
				if !strings.HasSuffix(l[:eq], "()") {
					continue
				}
				attr, has := vals[strings.TrimSuffix(l[:eq], "()")]
				if !has {
					continue // the module sits at the depth limit of the walk: its attributes were not listed
				}
				if strings.HasPrefix(attr, "m") && strings.Count(attr, ":") == 2 {
					attr = "m"
				}
				if attr != l[eq+1:] {
					bad(fmt.Sprintf("evaluation %d: two views of one module disagree: %s reads %s through the module's function but %s as an attribute", ev, strings.TrimSuffix(l[:eq], "()"), l[eq+1:], attr))
				}
			}
			// (a) the evaluation sees what it would see alone
			q := p.prog(ev)
			refTicks, refDump, refOK := c14RefEval(q, keys)
			if !refOK {
				continue
			}
			e.R.H("session_feature", "reference-semantics-applies")
			if out.class[ev] != "ok" {
				bad(fmt.Sprintf("evaluation %d ended with %s (%v) although every import names an existing module and nothing fails", ev, out.class[ev], out.errs[ev]))
				continue
			}
			if strings.Join(out.ticks[ev], ",") != strings.Join(refTicks, ",") {
				bad(fmt.Sprintf("evaluation %d: module bodies ran as %v; each module's body must run once per evaluation, at its first import: %v", ev, out.ticks[ev], refTicks))
			}
			if got := c14SessLocalDump(out.dump[ev], ev); strings.Join(got, ",") != strings.Join(refDump, ",") {
				bad(fmt.Sprintf("evaluation %d does not see what it would see if it ran alone (another evaluation sharing the importer shows through): %s", ev, c14FirstDiff(got, refDump)))
			}
		}
		// (c) no module object belongs to two evaluations
		for _, id := range sortedKeys(holders) {
			if len(holders[id]) > 1 {
				var evs []string
				for ev := 0; ev < n; ev++ {
					if holders[id][ev] {
						evs = append(evs, strconv.Itoa(ev))
					}
				}
				bad(fmt.Sprintf("evaluations %s hold the SAME module object %s", strings.Join(evs, " and "), id))
			}
		}
	}
	spec(goFS, "FSImporter")
	if alsoLocal {
		spec(goL, "LocalImporter")
	}
}
