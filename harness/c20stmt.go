package main

// C20, statement level (lean/RisorModel/C20/Stmt.lean, StmtProps.lean): generated statement trees x
// generated layouts, printed as TEXT; the real lexer+parser (worker child, mode "stmt") and the Lean
// model (lexer machine -> toTokens -> parseProgram, request `C20 stmt`) are run on the same text and
// their trees compared; for permitted layouts the real tree must also be the generated tree
// (layout_invariance on the real parser); for a line break / `;` outside the permitted set the
// outcome class (error, or which other tree) of real parser and model must agree.

import (
	"context"
	"fmt"
	"strings"

	"github.com/risor-io/risor/ast"
	"github.com/risor-io/risor/parser"
)

// c20stFromAst: the real parser's statement node in the tree format of Oracle.lean's showStmt.
func c20stFromAst(nd ast.Node) *N {
	switch v := nd.(type) {
	case *ast.Var:
		name, val := v.Value()
		k := "var"
		if v.IsWalrus() {
			k = "decl"
		}
		return ns(k, name, c01parseFromAst(val))
	case *ast.Assign:
		if v.Index() != nil {
			return &N{K: "other:index-assign"}
		}
		switch v.Operator() {
		case "=", "+=", "-=", "*=", "/=":
		default:
			return &N{K: "other:assign-operator"}
		}
		return ns("assign", v.Operator(), nId(v.Name()), c01parseFromAst(v.Value()))
	case *ast.Return:
		if v.Value() == nil {
			return n("ret0")
		}
		return n("ret", c01parseFromAst(v.Value()))
	case *ast.Control:
		if v.Value() != nil {
			return &N{K: "other:control-value"}
		}
		return n(v.Literal())
	case *ast.If:
		alt := n("none")
		if v.Alternative() != nil {
			alt = c20stBlock(v.Alternative().Statements())
		}
		return n("if", c01parseFromAst(v.Condition()), c20stBlock(v.Consequence().Statements()), alt)
	}
	return n("expr", c01parseFromAst(nd))
}

func c20stBlock(st []ast.Node) *N {
	out := n("blk")
	for _, s := range st {
		out.C = append(out.C, c20stFromAst(s))
	}
	return out
}

// c20stReal runs in the worker child.
func c20stReal(src string) (res string) {
	defer func() {
		if r := recover(); r != nil {
			res = fmt.Sprintf("fail:PANIC %v", r)
		}
	}()
	prog, err := parser.Parse(context.Background(), src)
	if err != nil {
		msg := err.Error()
		if i := strings.IndexByte(msg, '\n'); i >= 0 {
			msg = msg[:i]
		}
		return "fail:" + msg
	}
	return Sexp(c20stBlock(prog.Statements()))
}

type c20stGen struct {
	r *RNG
	g *c01parseGen
}

func (s *c20stGen) expr() *N {
	for {
		t := s.g.expr(1+s.r.Intn(3), false)
		if c01parseCore(t) {
			return t
		}
	}
}

var c20stOps = []string{"=", "+=", "-=", "*=", "/="}

func (s *c20stGen) stmt(d int) *N {
	k := s.r.Intn(12)
	if d <= 0 && k >= 9 {
		k = s.r.Intn(9)
	}
	switch k {
	case 0, 1:
		return n("expr", s.expr())
	case 2:
		return ns("var", Pick(s.r, c01parseNames), s.expr())
	case 3:
		return ns("decl", Pick(s.r, c01parseNames), s.expr())
	case 4, 5:
		return ns("assign", Pick(s.r, c20stOps), nId(Pick(s.r, c01parseNames)), s.expr())
	case 6:
		return n("ret", s.expr())
	case 7:
		return n("ret0")
	case 8:
		if s.r.Bool() {
			return n("break")
		}
		return n("continue")
	}
	return s.ifStmt(d)
}

func (s *c20stGen) ifStmt(d int) *N {
	alt := n("none")
	switch s.r.Intn(3) {
	case 1:
		alt = s.block(d - 1)
	case 2:
		alt = n("blk", s.ifStmt(d-1))
		alt.I = 1 // printed as `else if`
	}
	return n("if", s.expr(), s.block(d-1), alt)
}

func (s *c20stGen) block(d int) *N {
	out := n("blk")
	for i, k := 0, s.r.Intn(4); i < k; i++ {
		out.C = append(out.C, s.stmt(d))
	}
	return out
}

// the printer: layout == false is the canonical text (one statement per line); otherwise separators,
// line ends behind `{`, comments, indentation and the line breaks inside expressions are drawn.
type c20stPrinter struct {
	r      *RNG
	layout bool
	sb     strings.Builder
	feat   map[string]bool
}

func (p *c20stPrinter) f(s string) { p.feat[s] = true }

// blanks / block comments that produce no token
func (p *c20stPrinter) pad() string {
	if !p.layout {
		return " "
	}
	switch p.r.Intn(8) {
	case 0:
		p.f("block comment in a gap")
		return " /* c; { */ "
	case 1:
		return "\t"
	case 2:
		return "   "
	case 3:
		p.f("two block comments in a gap")
		return " /*a*/ /*}*/ "
	}
	return " "
}

func (p *c20stPrinter) lineEnd() string {
	s := ""
	if p.layout {
		switch p.r.Intn(8) {
		case 0:
			p.f("line comment //")
			s = " // else ; {"
		case 1:
			p.f("line comment #")
			s = " # return }"
		case 2:
			s = "  "
		}
		if p.r.Chance(10) {
			p.f("CRLF")
			return s + "\r\n"
		}
	}
	return s + "\n"
}

func (p *c20stPrinter) indent() string {
	if !p.layout {
		return ""
	}
	return strings.Repeat(Pick(p.r, []string{" ", "\t", "  "}), p.r.Intn(4))
}

// lines: a run of line ends, each optionally followed by `;`
func (p *c20stPrinter) lines(min, max int) {
	k := min
	if max > min {
		k += p.r.Intn(max - min + 1)
	}
	for i := 0; i < k; i++ {
		p.sb.WriteString(p.lineEnd())
		p.sb.WriteString(p.indent())
		if p.layout && p.r.Chance(8) {
			p.f("`;` directly behind a line end")
			p.sb.WriteString(";" + p.pad())
		}
	}
	if k >= 2 {
		p.f("blank lines")
	}
}

// sep: what stands behind a statement (last = before `}` / end of input: may be empty)
func (p *c20stPrinter) sep(last bool) {
	if !p.layout {
		p.sb.WriteString("\n")
		return
	}
	semi := p.r.Chance(30)
	if semi {
		p.f("`;` behind a statement")
		p.sb.WriteString(p.padOpt() + ";" + p.padOpt())
	}
	min := 1
	if semi || last {
		min = 0
	}
	if min == 0 && p.r.Chance(50) {
		if semi && !last {
			p.f("`;` instead of a line end")
		}
		if !semi && last {
			p.f("nothing before `}` / end of input")
			p.sb.WriteString(" ")
		}
		return
	}
	if min == 0 {
		min = 1
	}
	p.lines(min, 3)
}

func (p *c20stPrinter) padOpt() string {
	if p.r.Bool() {
		return ""
	}
	return p.pad()
}

func (p *c20stPrinter) expr(x *N) {
	var nl func() bool
	if p.layout {
		nl = func() bool {
			if p.r.Chance(25) {
				p.f("line break inside an expression")
				return true
			}
			return false
		}
	}
	p.sb.WriteString(c01parseRender(x, 1, 1, nl))
}

func (p *c20stPrinter) body(b *N) {
	p.sb.WriteString("{")
	if p.layout {
		if p.r.Chance(70) {
			p.lines(1, 2)
		} else {
			p.sb.WriteString(p.padOpt())
		}
	} else {
		p.sb.WriteString("\n")
	}
	p.items(b.C)
	p.sb.WriteString("}")
}

func (p *c20stPrinter) items(xs []*N) {
	for i, s := range xs {
		p.stmt(s)
		p.sep(i == len(xs)-1)
	}
}

func (p *c20stPrinter) stmt(s *N) {
	switch s.K {
	case "expr":
		p.expr(s.C[0])
	case "var":
		p.sb.WriteString("var" + p.pad() + s.S + p.padOpt() + "=" + p.padOpt())
		p.expr(s.C[0])
	case "decl":
		p.sb.WriteString(s.S + p.padOpt() + ":=" + p.padOpt())
		p.expr(s.C[0])
	case "assign":
		p.sb.WriteString(s.C[0].S + p.padOpt() + s.S + p.padOpt())
		p.expr(s.C[1])
	case "ret":
		p.sb.WriteString("return" + p.pad())
		p.expr(s.C[0])
	case "ret0":
		p.sb.WriteString("return")
	case "break", "continue":
		p.sb.WriteString(s.K)
	case "if":
		p.sb.WriteString("if" + p.pad())
		p.expr(s.C[0])
		p.sb.WriteString(p.pad())
		p.body(s.C[1])
		alt := s.C[2]
		if alt.K == "blk" {
			p.sb.WriteString(p.pad() + "else" + p.pad())
			if alt.I == 1 {
				p.stmt(alt.C[0])
			} else {
				p.body(alt)
			}
		}
	}
}

type c20stCase struct {
	src, kind, want, where string
	nStmts                 int
	feat                   map[string]bool
}

func c20stCount(b *N) int {
	k := 0
	Walk(b, func(x *N, _ []*N) {
		switch x.K {
		case "expr", "var", "decl", "assign", "ret", "ret0", "break", "continue", "if":
			k++
		}
	}, nil)
	return k
}

// texts with a NEWLINE / `;` outside the permitted set
func c20stForbidden(s *c20stGen) []c20stCase {
	e1 := c01parseRender(s.expr(), 1, 1, nil)
	x, y := Pick(s.r, c01parseNames), Pick(s.r, c01parseNames)
	op := Pick(s.r, c20stOps)
	mk := func(where, src string) c20stCase {
		return c20stCase{src: src, kind: "forbidden", where: where}
	}
	all := []c20stCase{
		mk("var ⏎ name", "var\n"+x+" = "+e1),
		mk("var name ⏎ =", "var "+x+"\n= "+e1),
		mk("var name = ⏎ value", "var "+x+" =\n"+e1),
		mk("name ⏎ :=", x+"\n:= "+e1),
		mk("name := ⏎ value", x+" :=\n"+e1),
		mk("name ⏎ assignment operator", x+"\n"+op+" "+e1),
		mk("name assignment operator ⏎ value", x+" "+op+"\n"+e1),
		mk("return ⏎ value (re-split)", "return\n"+e1),
		mk("if ⏎ condition", "if\n"+x+" { "+y+" }"),
		mk("if condition ⏎ {", "if "+x+"\n{ "+y+" }"),
		mk("} ⏎ else", "if "+x+" { "+y+" }\nelse { "+e1+" }"),
		mk("else ⏎ {", "if "+x+" { "+y+" } else\n{ "+e1+" }"),
		mk("else ⏎ if", "if "+x+" { "+y+" } else\nif "+y+" { "+e1+" }"),
		mk("name ⏎ (args) (re-split)", x+"\n("+e1+")"),
		mk("name ⏎ [index] (re-split)", x+"\n["+e1+"]"),
		mk("a ⏎ - b (re-split)", x+"\n- "+y),
		mk("a ⏎ + b", x+"\n+ "+y),
		mk("`;;`", x+";;"+y),
		mk("`;` first", "; "+x),
		mk("`{ ;`", "if "+x+" { ; "+y+" }"),
		mk("`{ ⏎ ;`", "if "+x+" {\n; "+y+" }"),
		mk("two statements on a line", x+" "+y),
		mk("statement behind `}` on a line", "if "+x+" { } "+y),
		mk("else { if } (same tree as else if)", "if "+x+" { } else { if "+y+" { } }"),
		mk("unterminated block", "if "+x+" { "+y+"\n"),
		mk("stray `}`", x+"\n}"),
	}
	// inside a block as well
	n0 := len(all)
	for i := 0; i < n0; i += 3 {
		c := all[i]
		if strings.Contains(c.where, "unterminated") || strings.Contains(c.where, "stray") {
			continue
		}
		all = append(all, mk(c.where+" [in a block]", "if "+y+" {\n"+c.src+"\n}"))
	}
	return all
}

func c20StmtStream(e *Env, rng *RNG) {
	e.R.Rule += "; STATEMENTS (c20stmt.go): random statement trees (expression statements, var, :=, = += -= *= /=, return with and " +
		"without value, break, continue, if / else / else-if chains, nested blocks; expressions of C01's core) x layouts (canonical; " +
		"random: `;` and/or 1..3 line ends behind every statement, `;` behind a line end, nothing before `}`, line ends behind `{`, line and " +
		"block comments, indentation, CRLF, line breaks at the permitted gaps inside expressions) printed as text; real lexer+parser vs Lean " +
		"lexer machine + parseProgram on the SAME text (Mismatch), real tree vs generated tree (Spec); plus texts with a line end or `;` " +
		"outside the permitted set (outcome class: error / the same other tree); distinct by text, non-trivial when >= 2 statements and a line end"
	nProg := 260
	if !e.Quick {
		nProg = 3000
	}
	s := &c20stGen{r: rng.Fork(), g: &c01parseGen{r: rng.Fork()}}
	pr := rng.Fork()
	var cases []c20stCase
	for i := 0; i < nProg; i++ {
		b := n("blk")
		for j, k := 0, 1+s.r.Intn(4); j < k; j++ {
			b.C = append(b.C, s.stmt(2))
		}
		want := Sexp(b)
		ns := c20stCount(b)
		variants := 3
		for v := 0; v < variants; v++ {
			p := &c20stPrinter{r: pr, layout: v > 0, feat: map[string]bool{}}
			kind := "canonical"
			if p.layout {
				kind = "layout"
				if p.r.Chance(40) {
					p.lines(1, 2)
				}
			}
			p.items(b.C)
			cases = append(cases, c20stCase{src: p.sb.String(), kind: kind, want: want, nStmts: ns, feat: p.feat})
		}
		if i%6 == 0 {
			cases = append(cases, c20stForbidden(s)...)
		}
	}
	seen := map[string]bool{}
	var pend []c20stCase
	var reals []string
	var reqs []string
	flush := func() {
		if len(reqs) == 0 {
			return
		}
		reps := e.O.AskBatch(reqs)
		for i, c := range pend {
			c20stJudge(e, c, reals[i], reps[i])
		}
		pend, reals, reqs = pend[:0], reals[:0], reqs[:0]
	}
	for _, c := range cases {
		if seen[c.src] {
			e.R.H("stmt_cases", "duplicate text (skipped)")
			continue
		}
		seen[c.src] = true
		w, ok := c20Call("stmt", c.src)
		real := w.Real
		if !ok {
			if c.kind != "forbidden" {
				c20DeathSpec(e, c.src, "the real parser does not return on this statement text ("+c20LastDeath+")")
			}
			real = "fail:the real parser did not return: " + c20LastDeath
		}
		pend = append(pend, c)
		reals = append(reals, real)
		reqs = append(reqs, "C20\tstmt\t"+Hex(c.src))
		if len(reqs) >= 200 {
			flush()
		}
	}
	flush()
}

func c20stJudge(e *Env, c c20stCase, real, rep string) {
	f := strings.Split(rep, "\t")
	e.R.H("stmt_cases", c.kind)
	e.R.Case("stmt:"+c.src, (c.nStmts >= 2 || c.kind == "forbidden") && strings.Contains(c.src, "\n"))
	if len(f) < 3 || f[0] != "ok" {
		e.R.Mismatch(c.src, real, rep, "the statement model gives no answer on this text")
		return
	}
	model := f[1]
	realFail := strings.HasPrefix(real, "fail:")
	realOutside := strings.Contains(real, "(other:")
	switch {
	case model == "none" || model == "lexerror":
		if !realFail && !realOutside {
			e.R.Mismatch(c.src, real, model, "statement model refuses a text the real parser accepts with a tree of the fragment ("+c.kind+" "+c.where+")")
			return
		}
	default:
		if real != model {
			e.R.Mismatch(c.src, real, model, "real parser and statement model give different results ("+c.kind+" "+c.where+")")
			return
		}
	}
	if c.kind == "forbidden" {
		out := "error"
		if !realFail {
			out = "parses to another split / tree"
		}
		e.R.H("stmt_forbidden_outcome", c.where+" -> "+out)
		return
	}
	for k := range c.feat {
		e.R.H("stmt_layout_features", k)
	}
	e.R.H("stmt_statements_per_program", fmt.Sprintf("%02d", c.nStmts))
	if real != c.want {
		e.R.Spec(c.src, "layout changes the tree: the real parser gives "+c01parseShow(real)+" for a layout of "+c01parseShow(c.want), "")
	}
}
