package main

// C19 — the regexp module: wrapped-function agreement over STRUCTURED argument tuples.
//
// modules/regexp wraps Go's package regexp: regexp.compile / regexp.match (and the module
// called as a function), and the methods of a compiled pattern: match, find, find_all,
// find_submatch, replace_all, split.  The property demands that each returns exactly what the
// Go function returns on the same arguments, and that an invalid pattern is a script error, not
// a panic.  The Go package is the oracle (the property's own wording): the harness calls it
// directly.
//
// A tuple is (pattern, subject, replacement TEMPLATE, count):
//   * the pattern comes from a grammar: literals (metacharacters escaped), character classes,
//     groups (capturing, non-capturing, named), alternation (also with an empty branch),
//     quantifiers (greedy and lazy, counted), anchors, flags — a third of the patterns are
//     COMPLETE LITERALS (no operator at all: where an implementation is tempted to leave the
//     regexp machine), a tenth are malformed;
//   * the subject is BUILT FROM THE PATTERN: 0..4 strings the pattern matches (sampled from its
//     syntax tree) between fillers, so that matches — also empty and adjacent ones, Unicode,
//     invalid UTF-8 around them — really occur;
//   * the replacement is a TEMPLATE built from text, `$$`, `$0`, `$1`, `${1}`, `${name}`,
//     `$name`, references to groups that do not exist, `$1x`, `${`, a trailing `$` …
//
// Every wrapper is called through the object API and (every third tuple) through a script; its
// result is compared (1) with the Go function called directly — the Spec —, (2) with the Lean
// glue model `rxWrap` of the regenerated inventory applied to the Go result (request `rxglue`).
// The Lean model of Go's template expansion (`expand`) and of ReplaceAllString on a literal
// pattern (`regexpReplaceAllLit`, beside `stringsReplaceAll`) are compared with the Go library
// on the same tuples (requests `expand`, `replit`).

import (
	"fmt"
	"regexp"
	"strconv"
	"strings"
	"unicode/utf8"

	modRegexp "github.com/risor-io/risor/modules/regexp"
	"github.com/risor-io/risor/object"
)

// ------------------------------------------------------------------ pattern grammar

type c19rxNode struct {
	kind string // lit class group ncgroup named alt cat quant anchor flags
	s    string // lit: raw text; class/anchor/flags: source; named: name; quant: operator
	min  int    // quant: repetitions a sample uses at least / at most
	max  int
	opts []string // class: strings it matches
	kids []*c19rxNode
}

func (n *c19rxNode) src() string {
	switch n.kind {
	case "lit":
		return regexp.QuoteMeta(n.s)
	case "class", "anchor":
		return n.s
	case "group":
		return "(" + n.kids[0].src() + ")"
	case "ncgroup":
		return "(?:" + n.kids[0].src() + ")"
	case "named":
		return "(?P<" + n.s + ">" + n.kids[0].src() + ")"
	case "flags":
		return "(?" + n.s + ":" + n.kids[0].src() + ")"
	case "alt":
		parts := make([]string, len(n.kids))
		for i, k := range n.kids {
			parts[i] = k.src()
		}
		return strings.Join(parts, "|")
	case "cat":
		var sb strings.Builder
		for _, k := range n.kids {
			if k.kind == "alt" {
				sb.WriteString("(?:" + k.src() + ")")
			} else {
				sb.WriteString(k.src())
			}
		}
		return sb.String()
	case "quant":
		k := n.kids[0]
		in := k.src()
		if k.kind == "cat" || k.kind == "alt" || k.kind == "quant" || (k.kind == "lit" && utf8.RuneCountInString(k.s) != 1) || k.kind == "anchor" {
			in = "(?:" + in + ")"
		}
		return in + n.s
	}
	return ""
}

// sample: a string the node matches (best effort: anchors and lazy operators are not solved for)
func (n *c19rxNode) sample(r *RNG) string {
	switch n.kind {
	case "lit":
		return n.s
	case "class":
		return Pick(r, n.opts)
	case "anchor":
		return ""
	case "group", "ncgroup", "named":
		return n.kids[0].sample(r)
	case "flags":
		s := n.kids[0].sample(r)
		if strings.Contains(n.s, "i") && r.Bool() {
			return strings.ToUpper(s)
		}
		return s
	case "alt":
		return Pick(r, n.kids).sample(r)
	case "cat":
		var sb strings.Builder
		for _, k := range n.kids {
			sb.WriteString(k.sample(r))
		}
		return sb.String()
	case "quant":
		k := n.min + r.Intn(n.max-n.min+1)
		var sb strings.Builder
		for i := 0; i < k; i++ {
			sb.WriteString(n.kids[0].sample(r))
		}
		return sb.String()
	}
	return ""
}

var c19rxLits = []string{"a", "b", "ab", "abc", "USD", "x", "é", "日", "日本", "-", " ", ".", "$", "+", "(", ")", "\\", "*", "?", "[", "]", "|", "^", "{", "}",
	"a.b", "1", "_", "$1", "a+", "😀", "ß", "I", "k", "\n", "aa", "xyx"}

type c19rxClass struct {
	src  string
	opts []string
}

var c19rxClasses = []c19rxClass{{".", []string{"a", "é", "日", "-", "$", " "}}, {"[a-c]", []string{"a", "b", "c"}}, {"[^a]", []string{"b", "é", "-", "\n"}},
	{`\d`, []string{"0", "7"}}, {`\w`, []string{"a", "Z", "_", "5"}}, {`\s`, []string{" ", "\t", "\n"}}, {`\S`, []string{"a", "é"}}, {`\D`, []string{"a", "-"}},
	{"[[:alpha:]]", []string{"a", "Q"}}, {`\pL`, []string{"é", "日", "a"}}, {`\p{Greek}`, []string{"Ω", "σ"}}, {"[é日]", []string{"é", "日"}}, {`[\]$.-]`, []string{"]", "$", ".", "-"}},
	{"[0-9a-f]", []string{"0", "f", "9"}}, {`\PL`, []string{"1", "-", " "}}, {`[^\x00-\x7f]`, []string{"é", "日", "😀"}}, {`\x41`, []string{"A"}}, {`\x{65E5}`, []string{"日"}}}

var c19rxAnchors = []string{"^", "$", `\b`, `\B`, `\A`, `\z`}

type c19rxQ struct {
	op       string
	min, max int
}

var c19rxQuants = []c19rxQ{{"*", 0, 3}, {"+", 1, 3}, {"?", 0, 1}, {"*?", 0, 2}, {"+?", 1, 2}, {"??", 0, 1}, {"{2}", 2, 2}, {"{1,3}", 1, 3}, {"{0,}", 0, 2}, {"{2,}?", 2, 3}, {"{0}", 0, 0}}

var c19rxNames = []string{"n", "name", "x1", "_g", "Year", "a"}

type c19rxGen struct {
	r      *RNG
	names  []string // group names used so far
	groups int
	feats  map[string]bool
}

func (g *c19rxGen) lit() *c19rxNode {
	g.feats["literal"] = true
	s := Pick(g.r, c19rxLits)
	if regexp.QuoteMeta(s) != s {
		g.feats["escaped-metachar"] = true
	}
	return &c19rxNode{kind: "lit", s: s}
}

func (g *c19rxGen) node(depth int) *c19rxNode {
	r := g.r
	x := r.Intn(100)
	if depth <= 0 {
		x = r.Intn(40)
	}
	switch {
	case x < 22:
		return g.lit()
	case x < 36:
		g.feats["class"] = true
		c := Pick(r, c19rxClasses)
		return &c19rxNode{kind: "class", s: c.src, opts: c.opts}
	case x < 40:
		g.feats["anchor"] = true
		return &c19rxNode{kind: "anchor", s: Pick(r, c19rxAnchors)}
	case x < 56: // group
		switch r.Intn(5) {
		case 0:
			g.feats["non-capturing-group"] = true
			return &c19rxNode{kind: "ncgroup", kids: []*c19rxNode{g.node(depth - 1)}}
		case 1, 2:
			// a new name (a duplicate name is a malformed pattern: generated separately)
			var free []string
			for _, nm := range c19rxNames {
				used := false
				for _, u := range g.names {
					used = used || u == nm
				}
				if !used {
					free = append(free, nm)
				}
			}
			if len(free) > 0 {
				nm := Pick(r, free)
				g.names = append(g.names, nm)
				g.groups++
				g.feats["named-group"] = true
				return &c19rxNode{kind: "named", s: nm, kids: []*c19rxNode{g.node(depth - 1)}}
			}
		}
		g.groups++
		g.feats["group"] = true
		return &c19rxNode{kind: "group", kids: []*c19rxNode{g.node(depth - 1)}}
	case x < 68:
		g.feats["alternation"] = true
		n := 2 + r.Intn(2)
		kids := make([]*c19rxNode, n)
		for i := range kids {
			kids[i] = g.node(depth - 1)
		}
		if r.Chance(15) { // an empty branch: `a|`
			kids[r.Intn(n)] = &c19rxNode{kind: "lit", s: ""}
			g.feats["empty-branch"] = true
		}
		return &c19rxNode{kind: "group", kids: []*c19rxNode{{kind: "alt", kids: kids}}}
	case x < 84:
		g.feats["quantifier"] = true
		q := Pick(r, c19rxQuants)
		if strings.HasSuffix(q.op, "?") && len(q.op) > 1 {
			g.feats["lazy-quantifier"] = true
		}
		return &c19rxNode{kind: "quant", s: q.op, min: q.min, max: q.max, kids: []*c19rxNode{g.node(depth - 1)}}
	case x < 88:
		g.feats["flag-group"] = true
		return &c19rxNode{kind: "flags", s: Pick(r, []string{"i", "s", "m", "U", "is", "i-s"}), kids: []*c19rxNode{g.node(depth - 1)}}
	default:
		n := 2 + r.Intn(3)
		kids := make([]*c19rxNode, n)
		for i := range kids {
			kids[i] = g.node(depth - 1)
		}
		return &c19rxNode{kind: "cat", kids: kids}
	}
}

var c19rxMalformed = []string{"(", ")", "[", "a{2,1}", "a**", "*", "+a", "(?P<n>a)(?P<n>b)", "(?P<>a)", "(?P<1n>a)", `\8`, `\`, "(?z)", "a{1001}", "[z-a]", "(?i", `\p{Nope}`, "\xff",
	"a\xc3", "[[:nope:]]", "(?P<n", "x{2}{3}{", "(a|b", `\Q`, "(?<!a)b", "(?=a)", `\1(a)`, "a{1000}{1000}", "(((((((((((a{100}){100}){100}){100})", "??", "a|*"}

type c19rxPattern struct {
	src    string
	tree   *c19rxNode // nil for malformed / free-form patterns
	class  string     // complete-literal / structured / flagged-literal / malformed / pool
	feats  map[string]bool
	names  []string
	groups int
}

func c19rxGenPattern(r *RNG) c19rxPattern {
	g := &c19rxGen{r: r, feats: map[string]bool{}}
	x := r.Intn(100)
	switch {
	case x < 30: // a complete literal: 1-3 literal atoms, metacharacters escaped, no operator
		n := 1 + r.Intn(3)
		if r.Chance(60) {
			n = 1
		}
		kids := make([]*c19rxNode, n)
		for i := range kids {
			kids[i] = g.lit()
		}
		t := &c19rxNode{kind: "cat", kids: kids}
		return c19rxPattern{src: t.src(), tree: t, class: "complete-literal", feats: g.feats}
	case x < 36: // a literal under a flag
		t := &c19rxNode{kind: "cat", kids: []*c19rxNode{g.lit()}}
		fl := Pick(r, []string{"(?i)", "(?s)", "(?m)", "(?U)", "(?i)"})
		g.feats["flags"] = true
		ft := &c19rxNode{kind: "flags", s: strings.Trim(fl, "(?)"), kids: []*c19rxNode{t}}
		return c19rxPattern{src: fl + t.src(), tree: ft, class: "flagged-literal", feats: g.feats}
	case x < 46:
		g.feats["malformed"] = true
		return c19rxPattern{src: Pick(r, c19rxMalformed), class: "malformed", feats: g.feats}
	case x < 52: // the pool of the older check (free-form)
		return c19rxPattern{src: Pick(r, c19Regexps), class: "pool", feats: g.feats}
	}
	n := 1 + r.Intn(3)
	kids := make([]*c19rxNode, n)
	for i := range kids {
		kids[i] = g.node(2)
	}
	t := &c19rxNode{kind: "cat", kids: kids}
	src := t.src()
	if r.Chance(12) {
		fl := Pick(r, []string{"(?i)", "(?s)", "(?m)", "(?U)", "(?im)"})
		src = fl + src
		g.feats["flags"] = true
	}
	return c19rxPattern{src: src, tree: t, class: "structured", feats: g.feats, names: g.names, groups: g.groups}
}

var c19rxFillers = []string{"", "", " ", "-", "z", "zz", "日", "Ω", "\n", "\xff", "10 ", ",", "$", "é", "\xe2\x82", "A"}

// subject: 0..4 samples of the pattern between fillers
func c19rxSubject(r *RNG, p c19rxPattern) (string, int) {
	switch x := r.Intn(20); {
	case x == 0:
		return "", 0
	case x == 1 || p.tree == nil && x < 8:
		return c19Str(r), -1
	}
	n := r.Intn(5)
	var sb strings.Builder
	sb.WriteString(Pick(r, c19rxFillers))
	for i := 0; i < n; i++ {
		if p.tree != nil {
			sb.WriteString(p.tree.sample(r))
		} else {
			sb.WriteString(Pick(r, c19Atoms))
		}
		sb.WriteString(Pick(r, c19rxFillers))
	}
	return sb.String(), n
}

var c19rxTmplText = []string{"", "x", "-", "é", "<", ">", " ", "日", "\\", "[", "]", "0", "a", "\xff", "USD"}
var c19rxTmplRefs = []string{"$$", "$0", "$1", "$2", "${0}", "${1}", "${2}", "$9", "$10", "${10}", "$01", "$1x", "${1}x", "$", "${", "${}", "$}", "$ ", "${1", "$-",
	"$$$", "$$0", "$$$0", "${missing}", "$missing", "$0$0", "$é", "${é}", "$_", "$123456789", "$1234567890", "${0}0", "\\$0", "$00"}

// template: text and references; the names of the pattern's groups are used too
func c19rxTemplate(r *RNG, p c19rxPattern) (string, map[string]bool) {
	feats := map[string]bool{}
	if r.Chance(25) { // no `$` at all
		n := r.Intn(3)
		var sb strings.Builder
		for i := 0; i < n; i++ {
			sb.WriteString(Pick(r, c19rxTmplText))
		}
		feats["no-dollar"] = true
		return sb.String(), feats
	}
	n := 1 + r.Intn(4)
	var sb strings.Builder
	for i := 0; i < n; i++ {
		switch x := r.Intn(10); {
		case x < 3:
			sb.WriteString(Pick(r, c19rxTmplText))
		case x < 5 && len(p.names) > 0:
			nm := Pick(r, p.names)
			if r.Bool() {
				sb.WriteString("${" + nm + "}")
			} else {
				sb.WriteString("$" + nm)
			}
			feats["named-reference"] = true
		default:
			ref := Pick(r, c19rxTmplRefs)
			sb.WriteString(ref)
			switch {
			case strings.HasPrefix(ref, "$$"):
				feats["dollar-dollar"] = true
			case ref == "$0" || ref == "${0}":
				feats["whole-match"] = true
			case ref == "$" || ref == "${" || ref == "$ " || ref == "$}" || ref == "${}" || ref == "${1" || ref == "$-":
				feats["malformed-reference"] = true
			case strings.Contains(ref, "missing") || ref == "$9" || ref == "$10" || ref == "${10}":
				feats["missing-group"] = true
			default:
				feats["numbered-reference"] = true
			}
		}
	}
	t := sb.String()
	if strings.HasSuffix(t, "$") && !strings.HasSuffix(t, "$$") {
		feats["trailing-dollar"] = true
	}
	return t, feats
}

// ------------------------------------------------------------------ calls and expectations

type c19rxFn struct {
	name  string // name in the inventory (rxSigs)
	recv  bool
	kinds string // of the script arguments: s string, k count
	opt   string
}

var c19rxFns = []c19rxFn{{"regexp.compile", false, "s", ""}, {"regexp.match", false, "ss", ""}, {"match", true, "s", ""}, {"find", true, "s", ""}, {"find_all", true, "s", "k"},
	{"find_submatch", true, "s", ""}, {"replace_all", true, "ss", ""}, {"split", true, "s", "k"}}

// what Go's package regexp returns for the (well-typed) call
func c19rxWant(fn string, re *regexp.Regexp, a []object.Object) string {
	return c19_guarded(func() string {
		n := -1
		if len(a) > 1 && (fn == "find_all" || fn == "split") {
			n = int(c19_iOf(a[1]))
		}
		switch fn {
		case "regexp.compile":
			c, err := regexp.Compile(c19_sOf(a[0]))
			return c19_vErr(err, func() string { return "val r" + c19_hx(c.String()) })
		case "regexp.match":
			m, err := regexp.MatchString(c19_sOf(a[0]), c19_sOf(a[1]))
			return c19_vErr(err, func() string { return c19_vB(m) })
		case "match":
			return c19_vB(re.MatchString(c19_sOf(a[0])))
		case "find":
			return c19_vS(re.FindString(c19_sOf(a[0])))
		case "find_all":
			return c19_vL(re.FindAllString(c19_sOf(a[0]), n))
		case "find_submatch":
			return c19_vL(re.FindStringSubmatch(c19_sOf(a[0])))
		case "replace_all":
			return c19_vS(re.ReplaceAllString(c19_sOf(a[0]), c19_sOf(a[1])))
		case "split":
			return c19_vL(re.Split(c19_sOf(a[0]), n))
		}
		return "other:no-such-function"
	})
}

// one call through the object API (reObj: the compiled pattern for a method) and, optionally,
// through a script (a0 = the pattern)
func c19rxCall(fn c19rxFn, pattern object.Object, reObj object.Object, a []object.Object, script bool) (viaObj, viaScript string) {
	viaScript = "-"
	if fn.recv {
		m, ok := reObj.GetAttr(fn.name)
		if !ok {
			return "other:no-such-method", "-"
		}
		viaObj = c19_callObj(m, a...)
		if script {
			names := make([]string, len(a))
			for i := range a {
				names[i] = "a" + strconv.Itoa(i+1)
			}
			viaScript = c19_evalScript("regexp.compile(a0)."+fn.name+"("+strings.Join(names, ", ")+")", append([]object.Object{pattern}, a...))
		}
		return
	}
	viaObj = c19_modCall("regexp", strings.TrimPrefix(fn.name, "regexp."), a...)
	if script {
		viaScript = c19_evalScript(fn.name+"("+c19_argList(len(a))+")", a)
	}
	return
}

func c19rxAscii(s string) bool {
	for i := 0; i < len(s); i++ {
		if s[i] >= 0x80 {
			return false
		}
	}
	return true
}

func c19rxDropRune(s string, i int) string {
	_, w := utf8.DecodeRuneInString(s[i:])
	return s[:i] + s[i+w:]
}

func c19Regexp(e *Env, rng *RNG) {
	tuples := 1500
	scriptEvery := 3
	if !e.Quick {
		tuples = 40000
		scriptEvery = 4
	}
	type req struct{ c, req, real, what string }
	var reqs []req
	S := object.NewString
	// directed tuples first: the documented example, templates on literal and on grouped patterns
	type tuple struct {
		p       c19rxPattern
		s, t    string
		n       int64
		hasN    bool
		planted int
	}
	lit := func(src string) c19rxPattern {
		return c19rxPattern{src: src, class: "directed", feats: map[string]bool{"directed": true}}
	}
	directed := []tuple{
		{p: lit("a+"), s: "baaab", t: "x"}, {p: lit("a+"), s: "baaab", t: "<$0>"}, {p: lit("USD"), s: "10 USD", t: "$$"}, {p: lit("USD"), s: "10 USD or 5 USD", t: "[$0]"},
		{p: lit(`a\.b`), s: "a.b axb", t: "${0}!"}, {p: lit("é"), s: "café é", t: "$1e"}, {p: lit("(a)(b)?"), s: "ab a", t: "$2$1$3"}, {p: lit("(?P<y>\\d+)-(?P<m>\\d+)"), s: "2024-05", t: "${m}/$y$"},
		{p: lit(""), s: "ab", t: "-"}, {p: lit("x*"), s: "abxc", t: "$0."}, {p: lit("("), s: "a", t: "b"}, {p: lit("a"), s: "aaa", t: "$", n: 2, hasN: true}, {p: lit("a|"), s: "ba", t: "<$0>", n: 0, hasN: true},
		{p: lit("(?i)usd"), s: "10 UsD", t: "$$"}, {p: lit("日"), s: "日本日", t: "$0$0", n: -1, hasN: true}, {p: lit(`\$`), s: "a$b", t: "$$$$"},
	}
	runTuple := func(tp tuple, script bool, shrinkable bool) {
		p := tp.p
		re, cerr := regexp.Compile(p.src)
		if cerr != nil {
			re = nil
		}
		e.R.H("regexp-pattern-class", p.class)
		for f := range p.feats {
			e.R.H("regexp-pattern-features", f)
		}
		if re != nil {
			e.R.H("regexp-pattern-compiles", "yes")
			switch k := len(re.FindAllStringIndex(tp.s, -1)); {
			case k == 0:
				e.R.H("regexp-matches-in-subject", "0")
			case k == 1:
				e.R.H("regexp-matches-in-subject", "1")
			default:
				e.R.H("regexp-matches-in-subject", "2+")
			}
			for _, ix := range re.FindAllStringIndex(tp.s, -1) {
				if ix[0] == ix[1] {
					e.R.H("regexp-matches-in-subject", "has-empty-match")
					break
				}
			}
			if lp, complete := re.LiteralPrefix(); complete && lp != "" {
				e.R.H("regexp-pattern-features", "go-complete-literal")
			}
		} else {
			e.R.H("regexp-pattern-compiles", "no")
		}
		pattern := object.Object(S(p.src))
		if rng.Chance(8) {
			pattern = object.NewByteSlice([]byte(p.src))
		}
		var reObj object.Object
		if re != nil {
			reObj = c19_guardedObj(func() object.Object { return modRegexp.Compile(c19ctx, pattern) })
		}
		for fi := range c19rxFns {
			fn := c19rxFns[fi]
			if fn.recv && (re == nil || reObj == nil) {
				continue
			}
			if _, isErr := reObj.(*object.Error); fn.recv && isErr {
				continue // reported by regexp.compile below
			}
			// the script arguments
			var a []object.Object
			str := func(s string) object.Object {
				if rng.Chance(10) {
					return object.NewByteSlice([]byte(s))
				}
				return S(s)
			}
			switch fn.name {
			case "regexp.compile":
				a = []object.Object{pattern}
			case "regexp.match":
				a = []object.Object{pattern, str(tp.s)}
			case "replace_all":
				a = []object.Object{str(tp.s), str(tp.t)}
			default:
				a = []object.Object{str(tp.s)}
			}
			if fn.opt != "" && tp.hasN {
				a = append(a, object.NewInt(tp.n))
			}
			var feat c19_argFeat
			for _, x := range a {
				if _, ok := x.(*object.Int); ok {
					feat.noteInt(c19_iOf(x))
				} else {
					feat.noteStr(c19_sOf(x))
				}
			}
			wellTyped, arityOK := true, true
			if shrinkable && rng.Chance(4) {
				i := rng.Intn(len(a))
				kind := byte('s')
				if _, ok := a[i].(*object.Int); ok {
					kind = 'k'
				}
				a[i] = c19_wrongTyped(rng, kind)
				wellTyped = false
				feat.wrongType = true
			}
			if shrinkable && rng.Chance(3) {
				if rng.Bool() {
					a = a[:len(fn.kinds)-1]
				} else {
					for len(a) < len(fn.kinds)+len(fn.opt)+1 {
						a = append(a, S("extra"))
					}
				}
				arityOK = false
				feat.wrongArity = true
			}
			want := "err"
			if arityOK && wellTyped {
				want = c19rxWant(fn.name, re, a)
			}
			goRes := "panic" // what the model's Go function gives: not reached for an ill-formed call
			switch {
			case !arityOK || !wellTyped:
			case want == "err":
				goRes = "error"
			case strings.HasPrefix(want, "val r"):
				goRes = "s" + strings.TrimPrefix(want, "val r")
			case strings.HasPrefix(want, "val "):
				goRes = strings.TrimPrefix(want, "val ")
			}
			if want == "gopanic" {
				want = "err"
			}
			viaObj, viaScript := c19rxCall(fn, pattern, reObj, a, script)
			modelArgs := a
			label := fn.name
			if fn.recv {
				modelArgs = append([]object.Object{pattern}, a...)
				label = "regexp.compile(" + strconv.Quote(p.src) + ")." + fn.name
			}
			c := label + " " + c19_argsTok(a)
			e.R.Case(c, true)
			e.R.H("function", "rx:"+fn.name)
			e.R.H("route", "object-api")
			if script {
				e.R.H("route", "script")
			}
			e.R.H("outcome", strings.SplitN(c19_coarse(viaObj), " ", 2)[0])
			check := func(route, got string) bool {
				if c19_coarse(got) == c19_coarse(want) {
					return true
				}
				cc, detail := c, fmt.Sprintf("risor returned %s, the Go function gives %s", got, want)
				// a smaller subject / template that still shows the difference (object API only)
				if fn.recv && arityOK && wellTyped && route == "object-api" && shrinkable {
					s, t := c19_sOf(a[0]), ""
					if len(a) > 1 && fn.name == "replace_all" {
						t = c19_sOf(a[1])
					}
					differs := func(s2, t2 string) (string, string, bool) {
						b := []object.Object{S(s2)}
						if fn.name == "replace_all" {
							b = append(b, S(t2))
						}
						b = append(b, a[len(b):]...)
						w := c19rxWant(fn.name, re, b)
						m, _ := reObj.GetAttr(fn.name)
						g := c19_callObj(m, b...)
						return g, w, c19_coarse(g) != c19_coarse(w)
					}
					for changed := true; changed; {
						changed = false
						for i := 0; i < len(s); {
							if _, _, d := differs(c19rxDropRune(s, i), t); d {
								s = c19rxDropRune(s, i)
								changed = true
							} else {
								_, w := utf8.DecodeRuneInString(s[i:])
								i += w
							}
						}
						for i := 0; i < len(t); {
							if _, _, d := differs(s, c19rxDropRune(t, i)); d {
								t = c19rxDropRune(t, i)
								changed = true
							} else {
								_, w := utf8.DecodeRuneInString(t[i:])
								i += w
							}
						}
					}
					if g, w, d := differs(s, t); d {
						b := []object.Object{S(s)}
						if fn.name == "replace_all" {
							b = append(b, S(t))
						}
						b = append(b, a[len(b):]...)
						cc = label + " " + c19_argsTok(b)
						detail = fmt.Sprintf("risor returned %s, the Go function gives %s (pattern %q, subject %q, template %q; shrunk from %s)", g, w, p.src, s, t, c19_argsTok(a))
					}
				}
				e.R.Spec(cc+" via "+route, detail, "")
				return false
			}
			check("object-api", viaObj)
			if script {
				check("script", viaScript)
				if c19_coarse(viaScript) != c19_coarse(viaObj) {
					e.R.Mismatch(c, viaObj, viaScript, "object API and script route disagree")
				}
			}
			// the Lean glue model of the inventory, applied to the Go result
			reqs = append(reqs, req{c, "C19\trxglue\t" + fn.name + "\t" + c19_argsTok(modelArgs) + "\t" + goRes, viaObj, "regexp wrapper vs C19.rxWrap (glue model of the regenerated inventory)"})
		}
		// the module called as a function is regexp.compile
		if script && rng.Chance(25) {
			viaCall := c19_evalScript("regexp(a0)", []object.Object{pattern})
			want := c19rxWant("regexp.compile", nil, []object.Object{pattern})
			c := "regexp() " + c19_argsTok([]object.Object{pattern})
			e.R.Case(c, true)
			e.R.H("function", "rx:regexp()")
			if c19_coarse(viaCall) != c19_coarse(want) {
				e.R.Spec(c+" via script", fmt.Sprintf("risor returned %s, regexp.Compile gives %s", viaCall, want), "")
			}
		}
		// the Lean model of template expansion against Go's, on the first match; and of
		// ReplaceAllString / strings.ReplaceAll on a complete literal
		if re != nil {
			if !c19rxAscii(tp.t) {
				e.R.H("template-model", "template not ASCII (outside the model)")
			} else if ix := re.FindStringSubmatchIndex(tp.s); ix != nil {
				groups := make([]string, len(ix)/2)
				for i := range groups {
					if ix[2*i] < 0 {
						groups[i] = "n"
					} else {
						groups[i] = "s" + c19_hx(tp.s[ix[2*i]:ix[2*i+1]])
					}
				}
				names := re.SubexpNames()
				nm := make([]string, len(names))
				for i, s := range names {
					nm[i] = "s" + c19_hx(s)
				}
				goExp := string(re.ExpandString(nil, tp.t, tp.s, ix))
				c := "expand " + strconv.Quote(p.src) + " " + strconv.Quote(tp.s) + " " + strconv.Quote(tp.t)
				reqs = append(reqs, req{c, "C19\texpand\t" + c19_hx(tp.t) + "\t" + strings.Join(groups, " ") + "\t" + strings.Join(nm, " "), c19_hx(goExp),
					"Regexp.ExpandString vs C19.expand (template model)"})
			} else {
				e.R.H("template-model", "no match to expand")
			}
			// (LiteralPrefix looks through capturing groups: `(a)b` has the complete prefix "ab" —
			// the model is about patterns WITHOUT groups)
			if lp, complete := re.LiteralPrefix(); complete && lp != "" && re.NumSubexp() == 0 && c19rxAscii(tp.t) && utf8.ValidString(lp) {
				c := "replace-literal " + strconv.Quote(lp) + " " + strconv.Quote(tp.s) + " " + strconv.Quote(tp.t)
				reqs = append(reqs, req{c, "C19\treplit\t" + c19_hx(tp.s) + "\t" + c19_hx(lp) + "\t" + c19_hx(tp.t),
					c19_hx(re.ReplaceAllString(tp.s, tp.t)) + " " + c19_hx(strings.ReplaceAll(tp.s, lp, tp.t)),
					"ReplaceAllString on a literal pattern / strings.ReplaceAll vs C19.regexpReplaceAllLit / stringsReplaceAll"})
				if strings.Contains(tp.t, "$") && strings.Contains(tp.s, lp) {
					e.R.H("regexp-scenario", "complete literal + template with $ + a match")
				}
			}
		}
	}
	for _, tp := range directed {
		runTuple(tp, true, false)
	}
	for n := 0; n < tuples; n++ {
		p := c19rxGenPattern(rng)
		s, planted := c19rxSubject(rng, p)
		t, tfeats := c19rxTemplate(rng, p)
		for f := range tfeats {
			e.R.H("regexp-template-features", f)
		}
		tp := tuple{p: p, s: s, t: t, planted: planted}
		if rng.Bool() {
			tp.hasN = true
			tp.n = int64(rng.Intn(7)) - 2
			if rng.Chance(4) {
				tp.n = Pick(rng, c19Ints)
			}
		}
		runTuple(tp, n%scriptEvery == 0, true)
	}
	lines := make([]string, len(reqs))
	for i, q := range reqs {
		lines[i] = q.req
	}
	for i, rep := range e.O.AskBatch(lines) {
		model := strings.ReplaceAll(rep, "\t", " ")
		kind := strings.SplitN(reqs[i].req, "\t", 3)[1]
		real := reqs[i].real
		if kind == "rxglue" {
			model = strings.NewReplacer("argsErr", "err:args", "typeErr", "err:type").Replace(model)
			if strings.HasPrefix(real, "val r") { // a regexp object: identified by the source of its pattern
				real = "val s" + strings.TrimPrefix(real, "val r")
			}
			// the model has one `err` for every error value that is not an arity or type error
			if strings.HasPrefix(real, "err") && real != "err:args" && real != "err:type" {
				real = "err"
			}
			e.R.H("rx-glue-model", strings.SplitN(model, " ", 2)[0])
		} else {
			e.R.H("template-model", kind)
		}
		if model != real {
			e.R.Mismatch(reqs[i].c, real, model, reqs[i].what)
		}
	}
}
