package main

// C08 — FIRST USE of a Go type racing with other uses of it (RisorModel/C08/Reg.lean).
//
// object.NewGoType describes a Go type once per process, the first time a value of the type is
// handed to a script, and publishes the (still empty) description before it fills it in.  Two
// evaluations that meet at a type risor has never seen must both get the complete description:
// the field read / method call of every goroutine must be the one of a sequential use.
//
// Every process has seen NO type when it starts, so the races run in child processes
// ("C08-firstuse-child", also because a data race on the description's attribute map is a fatal
// `concurrent map read and map write` that no recover catches):
//   phase H  one race on *c08_Host (3 fields, ~70 methods with parameters of ~60 types: the widest
//            description the harness has): 2-4 goroutines call one method each, each on its own host
//   phase S  rounds over struct types made by reflect.StructOf with a tag no other round uses
//            (8-120 fields; depth <= 2): 2-4 goroutines proxy their own value of the type and read
//            one field at once, through object.NewProxy + GetAttr, through a converter obtained by
//            NewTypeConverter + From, or as a risor.Eval global; in a third of the rounds the first
//            goroutine proxies an OUTER fresh struct that contains the type (by value / behind a
//            pointer) instead
// The goroutines leave a common barrier after delays drawn from the seed (the interleaving aimed
// at is part of the case: SCHED); every goroutine's result goes to the oracle as a `firstuse`
// request (Reg.lean's locked registry on SCHED + the model's get / call) and is judged by the Spec.

import (
	"bufio"
	"bytes"
	"context"
	"encoding/json"
	"fmt"
	"os"
	"os/exec"
	"reflect"
	"runtime"
	"strconv"
	"strings"
	"sync"
	"sync/atomic"
	"time"

	"github.com/risor-io/risor"
	"github.com/risor-io/risor/object"
)

func init() { childCommands["C08-firstuse-child"] = c08_firstUseChild }

// one goroutine's use, as the child reports it
type c08_fuUse struct {
	User  int    `json:"user"`
	Path  string `json:"path"`  // proxy | conv | eval
	Kind  string `json:"kind"`  // get | call
	PT    string `json:"pt"`    // get: the pointer type proxied; call: the parameter type
	PV    string `json:"pv"`    // get: the value
	Idx   int    `json:"idx"`   // get: field index
	Obj   string `json:"obj"`   // call: the argument
	Gout  string `json:"gout"`  // the real result
	Depth int    `json:"depth"` // type depth (histograms)
}

type c08_fuRound struct {
	Round   int         `json:"round"`
	Phase   string      `json:"phase"`   // host | struct | inner
	Sched   string      `json:"sched"`   // the interleaving aimed at
	NAttrs  int         `json:"nattrs"`  // attributes of the raced type
	ScaleUS int         `json:"scaleus"` // the delay that one full description was given
	Begin   bool        `json:"begin"`   // a line written BEFORE the race (so that a dead child names its round)
	Uses    []c08_fuUse `json:"uses,omitempty"`
}

// c08_fuSchedule draws the interleaving: the first goroutine starts describing the type, the
// others arrive after 0..n+1 of its steps; then the description is completed and everybody who
// had to wait asks again.  delays[k] = steps before goroutine k's first lookup.
func c08_fuSchedule(r *RNG, users, n int) (string, []int) {
	order := make([]int, users)
	for i := range order {
		order[i] = i
	}
	for i := users - 1; i > 0; i-- {
		j := r.Intn(i + 1)
		order[i], order[j] = order[j], order[i]
	}
	delays := make([]int, users)
	var ev []string
	steps := 0
	for pos, k := range order {
		if pos > 0 {
			var d int
			switch r.Intn(4) {
			case 0:
				d = 0 // both arrive together
			case 1:
				d = 1 + r.Intn(3) // just after the type was published
			default:
				d = r.Intn(n + 2)
			}
			if steps+d > n+1 {
				d = n + 1 - steps
			}
			for i := 0; i < d; i++ {
				ev = append(ev, "w")
			}
			steps += d
		}
		delays[k] = steps
		ev = append(ev, "u"+strconv.Itoa(k))
	}
	for i := steps; i < n+1; i++ {
		ev = append(ev, "w")
	}
	for k := 0; k < users; k++ {
		ev = append(ev, "u"+strconv.Itoa(k))
	}
	return strings.Join(ev, ","), delays
}

// c08_fuRace releases the goroutines from one barrier; goroutine k then waits delay[k] and runs.
func c08_fuRace(fs []func(), delay []time.Duration) {
	var ready, gate int32
	var wg sync.WaitGroup
	for k := range fs {
		wg.Add(1)
		go func(k int) {
			defer wg.Done()
			atomic.AddInt32(&ready, 1)
			for atomic.LoadInt32(&gate) == 0 {
				runtime.Gosched()
			}
			if d := delay[k]; d > 0 {
				for t0 := time.Now(); time.Since(t0) < d; {
				}
			}
			fs[k]()
		}(k)
	}
	for atomic.LoadInt32(&ready) < int32(len(fs)) {
		runtime.Gosched()
	}
	atomic.StoreInt32(&gate, 1)
	wg.Wait()
}

// a struct type no other round of this process (and nothing before) has made
func c08_fuFresh(fs []*c08_MTy, tag string) *c08_MTy {
	sf := make([]reflect.StructField, len(fs))
	for i, f := range fs {
		sf[i] = reflect.StructField{Name: "F" + strconv.Itoa(i), Type: f.RT()}
	}
	sf[0].Tag = reflect.StructTag(`c08:"` + tag + `"`)
	t := c08_mStruct(fs...)
	t.rt = reflect.StructOf(sf)
	return t
}

type c08_fuResult struct {
	o     object.Object
	ok    bool
	class string // "" | error | panic
}

// the three ways a value of pointer-to-struct type reaches a script, then one field read
func c08_fuRead(path string, p reflect.Value, name string) (res c08_fuResult) {
	defer func() {
		if r := recover(); r != nil {
			res = c08_fuResult{class: "panic"}
		}
	}()
	var px *object.Proxy
	switch path {
	case "proxy":
		x, err := object.NewProxy(p.Interface())
		if err != nil {
			return c08_fuResult{class: "error"}
		}
		px = x
	case "conv":
		conv, err := object.NewTypeConverter(p.Type())
		if err != nil {
			return c08_fuResult{class: "error"}
		}
		o, err := conv.From(p.Interface())
		if err != nil {
			return c08_fuResult{class: "error"}
		}
		x, isPx := o.(*object.Proxy)
		if !isPx {
			return c08_fuResult{class: "error"}
		}
		px = x
	default: // eval
		r, err := risor.Eval(context.Background(), "p."+name, risor.WithGlobals(map[string]any{"p": p.Interface()}))
		if err != nil {
			if strings.HasPrefix(err.Error(), "panic:") {
				return c08_fuResult{class: "panic"}
			}
			return c08_fuResult{class: "error"}
		}
		return c08_fuResult{o: r, ok: true}
	}
	o, ok := px.GetAttr(name)
	return c08_fuResult{o: o, ok: ok}
}

func (x c08_fuResult) str() string {
	if x.class != "" {
		return x.class
	}
	return c08_attrResult(x.o, x.ok)
}

func c08_firstUseChild(args []string) {
	seed, _ := strconv.ParseUint(args[0], 10, 64)
	rounds, _ := strconv.Atoi(args[1])
	rng := NewRNG(seed)
	g := &c08_gen{r: rng.Fork()}
	w := bufio.NewWriter(os.Stdout)
	emit := func(r c08_fuRound) {
		b, _ := json.Marshal(r)
		w.Write(b)
		w.WriteByte('\n')
		w.Flush()
	}
	scales := []int{2, 5, 10, 20, 50, 100, 200, 400, 1000}
	mkDelays := func(steps []int, n, scaleUS int) []time.Duration {
		out := make([]time.Duration, len(steps))
		for k, s := range steps {
			out[k] = time.Duration(s) * time.Duration(scaleUS) * time.Microsecond / time.Duration(n+1)
		}
		return out
	}

	// ---- phase H: the host type with its methods (never seen by this process) ----
	{
		ht := reflect.TypeOf(&c08_Host{})
		users := 2 + rng.Intn(3)
		nattrs := 3 + ht.NumMethod()
		sched, steps := c08_fuSchedule(rng, users, nattrs)
		scale := Pick(rng, []int{50, 200, 500, 1000, 2000, 4000})
		type call struct {
			m    c08_hostMethod
			a    int
			o    object.Object
			path string
			h    *c08_Host
			res  object.Object
			cls  string
		}
		cs := make([]*call, users)
		for k := range cs {
			m := Pick(rng, c08_hostMethods)
			a := 3
			for i := 0; i < ht.NumMethod(); i++ {
				if ht.Method(i).Name == m.name {
					a = 3 + i
				}
			}
			var o object.Object = object.NewInt(int64(rng.Intn(100)))
			switch m.pt.under().K {
			case "str":
				o = object.NewString(g.strVal())
			case "bool":
				o = object.NewBool(rng.Bool())
			case "f32", "f64":
				o = object.NewFloat(float64(rng.Intn(64)) / 4)
			case "slice", "array", "map", "struct", "ptr", "iface", "time":
				// what From makes of a Go value of the parameter type (describes the types it
				// needs BEFORE the race: the host type stays the only never-seen one)
				if o = g.natural(m.pt, 1); o == nil {
					o = object.Nil
				}
			}
			cs[k] = &call{m: m, a: a, o: o, path: Pick(rng, []string{"proxy", "proxy", "eval"}), h: &c08_Host{}}
		}
		emit(c08_fuRound{Round: -1, Phase: "host", Sched: sched, NAttrs: nattrs, ScaleUS: scale, Begin: true})
		fs := make([]func(), users)
		for k := range fs {
			c := cs[k]
			fs[k] = func() {
				c.cls = c08_recoverClass(func() string {
					if c.path == "eval" {
						r, err := risor.Eval(context.Background(), "h."+c.m.name+"(x)", risor.WithGlobals(map[string]any{"h": c.h, "x": c.o}))
						if err != nil {
							if strings.HasPrefix(err.Error(), "panic:") {
								return "panic"
							}
							return "error"
						}
						c.res = r
						return "ok"
					}
					px, err := object.NewProxy(c.h)
					if err != nil {
						return "error"
					}
					attr, ok := px.GetAttr(c.m.name)
					if !ok {
						return "error"
					}
					b, isB := attr.(*object.Builtin)
					if !isB {
						return "error"
					}
					c.res = b.Call(context.Background(), c.o)
					return "ok"
				})
			}
		}
		c08_fuRace(fs, mkDelays(steps, nattrs, scale))
		out := c08_fuRound{Round: -1, Phase: "host", Sched: sched, NAttrs: nattrs, ScaleUS: scale}
		for k, c := range cs {
			gout := c.cls
			if gout == "ok" {
				if _, isErr := c.res.(*object.Error); isErr || !c.h.Called {
					gout = "error"
				} else {
					slot := reflect.New(c.m.pt.RT()).Elem()
					if c.h.Got != nil {
						slot.Set(reflect.ValueOf(c.h.Got))
					}
					gout = "(ok " + c08_valStr(slot, c.m.pt) + " " + c08_objStr(c.res) + ")"
				}
			}
			out.Uses = append(out.Uses, c08_fuUse{User: k, Path: c.path, Kind: "call", PT: c.m.pt.String(), Obj: c08_objStr(c.o), Idx: c.a, Gout: gout, Depth: c.m.pt.depth()})
		}
		emit(out)
	}

	// ---- phase S: struct types made for this round ----
	for rd := 0; rd < rounds; rd++ {
		tag := strconv.FormatUint(seed, 10) + "-" + strconv.Itoa(rd)
		n := 8 + rng.Intn(40)
		if rng.Chance(35) {
			n = 48 + rng.Intn(73)
		}
		fts := make([]*c08_MTy, n)
		for i := range fts {
			if rng.Chance(75) {
				fts[i] = g.leafTy(false)
			} else {
				fts[i] = g.ty(1, false)
			}
		}
		st := c08_fuFresh(fts, tag)
		phase := "struct"
		var outer *c08_MTy
		if rng.Chance(33) {
			// an outer fresh struct that contains the type, by value or behind a pointer
			phase = "inner"
			m := 1 + rng.Intn(6)
			ofs := make([]*c08_MTy, m)
			for i := range ofs {
				ofs[i] = g.leafTy(false)
			}
			at := rng.Intn(m)
			if rng.Bool() {
				ofs[at] = st
			} else {
				ofs[at] = c08_mPtr(st)
			}
			outer = c08_fuFresh(ofs, tag+"-outer")
		}
		users := 2 + rng.Intn(3)
		sched, steps := c08_fuSchedule(rng, users, n)
		scale := Pick(rng, scales)
		type use struct {
			pt   *c08_MTy
			p    reflect.Value
			idx  int
			path string
			res  c08_fuResult
		}
		us := make([]*use, users)
		first := 0
		for k := range steps {
			if steps[k] == 0 && strings.HasPrefix(sched, "u"+strconv.Itoa(k)+",") {
				first = k
			}
		}
		for k := range us {
			ty := st
			if outer != nil && k == first {
				ty = outer
			}
			p := reflect.New(ty.RT())
			p.Elem().Set(g.val(ty, 2, false))
			idx := rng.Intn(len(ty.Fs))
			if ty == st && rng.Chance(50) {
				idx = n - 1 - rng.Intn(3) // the fields discovered last
			}
			us[k] = &use{pt: c08_mPtr(ty), p: p, idx: idx, path: Pick(rng, []string{"proxy", "proxy", "conv", "eval"})}
		}
		emit(c08_fuRound{Round: rd, Phase: phase, Sched: sched, NAttrs: n, ScaleUS: scale, Begin: true})
		fs := make([]func(), users)
		for k := range fs {
			u := us[k]
			fs[k] = func() { u.res = c08_fuRead(u.path, u.p, "F"+strconv.Itoa(u.idx)) }
		}
		c08_fuRace(fs, mkDelays(steps, n, scale))
		out := c08_fuRound{Round: rd, Phase: phase, Sched: sched, NAttrs: n, ScaleUS: scale}
		for k, u := range us {
			if outer != nil && k == first {
				continue // the outer value's read is not a use of the raced type (it started the description)
			}
			out.Uses = append(out.Uses, c08_fuUse{User: k, Path: u.path, Kind: "get", PT: u.pt.String(), PV: c08_valStr(u.p, u.pt), Idx: u.idx, Gout: u.res.str(), Depth: u.pt.depth()})
		}
		emit(out)
	}
}

// firstUseChildren runs `children` processes of `rounds` struct rounds each (plus the host race)
func (r *c08Run) firstUseChildren(children, rounds int) {
	e := r.e
	for c := 0; c < children; c++ {
		seed := r.g.r.Next() >> 1
		ckey := fmt.Sprintf("firstuse child seed=%d rounds=%d", seed, rounds)
		ctx, cancel := context.WithTimeout(context.Background(), 90*time.Second)
		cmd := exec.CommandContext(ctx, os.Args[0], "C08-firstuse-child", strconv.FormatUint(seed, 10), strconv.Itoa(rounds))
		var ob, eb bytes.Buffer
		cmd.Stdout, cmd.Stderr = &ob, &eb
		cmd.Env = append(os.Environ(), "GOMEMLIMIT=1GiB")
		err := cmd.Run()
		timedOut := ctx.Err() != nil
		cancel()
		var last c08_fuRound
		begun, done := 0, 0
		for _, line := range strings.Split(ob.String(), "\n") {
			if strings.TrimSpace(line) == "" {
				continue
			}
			var rd c08_fuRound
			if json.Unmarshal([]byte(line), &rd) != nil {
				continue
			}
			if rd.Begin {
				last = rd
				begun++
				continue
			}
			done++
			e.R.H("firstuse_phase", rd.Phase)
			e.R.H("firstuse_goroutines", strconv.Itoa(strings.Count(rd.Sched, "u")/2))
			e.R.H("firstuse_attributes", strconv.Itoa(rd.NAttrs/20*20)+"+")
			for _, u := range rd.Uses {
				where := fmt.Sprintf("goroutine %d of [%s] via %s, %s round %d of child seed=%d", u.User, rd.Sched, u.Path, rd.Phase, rd.Round, seed)
				var key, inner string
				if u.Kind == "get" {
					key = fmt.Sprintf("firstuse get %s %s %d — %s", u.PT, u.PV, u.Idx, where)
					inner = strings.Join([]string{"get", u.PT, u.PV, strconv.Itoa(u.Idx), u.Gout}, "\t")
				} else {
					key = fmt.Sprintf("firstuse call %s %s — %s", u.PT, u.Obj, where)
					inner = strings.Join([]string{"call", u.PT, u.Obj, u.Gout}, "\t")
				}
				e.R.H("firstuse_path", u.Kind+"/"+u.Path)
				e.R.H("type_depth", strconv.Itoa(u.Depth))
				r.add(c08Case{op: "firstuse-" + u.Kind, key: key, gout: u.Gout,
					req: strings.Join([]string{"C08", "firstuse", rd.Sched, strconv.Itoa(u.User), strconv.Itoa(rd.NAttrs), strconv.Itoa(u.Idx), inner}, "\t")})
			}
		}
		if err == nil && begun == done {
			e.R.H("firstuse_child", "completed")
			continue
		}
		if timedOut {
			e.R.H("firstuse_child", "timed out (no verdict)") // timing is never a verdict
			continue
		}
		firstLine := ""
		for _, l := range strings.Split(eb.String(), "\n") {
			if strings.Contains(l, "fatal error") || strings.Contains(l, "panic:") {
				firstLine = strings.TrimSpace(l)
				break
			}
		}
		if firstLine == "" {
			firstLine = c08_short(strings.TrimSpace(eb.String()), 200)
		}
		e.R.H("firstuse_child", "DIED")
		key := fmt.Sprintf("%s — died in %s round %d, goroutines [%s], %d attributes", ckey, last.Phase, last.Round, last.Sched, last.NAttrs)
		e.R.Case(key, true)
		e.R.Spec(key, fmt.Sprintf("the process in which several goroutines handed values of one never-seen Go type to scripts died (%v): %s — every goroutine must get the complete description of the type", err, firstLine), "")
	}
}
