package main

// C20 — several lexers in one process (Lean: World / WOp / templateOps, quote_frame,
// quote_own_input, quote_after_template_fragments, world_quote_verbatim).
//
// A diagnostic quotes a line of the text it is about.  The line is read by Lexer.GetLineText from
// the lexer's own copy of the input — possibly long after the lexer has produced its EOF token
// (the parser looks one token ahead) and after OTHER lexers have been created: one per
// interpolated fragment of a template string, one per script of a host.  Two streams:
//
//   world : the real lexer on a text, read to EOF; GetLineText of every token; then lexers on 1..3
//           other texts (fragments of the text, expressions, whole other programs; shorter and
//           longer than the text) created and read to the end; GetLineText of every token again.
//           Impl = Lean `(templateOps outer frags).foldl World.step []).quote 0 off eof`
//           (request `C20 world`); Spec = the quoted line is the line of the OUTER text the token
//           starts on, verbatim, and is what it was before the other lexers existed.
//   tail  : program texts whose LAST token is a template string inside a bracket that is never
//           closed (`print('…{expr}…'`, no line break at the end): the parser's error is built
//           when the lexer is at EOF and the nested parsers of the fragments have run.  Through
//           c20Diag (Spec: position exists, line quoted verbatim, message renders; Impl: Lean
//           getLineText/posAt/renderOk).  Closed twins and twins with a line break at the end
//           keep the stream mostly valid / cover the EOF finding.

import (
	"fmt"
	"strings"

	"github.com/risor-io/risor/lexer"
	"github.com/risor-io/risor/token"
)

// WORKER SIDE ONLY.  packed = outer NUL other NUL other …
func c20WorldLocal(packed string) (w c20Wire) {
	defer func() {
		if r := recover(); r != nil {
			w.Panic = fmt.Sprintf("%v", r)
		}
	}()
	parts := strings.Split(packed, "\x00")
	outer := parts[0]
	drain := func(l *lexer.Lexer, n int) (toks []token.Token, err error) {
		for i := 0; i < n+5; i++ {
			t, e := l.Next()
			if e != nil {
				return toks, e
			}
			toks = append(toks, t)
			if t.Type == token.EOF {
				break
			}
		}
		return toks, nil
	}
	l := lexer.New(outer)
	toks, err := drain(l, len(outer))
	if err != nil {
		w.LexErr = err.Error()
	}
	for _, t := range toks {
		w.Quotes0 = append(w.Quotes0, l.GetLineText(t))
	}
	for _, f := range parts[1:] {
		drain(lexer.New(f), len(f))
	}
	for _, t := range toks {
		w.Quotes = append(w.Quotes, l.GetLineText(t))
		w.TT = append(w.TT, string(t.Type))
		sp, ep := t.StartPosition, t.EndPosition
		w.TP = append(w.TP, [8]int{sp.Char, sp.Line, sp.Column, sp.LineStart, ep.Char, ep.Line, ep.Column, ep.LineStart})
	}
	return
}

var c20WorldExprs = []string{
	"x", "user", "a + b", "n1 * 2 + offset", "items[0].name", "len(xs) - 1", "f(a, b)\n", "größe",
	"count * 2 + offset - (total / parts)", "\"a string that is rather long, longer than most lines\"",
	"user.profile.display_name.upper()", "x\ny\nz", "[1, 2, 3]\n[4, 5, 6]\n", "a\n",
}

var c20TailOpeners = []string{"print(", "f(a, ", "[1, ", "x := [", "y := len(", "m := {\"k\": ", "(", "xs.append(1, ", "x := f(g("}
var c20TailClosers = map[string]string{"print(": ")", "f(a, ": ")", "[1, ": "]", "x := [": "]", "y := len(": ")", "m := {\"k\": ": "}", "(": ")", "xs.append(1, ": ")", "x := f(g(": "))"}
var c20TailPrefix = []string{"", "", "x := 1\n", "a := 1\nb := 2\n", "// note\nuser := \"u\"\n", "größe := 10\n", "func f(a, b) {\n\treturn a + b\n}\n", "x := [\n\t1,\n\t2,\n]\n"}
var c20TailFrags = []string{"x", "user", "a + b", "n * 2 + offset", "items[0].name", "len(xs) - 1", "f(a, b)", "größe",
	"count * 2 + offset - (total / parts)", "user.profile.display_name", "a ? b : c", "[1, 2, 3][0]"}
var c20TailTexts = []string{"", "t", "hello ", " items", "Grüße, ", "total: "}

func c20WorldStream(e *Env, r *RNG) {
	nWorld, nTail := 300, 400
	if !e.Quick {
		nWorld, nTail = 6000, 8000
	}
	// directed: the committed replay of the recorded finding C20-template-fragment-error-position
	c20Diag(e, "a := 1\nb := 2\ny := len('total: {a ? b : c}hello ')", "directed: compile error inside a template fragment", true, true)
	// ---- tail: the last token is a template string, the bracket before it is never closed
	for i := 0; i < nTail; i++ {
		tpl := "'" + Pick(r, c20TailTexts) + "{" + Pick(r, c20TailFrags) + "}" + Pick(r, c20TailTexts)
		if r.Chance(25) { // a second fragment in the same (last) template
			tpl += "{" + Pick(r, c20TailFrags) + "}"
		}
		tpl += "'"
		op := Pick(r, c20TailOpeners)
		src := Pick(r, c20TailPrefix) + op + tpl
		kind := "bracket never closed, template string last"
		switch k := r.Intn(10); {
		case k < 2:
			kind = "closed twin"
			src += c20TailClosers[op]
		case k < 4:
			kind = "never closed, line break at the end"
			src += "\n"
		case k < 5:
			kind = "never closed, trailing blanks"
			src += " \t"
		}
		e.R.H("tail", kind)
		ag := c20LexCheck(e, []string{src}, "template tail")
		e.R.Case("tail "+src, strings.Contains(src, "\n"))
		if kind == "closed twin" {
			// the closed text must parse; compiled, an error INSIDE a fragment (an undefined name)
			// carries a position relative to the fragment, not to the text: the recorded finding
			// C20-template-fragment-error-position (judged and attributed by c20Diag)
			o := c20Observe(src, false)
			if o.PErr != nil || o.Panic != "" {
				e.R.Spec(src, fmt.Sprintf("a closed bracket around a template string does not parse: %v %s", o.PErr, o.Panic), "")
				continue
			}
		}
		c20Diag(e, src, "template string as the last token: "+kind, true, ag[0])
	}
	// ---- world
	for i := 0; i < nWorld; i++ {
		o := GenOpts{MaxStmts: 1 + r.Intn(3), MaxDepth: 1 + r.Intn(2), Budget: 10 + r.Intn(40), Funcs: r.Bool(), Containers: true, Strings: true}
		outer, _ := c20Uni(r, Src(GenProgram(r, o)))
		switch r.Intn(6) {
		case 0:
			outer = strings.TrimRight(outer, "\n")
		case 1:
			outer = Pick(r, c20TailPrefix) + Pick(r, c20TailOpeners) + "'" + Pick(r, c20TailTexts) + "{" + Pick(r, c20TailFrags) + "}'"
		}
		if outer == "" || strings.Contains(outer, "\x00") {
			continue
		}
		var others []string
		for k, n := 0, 1+r.Intn(3); k < n; k++ {
			switch r.Intn(4) {
			case 0: // a whole other script (a host with several scripts)
				p2, _ := c20Uni(r, Src(GenProgram(r, o)))
				if p2 != "" {
					others = append(others, p2)
				}
			case 1: // a piece of the outer text itself
				rs := []rune(outer)
				a := r.Intn(len(rs))
				b := a + 1 + r.Intn(len(rs)-a)
				others = append(others, string(rs[a:b]))
			default:
				others = append(others, Pick(r, c20WorldExprs))
			}
		}
		if len(others) == 0 {
			others = []string{"x"}
		}
		c20WorldCase(e, outer, others)
	}
}

func c20WorldCase(e *Env, outer string, others []string) {
	id := fmt.Sprintf("world %q then lexers on %q", outer, others)
	lines := c20_splitLinesRunes(outer)
	nRunes := len([]rune(outer))
	longer := false
	for _, o := range others {
		if len([]rune(o)) > len(lines[0]) {
			longer = true
		}
	}
	e.R.Case(id, len(lines) > 1)
	e.R.H("world_others", fmt.Sprintf("%d other lexers; one longer than the first line: %v", len(others), longer))
	w, ok := c20Call("world", outer+"\x00"+strings.Join(others, "\x00"))
	if !ok {
		c20DeathSpec(e, id, "the real lexer does not return ("+c20LastDeath+")")
		return
	}
	if w.Panic != "" {
		e.R.H("world_verdict", "PANIC")
		e.R.Spec(id, "lexer.New / Next / GetLineText panics: "+w.Panic, "")
		return
	}
	if w.LexErr != "" {
		e.R.H("world_outer", "ends in a lexer error")
	} else {
		e.R.H("world_outer", "read to EOF")
	}
	hx := make([]string, len(others))
	for i, o := range others {
		hx[i] = Hex(o)
	}
	reqs := make([]string, len(w.TT))
	for k := range w.TT {
		eof := "0"
		if w.TT[k] == string(token.EOF) {
			eof = "1"
		}
		reqs[k] = "C20\tworld\t" + Hex(outer) + "\t" + strings.Join(hx, ";") + "\t" + fmt.Sprint(w.TP[k][0]) + "\t" + eof
	}
	reps := e.O.AskBatch(reqs)
	for k := range w.TT {
		isEOF := w.TT[k] == string(token.EOF)
		f := strings.Split(reps[k], "\t")
		goQ := w.Quotes[k]
		implOK := len(f) == 3 && f[0] == Hex(goQ)
		tokID := fmt.Sprintf("%s | token #%d %s at offset %d", id, k, w.TT[k], w.TP[k][0])
		if !implOK {
			e.R.H("world_corr", "MISMATCH")
			e.R.Mismatch(tokID, Hex(goQ), reps[k], "GetLineText of the outer lexer after the other lexers were created and read: real lexer vs Lean World.quote")
		} else {
			e.R.H("world_corr", "agree")
		}
		var bad []string
		if goQ != w.Quotes0[k] {
			bad = append(bad, fmt.Sprintf("GetLineText returned %q before the other lexers were created and %q after", w.Quotes0[k], goQ))
		}
		ln := w.TP[k][1]
		stale := isEOF && w.TP[k][0] != nRunes // an EOF token whose recorded start is a skipped comment's
		if !stale {
			if ln < 0 || ln >= len(lines) {
				bad = append(bad, fmt.Sprintf("line %d does not exist", ln+1))
			} else if goQ != string(lines[ln]) {
				bad = append(bad, fmt.Sprintf("quoted text %q is not line %d of the lexer's input (%q)", goQ, ln+1, string(lines[ln])))
			}
		}
		if len(bad) == 0 {
			e.R.H("world_verdict", "quoted line verbatim, unchanged by the other lexers")
			continue
		}
		finding := ""
		if implOK && len(bad) == 1 && strings.HasPrefix(bad[0], "quoted text") && isEOF && strings.HasSuffix(outer, "\n") && f[1] == "false" {
			finding = c20_fEOFLine
			e.R.H("world_verdict", "EOF token of a text ending in a line break: previous line quoted (known finding)")
		} else {
			e.R.H("world_verdict", "VIOLATION")
		}
		e.R.Spec(tokID, strings.Join(bad, "; "), finding)
	}
}
