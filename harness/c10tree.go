package main

// C10, part E — schedules of the model's THREAD TREE (`Net`: spawn / return / wait / channel
// operations by threads at any depth) executed step by step on real script threads.
//
// Every thread — the main program included — runs the same `worker` function, which asks
// the host for its next command (`cmd`), performs it (send, receive, close, spawn a worker
// with spawn() / fn.spawn() / go, wait for a thread, return) and reports the result.  The
// driver follows a generated schedule, one step at a time, issuing only the steps the model
// says are enabled, and compares every observation with `C10 net`.  Whenever a thread is
// parked in `cmd` the host holds the context that thread runs under: after every step the
// driver reads `ctx.Err()` of every parked thread — the real counterpart of the model's
// `ctxDone` (a logical observation; nothing is timed).  Spec, evaluated on the real results:
// per channel the received values are exactly the accepted ones in order, no send or receive
// is refused with a context error while the run's context is live, wait returns the call's
// value.

import (
	"context"
	"fmt"
	"runtime"
	"sort"
	"strconv"
	"strings"
	"sync"
	"time"

	"github.com/risor-io/risor"
	"github.com/risor-io/risor/object"
)

type c10TreeScn struct {
	caps   []int
	ops    []string       // oracle syntax (C10 net)
	forms  map[int]string // thread -> spawn | fnspawn | go
	cancel bool           // the host cancels the run at the end
}

func (s c10TreeScn) key() string {
	var fs []string
	for t := 1; t <= len(s.forms); t++ {
		fs = append(fs, s.forms[t])
	}
	return fmt.Sprintf("tree caps=%v forms=%v cancel=%v ops=%s", s.caps, fs, s.cancel, strings.Join(s.ops, ","))
}

// c10GenTree: a mostly-enabled schedule; the generator tracks threads, buffers and closes.
func c10GenTree(rng *RNG) (c10TreeScn, bool) {
	s := c10TreeScn{forms: map[int]string{}}
	nch := 1 + rng.Intn(2)
	for i := 0; i < nch; i++ {
		c := rng.Intn(4)
		if rng.Chance(30) {
			c = 0
		}
		s.caps = append(s.caps, c)
	}
	parent := []int{0}
	live := map[int]bool{0: true}
	buffered := make([]int, nch)
	closed := make([]bool, nch)
	seq := 0
	n := 8 + rng.Intn(30)
	orphanActs := 0 // channel operations by a thread one of whose ancestors has returned
	anyLive := func(not int) int {
		var ls []int
		for t := range live {
			if t != not {
				ls = append(ls, t)
			}
		}
		if len(ls) == 0 {
			return -1
		}
		sort.Ints(ls)
		return Pick(rng, ls)
	}
	orphan := func(t int) bool {
		for p := parent[t]; p != 0; p = parent[p] {
			if !live[p] {
				return true
			}
		}
		return false
	}
	act := func(t int) {
		if orphan(t) {
			orphanActs++
		}
	}
	for len(s.ops) < n {
		t := anyLive(-1)
		switch x := rng.Intn(100); {
		case x < 22 && len(parent) < 9:
			// deeper trees: prefer a spawner that is itself spawned
			if t == 0 && len(parent) > 1 && rng.Chance(60) {
				if u := anyLive(0); u > 0 {
					t = u
				}
			}
			id := len(parent)
			parent = append(parent, t)
			live[id] = true
			s.forms[id] = Pick(rng, []string{"spawn", "fnspawn", "go"})
			s.ops = append(s.ops, fmt.Sprintf("sp:%d", t))
		case x < 36:
			// returns: prefer threads that have live children
			u := anyLive(0)
			if u <= 0 {
				continue
			}
			for try := 0; try < 3; try++ {
				hasChild := false
				for c, p := range parent {
					if p == u && c != 0 && live[c] {
						hasChild = true
					}
				}
				if hasChild {
					break
				}
				if v := anyLive(0); v > 0 {
					u = v
				}
			}
			delete(live, u)
			s.ops = append(s.ops, fmt.Sprintf("ret:%d", u))
		case x < 42:
			// wait for a returned thread that has a handle (sometimes for a live one: not enabled)
			var cands []int
			for c := 1; c < len(parent); c++ {
				if s.forms[c] != "go" && (!live[c] || rng.Chance(5)) {
					cands = append(cands, c)
				}
			}
			if len(cands) > 0 {
				s.ops = append(s.ops, fmt.Sprintf("w:%d:%d", t, Pick(rng, cands)))
			}
		case x < 45:
			k := rng.Intn(nch)
			if !closed[k] || rng.Chance(10) {
				s.ops = append(s.ops, fmt.Sprintf("ch:%d:c:%d", k, t))
				closed[k] = true
				act(t)
			}
		case x < 75:
			k := rng.Intn(nch)
			if closed[k] && !rng.Chance(10) {
				continue
			}
			msg := fmt.Sprintf("%d:%d", t, seq)
			if s.caps[k] == 0 && !closed[k] {
				r := anyLive(t)
				if r < 0 {
					continue
				}
				seq++
				s.ops = append(s.ops, fmt.Sprintf("ch:%d:h:%d:%d:%s:0", k, t, r, msg))
				act(t)
				act(r)
			} else if buffered[k] < s.caps[k] || closed[k] || rng.Chance(4) {
				seq++
				s.ops = append(s.ops, fmt.Sprintf("ch:%d:s:%d:%s", k, t, msg))
				if buffered[k] < s.caps[k] && !closed[k] {
					buffered[k]++
				}
				act(t)
			}
		default:
			k := rng.Intn(nch)
			if buffered[k] > 0 || closed[k] || rng.Chance(4) {
				s.ops = append(s.ops, fmt.Sprintf("ch:%d:r:%d", k, t))
				if buffered[k] > 0 {
					buffered[k]--
				}
				act(t)
			}
		}
	}
	// the main program collects what is still queued, then everybody returns
	for k := range s.caps {
		for ; buffered[k] > 0; buffered[k]-- {
			s.ops = append(s.ops, fmt.Sprintf("ch:%d:r:0", k))
		}
	}
	var ls []int
	for t := range live {
		if t != 0 {
			ls = append(ls, t)
		}
	}
	sort.Ints(ls)
	s.cancel = rng.Chance(25)
	if s.cancel {
		s.ops = append(s.ops, "cancel")
	} else {
		for len(ls) > 0 {
			i := rng.Intn(len(ls))
			s.ops = append(s.ops, fmt.Sprintf("ret:%d", ls[i]))
			ls = append(ls[:i], ls[i+1:]...)
		}
	}
	return s, orphanActs >= 2
}

const c10TreeScript = `func worker(tid) {
  for {
    c := cmd(tid)
    op := c[0]
    if op == 0 { return 5000 + tid }
    if op == 1 {
      ch := chs[c[1]]
      v := c[2]
      ack(tid, try(func() { ch <- v; return "so" }, func(e) { return "E:" + string(e) }))
    }
    if op == 2 {
      ch := chs[c[1]]
      ack(tid, try(func() { return <-ch }, func(e) { return "E:" + string(e) }))
    }
    if op == 3 {
      ch := chs[c[1]]
      ack(tid, try(func() { close(ch); return "co" }, func(e) { return "E:" + string(e) }))
    }
    if op == 4 { keep(c[1], spawn(worker, c[1])); ack(tid, "sp") }
    if op == 5 { keep(c[1], worker.spawn(c[1])); ack(tid, "sp") }
    if op == 6 { go worker(c[1]); ack(tid, "sp") }
    if op == 7 {
      h := handle(c[1])
      ack(tid, try(func() { return h.wait() }, func(e) { return "E:" + string(e) }))
    }
  }
}
worker(0)
`

type c10Ack struct {
	tid int
	val string
}

func c10Tree(e *Env) {
	rng := e.Rng.Fork()
	n := 600
	if !e.Quick {
		n = 12000
	}
	type gen struct {
		s  c10TreeScn
		nt bool
	}
	var scns []gen
	// directed: a grandchild sends after its spawner returned, per spawn form and buffer
	for _, form := range []string{"spawn", "fnspawn", "go"} {
		for _, cap := range []int{0, 1} {
			ops := []string{"sp:0", "sp:1", "ret:1"}
			if cap == 0 {
				ops = append(ops, "ch:0:h:2:0:2:0:0", "ch:0:h:2:0:2:1:0")
			} else {
				ops = append(ops, "ch:0:s:2:2:0", "ch:0:r:0", "ch:0:s:2:2:1", "ch:0:r:0")
			}
			if form != "go" {
				ops = append(ops, "w:0:1")
			}
			ops = append(ops, "ret:2")
			scns = append(scns, gen{c10TreeScn{caps: []int{cap}, ops: ops, forms: map[int]string{1: form, 2: form}}, true})
		}
	}
	for i := 0; i < n; i++ {
		s, nt := c10GenTree(rng)
		scns = append(scns, gen{s, nt})
	}
	reqs := make([]string, len(scns))
	for i, g := range scns {
		cs := make([]string, len(g.s.caps))
		for j, c := range g.s.caps {
			cs[j] = strconv.Itoa(c)
		}
		reqs[i] = fmt.Sprintf("C10\tnet\t%s\t%s", strings.Join(cs, ","), strings.Join(g.s.ops, ","))
	}
	reps := e.O.AskBatch(reqs)
	runtime.GOMAXPROCS(4)
	deadline := time.Now().Add(40 * time.Second)
	if !e.Quick {
		deadline = time.Now().Add(5 * time.Minute)
	}
	incomplete, done := 0, 0
	for i, g := range scns {
		if time.Now().After(deadline) {
			e.R.Note("thread-tree schedules stopped at the tier's time budget after %d of %d", done, len(scns))
			break
		}
		done++
		if !c10RunTree(e, g.s, g.nt, reps[i]) {
			incomplete++
			if incomplete >= 2 {
				e.R.Note("thread-tree schedules stopped after %d schedules that did not complete", incomplete)
				break
			}
		}
	}
	e.R.Note("thread-tree schedules executed step by step on real script threads: %d", done)
}

func c10RunTree(e *Env, s c10TreeScn, nontrivial bool, rep string) bool {
	key := s.key()
	e.R.Case(key, nontrivial)
	f := strings.Split(rep, "\t")
	if len(f) != 3 {
		e.R.Mismatch(key, "-", rep, "oracle reply malformed")
		return true
	}
	impl := strings.Split(f[0], ",")
	if len(impl) != len(s.ops) {
		e.R.Mismatch(key, "-", rep, "oracle reply malformed")
		return true
	}
	e.R.H("tree_threads", strconv.Itoa(len(s.forms)))
	for _, fm := range s.forms {
		e.R.H("tree_spawn_form", fm)
	}

	runCtx, cancel := context.WithCancel(context.Background())
	defer cancel()
	var mu sync.Mutex
	cmdCh := map[int]chan []int{}
	ctxs := map[int]context.Context{}
	handles := map[int]*object.Thread{}
	parked := make(chan int, 64)
	acks := make(chan c10Ack, 64)
	getCmd := func(t int) chan []int {
		mu.Lock()
		defer mu.Unlock()
		if cmdCh[t] == nil {
			cmdCh[t] = make(chan []int, 1)
		}
		return cmdCh[t]
	}
	intArg := func(o object.Object) int { return int(o.(*object.Int).Value()) }
	globals := map[string]any{
		"cmd": object.NewBuiltin("cmd", func(ctx context.Context, args ...object.Object) object.Object {
			t := intArg(args[0])
			ch := getCmd(t)
			mu.Lock()
			ctxs[t] = ctx
			mu.Unlock()
			parked <- t
			var c []int
			select {
			case c = <-ch:
			case <-time.After(2 * c10Wait): // abandoned scenario: let the goroutine go
				c = []int{0}
			}
			items := make([]object.Object, len(c))
			for i, x := range c {
				items[i] = object.NewInt(int64(x))
			}
			return object.NewList(items)
		}),
		"ack": object.NewBuiltin("ack", func(ctx context.Context, args ...object.Object) object.Object {
			v := ""
			switch x := args[1].(type) {
			case *object.Int:
				v = strconv.FormatInt(x.Value(), 10)
			case *object.String:
				v = x.Value()
			case *object.NilType:
				v = "nil"
			default:
				v = "other(" + args[1].Inspect() + ")"
			}
			acks <- c10Ack{intArg(args[0]), v}
			return object.Nil
		}),
		"keep": object.NewBuiltin("keep", func(ctx context.Context, args ...object.Object) object.Object {
			if th, ok := args[1].(*object.Thread); ok {
				mu.Lock()
				handles[intArg(args[0])] = th
				mu.Unlock()
			}
			return object.Nil
		}),
		"handle": object.NewBuiltin("handle", func(ctx context.Context, args ...object.Object) object.Object {
			mu.Lock()
			defer mu.Unlock()
			if th := handles[intArg(args[0])]; th != nil {
				return th
			}
			return object.Nil
		}),
	}
	var chdecl []string
	for _, c := range s.caps {
		chdecl = append(chdecl, fmt.Sprintf("chan(%d)", c))
	}
	src := "chs := [" + strings.Join(chdecl, ", ") + "]\n" + c10TreeScript
	evalDone := make(chan error, 1)
	go func() {
		var err error
		defer func() {
			if r := recover(); r != nil {
				err = fmt.Errorf("panic: %v", r)
			}
			evalDone <- err
		}()
		_, err = risor.Eval(runCtx, src, risor.WithConcurrency(), risor.WithGlobals(globals))
	}()

	isParked := map[int]bool{}
	hung := ""
	waitParked := func(t int) bool {
		for !isParked[t] {
			select {
			case u := <-parked:
				isParked[u] = true
			case <-time.After(c10Wait):
				hung = fmt.Sprintf("thread %d did not ask for its next command within %v", t, c10Wait)
				return false
			}
		}
		return true
	}
	issue := func(t int, c ...int) bool {
		if !waitParked(t) {
			return false
		}
		isParked[t] = false
		getCmd(t) <- c
		return true
	}
	pendingAcks := map[int]string{}
	await := func(t int) (string, bool) {
		for {
			if v, ok := pendingAcks[t]; ok {
				delete(pendingAcks, t)
				return v, true
			}
			select {
			case a := <-acks:
				pendingAcks[a.tid] = a.val
			case <-time.After(c10Wait):
				hung = fmt.Sprintf("thread %d did not report the result of its step within %v", t, c10Wait)
				return "", false
			}
		}
	}
	msgName := func(v string) string {
		n, err := strconv.Atoi(v)
		if err != nil {
			return v
		}
		return fmt.Sprintf("v:%d:%d", n/100000, n%100000)
	}
	parentOf := map[int]int{}
	atoi := func(x string) int { n, _ := strconv.Atoi(x); return n }
	cancelled := false
	returned := map[int]bool{}
	everDead := map[int]string{} // thread -> step at which its context was first found done before any cancel
	var liveNow []int
	early := false
	observeCtx := func(step string) {
		// drain park notices so that every thread that has asked for a command is known
		for more := true; more; {
			select {
			case u := <-parked:
				isParked[u] = true
			default:
				more = false
			}
		}
		mu.Lock()
		defer mu.Unlock()
		liveNow = liveNow[:0]
		for t, ok := range isParked {
			if !ok || returned[t] {
				continue
			}
			liveNow = append(liveNow, t)
			if c := ctxs[t]; c != nil && c.Err() != nil && !cancelled {
				if _, seen := everDead[t]; !seen {
					everDead[t] = step
				}
			}
		}
	}
	// does one of the threads named in the step have an ancestor that has returned?
	orphanOf := func(ts []int) bool {
		for _, t := range ts {
			for p, ok := parentOf[t]; ok; p, ok = parentOf[p] {
				if returned[p] {
					return true
				}
			}
		}
		return false
	}
	atoiAll := func(x []string) []int {
		var ts []int
		switch {
		case x[0] == "sp" || x[0] == "ret":
			ts = append(ts, atoi(x[1]))
		case x[0] == "w":
			ts = append(ts, atoi(x[1]))
		case x[0] == "ch" && x[2] == "h":
			ts = append(ts, atoi(x[3]), atoi(x[4]))
		case x[0] == "ch":
			ts = append(ts, atoi(x[3]))
		}
		return ts
	}
	var goObs []string
	var refused []string // sends / receives refused with a context error while the run was live
	var badWaits []string
	accepted := make([][]string, len(s.caps))
	received := make([][]string, len(s.caps))
	nthreads := 1
	sendObs := func(k int, t int, msg string, v string) string {
		switch {
		case v == "so":
			accepted[k] = append(accepted[k], msg)
			return "so"
		case strings.Contains(v, "send on closed channel"):
			return "se"
		case strings.Contains(v, "context canceled"):
			refused = append(refused, fmt.Sprintf("thread %d's send of %s on channel %d failed with %q", t, msg, k, v))
		}
		return "send(" + v + ")"
	}
	recvObs := func(k int, t int, v string) string {
		switch {
		case v == "nil":
			return "nil"
		case strings.HasPrefix(v, "E:"):
			if strings.Contains(v, "context canceled") {
				refused = append(refused, fmt.Sprintf("thread %d's receive on channel %d failed with %q", t, k, v))
			}
			return "recv(" + v + ")"
		}
		m := msgName(v)
		received[k] = append(received[k], strings.TrimPrefix(m, "v:"))
		return m
	}
steps:
	for idx, op := range s.ops {
		x := strings.Split(op, ":")
		o := impl[idx]
		if impl[idx] == "B" {
			goObs = append(goObs, "B") // not enabled in the model: would block (or is meaningless) on the real code; skipped
			continue
		}
		switch x[0] {
		case "sp":
			p := atoi(x[1])
			id := nthreads
			nthreads++
			parentOf[id] = p
			code := map[string]int{"spawn": 4, "fnspawn": 5, "go": 6}[s.forms[id]]
			if !issue(p, code, id) {
				break steps
			}
			v, ok := await(p)
			if !ok {
				break steps
			}
			if !waitParked(id) { // the child runs and asks for its first command
				break steps
			}
			o = "sp:" + strconv.Itoa(id)
			if v != "sp" {
				o += "(" + v + ")"
			}
		case "ret":
			t := atoi(x[1])
			if !issue(t, 0) {
				break steps
			}
			returned[t] = true
			mu.Lock()
			th := handles[t]
			mu.Unlock()
			if th != nil {
				// the handle's done channel closes after the spawned call has returned completely
				var r object.Object
				if !c10_withWatch(func() { r = th.Wait(runCtx) }) {
					hung = fmt.Sprintf("thread %d did not end after its function returned", t)
					break steps
				}
				if i, isInt := r.(*object.Int); !isInt || i.Value() != int64(5000+t) {
					badWaits = append(badWaits, fmt.Sprintf("Thread.Wait of thread %d handed out %v, its call returned %d", t, r, 5000+t))
				}
			} else {
				for i := 0; i < 4; i++ { // no handle (go statement): give the goroutine a chance to finish; not a verdict
					runtime.Gosched()
				}
				time.Sleep(200 * time.Microsecond)
			}
			o = "u"
		case "w":
			w, t := atoi(x[1]), atoi(x[2])
			if !issue(w, 7, t) {
				break steps
			}
			v, ok := await(w)
			if !ok {
				break steps
			}
			o = "u"
			if v != strconv.Itoa(5000+t) {
				badWaits = append(badWaits, fmt.Sprintf("thread %d waiting for thread %d got %s, the call returned %d", w, t, v, 5000+t))
				o = "wait(" + v + ")"
			}
		case "cancel":
			observeCtx(fmt.Sprintf("%d (%s)", idx, op))
			cancel()
			cancelled = true
			o = "u"
		case "ch":
			k := atoi(x[1])
			switch x[2] {
			case "s":
				t := atoi(x[3])
				if !issue(t, 1, k, atoi(x[4])*100000+atoi(x[5])) {
					break steps
				}
				v, ok := await(t)
				if !ok {
					break steps
				}
				o = sendObs(k, t, x[4]+":"+x[5], v)
			case "r":
				t := atoi(x[3])
				if !issue(t, 2, k) {
					break steps
				}
				v, ok := await(t)
				if !ok {
					break steps
				}
				o = recvObs(k, t, v)
			case "c":
				t := atoi(x[3])
				if !issue(t, 3, k) {
					break steps
				}
				v, ok := await(t)
				if !ok {
					break steps
				}
				switch {
				case v == "co":
					o = "co"
				case strings.Contains(v, "close of closed channel"):
					o = "ce"
				default:
					o = "close(" + v + ")"
				}
			case "h":
				sd, rc := atoi(x[3]), atoi(x[4])
				if !issue(sd, 1, k, atoi(x[5])*100000+atoi(x[6])) || !issue(rc, 2, k) {
					break steps
				}
				sv, ok1 := await(sd)
				if !ok1 {
					break steps
				}
				rv, ok2 := await(rc)
				if !ok2 {
					break steps
				}
				o = recvObs(k, rc, rv)
				if so := sendObs(k, sd, x[5]+":"+x[6], sv); so != "so" {
					o += "(sender:" + so + ")"
				}
			}
		}
		goObs = append(goObs, o)
		e.R.H("tree_obs", strings.SplitN(o, ":", 2)[0])
		if orphanOf(atoiAll(x)) {
			e.R.H("tree_steps_by_threads_with_a_returned_ancestor", x[0])
		}
		if !cancelled {
			observeCtx(fmt.Sprintf("%d (%s)", idx, op))
			if len(everDead) > 0 {
				// a thread runs under a done context although nobody cancelled: what follows
				// could block for ever on the real code; the observation is reported below
				early = true
				break steps
			}
		}
	}
	// after a cancel: every thread that is still parked runs under a done context
	var notDone []int
	if cancelled && hung == "" {
		mu.Lock()
		for _, t := range liveNow {
			if c := ctxs[t]; c != nil && c.Err() == nil {
				notDone = append(notDone, t)
			}
		}
		mu.Unlock()
	}
	// let everybody go: children first, the main program last
	cancel()
	mu.Lock()
	for t, ch := range cmdCh {
		if t != 0 {
			select {
			case ch <- []int{0}:
			default:
			}
		}
	}
	mu.Unlock()
	getCmd(0) <- []int{0}
	select {
	case <-evalDone:
	case <-time.After(c10Wait):
		if hung == "" {
			hung = "the main program did not end after its last command"
		}
	}
	describe := func(t int) string {
		var chain []string
		for p, ok := parentOf[t]; ok; p, ok = parentOf[p] {
			st := "live"
			if returned[p] {
				st = "returned"
			}
			if p == 0 {
				chain = append(chain, "the main program")
			} else {
				chain = append(chain, fmt.Sprintf("thread %d [%s, %s]", p, s.forms[p], st))
			}
		}
		return fmt.Sprintf("thread %d [%s] started by %s", t, s.forms[t], strings.Join(chain, " started by "))
	}
	if hung != "" {
		e.R.Mismatch(key, "hung: "+hung+"; observations so far: "+strings.Join(goObs, ","), f[0], "thread-tree schedule did not complete on the real code")
		e.R.Spec(key, "the schedule did not complete: "+hung+" (every step issued is enabled in the model: a send/receive/wait that the property says must complete did not)", "")
		return false
	}
	if got := strings.Join(goObs, ","); got != f[0] && !(early && strings.HasPrefix(f[0]+",", got+",")) {
		e.R.Mismatch(key, got, f[0], "spawn/return/wait/channel steps of real script threads vs C10.nstep")
	}
	// contexts: the model's per-thread flags (ever abortable before a cancel; done now)
	var deadIDs []int
	for t := range everDead {
		deadIDs = append(deadIDs, t)
	}
	sort.Ints(deadIDs)
	modelEver := map[int]bool{}
	for _, th := range strings.Split(f[1], ";") {
		y := strings.Split(th, ":")
		if len(y) == 5 && y[4] == "1" && !s.cancel {
			modelEver[atoi(y[0])] = true
		}
	}
	for _, t := range deadIDs {
		if !modelEver[t] {
			e.R.Mismatch(key, fmt.Sprintf("threads whose context was done before any cancel: %v", deadIDs), "none (thread_ctx_is_run_ctx)", "context of a thread in the tree")
			e.R.Spec(key, fmt.Sprintf("%s ran under a CANCELLED context after step %s although the host had not cancelled the run (threads affected: %v): its sends and receives can be refused, its values are never delivered. The property demands delivery whatever ancestors have returned",
				describe(t), everDead[t], deadIDs), "")
			break
		}
	}
	if len(notDone) > 0 {
		sort.Ints(notDone)
		e.R.Mismatch(key, fmt.Sprintf("threads whose context is still live after the host cancelled the run: %v", notDone), "ctxDone = true for every thread", "cancellation reaching the tree")
	}
	if len(refused) > 0 {
		e.R.Spec(key, "refused while the run's context was live: "+strings.Join(refused, "; "), "")
	}
	if len(badWaits) > 0 {
		e.R.Spec(key, strings.Join(badWaits, "; "), "")
	}
	// Spec on the real results: per channel, explicit receives hand out exactly the accepted
	// values in acceptance order (one step at a time: the arrival order is the schedule's)
	for k := range s.caps {
		acc, rec := accepted[k], received[k]
		okPrefix := len(rec) <= len(acc)
		for i := 0; okPrefix && i < len(rec); i++ {
			okPrefix = rec[i] == acc[i]
		}
		if !okPrefix || (!s.cancel && len(rec) != len(acc) && s.caps[k] == 0) {
			e.R.Spec(key, fmt.Sprintf("channel %d accepted [%s] and handed out [%s]: not the same values in the same order", k, strings.Join(acc, " "), strings.Join(rec, " ")), "")
		}
	}
	return true
}
