package main

// C03 — two more scenario classes.
//
// (1) ONE VirtualMachine entered again and again by the host (stream `life`, Model 4e): a
//     sequence of 2–7 entries — risor.Eval / risor.EvalCode with risor.WithVM, vm.RunCode,
//     risor.Call with risor.WithVM (RunCode + Call), vm.Call — each under a context of its own
//     kind (Background / TODO / WithValue of it = no Done channel; WithCancel / WithTimeout /
//     WithDeadline / WithValue of one, cancelled by the host after the entry returned; cancelled
//     or expired BEFORE the entry, with code that runs until it is halted) and with code that
//     returns, fails, or raises a Go panic (operand stack overrun).  Per entry the outcome class
//     (value / recovered panic / returned error) is compared with the model's `lifeSeq`
//     (Mismatch); a Go panic that leaves the entry point is a Spec violation.  The whole
//     sequence runs in a child process; after every entry the child cancels the entry's context
//     and waits for the goroutines it started to end, so that nothing depends on timing.
//
// (2) declarations whose initialiser is arithmetic on integer literals (stream `constexpr`,
//     Model 4f): generated expression trees over + - * / % << >> & and negation with operands
//     from the edges of int64 and of the shift range (negative counts, 63, 64, zero divisors,
//     MinInt64 / -1), placed in `const`, `var`, `:=`, a plain expression statement, a constant
//     inside a function, a return value and a list item; each goes through the whole source
//     pipeline (judgeSrc: lexer, parser, compiler.Compile, risor.Eval in a child) and the value
//     or error is compared with the model's `declRun implConst`.

import (
	"context"
	"encoding/hex"
	"fmt"
	"runtime"
	"strconv"
	"strings"
	"time"

	"github.com/risor-io/risor"
	"github.com/risor-io/risor/compiler"
	"github.com/risor-io/risor/object"
	rvm "github.com/risor-io/risor/vm"
)

// ---------------------------------------------------------------- (1) life: parent side

var c03LifeApis = []string{"eval", "evalcode", "runcode", "rcall", "vmcall"}

// concrete context → the model's kind
var c03LifeCtx = map[string]string{
	"bg": "plain", "todo": "plain", "valbg": "plain",
	"cancel": "live", "timeout": "live", "deadline": "live", "valcancel": "live",
	"precancelled": "done", "expired": "done",
}
var c03LifeCtxPlain = []string{"bg", "todo", "valbg"}
var c03LifeCtxLive = []string{"cancel", "timeout", "deadline", "valcancel"}
var c03LifeCtxDone = []string{"precancelled", "expired"}
var c03LifeBodies = []string{"returns", "returns", "raises", "panics"}

type c03LifeStep struct{ api, ctx, body string }

func (s c03LifeStep) String() string { return s.api + ":" + s.ctx + ":" + s.body }

func c03GenLife(r *RNG) []c03LifeStep {
	n := 2 + r.Intn(6)
	steps := make([]c03LifeStep, n)
	for i := range steps {
		var ctx string
		switch k := r.Intn(10); {
		case k < 4:
			ctx = c03LifeCtxPlain[r.Intn(len(c03LifeCtxPlain))]
		case k < 8:
			ctx = c03LifeCtxLive[r.Intn(len(c03LifeCtxLive))]
		default:
			ctx = c03LifeCtxDone[r.Intn(len(c03LifeCtxDone))]
		}
		api := c03LifeApis[r.Intn(len(c03LifeApis))]
		if api == "rcall" && c03LifeCtx[ctx] == "done" {
			// risor.Call's first half (the main code that only defines f) may or may not be
			// halted before it ends: not generated (timing is never a verdict)
			api = "vmcall"
		}
		steps[i] = c03LifeStep{api, ctx, c03LifeBodies[r.Intn(len(c03LifeBodies))]}
	}
	return steps
}

var c03LifeDirected = [][]c03LifeStep{
	{{"eval", "bg", "returns"}, {"eval", "bg", "returns"}},
	{{"eval", "timeout", "returns"}, {"eval", "bg", "returns"}},
	{{"runcode", "cancel", "raises"}, {"vmcall", "todo", "returns"}},
	{{"evalcode", "precancelled", "returns"}, {"rcall", "valbg", "returns"}},
	{{"eval", "bg", "panics"}, {"eval", "cancel", "panics"}, {"vmcall", "bg", "panics"}, {"eval", "deadline", "returns"}},
	{{"rcall", "cancel", "returns"}, {"rcall", "cancel", "returns"}, {"rcall", "bg", "returns"}},
	{{"vmcall", "expired", "returns"}, {"vmcall", "expired", "returns"}, {"eval", "valcancel", "raises"}, {"evalcode", "todo", "raises"}},
}

// model steps of one concrete step (risor.Call = RunCode of the main code, then Call)
func c03LifeModelSteps(s c03LifeStep) []string {
	k := c03LifeCtx[s.ctx]
	switch s.api {
	case "rcall":
		return []string{"runCode:" + k + ":returns", "call:" + k + ":" + s.body}
	case "vmcall": // vm.RunCode under context.Background(), vm.Get, then vm.Call under the entry's context
		return []string{"runCode:plain:returns", "call:" + k + ":" + s.body}
	}
	return []string{"runCode:" + k + ":" + s.body}
}

func (c *c03Run) lifeCases(n int) {
	e := c.e
	rng := e.Rng.Fork()
	var all [][]c03LifeStep
	all = append(all, c03LifeDirected...)
	for i := 0; i < n; i++ {
		all = append(all, c03GenLife(rng.Fork()))
	}
	for _, steps := range all {
		steps := steps
		parts := make([]string, len(steps))
		for i, s := range steps {
			parts[i] = s.String()
		}
		opt := strings.Join(parts, ",")
		c.pool.submit(c03Req{Mode: "life", Opt: opt}, 40*time.Second, func(res c03Result) { c.judgeLife(steps, opt, res) })
	}
}

func (c *c03Run) judgeLife(steps []c03LifeStep, opt string, res c03Result) {
	e := c.e
	key := "life|one VM (vm.NewEmpty), entries in order: " + opt
	e.R.Case(key, len(steps) >= 2)
	if res.Death != nil {
		c.death(key, res.Death, "")
		return
	}
	r := res.Resp
	got := strings.Split(r.Value, "\x1f")
	if r.Eval != "ok" || len(got) != len(steps) {
		e.R.Mismatch(key, r.Eval+" "+c03_short(r.EvalMsg, 200), "one outcome per entry", "the harness could not run the sequence")
		return
	}
	var msteps []string
	var last []int // index of the model step that carries the outcome of concrete step i
	for _, s := range steps {
		ms := c03LifeModelSteps(s)
		msteps = append(msteps, ms...)
		last = append(last, len(msteps)-1)
	}
	rep := strings.Split(e.O.Ask("C03", "life", "untracked", strings.Join(msteps, ",")), "\t")
	if rep[0] != "ok" || len(rep) < 3 {
		e.R.Mismatch(key, opt, strings.Join(rep, " "), "oracle refused the life request")
		return
	}
	model := strings.Split(rep[1], ",")
	if len(model) != len(msteps) {
		e.R.Mismatch(key, opt, rep[1], "oracle returned a different number of outcomes")
		return
	}
	prev := "first"
	for i, s := range steps {
		kind := c03LifeCtx[s.ctx]
		e.R.H("life_ctx_after", prev+"→"+kind)
		e.R.H("life_api", s.api)
		prev = kind
		cls, msg := got[i], ""
		if j := strings.IndexByte(cls, ':'); j >= 0 {
			cls, msg = cls[:j], cls[j+1:]
		}
		e.R.H("life_outcome", cls)
		if cls == "ESCAPED" {
			e.R.Spec(key, fmt.Sprintf("a Go panic left the entry point in entry %d of %d (%s) on a VM the host reuses: %s", i+1, len(steps), s.String(), msg), "")
			return // what the later entries do on a VM that let a panic out is not modelled
		}
		if (s.api == "rcall" || s.api == "vmcall") && model[last[i]-1] != "value" {
			e.R.Mismatch(key, got[i], model[last[i]-1], "model of risor.Call: the main code must return")
		}
		if cls != model[last[i]] {
			e.R.Mismatch(key, fmt.Sprintf("entry %d (%s): %s", i+1, s.String(), c03_short(got[i], 160)), model[last[i]],
				"outcome class of one entry of a sequence on one VM (value / error = recovered Go panic / raised = returned error)")
		}
	}
	if r.Left > 0 {
		e.R.H("life_goroutines_left", "yes")
	}
}

// ---------------------------------------------------------------- (1) life: child side

func c03LifeDeep() string {
	var sb strings.Builder
	for i := 0; i < 1100; i++ {
		sb.WriteString("[x, ")
	}
	sb.WriteString("x")
	sb.WriteString(strings.Repeat("]", 1100))
	return sb.String()
}

// body text: as main code (top = true) or as the body of a function
func c03LifeBodySrc(body string, halted bool, i int, top bool) string {
	ret := "return "
	if top {
		ret = ""
	}
	if halted {
		return "n := 0\nfor { n = n + 1 }\n" + ret + "n"
	}
	switch body {
	case "raises":
		return ret + "1 + \"a\""
	case "panics":
		return "x := 1\n" + ret + c03LifeDeep()
	}
	return ret + strconv.Itoa(i) + " + 2"
}

func c03LifeCtxOf(kind string) (context.Context, context.CancelFunc) {
	type k struct{}
	switch kind {
	case "todo":
		return context.TODO(), nil
	case "valbg":
		return context.WithValue(context.Background(), k{}, 1), nil
	case "cancel":
		return context.WithCancel(context.Background())
	case "timeout":
		return context.WithTimeout(context.Background(), time.Hour)
	case "deadline":
		return context.WithDeadline(context.Background(), time.Now().Add(time.Hour))
	case "valcancel":
		ctx, cancel := context.WithCancel(context.Background())
		return context.WithValue(ctx, k{}, 1), cancel
	case "precancelled":
		ctx, cancel := context.WithCancel(context.Background())
		cancel()
		return ctx, cancel
	case "expired":
		return context.WithDeadline(context.Background(), time.Now().Add(-time.Second))
	}
	return context.Background(), nil
}

func c03RunLife(opt string) (resp c03Resp) {
	resp.Parse = "n/a"
	machine, err := rvm.NewEmpty()
	if err != nil {
		resp.Eval, resp.EvalMsg = "err", "NewEmpty: "+err.Error()
		return
	}
	base := runtime.NumGoroutine()
	var outs []string
	for i, st := range strings.Split(opt, ",") {
		f := strings.Split(st, ":")
		if len(f) != 3 {
			resp.Eval, resp.EvalMsg = "err", "bad step "+st
			return
		}
		api, ctxKind, body := f[0], f[1], f[2]
		halted := c03LifeCtx[ctxKind] == "done"
		// everything the entry needs is prepared BEFORE the context is made and without
		// touching the shared VM
		var code *compiler.Code
		var src string
		switch api {
		case "eval":
			src = c03LifeBodySrc(body, halted, i, true)
		case "evalcode", "runcode":
			src = c03LifeBodySrc(body, halted, i, true)
			code, err = CompileSrc(src)
		case "rcall":
			src = "func f() {\n" + c03LifeBodySrc(body, halted, i, false) + "\n}"
			code, err = CompileSrc(src)
		case "vmcall":
			src = "func f() {\n" + c03LifeBodySrc(body, halted, i, false) + "\n}"
			code, err = CompileSrc(src)
		default:
			err = fmt.Errorf("unknown api %s", api)
		}
		if err != nil {
			resp.Eval, resp.EvalMsg = "err", "preparing "+st+": "+err.Error()
			return
		}
		out := func() (out string) {
			ctx, cancel := c03LifeCtxOf(ctxKind)
			defer func() {
				if r := recover(); r != nil {
					out = "ESCAPED:" + c03_short(fmt.Sprint(r), 200)
				}
				if cancel != nil {
					cancel() // the host's `defer cancel()`
				}
			}()
			var rerr error
			switch api {
			case "eval":
				_, rerr = risor.Eval(ctx, src, risor.WithVM(machine))
			case "evalcode":
				_, rerr = risor.EvalCode(ctx, code, risor.WithVM(machine))
			case "runcode":
				rerr = machine.RunCode(ctx, code)
			case "rcall":
				_, rerr = risor.Call(ctx, code, "f", nil, risor.WithVM(machine))
			case "vmcall":
				// the function is defined on this VM by a run under context.Background() …
				if rerr = machine.RunCode(context.Background(), code); rerr != nil {
					return "SETUP:" + c03_short(rerr.Error(), 120)
				}
				v, gerr := machine.Get("f")
				fn, ok := v.(*object.Function)
				if gerr != nil || !ok {
					return "SETUP:vm.Get(f) did not return the function"
				}
				// … and called under the entry's own context
				_, rerr = machine.Call(ctx, fn, nil)
			}
			switch {
			case rerr == nil:
				return "value"
			case strings.HasPrefix(rerr.Error(), "panic:"):
				return "error:" + c03_short(rerr.Error(), 120)
			}
			return "raised:" + c03_short(rerr.Error(), 120)
		}()
		outs = append(outs, strings.ReplaceAll(out, "\x1f", " "))
		// the watcher goroutine of a cancelled context ends on its own: wait for it, so that
		// the next entry starts from a quiet VM
		if left := c03Drain(base); left > 0 {
			resp.Left = left
		}
	}
	resp.Eval = "ok"
	resp.Value = strings.Join(outs, "\x1f")
	return
}

// ---------------------------------------------------------------- (2) constant integer expressions

type c03IE struct {
	op   string // "" = literal, "neg", or a binary operator name of the model
	n    uint64
	l, r *c03IE
}

var c03IntOps = []struct{ name, sym string }{
	{"add", "+"}, {"sub", "-"}, {"mul", "*"}, {"div", "/"}, {"mod", "%"}, {"shl", "<<"}, {"shr", ">>"}, {"band", "&"},
}

var c03IntLits = []uint64{0, 0, 1, 1, 2, 3, 7, 8, 31, 32, 62, 63, 64, 65, 127, 255, 256, 1 << 20, 1<<31 - 1, 1 << 31, 1 << 32, 1 << 62,
	1<<63 - 1, 9223372036854775806, 86400, 1000000007}

func c03GenIE(r *RNG, depth int) *c03IE {
	if depth <= 0 || r.Chance(25) {
		if r.Chance(20) {
			return &c03IE{n: uint64(r.Intn(1 << 30))}
		}
		return &c03IE{n: c03IntLits[r.Intn(len(c03IntLits))]}
	}
	if r.Chance(22) {
		return &c03IE{op: "neg", l: c03GenIE(r, depth-1)}
	}
	var o int
	switch k := r.Intn(10); {
	case k < 4: // shifts
		o = 5 + r.Intn(2)
	case k < 6: // division, modulo
		o = 3 + r.Intn(2)
	default:
		o = r.Intn(len(c03IntOps))
	}
	return &c03IE{op: c03IntOps[o].name, l: c03GenIE(r, depth-1), r: c03GenIE(r, depth-1)}
}

func (x *c03IE) src() string {
	switch x.op {
	case "":
		return strconv.FormatUint(x.n, 10)
	case "neg":
		if x.l.op == "" {
			return "-" + x.l.src()
		}
		return "-(" + x.l.src() + ")"
	}
	sym := ""
	for _, o := range c03IntOps {
		if o.name == x.op {
			sym = o.sym
		}
	}
	return "(" + x.l.src() + " " + sym + " " + x.r.src() + ")"
}

func (x *c03IE) model() string {
	switch x.op {
	case "":
		return "n" + strconv.FormatUint(x.n, 10)
	case "neg":
		return "neg " + x.l.model()
	}
	return x.op + " " + x.l.model() + " " + x.r.model()
}

func (x *c03IE) ops(h func(string)) {
	if x.op == "" {
		return
	}
	h(x.op)
	x.l.ops(h)
	if x.r != nil {
		x.r.ops(h)
	}
}

var c03DeclForms = []struct{ name, pre, post string }{
	{"const", "const c = ", "\nc"},
	{"const", "const c = ", "\nc"},
	{"var", "var v = ", "\nv"},
	{":=", "v := ", "\nv"},
	{"expr", "", ""},
	{"const-in-func", "func f() {\n const c = ", "\n return c\n}\nf()"},
	{"return", "func f() {\n return ", "\n}\nf()"},
	{"list-item", "[0, ", "][1]"},
}

var c03ConstDirected = []string{
	"const s = 1 << -1\ns", "const n = 256 >> (2 - 3)\nn", "const m = -256 >> -1\nm", "const d = 1 / 0\nd", "const r = 5 % (3 - 3)\nr",
	"const day = 24 * 60 * 60\nday", "const MB = 1 << 20\nMB", "const big = 1 << 64\nbig", "const neg = (0 - 9223372036854775807 - 1) / -1\nneg",
	"const w = 9223372036854775807 + 1\nw", "const q = -7 / 2\nq", "const p = -7 % 2\np", "const a = 12 & 10\na",
}

func (c *c03Run) constExprCases(n int) {
	e := c.e
	rng := e.Rng.Fork()
	for i := 0; i < n; i++ {
		r := rng.Fork()
		x := c03GenIE(r, 1+r.Intn(3))
		if x.op == "" { // at least one operator
			x = &c03IE{op: c03IntOps[r.Intn(len(c03IntOps))].name, l: x, r: c03GenIE(r, 1)}
		}
		form := c03DeclForms[r.Intn(len(c03DeclForms))]
		expr := x.src()
		src := form.pre + expr + form.post
		model := x.model()
		e.R.H("constexpr_form", form.name)
		x.ops(func(o string) { e.R.H("constexpr_op", o) })
		c.constExprCase(src, model, form.name)
	}
	for _, src := range c03ConstDirected {
		c.constExprCase(src, "", "directed")
	}
}

// constExprCase: the whole pipeline (judgeSrc: no stage may panic), then value against the model
func (c *c03Run) constExprCase(src, model, form string) {
	e := c.e
	req := c03Req{Mode: "src", Src: hex.EncodeToString([]byte(src))}
	c.pool.submit(req, 20*time.Second, func(res c03Result) {
		c.judgeSrc("constexpr", src, res)
		if res.Death != nil || res.Resp == nil || model == "" {
			return
		}
		r := res.Resp
		key := c.key("constexpr", src)
		if r.Parse != "ok" || r.Compile != "ok" {
			if r.Parse != "panic" && r.Compile != "panic" { // a panic was reported by judgeSrc
				e.R.Mismatch(key, "parse="+r.Parse+" compile="+r.Compile+" "+c03_short(r.ParseMsg+r.CompMsg, 120), "compiles",
					"a declaration with an integer-literal initialiser must parse and compile")
			}
			return
		}
		rep := strings.Split(e.O.Ask("C03", "constexpr", model), "\t")
		if len(rep) < 2 {
			e.R.Mismatch(key, model, strings.Join(rep, " "), "oracle refused the constexpr request")
			return
		}
		e.R.H("constexpr_outcome", rep[0])
		switch {
		case r.Eval == "panic", r.Eval == "timeout", r.Eval == "":
			// panic: reported by judgeSrc
		case rep[0] == "value":
			if r.Eval != "ok" || r.Value != rep[1] {
				e.R.Mismatch(key, r.Eval+" "+c03_short(r.Value+r.EvalMsg, 120), rep[1], "value of an integer-literal initialiser (int64 arithmetic of runOperationInt)")
			}
		case rep[0] == "error":
			if r.Eval != "err" || !strings.Contains(r.EvalMsg, rep[1]) {
				e.R.Mismatch(key, r.Eval+" "+c03_short(r.Value+r.EvalMsg, 120), "error "+rep[1], "a zero divisor is the recovered Go panic of the run")
			}
		default:
			e.R.Mismatch(key, r.Eval, strings.Join(rep, " "), "the model never predicts this for the code as it is")
		}
	})
}
