package main

// C04 on C01's proved FUNCTION fragment F4 (lean/RisorModel/C04/FunCert*.lean).  The theorem
// `fun_compile_balanced` says: for EVERY program p of the fragment's shape (with operand nesting
// within the frame's limit) the verified checker `check` accepts EVERY code object of
// `compFun p` — the main code and one code object per declared function — with a certificate
// computed from the syntax tree alone (`FunC.hts`, `FunC.htsFn`): a call pops the callee and its
// arguments and pushes one result, a function body starts at height 0 and ends only in
// RETURN_VALUE, a `return` under pending operands is legal because RETURN_VALUE has no successor
// in its code object.  This file ties the objects of that theorem to the real compiler, on every
// program of the shared generator that lies in the fragment, on programs of C01's
// function-fragment generator and on directed programs:
//
//   * the certificate computed by Lean from the SYNTAX TREE is laid over the bytecode the REAL
//     compiler emitted for each code object and must be accepted by `check` on those instructions;
//   * each real code object with the operands `check` never reads erased (pool index of
//     LOAD_CONST, table index of LOAD_GLOBAL / STORE_GLOBAL, slot index of LOAD_FAST /
//     STORE_FAST; theorem `check_eraseIdxF`) must BE `toC04` of the model's code object, slot for slot;
//   * the real compiler must have produced exactly the code objects `compFun p` has;
//   * the certificate the (unverified) inference finds on the real bytecode must agree with the
//     syntax tree's wherever it assigns a height;
//   * the proved statement itself, evaluated, must hold;
//   * programs of the fragment-only generator are also RUN on the real VM with the height hook
//     (c04trace.go): the certified heights are the real operand-stack heights in every frame;
//   * directed programs put the claims that are specific to functions under load on the real VM:
//     a `return` under pending operands executed by 102 400 calls from one loop, a loop inside a
//     function body iterated 102 400 times around a (never taken) return under a pending switch
//     subject: the results must be the expected values (the stack does not grow).
//
// Any difference is a correspondence mismatch (e.R.Mismatch): the theorem would no longer be
// about the code.

import (
	"fmt"
	"strings"
	"time"

	"github.com/risor-io/risor/compiler"
)

var c04funRuleDone = false

// c04FunCodes renders every code object of a compiled program for the `funcert` request.
func c04FunCodes(code *compiler.Code) (string, []*compiler.Code) {
	var parts []string
	var ccs []*compiler.Code
	for _, cc := range code.Flatten() {
		t := CodeText(cc)
		if t == "" {
			t = "NOP" // never produced by the compiler for a code object; keeps the field non-empty
		}
		parts = append(parts, "id="+cc.ID()+";ins="+t)
		ccs = append(ccs, cc)
	}
	return strings.Join(parts, "|"), ccs
}

// c04FunOne checks one program; it returns (inside the fragment, every certificate accepted).
func c04FunOne(e *Env, p *N, src, origin string) (bool, bool) {
	code, err := CompileSrc(src)
	if err != nil {
		// whether fragment programs compile is C01's link A; here there is nothing to check
		e.R.H("funcert", origin+":does-not-compile")
		return false, false
	}
	codes, ccs := c04FunCodes(code)
	if len(ccs) == 0 {
		return false, false
	}
	rep := e.O.Ask("C04", "funcert", Sexp(p), c01Globals, codes)
	f := strings.Split(rep, "\t")
	if f[0] == "out" {
		return false, false
	}
	if f[0] != "in" || len(f) != 4+len(ccs) {
		e.R.Mismatch(src, codes, rep[:min(len(rep), 300)], "C04 funcert: malformed oracle reply")
		return false, false
	}
	fits, peak := f[1], f[2]
	e.R.H("funcert", origin+":"+fits)
	var pk, nModel int
	fmt.Sscanf(peak, "%d", &pk)
	fmt.Sscanf(f[3], "%d", &nModel)
	e.R.H("funcert_peak", fmt.Sprintf("%02d", min(pk, 40)))
	e.R.H("funcert_code_objects", fmt.Sprintf("%d", min(len(ccs), 8)))
	if nModel != len(ccs) {
		e.R.Mismatch(src, fmt.Sprintf("%d code objects", len(ccs)), fmt.Sprintf("%d code objects", nModel),
			"function fragment: the real compiler and compFun p produce different numbers of code objects")
	}
	if fits != "fits" {
		e.R.Note("function-fragment program nests operands deeper than the frame's limit (guard fitsFun of fun_compile_balanced): peak %s", peak)
	}
	allOK := fits == "fits"
	for i, cc := range ccs {
		text := CodeText(cc)
		e.R.Case(text, c04NonTrivial(text))
		g := strings.SplitN(f[4+i], ":", 5)
		what := "code object " + cc.ID()
		if len(g) != 5 || g[0] != cc.ID() {
			allOK = false
			e.R.Mismatch(src, what+": "+text, f[4+i], "function fragment: compFun p has no code object with this id, or its instructions do not decode")
			continue
		}
		realOK, same, modelOK, inferred := g[1], g[2], g[3], g[4]
		if !cc.IsRoot() {
			e.R.H("funcert_fn_shape", c04FunShape(text))
		}
		if same != "same" {
			allOK = false
			e.R.Mismatch(src, what+": "+text, f[4+i], "function fragment: the real code object with pool/table/slot indices erased is not toC04 of compFun p's code object — fun_compile_balanced is not about this bytecode")
		}
		if fits == "fits" {
			if realOK != "accept" {
				allOK = false
				e.R.Mismatch(src, what+": "+text, f[4+i], "function fragment: the certificate computed from the syntax tree (FunC.hts / htsFn) is refused by the verified checker on the REAL compiler's bytecode")
			}
			if modelOK != "accept" {
				allOK = false
				e.R.Mismatch(src, what+": "+text, f[4+i], "function fragment: check (code object) (syntax-tree certificate) evaluates to false although fun_main_cert_accepted / fun_fn_cert_accepted prove it (inconsistent build)")
			}
			if inferred != "agree" {
				allOK = false
				e.R.Mismatch(src, what+": "+text, f[4+i], "function fragment: the certificate inferred from the real bytecode disagrees with the syntax tree's certificate")
			}
		}
	}
	return true, allOK
}

// c04FunShape classifies a function's code object for the histogram: does a RETURN_VALUE sit
// inside a loop (before a backward jump), is there more than one RETURN_VALUE, any CALL
func c04FunShape(text string) string {
	var tags []string
	if i := strings.LastIndex(text, "JUMP_BACKWARD"); i >= 0 {
		if strings.Contains(text[:i], "RETURN_VALUE") {
			tags = append(tags, "return-in-loop")
		} else {
			tags = append(tags, "loop")
		}
	}
	if strings.Count(text, "RETURN_VALUE") > 1 {
		tags = append(tags, "early-return")
	}
	if strings.Contains(text, "CALL:") {
		tags = append(tags, "calls")
	}
	if strings.Contains(text, "SWAP:1") && strings.Contains(text[:strings.Index(text, "SWAP:1")], "RETURN_VALUE") {
		tags = append(tags, "return-in-switch")
	}
	if len(tags) == 0 {
		return "straight"
	}
	return strings.Join(tags, "+")
}

// c04FunDirected: programs of the fragment, parameterised by a bound, whose result is known; the
// certificates are checked at a small bound, the real VM runs them at 102 400.
func c04FunDirected() []struct {
	name string
	mk   func(k int64) *N
	want func(k int64) int64
} {
	P := func(names ...string) *N {
		ps := n("params")
		for _, nm := range names {
			ps.C = append(ps.C, ns("param", nm))
		}
		return ps
	}
	fdecl := func(name string, ps *N, body ...*N) *N { return n("expr", ns("func", name, ps, nBlock(body...))) }
	ret := func(x *N) *N { return n("return", x) }
	X := func(x *N) *N { return n("expr", x) }
	id, I := nId, nInt
	loop := func(v string, bound *N, body ...*N) *N {
		return n("for3", nVar(v, I(0)), nInfix("<", id(v), bound), ns("postfix", v+" ++"), nBlock(body...))
	}
	return []struct {
		name string
		mk   func(k int64) *N
		want func(k int64) int64
	}{
		{"a loop in a function body around a return under a pending operand and a pending switch subject (never taken)",
			// func f(n) { x := 0; for i := 0; i < n; i++ { x = x + switch i { case -5: return 0  default: 1 } }; x }; f(K)
			func(k int64) *N {
				return n("prog",
					fdecl("f", P("n"), nVar("x", I(0)),
						loop("i", id("n"), nAssign("x", "=", nInfix("+", id("x"),
							n("switch", id("i"), n("case", I(-5), nBlock(ret(I(0)))), n("default", nBlock(X(I(1)))))))),
						X(id("x"))),
					X(nCall(id("f"), I(k))))
			}, func(k int64) int64 { return k }},
		{"a callee that returns under two pending operands, called from a loop",
			// func g(a) { 1 + switch a { case a: return a  default: 2 } }; t := 0; for i := 0; i < K; i++ { t = t + g(1) }; t
			func(k int64) *N {
				return n("prog",
					fdecl("g", P("a"), X(nInfix("+", I(1), n("switch", id("a"), n("case", id("a"), nBlock(ret(id("a")))), n("default", nBlock(X(I(2)))))))),
					nVar("t", I(0)),
					loop("i", I(k), nAssign("t", "=", nInfix("+", id("t"), nCall(id("g"), I(1))))),
					X(id("t")))
			}, func(k int64) int64 { return k }},
		{"a return inside a loop of a callee, called from a loop, as an argument of a call",
			// func h(k) { for i := 0; i < 10; i++ { if i == k { return i } }; -1 }; func two(a, b) { a + b }
			// t := 0; for j := 0; j < K; j++ { t = two(t, h(3)) }; t
			func(k int64) *N {
				return n("prog",
					fdecl("h", P("k"), loop("i", I(10), X(n("if", nInfix("==", id("i"), id("k")), nBlock(ret(id("i")))))), X(ns("prefix", "-", I(1)))),
					fdecl("two", P("a", "b"), X(nInfix("+", id("a"), id("b")))),
					nVar("t", I(0)),
					loop("j", I(k), nAssign("t", "=", nCall(id("two"), id("t"), nCall(id("h"), I(3))))),
					X(id("t")))
			}, func(k int64) int64 { return 3 * k }},
		{"a bare return inside nested loops under a pending switch subject, called from a loop",
			// func q(m) { for { switch m { case 1: for { return }  default: return } } }; c := 0; for j := 0; j < K; j++ { q(j % 2); c++ }; c
			func(k int64) *N {
				return n("prog",
					fdecl("q", P("m"), n("forever", nBlock(X(n("switch", id("m"),
						n("case", I(1), nBlock(n("forever", nBlock(n("return"))))),
						n("default", nBlock(n("return")))))))),
					nVar("c", I(0)),
					loop("j", I(k), X(nCall(id("q"), nInfix("%", id("j"), I(2)))), ns("postfix", "c ++")),
					X(id("c")))
			}, func(k int64) int64 { return k }},
	}
}

func c04FunDirectedRun(e *Env) {
	for _, d := range c04FunDirected() {
		small := d.mk(5)
		ssrc := c01funSrc(small)
		in, ok := c04FunOne(e, small, ssrc, "directed")
		if !in {
			e.R.Mismatch(ssrc, "-", "out", "function fragment: a directed C04 program is outside the fragment ("+d.name+")")
			continue
		}
		e.R.H("funcert_directed", d.name)
		for _, k := range []int64{5, 102400} {
			out := EvalSrc(c01funSrc(d.mk(k)), 120*time.Second)
			real := c01fragReal(out)
			want := fmt.Sprintf("ok:(int %d)", d.want(k))
			if real != want {
				if ok {
					// the verified checker accepted every code object but the run depends on the iteration count
					e.R.Spec(c01funSrc(d.mk(k)), fmt.Sprintf("function fragment, %s: every code object is accepted by the checker but the real run with bound %d gives %s (%s), expected %s", d.name, k, real, out.Err, want), "")
				} else {
					e.R.Mismatch(c01funSrc(d.mk(k)), real, want, "function fragment: directed program, real result")
				}
			}
		}
	}
}

// c04FunTie is called once per program of the shared generator.
func c04FunTie(e *Env, p *N, frng *RNG) {
	if !c04funRuleDone {
		c04funRuleDone = true
		e.R.Rule += "; proved function fragment (fun_compile_balanced): every generated program that lies in C01's function fragment F4 (inFun) or else the sub-sequence of its top-level statements that does, " +
			"C01's directed function programs, one program of C01's function-fragment generator per generated program (named declarations and literals, " +
			"parameters and locals, recursion, early / bare / guarded returns, loops and switch in bodies, calls in every expression position) and directed " +
			"programs run at bound 102400: for EVERY code object (main + one per function) the certificate Lean computes from the syntax tree must be " +
			"accepted by the verified checker on the real compiler's bytecode, and that bytecode with pool/table/slot indices erased must equal toC04 of compFun p's code object"
		for _, q := range c01funDirected() {
			src := c01funSrc(q)
			if in, _ := c04FunOne(e, q, src, "c01-directed"); !in {
				e.R.Mismatch(src, "-", "out", "function fragment: a directed program of C01's function fragment is outside the fragment")
			}
		}
		c04FunDirectedRun(e)
	}
	// 1. the shared generator's program: whole when it lies in the fragment, otherwise the
	// sub-sequence of its top-level statements that does (greedy, left to right) when that still
	// declares a function
	if Kinds(p)["func"] > 0 {
		if in, _ := c04FunOne(e, p, Src(p), "shared:whole"); !in {
			q := n("prog")
			for _, s := range p.C {
				try := n("prog", append(append([]*N{}, q.C...), s)...)
				if e.O.Ask("C04", "funin", Sexp(try), c01Globals) == "in" {
					q = try
				}
			}
			in := false
			if Kinds(q)["func"] > 0 {
				in, _ = c04FunOne(e, q, Src(q), "shared:part")
			}
			if !in {
				e.R.H("funcert", "shared:outside")
			}
		}
	}
	// 2. a fragment-only program: certificates, and the certified heights against the real VM
	q := c01funProgram(frng.Fork())
	qsrc := c01funSrc(q)
	in, ok := c04FunOne(e, q, qsrc, "own")
	if !in {
		e.R.H("funcert", "own:outside")
		return
	}
	if ok {
		if code, err := CompileSrc(qsrc); err == nil {
			c04HeightsCheck(e, qsrc, code, 5*time.Second)
		}
	}
}
