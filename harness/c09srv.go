package main

// C09, second part — what an evaluation receives from state that OUTLIVES it.
//
// "serve" schedules: the server pattern through the TOP-LEVEL API.  W workers issue requests back
// to back (risor.Eval / risor.EvalCode / vm.Run / risor.Call), every request under its own
// context (WithCancel / WithTimeout / WithDeadline / Background) that is released
//   after  right after the evaluation returned            (ctx, cancel := …; Eval(ctx, …); cancel())
//   next   from inside the worker's NEXT request (a deferred cancel that fires while an unrelated
//          evaluation runs: logically "during the next evaluation", no timing involved)
//   end    when the worker has issued all its requests, while other workers still run
//   self   inside its own run (the only case in which the evaluation must stop: context canceled)
// Every request's result must equal its stand-alone result, which is known in closed form
// ([wid, rid, K·N·(N-1)/2]).  The Lean machine model (Model §4a, `mach`) is asked for the outcome
// of every evaluation under a random interleaving of the workers' event sequences and alone.
//
// "registry" schedules: hold schedules over objects that come out of process-wide registries
// through proxies: `obj.__type__`, `.attributes`, method / field objects, their `.type`,
// `in_type(i)`, `error_indices`, bound methods.  Every evaluation has its OWN Go object (same Go
// type), obtains such objects, EDITS what it got (set / delete / clear / update / append), lets the
// others run, then observes what it holds and what the registry hands out now.  The reference
// for evaluation k is k run ALONE IN A FRESH PROCESS; compared with it are the concurrent run
// and the back-to-back run (one after the other in one process).

import (
	"context"
	"fmt"
	"runtime"
	"strconv"
	"strings"
	"sync"
	"time"

	"github.com/risor-io/risor"
	"github.com/risor-io/risor/object"
	"github.com/risor-io/risor/vm"
)

// ---------------------------------------------------------------------------------------
// serve

type c09Req struct {
	API    string `json:"api"`    // eval | evalcode | vmrun | call
	Ctx    string `json:"ctx"`    // cancel | timeout | deadline | background
	Cancel string `json:"cancel"` // after | next | end | self | never
	N      int    `json:"n"`      // loop length
	M      int    `json:"m"`      // iteration at which tick() is called
	K      int    `json:"k"`      // multiplier
}

func (rq c09Req) String() string {
	return fmt.Sprintf("%s/%s/%s/N%d/M%d/K%d", rq.API, rq.Ctx, rq.Cancel, rq.N, rq.M, rq.K)
}

func c09ReqSrc(rq c09Req, w, j int) string {
	loop := func(k string) string {
		return fmt.Sprintf("s := 0\nfor i := 0; i < %d; i++ {\n\ts += i * %s\n\tif i == %d { tick() }\n\tif i %% 64 == 63 { pause() }\n}\n", rq.N, k, rq.M)
	}
	if rq.API == "call" {
		return "func f(k) {\n" + loop("k") + fmt.Sprintf("return [%d, %d, s]\n}\n", w, j)
	}
	return loop(strconv.Itoa(rq.K)) + fmt.Sprintf("[%d, %d, s]", w, j)
}

// the stand-alone result in closed form.  A request that cancels its OWN context during its run
// stops with "context canceled" once the watcher goroutine has stored the halt flag — or runs to
// the end if it is faster than that goroutine: both are its stand-alone results (how promptly a
// cancellation takes effect is property C06's business and a matter of timing, never a verdict here).
func c09ReqExpect(rq c09Req, w, j int) []string {
	done := fmt.Sprintf("list:[%d, %d, %d]", w, j, rq.K*rq.N*(rq.N-1)/2)
	if rq.Cancel == "self" && rq.Ctx != "background" {
		return []string{"error: context canceled", done}
	}
	return []string{done}
}

func c09ReqAccepts(rq c09Req, w, j int, got string) bool {
	for _, x := range c09ReqExpect(rq, w, j) {
		if x == got {
			return true
		}
	}
	return false
}

func c09ServeOne(ctx context.Context, rq c09Req, w, j int, tick, pause func()) string {
	bi := func(name string, f func()) object.Object {
		return object.NewBuiltin(name, func(ctx context.Context, args ...object.Object) object.Object {
			f()
			return object.Nil
		})
	}
	opts := []risor.Option{risor.WithGlobal("tick", bi("tick", tick)), risor.WithGlobal("pause", bi("pause", pause))}
	src := c09ReqSrc(rq, w, j)
	switch rq.API {
	case "eval":
		return c09Show(risor.Eval(ctx, src, opts...))
	case "evalcode":
		code, err := c09Compile(src, opts)
		if err != nil {
			return "error: compile: " + err.Error()
		}
		return c09Show(risor.EvalCode(ctx, code, opts...))
	case "vmrun":
		code, err := c09Compile(src, opts)
		if err != nil {
			return "error: compile: " + err.Error()
		}
		cfg := risor.NewConfig(opts...)
		return c09Show(vm.Run(ctx, code, cfg.VMOpts()...))
	case "call":
		code, err := c09Compile(src, opts)
		if err != nil {
			return "error: compile: " + err.Error()
		}
		return c09Show(risor.Call(ctx, code, "f", []object.Object{object.NewInt(int64(rq.K))}, opts...))
	}
	return "error: unknown api " + rq.API
}

func c09ServeOffsets(reqs [][]c09Req) ([]int, int) {
	offs := make([]int, len(reqs))
	total := 0
	for w := range reqs {
		offs[w] = total
		total += len(reqs[w])
	}
	return offs, total
}

// c09RunServe: conc = the workers run concurrently and contexts are released as the requests say;
// otherwise every request runs by itself, one after the other, and only `self` cancels happen.
func c09RunServe(job *c09Job, conc bool) []string {
	offs, total := c09ServeOffsets(job.Reqs)
	res := make([]string, total)
	worker := func(w int) {
		var next, end []context.CancelFunc
		for j, rq := range job.Reqs[w] {
			func() {
				slot := offs[w] + j
				defer func() {
					if r := recover(); r != nil {
						res[slot] = fmt.Sprintf("panic: %v", r)
					}
				}()
				ctx := context.Background()
				cancel := context.CancelFunc(func() {})
				switch rq.Ctx {
				case "cancel":
					ctx, cancel = context.WithCancel(ctx)
				case "timeout":
					ctx, cancel = context.WithTimeout(ctx, time.Hour)
				case "deadline":
					ctx, cancel = context.WithDeadline(ctx, time.Now().Add(time.Hour))
				}
				pend := next
				next = nil
				release := func() {
					for _, c := range pend {
						c()
					}
					pend = nil
				}
				tick := func() {
					if conc {
						release() // contexts of EARLIER, finished requests of this worker
					}
					if rq.Cancel == "self" {
						cancel()
					}
					if conc || rq.Cancel == "self" { // let whatever became runnable run; a scheduling perturbation, never a verdict
						for i := 0; i < 4; i++ {
							runtime.Gosched()
						}
						time.Sleep(50 * time.Microsecond)
					}
				}
				pause := func() {
					if conc {
						runtime.Gosched()
					}
				}
				res[slot] = c09ServeOne(ctx, rq, w, j, tick, pause)
				if !conc {
					return
				}
				release()
				switch rq.Cancel {
				case "after", "self":
					cancel()
				case "next":
					next = append(next, cancel)
				case "end":
					end = append(end, cancel)
				}
			}()
		}
		if conc {
			for _, c := range next {
				c()
			}
			for _, c := range end {
				c()
			}
			runtime.Gosched()
		}
	}
	if !conc {
		for w := range job.Reqs {
			worker(w)
		}
		return res
	}
	var wg sync.WaitGroup
	start := make(chan struct{})
	for w := range job.Reqs {
		wg.Add(1)
		go func(w int) { defer wg.Done(); <-start; worker(w) }(w)
	}
	close(start)
	wg.Wait()
	// give the watchers of the contexts released last a chance to run before the process exits
	for i := 0; i < 8; i++ {
		runtime.Gosched()
	}
	return res
}

// c09ServeEvents: the workers' event sequences in the vocabulary of the Lean machine model,
// merged into one random interleaving (per-worker order kept).  Evaluation ids = result slots.
func c09ServeEvents(r *RNG, reqs [][]c09Req) string {
	offs, _ := c09ServeOffsets(reqs)
	seqs := make([][]string, len(reqs))
	for w := range reqs {
		var next, end []int
		for j, rq := range reqs[w] {
			e := offs[w] + j
			id := strconv.Itoa(e)
			ev := []string{"s" + id, "i" + id, "i" + id}
			for _, p := range next {
				ev = append(ev, "c"+strconv.Itoa(p))
			}
			next = nil
			if rq.Cancel == "self" && rq.Ctx != "background" {
				ev = append(ev, "c"+id)
			}
			ev = append(ev, "i"+id, "i"+id, "f"+id)
			if rq.Ctx != "background" {
				switch rq.Cancel {
				case "after":
					ev = append(ev, "c"+id)
				case "next":
					next = append(next, e)
				case "end":
					end = append(end, e)
				}
			}
			seqs[w] = append(seqs[w], ev...)
		}
		for _, p := range append(next, end...) {
			seqs[w] = append(seqs[w], "c"+strconv.Itoa(p))
		}
	}
	var out []string
	pos := make([]int, len(seqs))
	for {
		var live []int
		for w := range seqs {
			if pos[w] < len(seqs[w]) {
				live = append(live, w)
			}
		}
		if len(live) == 0 {
			break
		}
		w := live[r.Intn(len(live))]
		out = append(out, seqs[w][pos[w]])
		pos[w]++
	}
	return strings.Join(out, ",")
}

type c09ServeSpec struct {
	reqs  [][]c09Req
	procs int
	plain bool
}

func (s c09ServeSpec) job() (*c09Job, string) {
	var ws []string
	n := 0
	for w, rs := range s.reqs {
		var xs []string
		for _, rq := range rs {
			xs = append(xs, rq.String())
			n++
		}
		ws = append(ws, fmt.Sprintf("w%d[%s]", w, strings.Join(xs, " ")))
	}
	job := &c09Job{Kind: "serve", Reqs: s.reqs, Procs: s.procs, Threads: len(s.reqs), Plain: s.plain}
	key := fmt.Sprintf("serve workers=%d requests=%d procs=%d race-detector=%v: every worker issues its requests back to back through the top-level API "+
		"(api/context/when the context is released/loop N/tick at M/multiplier K; a request's program is: s := 0; for i := 0; i < N; i++ { s += i*K; if i == M { tick() }; if i%%64 == 63 { pause() } }; [wid, rid, s]): %s",
		len(s.reqs), n, s.procs, !s.plain, strings.Join(ws, " | "))
	return job, key
}

func c09GenReq(r *RNG) c09Req {
	rq := c09Req{
		API:    Pick(r, []string{"eval", "eval", "evalcode", "evalcode", "vmrun", "call"}),
		Ctx:    Pick(r, []string{"cancel", "cancel", "cancel", "timeout", "deadline", "background"}),
		Cancel: Pick(r, []string{"after", "after", "after", "next", "next", "end", "self", "never"}),
		N:      200 + r.Intn(1800),
		K:      1 + r.Intn(9),
	}
	rq.M = r.Intn(rq.N)
	if rq.Ctx == "background" && rq.Cancel == "self" {
		rq.Cancel = "never"
	}
	return rq
}

// c09GenServe: schedule i of the serve class.  The first ones are the smallest forms of the
// pattern (one worker, two requests, one P), then random mixes.
func c09GenServe(r *RNG, i int) c09ServeSpec {
	small := func(api1, api2, ctx, cancel string) c09ServeSpec {
		a := c09Req{API: api1, Ctx: ctx, Cancel: cancel, N: 300, M: 150, K: 2}
		b := c09Req{API: api2, Ctx: "background", Cancel: "never", N: 1500, M: 400, K: 3}
		return c09ServeSpec{reqs: [][]c09Req{{a, b}}, procs: 1, plain: true}
	}
	switch i {
	case 0:
		return small("eval", "eval", "cancel", "next")
	case 1:
		return small("evalcode", "vmrun", "timeout", "after")
	case 2:
		s := small("vmrun", "evalcode", "deadline", "next")
		s.plain = false
		return s
	case 3:
		return small("call", "eval", "cancel", "self")
	}
	w := 1 + r.Intn(6)
	s := c09ServeSpec{procs: Pick(r, []int{1, 1, 2, 4, 8}), plain: r.Chance(50)}
	for k := 0; k < w; k++ {
		var rs []c09Req
		n := 2 + r.Intn(5)
		for j := 0; j < n; j++ {
			rs = append(rs, c09GenReq(r))
		}
		s.reqs = append(s.reqs, rs)
	}
	return s
}

// ---------------------------------------------------------------------------------------
// registry

type c09RegInner struct {
	A int
	B string
}

type c09RegObj struct {
	Name  string `json:"name" c09:"tag"`
	Count int
	In    c09RegInner
	P     *c09RegInner
}

func (r *c09RegObj) M0(x []int) int                 { return len(x) + r.Count }
func (r *c09RegObj) Hello(s string) (string, error) { return r.Name + ":" + s, nil }
func (r *c09RegObj) Get() c09RegInner               { return r.In }
func (r *c09RegObj) Take(p c09RegInner) int         { return p.A + r.Count }

// prod: obtain an object from the registry ($T = obj.__type__); mut: edit what was obtained ($H);
// obs: what the evaluation holds and what the registry hands out now
var c09RegOps = []struct{ tag, prod, mut, obs string }{
	{"attrs-set", `T.attributes`, `$H["zz" + string(pid)] = pid`, `[sorted(keys($H)), sorted(keys(T.attributes))]`},
	{"attrs-delete", `T.attributes`, `delete($H, ["Name", "Count", "M0"][pid % 3])`, `[sorted(keys($H)), len(T.attributes)]`},
	{"attrs-clear", `T.attributes`, `if pid % 2 == 0 { $H.clear() }`, `[len($H), len(T.attributes), "Take" in T.attributes]`},
	{"attrs-update", `T.attributes`, `$H.update({"u": pid})`, `[$H["u"], "u" in T.attributes]`},
	{"attrs-print", `T.attributes`, ``, `[string($H), string(T.attributes)]`},
	{"attrs-print-loop", `T.attributes`, ``, `func() { want := string($H); bad := 0; for i := 0; i < 150; i++ { if string(T.attributes) != want { bad++ }; if string($H) != want { bad++ } }; return [bad, want] }()`},
	{"method-obj", `T.attributes["M0"]`, `try(func() { $H.name = "x" }, func(e) { return nil })`, `[$H.name, $H.num_in, $H.num_out, $H.error_indices, $H.in_type(1).name, $H.out_type(0).name, string($H)]`},
	{"method-errs", `T.attributes["Hello"].error_indices`, `$H.append(pid + 10)`, `[$H, T.attributes["Hello"].error_indices]`},
	{"field-obj", `T.attributes["Name"]`, `try(func() { $H.tag = "x" }, func(e) { return nil })`, `[$H.name, $H.type.name, $H.tag, string($H), $H.type.is_pointer_type]`},
	{"field-type-attrs", `T.attributes["In"].type.attributes`, `$H["k" + string(pid)] = 1`, `[sorted(keys($H)), sorted(keys(T.attributes["In"].type.attributes)), sorted(keys(obj.In.__type__.attributes))]`},
	{"ptr-field-type-attrs", `obj.P.__type__.attributes`, `delete($H, "A")`, `[sorted(keys($H)), sorted(keys(T.attributes["P"].type.attributes))]`},
	{"in-type-attrs", `T.attributes["Take"].in_type(1).attributes`, `$H["q"] = pid`, `[sorted(keys($H)), sorted(keys(T.attributes["Take"].in_type(1).attributes))]`},
	{"out-type", `T.attributes["Get"].out_type(0)`, ``, `[$H.name, sorted(keys($H.attributes)), string($H)]`},
	{"type-strings", `[T.name, T.package_path]`, `$H.append(pid)`, `[$H, T.name.to_upper(), T.is_pointer_type, string(T)]`},
	{"keys-list", `keys(T.attributes)`, `$H.append("x" + string(pid))`, `[len($H), len(keys(T.attributes))]`},
	{"bound-method", `obj.M0`, ``, `[string($H), $H([pid, 1]), obj.Hello("a"), obj.Take({"A": pid, "B": "b"})]`},
	{"type-json", `json.marshal(T)`, ``, `len($H)`},
	{"type-equal", `T`, ``, `[$H == obj.__type__, $H == obj.P.__type__, T.attributes["P"].type == obj.P.__type__]`},
}

func c09RegTag(tag string) int {
	for i, o := range c09RegOps {
		if o.tag == tag {
			return i
		}
	}
	return -1
}

func c09RegSrc(ops []int, rounds int) string {
	var b strings.Builder
	fmt.Fprintf(&b, "T := obj.__type__\nout := []\nfor r := 0; r < %d; r++ {\n", rounds)
	for i, o := range ops {
		h := fmt.Sprintf("h%d", i)
		fmt.Fprintf(&b, "\t%s := %s\n", h, c09RegOps[o].prod)
		if m := c09RegOps[o].mut; m != "" {
			fmt.Fprintf(&b, "\t%s\n", strings.ReplaceAll(m, "$H", h))
		}
	}
	b.WriteString("\thold_sync()\n")
	for i, o := range ops {
		fmt.Fprintf(&b, "\ta%d := %s\n", i, strings.ReplaceAll(c09RegOps[o].obs, "$H", fmt.Sprintf("h%d", i)))
	}
	b.WriteString("\thold_sync()\n")
	for i, o := range ops {
		fmt.Fprintf(&b, "\tout.append([%q, a%d, %s])\n", "<"+c09RegOps[o].tag+">", i, strings.ReplaceAll(c09RegOps[o].obs, "$H", fmt.Sprintf("h%d", i)))
	}
	b.WriteString("}\nout")
	return b.String()
}

func c09RegGlobals(k int) []risor.Option {
	return []risor.Option{risor.WithGlobal("obj", &c09RegObj{Name: fmt.Sprintf("obj%d", k), Count: k, In: c09RegInner{A: k, B: "in"}, P: &c09RegInner{A: 100 + k, B: "p"}})}
}

type c09RegSpec struct {
	n, procs, rounds int
	ops              []int
	sync             string
	share, plain     bool
	seq              bool // back to back in one process instead of concurrently
}

func (h c09RegSpec) job() (*c09Job, string) {
	var tags []string
	for _, o := range h.ops {
		tags = append(tags, c09RegOps[o].tag)
	}
	job := &c09Job{Kind: "registry", Srcs: []string{c09RegSrc(h.ops, h.rounds)}, Share: h.share, Procs: h.procs, Threads: h.n, Sync: h.sync, Plain: h.plain, Seq: h.seq}
	mode := "concurrently"
	if h.seq {
		mode = "back to back in one process"
	}
	key := fmt.Sprintf("registry n=%d %s procs=%d sync=%s rounds=%d share=%v race-detector=%v ops=%s: every evaluation k runs, with its own Go object obj (a *c09RegObj) and pid=k: %s",
		h.n, mode, h.procs, h.sync, h.rounds, h.share, !h.plain, strings.Join(tags, ","), strings.ReplaceAll(job.Srcs[0], "\n", " ; "))
	return job, key
}

// c09GenReg: schedule i of the registry class: every operation on its own first (two or three
// evaluations, barrier, alternately concurrent / back to back), then mixes.
func c09GenReg(r *RNG, i int) c09RegSpec {
	if i < 2*len(c09RegOps) {
		h := c09RegSpec{n: 2 + r.Intn(2), procs: Pick(r, []int{1, 2, 4}), rounds: 1 + r.Intn(2), ops: []int{i / 2}, sync: "barrier", share: r.Bool(), plain: r.Bool()}
		if i%2 == 1 {
			h.seq, h.plain, h.procs = true, true, 1
		}
		return h
	}
	h := c09RegSpec{n: 2 + r.Intn(3), procs: Pick(r, []int{1, 2, 4, 8}), rounds: 1 + r.Intn(3), sync: Pick(r, []string{"barrier", "barrier", "yield", "none"}), share: r.Chance(60), plain: r.Chance(40)}
	k := 2 + r.Intn(4)
	perm := make([]int, len(c09RegOps))
	for j := range perm {
		perm[j] = j
	}
	for j := 0; j < k; j++ {
		x := j + r.Intn(len(perm)-j)
		perm[j], perm[x] = perm[x], perm[j]
	}
	h.ops = append([]int(nil), perm[:k]...)
	if r.Chance(25) {
		h.seq, h.plain = true, true
	}
	return h
}

// c09ServeReference: the stand-alone results against their closed form, and the Lean machine
// model (fresh allocation = the code as it is) under a random interleaving and alone.
func c09ServeReference(e *Env, r *RNG, key string, sp *c09ServeSpec, seq []string) {
	offs, total := c09ServeOffsets(sp.reqs)
	events := c09ServeEvents(r, sp.reqs)
	rep := e.O.Ask("C09", "mach", "fresh", strconv.Itoa(total), events)
	f := strings.Split(rep, "\t")
	if len(f) != 3 || f[0] != "ok" {
		e.R.Mismatch(key, "-", rep, "oracle rejected the serve schedule "+events)
		return
	}
	full, alone := strings.Split(f[1], "|"), strings.Split(f[2], "|")
	if len(full) != total || len(alone) != total {
		e.R.Mismatch(key, strconv.Itoa(total), rep, "oracle: number of evaluations")
		return
	}
	for w, rs := range sp.reqs {
		for j, rq := range rs {
			t := offs[w] + j
			want := strings.Join(c09ReqExpect(rq, w, j), " or ")
			if t < len(seq) && !c09ReqAccepts(rq, w, j, seq[t]) {
				e.R.Mismatch(key, seq[t], want, fmt.Sprintf("stand-alone result of request %d of worker %d (%s) vs its closed form", j, w, rq))
			}
			// model: halted iff the request cancels its own context during its run
			halted := !strings.HasSuffix(full[t], ":-")
			if halted != (rq.Cancel == "self" && rq.Ctx != "background") {
				e.R.Mismatch(key, want, full[t], fmt.Sprintf("Impl machine model (fresh machines): evaluation %d under the interleaving %s", t, events))
			}
			if full[t] != alone[t] {
				e.R.Mismatch(key, alone[t], full[t], fmt.Sprintf("Impl machine model: evaluation %d under the interleaving differs from alone (%s)", t, events))
			}
		}
	}
}
