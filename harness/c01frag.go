package main

// C01, proved fragment (lean/RisorModel/C01/Frag*.lean).  The theorem
// `frag_compile_correct` relates three Lean definitions: evalF (reference semantics on the
// fragment), compF (functional compiler) and runF (VM on the fragment's opcodes).  This file
// re-establishes, on every run, the links between those definitions and the code:
//
//   (A) compF p, assembled            == bytecode of the real compiler        (and == Compile.lean)
//   (B) evalF p                       == Sem.lean's runProg p                 (and == the real result)
//   (C) runF (compF p)                == VM.lean's runCodes (compileProg p)   (and == the real result)
//
// on every program of the shared generator that lies in the fragment (whole, or its longest
// top-level prefix that does) and on programs of a second, fragment-only generator below.
// The oracle computes all Lean sides in one request (`C01 frag run`), see FragOracle.lean.

import (
	"fmt"
	"strings"
	"time"
)

type c01fragVar struct {
	name   string
	ty     string // int bool str
	locked bool   // loop counters: the body must not defeat the bound
}

type c01fragGen struct {
	r      *RNG
	next   int
	scopes [][]c01fragVar
	budget int
	errs   bool // ill-typed operands and zero divisors allowed (error outcomes)
	inTern int  // > 0 while generating inside a ternary: the parser rejects nested ternaries, blocks included
	loop   int  // > 0 inside a loop body at statement level: break / continue may be generated
	inLoop int  // > 0 anywhere inside a loop: strings must not grow multiplicatively (s += s doubles per round)
	// hooks of the function-fragment generator (c01fun.go); nil here, and then no random draw is added
	exprHook func(ty string, d int, noTern bool) *N
	stmtHook func(d int) []*N
}

// ctl returns a break/continue statement in one of its shapes (guarded, bare, in an else branch).
func (g *c01fragGen) ctl(d int) *N {
	k := func() *N { return n(Pick(g.r, []string{"break", "continue"})) }
	switch g.r.Intn(6) {
	case 0:
		return k() // bare: the rest of the block is dead code
	case 1:
		return n("expr", n("if", g.expr("bool", 1, false), nBlock(g.stmtsNoLoop(d), k()), nBlock(k())))
	case 2:
		return n("expr", n("if", g.expr("bool", 1, false), nBlock(n("expr", n("if", g.expr("bool", 1, false), nBlock(k()))))))
	}
	return n("expr", n("if", g.expr("bool", 1, false), nBlock(k())))
}

// stmtsNoLoop: one simple statement (used before a break/continue inside an if block)
func (g *c01fragGen) stmtsNoLoop(d int) *N {
	g.push()
	defer g.pop()
	return g.stmt(5)[0]
}

func (g *c01fragGen) tern(c, a, b func() *N) *N {
	g.inTern++
	defer func() { g.inTern-- }()
	return n("tern", c(), a(), b())
}

func (g *c01fragGen) push() { g.scopes = append(g.scopes, nil) }
func (g *c01fragGen) pop()  { g.scopes = g.scopes[:len(g.scopes)-1] }
func (g *c01fragGen) fresh(prefix string) string {
	g.next++
	return fmt.Sprintf("%s%d", prefix, g.next)
}
func (g *c01fragGen) declare(name, ty string, locked bool) {
	g.scopes[len(g.scopes)-1] = append(g.scopes[len(g.scopes)-1], c01fragVar{name, ty, locked})
}
func (g *c01fragGen) vars(ty string, writable bool) []c01fragVar {
	var out []c01fragVar
	for _, s := range g.scopes {
		for _, v := range s {
			if (ty == "" || v.ty == ty) && !(writable && v.locked) {
				out = append(out, v)
			}
		}
	}
	return out
}

var c01fragInts = []int64{0, 1, 1, 2, 3, 5, 7, 10, -1, -3, 100, 9223372036854775807, 3037000500, 4611686018427387904}
var c01fragWords = []string{"a", "bc", "", "x y", "risor", "z"}

func (g *c01fragGen) otherTy(ty string) string {
	// any other type: two bools / two nils under an ordered comparison are ordered by the real code
	// (object.Bool.Compare: false < true; NilType.Compare: equal) and by the models
	return Pick(g.r, map[string][]string{"int": {"str", "bool", "nil"}, "bool": {"int", "str", "nil"}, "str": {"int", "bool", "nil"}}[ty])
}

// expr generates an expression of (intended) type ty; noTern forbids the ternary (the parser
// rejects nested ternaries).
func (g *c01fragGen) expr(ty string, d int, noTern bool) *N {
	g.budget--
	noTern = noTern || g.inTern > 0
	if g.errs && ty != "nil" && g.r.Chance(3) { // an operand of the wrong type: a type error downstream (or not: ==, !, &&)
		ty = g.otherTy(ty)
	}
	if ty == "nil" {
		return n("nil")
	}
	if g.exprHook != nil {
		if x := g.exprHook(ty, d, noTern); x != nil {
			return x
		}
	}
	vs := g.vars(ty, false)
	leaf := func() *N {
		if len(vs) > 0 && g.r.Chance(55) {
			return nId(Pick(g.r, vs).name)
		}
		switch ty {
		case "int":
			if g.r.Chance(70) {
				return nInt(int64(g.r.Intn(10)))
			}
			return nInt(Pick(g.r, c01fragInts))
		case "bool":
			return nBool(g.r.Bool())
		}
		return nStr(Pick(g.r, c01fragWords))
	}
	if d <= 0 || g.budget <= 0 {
		return leaf()
	}
	cmp := []string{"<", "<=", "==", "!=", ">", ">="}
	switch ty {
	case "int":
		switch g.r.Intn(12) {
		case 0, 1, 2:
			return nInfix(Pick(g.r, []string{"+", "-", "*"}), g.expr("int", d-1, noTern), g.expr("int", d-1, noTern))
		case 3:
			div := nInt(int64(1 + g.r.Intn(5)))
			if g.errs && g.r.Chance(25) {
				div = g.expr("int", d-1, noTern) // may be zero
			}
			return nInfix(Pick(g.r, []string{"/", "%"}), g.expr("int", d-1, noTern), div)
		case 4:
			return ns("prefix", "-", g.expr("int", d-1, noTern))
		case 5:
			if !noTern {
				return g.tern(func() *N { return g.expr("bool", d-1, true) }, func() *N { return g.expr("int", d-1, true) }, func() *N { return g.expr("int", d-1, true) })
			}
		case 6:
			return g.ifExpr("int", d-1, noTern)
		case 7:
			return nInfix(Pick(g.r, []string{"&&", "||"}), g.expr("int", d-1, noTern), g.expr("int", d-1, noTern))
		case 8:
			if g.r.Chance(50) {
				return g.switchExpr("int", d-1)
			}
		}
	case "bool":
		switch g.r.Intn(10) {
		case 0, 1, 2:
			return nInfix(Pick(g.r, cmp), g.expr("int", d-1, noTern), g.expr("int", d-1, noTern))
		case 3:
			return nInfix(Pick(g.r, cmp), g.expr("str", d-1, noTern), g.expr("str", d-1, noTern))
		case 4:
			return nInfix("&&", g.expr("bool", d-1, noTern), g.expr("bool", d-1, noTern))
		case 5:
			return nInfix("||", g.expr("bool", d-1, noTern), g.expr("bool", d-1, noTern))
		case 6:
			return ns("prefix", "!", g.expr(Pick(g.r, []string{"bool", "bool", "int", "str", "nil"}), d-1, noTern))
		case 7: // equality is defined across all types
			a := Pick(g.r, []string{"int", "bool", "str", "nil"})
			b := Pick(g.r, []string{"int", "bool", "str", "nil"})
			return nInfix(Pick(g.r, []string{"==", "!="}), g.expr(a, d-1, noTern), g.expr(b, d-1, noTern))
		case 8:
			if !noTern {
				return g.tern(func() *N { return g.expr("bool", d-1, true) }, func() *N { return g.expr("bool", d-1, true) }, func() *N { return g.expr("bool", d-1, true) })
			}
		case 9: // ordered comparison of two bools (false < true) or of two nils (equal)
			if g.r.Chance(80) {
				return nInfix(Pick(g.r, cmp), g.expr("bool", d-1, noTern), g.expr("bool", d-1, noTern))
			}
			return nInfix(Pick(g.r, cmp), n("nil"), n("nil"))
		}
	case "str":
		switch g.r.Intn(6) {
		case 0, 1:
			return nInfix("+", g.expr("str", d-1, noTern), g.expr("str", d-1, noTern))
		case 2:
			if !noTern {
				return g.tern(func() *N { return g.expr("bool", d-1, true) }, func() *N { return g.expr("str", d-1, true) }, func() *N { return g.expr("str", d-1, true) })
			}
		case 3:
			return g.ifExpr("str", d-1, noTern)
		}
	}
	return leaf()
}

// switchExpr: `switch subj { case v, w: … default: … }`; ty == "" = statement position (bodies are
// arbitrary blocks), otherwise every body ends with a value of type ty.  No break/continue inside.
func (g *c01fragGen) switchExpr(ty string, d int) *N {
	saved := g.loop
	g.loop = 0
	defer func() { g.loop = saved }()
	sty := "int"
	if g.r.Chance(20) {
		sty = "str"
	}
	x := n("switch", g.expr(sty, 1, false))
	body := func() *N {
		if ty == "" {
			return g.body(d + 1)
		}
		g.push()
		defer g.pop()
		var ss []*N
		if g.r.Chance(30) && g.budget > 0 {
			ss = append(ss, g.stmt(5)...)
		}
		return nBlock(append(ss, n("expr", g.expr(ty, 1, false)))...)
	}
	val := func(i int) *N {
		if sty == "str" {
			return nStr(Pick(g.r, c01fragWords))
		}
		if g.r.Chance(20) {
			return g.expr("int", 1, false)
		}
		return nInt(int64(i))
	}
	var cases []*N
	kc := g.r.Intn(4)
	for i := 0; i < kc; i++ {
		c := n("case", val(i))
		if g.r.Chance(30) {
			c.C = append(c.C, val(i+5))
		}
		c.C = append(c.C, body())
		cases = append(cases, c)
	}
	// in a value position the default is mandatory unless error outcomes are wanted: without it the
	// switch may yield nil in a typed position
	if g.r.Chance(60) || (ty != "" && !g.errs) || kc == 0 {
		dflt := n("default", body())
		if g.r.Chance(15) && len(cases) > 0 { // a default that is not the last clause
			k := g.r.Intn(len(cases))
			cases = append(cases[:k], append([]*N{dflt}, cases[k:]...)...)
		} else {
			cases = append(cases, dflt)
		}
	}
	x.C = append(x.C, cases...)
	return x
}

// ifExpr: `if c { stmts; value }` with `else { … }` or `else if …` (an else-less `if` would put nil in a typed position).
func (g *c01fragGen) ifExpr(ty string, d int, noTern bool) *N {
	c := g.expr("bool", d, noTern)
	blk := func() *N {
		g.push()
		defer g.pop()
		saved := g.loop
		g.loop = 0 // an if used as an operand: a break here would sit under pending operands
		defer func() { g.loop = saved }()
		var ss []*N
		if g.r.Chance(30) && g.budget > 0 {
			ss = append(ss, g.stmt(d+3)...) // shallow statements before the value
		}
		ss = append(ss, n("expr", g.expr(ty, d, noTern)))
		return nBlock(ss...)
	}
	x := n("if", c, blk())
	switch {
	case g.r.Chance(15) && d > 0:
		x.C = append(x.C, g.ifExpr(ty, d-1, noTern))
	default:
		x.C = append(x.C, blk())
	}
	return x
}

func (g *c01fragGen) body(d int, extra ...*N) *N {
	g.push()
	defer g.pop()
	ss := append([]*N{}, extra...)
	k := g.r.Intn(4)
	for i := 0; i < k && g.budget > 0; i++ {
		ss = append(ss, g.stmt(d)...)
	}
	return nBlock(ss...)
}

// stmt generates one statement (two when a loop needs its counter declared first); d = depth.
func (g *c01fragGen) stmt(d int) []*N {
	g.budget -= 2
	deep := d < 3 && g.budget > 0
	tys := []string{"int", "int", "int", "bool", "str"}
	if g.stmtHook != nil {
		if ss := g.stmtHook(d); ss != nil {
			return ss
		}
	}
	if g.loop > 0 && g.r.Chance(18) {
		return []*N{g.ctl(d)}
	}
	switch c := g.r.Intn(20); {
	case c < 4:
		ty := Pick(g.r, tys)
		e := g.expr(ty, 2, false)
		name := g.fresh(ty[:1])
		g.declare(name, ty, false)
		return []*N{nVar(name, e)}
	case c < 7:
		if vs := g.vars("", true); len(vs) > 0 {
			v := Pick(g.r, vs)
			switch v.ty {
			case "int":
				op := Pick(g.r, []string{"=", "+=", "-=", "*=", "/="})
				e := g.expr("int", 2, false)
				if op == "/=" && !(g.errs && g.r.Chance(25)) {
					e = nInt(int64(1 + g.r.Intn(4)))
				}
				return []*N{nAssign(v.name, op, e)}
			case "str":
				if g.inLoop > 0 { // only literals are appended inside loops: the length stays linear in the rounds
					return []*N{nAssign(v.name, Pick(g.r, []string{"=", "+="}), nStr(Pick(g.r, c01fragWords)))}
				}
				return []*N{nAssign(v.name, Pick(g.r, []string{"=", "+="}), g.expr("str", 1, false))}
			default:
				return []*N{nAssign(v.name, "=", g.expr("bool", 2, false))}
			}
		}
	case c < 9:
		ty := "int"
		if g.errs && g.r.Chance(10) {
			ty = ""
		}
		if vs := g.vars(ty, true); len(vs) > 0 {
			return []*N{ns("postfix", Pick(g.r, vs).name+" "+Pick(g.r, []string{"++", "--"}))}
		}
	case c < 11:
		return []*N{n("expr", g.expr(Pick(g.r, tys), 2, false))}
	case c < 12 && deep: // switch statement
		return []*N{n("expr", g.switchExpr("", d))}
	case c < 14 && deep: // if statement
		x := n("if", g.expr("bool", 2, false), g.body(d+1))
		switch g.r.Intn(3) {
		case 0:
			x.C = append(x.C, g.body(d+1))
		case 1:
			x.C = append(x.C, n("if", g.expr("bool", 1, false), g.body(d+1), g.body(d+1)))
		}
		return []*N{n("expr", x)}
	case c < 16 && deep: // for init; cond; post { }
		i := g.fresh("i")
		bound := int64(g.r.Intn(5))
		g.push()
		g.declare(i, "int", true)
		cond := nInfix("<", nId(i), nInt(bound))
		switch g.r.Intn(4) {
		case 0:
			cond = nInfix("&&", cond, g.expr("bool", 1, false))
		case 1:
			cond = nInfix(">", nInt(bound), nId(i))
		}
		var post *N
		switch g.r.Intn(3) {
		case 0:
			post = ns("postfix", i+" ++")
		case 1:
			post = nAssign(i, "+=", nInt(int64(1+g.r.Intn(2))))
		default:
			post = nAssign(i, "=", nInfix("+", nId(i), nInt(1)))
		}
		g.loop++
		g.inLoop++
		b := g.body(d + 1)
		g.inLoop--
		g.loop--
		g.pop()
		return []*N{n("for3", nVar(i, nInt(int64(g.r.Intn(2)))), cond, post, b)}
	case c < 18 && deep: // for cond { } over its own counter, incremented first
		cn := g.fresh("c")
		bound := int64(g.r.Intn(5))
		g.declare(cn, "int", true)
		var inc *N
		if g.r.Bool() {
			inc = ns("postfix", cn+" ++")
		} else {
			inc = nAssign(cn, "+=", nInt(1))
		}
		g.loop++
		g.inLoop++
		defer func() { g.loop--; g.inLoop-- }()
		if g.r.Chance(30) {
			// for { }: the exit is a break (or, on error runs, a division by bound+1 - counter)
			var exit *N
			if g.errs && g.r.Chance(30) {
				exit = n("expr", nInfix("/", nInt(10), nInfix("-", nInt(bound+1), nId(cn))))
			} else {
				exit = n("expr", n("if", nInfix(">", nId(cn), nInt(bound)), nBlock(n("break"))))
			}
			return []*N{nVar(cn, nInt(0)), n("forever", g.body(d+1, inc, exit))}
		}
		cond := nInfix("<", nId(cn), nInt(bound))
		if g.r.Chance(25) {
			cond = nInfix("&&", cond, g.expr("bool", 1, false))
		}
		return []*N{nVar(cn, nInt(0)), n("forcond", cond, g.body(d+1, inc))}
	}
	ty := Pick(g.r, tys)
	e := g.expr(ty, 1, false)
	name := g.fresh(ty[:1])
	g.declare(name, ty, false)
	return []*N{nVar(name, e)}
}

// c01fragProgram generates one program inside the fragment.
func c01fragProgram(r *RNG) *N {
	g := &c01fragGen{r: r, budget: 20 + r.Intn(100), errs: r.Chance(35)}
	g.push()
	var ss []*N
	k := 1 + r.Intn(6)
	for i := 0; i < k && g.budget > 0; i++ {
		ss = append(ss, g.stmt(0)...)
	}
	// the program's value observes the store: a variable, or an expression over the variables
	switch vs := g.scopes[0]; {
	case len(vs) > 0 && r.Chance(60):
		ss = append(ss, n("expr", nId(Pick(r, vs).name)))
	case r.Chance(80):
		ss = append(ss, n("expr", g.expr(Pick(r, []string{"int", "bool", "str"}), 2, false)))
	}
	if len(ss) == 0 || r.Chance(1) {
		ss = nil // the empty program
	}
	return n("prog", ss...)
}

// ---- rendering (gen.go's Src cannot print `else if`; same conventions otherwise)

func c01fragSub(x *N, p int, right bool) string {
	q := exprPrec(x)
	if x.K == "tern" {
		q = 1 // a ternary operand is always parenthesised (its branches extend as far as they can)
	}
	s := c01fragExpr(x)
	if q < p || (right && q == p) {
		return "(" + s + ")"
	}
	return s
}

func c01fragExpr(x *N) string {
	switch x.K {
	case "infix":
		p := precTable[x.S]
		return c01fragSub(x.C[0], p, false) + " " + x.S + " " + c01fragSub(x.C[1], p, true)
	case "prefix":
		in := c01fragSub(x.C[0], 14, false)
		if x.S == "-" && strings.HasPrefix(in, "-") {
			in = "(" + in + ")"
		}
		return x.S + in
	case "tern":
		return c01fragSub(x.C[0], 7, false) + " ? " + c01fragSub(x.C[1], 7, false) + " : " + c01fragSub(x.C[2], 7, false)
	case "if":
		s := "if " + c01fragExpr(x.C[0]) + " " + c01fragBlock(x.C[1])
		if len(x.C) > 2 {
			if x.C[2].K == "if" {
				s += " else " + c01fragExpr(x.C[2])
			} else {
				s += " else " + c01fragBlock(x.C[2])
			}
		}
		return s
	case "switch":
		var sb strings.Builder
		sb.WriteString("switch " + c01fragExpr(x.C[0]) + " {\n")
		for _, c := range x.C[1:] {
			if c.K == "case" {
				vs := make([]string, len(c.C)-1)
				for i, v := range c.C[:len(c.C)-1] {
					vs[i] = c01fragExpr(v)
				}
				sb.WriteString("case " + strings.Join(vs, ", ") + ":\n" + c01fragStmts(c.C[len(c.C)-1].C, 1))
			} else {
				sb.WriteString("default:\n" + c01fragStmts(c.C[0].C, 1))
			}
		}
		sb.WriteString("}")
		return sb.String()
	}
	return Expr(x) // literals and identifiers
}

func c01fragBlock(b *N) string {
	if len(b.C) == 0 {
		return "{ }"
	}
	return "{\n" + c01fragStmts(b.C, 1) + "}"
}

func c01fragStmts(ss []*N, depth int) string {
	var sb strings.Builder
	for _, s := range ss {
		sb.WriteString(ind(depth) + strings.ReplaceAll(c01fragStmt(s), "\n", "\n"+ind(depth)) + "\n")
	}
	return sb.String()
}

func c01fragStmt(s *N) string {
	switch s.K {
	case "var":
		return s.S + " := " + c01fragExpr(s.C[0])
	case "assign":
		f := strings.SplitN(s.S, " ", 2)
		return f[0] + " " + f[1] + " " + c01fragExpr(s.C[0])
	case "postfix":
		f := strings.SplitN(s.S, " ", 2)
		return f[0] + f[1]
	case "for3":
		return "for " + c01fragStmt(s.C[0]) + "; " + c01fragExpr(s.C[1]) + "; " + c01fragStmt(s.C[2]) + " " + c01fragBlock(s.C[3])
	case "forcond":
		return "for " + c01fragExpr(s.C[0]) + " " + c01fragBlock(s.C[1])
	case "forever":
		return "for " + c01fragBlock(s.C[0])
	case "expr":
		return c01fragExpr(s.C[0])
	}
	return Stmt(s)
}

func c01fragSrc(p *N) string { return c01fragStmts(p.C, 0) }

func c01fragReal(out EvalOut) string {
	if out.Stdout != "" {
		return "printed"
	}
	if out.Err != "" {
		return "err:" + ErrClass(out.Err)
	}
	return "ok:" + ValText(out.Obj, 0)
}

// c01fragOne checks every link on one program; origin names the generator for the histograms.
// It returns false when the program is outside the fragment.
func c01fragOne(e *Env, p *N, origin string) bool {
	src := c01fragSrc(p)
	rep := e.O.Ask("C01", "frag", "run", Sexp(p), c01Globals)
	f := strings.Split(rep, "\t")
	if f[0] != "in" || len(f) != 12 {
		if f[0] != "out" {
			e.R.Mismatch(src, "-", rep, "C01 frag run: malformed oracle reply")
		}
		return false
	}
	e.R.H("frag_programs", origin)
	for k := range Kinds(p) {
		e.R.H("frag_constructs", k)
	}
	evalF, runF, stF, stR, asm, linkA, sem, vmm, topF, topSem, stVM := f[1], f[2], f[3], f[4], f[5], f[6], f[7], f[8], f[9], f[10], f[11]
	oc := evalF
	if strings.HasPrefix(oc, "ok:(") {
		oc = strings.SplitN(strings.TrimPrefix(oc, "ok:("), " ", 2)[0]
		oc = "ok:" + strings.TrimSuffix(oc, ")")
	}
	e.R.H("frag_outcome", oc)
	if evalF == "oof" || runF == "oof" {
		e.R.Note("fragment program exhausted the model's fuel (skipped): %s", src)
		return true
	}
	mis := func(goSide, model, what string) { e.R.Mismatch(src, goSide, model, "fragment: "+what) }
	// the theorem's two sides, evaluated (a proved equality: a difference here means the build is inconsistent)
	if evalF != runF || stF != stR {
		mis(evalF+" "+stF, runF+" "+stR, "evalF vs runF∘compF (proved equal by frag_compile_correct)")
	}
	// the real pipeline
	out := EvalSrc(src, 5*time.Second)
	real := c01fragReal(out)
	if real == "err:context" {
		e.R.Note("real run timed out on a fragment program (skipped): %s", src)
		return true
	}
	if real != evalF {
		mis(real, evalF, "risor.Eval vs evalF (reference semantics of the fragment)")
	}
	if real != runF {
		mis(real, runF, "risor.Eval vs runF (compF p)")
	}
	// (A) bytecode
	code, err := CompileSrc(src)
	goCode := "fail"
	if err == nil {
		goCode = CodeExport(code)
	} else {
		goCode = "fail: " + err.Error()
	}
	if goCode != asm {
		mis(goCode, asm, "link A: compiler.Compile vs compF (assembled), instruction for instruction")
	}
	if linkA != "same" {
		mis(asm, linkA, "link A: compF (assembled) vs Compile.lean's compileProg")
	}
	// (B) reference semantics
	if sem != evalF || topSem != topF {
		mis(sem+" "+topSem, evalF+" "+topF, "link B: Sem.lean's runProg vs evalF (outcome, top-level variables)")
	}
	// (C) VM model
	if vmm != runF || stVM != stR {
		mis(vmm+" "+stVM, runF+" "+stR, "link C: VM.lean's runCodes on compileProg vs runF on compF (outcome, globals)")
	}
	return true
}

var c01fragRuleDone = false

// the fragment generator's own stream, forked once from e.Rng (two forks deep: e.Rng's states
// for consecutive seeds are one step apart, a fork of a fork is not)
var c01fragRng *RNG

// c01FragCheck is called once per program of the shared generator (from c01.go's flush).
func c01FragCheck(e *Env, p *N, src string) {
	if !c01fragRuleDone {
		c01fragRuleDone = true
		c01fragRng = e.Rng.Fork().Fork()
		e.R.Rule += "; proved fragment: every shared-generator program (or its longest top-level prefix) that lies in the fragment, " +
			"plus fragment-only programs from a second generator (typed expressions with injected type errors / zero divisors, " +
			"if/else-if, switch, the three loop forms with break/continue in statement position), each checked on links A, B, C and against the real pipeline"
	}
	// 1. the shared generator's program, or the longest prefix of its top-level statements
	k := 0
	fmt.Sscanf(e.O.Ask("C01", "frag", "prefix", Sexp(p), c01Globals), "%d", &k)
	switch {
	case k == len(p.C) && k > 0:
		c01fragOne(e, p, "shared:whole")
	case k > 0:
		q := n("prog", p.C[:k]...)
		// observe the last declared variable
		for i := k - 1; i >= 0; i-- {
			if p.C[i].K == "var" {
				q.C = append(append([]*N{}, q.C...), n("expr", nId(p.C[i].S)))
				break
			}
		}
		c01fragOne(e, q, "shared:prefix")
	default:
		e.R.H("frag_programs", "shared:outside")
	}
	// 2. fragment-only programs
	for i := 0; i < 1; i++ {
		q := c01fragProgram(c01fragRng.Fork())
		if c01fragOne(e, q, "own") {
			e.R.Case("frag:"+Sexp(q), len(Kinds(q)) >= 6)
		} else {
			e.R.H("frag_programs", "own:outside")
			e.R.Note("the fragment generator produced a program outside the fragment: %s", c01fragSrc(q))
		}
	}
}
