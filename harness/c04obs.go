package main

// C04 — round 5: two scenario classes (model: lean/RisorModel/C04/Obs.lean, theorems ObsProps.lean).
//
// A. TEMPLATE STRINGS with every kind of fragment, the EMPTY interpolation `{}` / `{  }` included
//    (compiler.compileString's nil-expression branch), in expression contexts with and without
//    pending operands, evaluated once or in a loop, in the main code or in a function.  The
//    window of instructions the REAL compiler emits for the template is cut out differentially
//    (the same program with the template replaced by a plain string differs by exactly that
//    window), compared with the model's `compileString`, its net effect is evaluated by the model
//    (`runStraight`: the Spec demands +1), the real VM's height is read before and after every
//    execution of the window, the verified checker runs on every code object, and the program is
//    run past the stack's capacity.
//
// B. NESTED LOOPS of every form (three-clause, condition, forever, range without / with one / with
//    two loop variables, for-in) over ints, lists, strings and maps, left by exhaustion, break,
//    continue or return, in the main code or in a function.  The REAL heights of every frame
//    activation (the observed run) go to the oracle: `traceOk` compares every real step with the
//    model machine, `neutral` is the Spec on the real run (one slot, one height:
//    observed_run_neutral), and the program is run with its outermost bound past the stack's
//    capacity with the count the harness computes itself.

import (
	"fmt"
	"strconv"
	"strings"
	"time"

	"github.com/risor-io/risor/compiler"
	"github.com/risor-io/risor/op"
	"github.com/risor-io/risor/vm"
)

// ---------------------------------------------------------------------------------------------
// observed runs

type obsAct struct {
	id   string
	fp   int
	base int
	run  []string // "slot:height"
	neg  string   // a height below the frame's base, if one was seen
	cut  bool
}

const obsMaxRun = 1500
const obsMaxActs = 8

// obsRun runs src on the real VM and returns the observed run of every frame activation (capped).
func obsRun(src string, timeout time.Duration) (out EvalOut, acts []*obsAct) {
	cur := map[int]*obsAct{}
	type ent struct {
		id string
		fp int
		op op.Code
	}
	var prev *ent
	vm.VerifTrace = func(_ *vm.VirtualMachine, id string, ip int, opc op.Code, sp int, fp int) {
		if ip == 0 && !(prev != nil && prev.fp == fp && prev.id == id && prev.op == op.JumpBackward) {
			a := &obsAct{id: id, fp: fp, base: sp + 1}
			cur[fp] = a
			if len(acts) < obsMaxActs {
				acts = append(acts, a)
			}
		}
		prev = &ent{id, fp, opc}
		a := cur[fp]
		if a == nil || a.id != id {
			return
		}
		if len(a.run) >= obsMaxRun {
			a.cut = true
			return
		}
		h := sp + 1 - a.base
		if h < 0 {
			if a.neg == "" {
				a.neg = fmt.Sprintf("slot %d (%s): the real height is %d below the frame's base", ip, op.GetInfo(opc).Name, -h)
			}
			return
		}
		a.run = append(a.run, strconv.Itoa(ip)+":"+strconv.Itoa(h))
	}
	out = EvalSrc(src, timeout)
	vm.VerifTrace = nil
	return
}

// obsJudge sends every observed run to the oracle; it returns the Spec violations and the
// departures from the model machine.
func obsJudge(e *Env, code *compiler.Code, acts []*obsAct) (spec []string, dep []string) {
	byID := map[string]*compiler.Code{}
	for _, cc := range code.Flatten() {
		byID[cc.ID()] = cc
	}
	for _, a := range acts {
		cc := byID[a.id]
		if cc == nil || len(a.run) == 0 {
			continue
		}
		if a.neg != "" {
			spec = append(spec, "code "+a.id+": "+a.neg)
		}
		kind := "fn"
		if cc.IsRoot() {
			kind = "main"
		}
		rep := e.O.Ask("C04", "trace", kind, CodeText(cc), strings.Join(a.run, ","))
		f := strings.Split(rep, "\t")
		if f[0] != "ok" || len(f) < 5 {
			dep = append(dep, "code "+a.id+": oracle "+rep)
			continue
		}
		e.R.H("obs_step", strings.Fields(f[1])[0])
		e.R.H("obs_spec", strings.Fields(f[2])[0])
		e.R.H("obs_cert", f[3]+"/"+f[4])
		if f[1] != "agree" {
			k, _ := strconv.Atoi(strings.TrimPrefix(f[1], "departs "))
			at := ""
			if k >= 1 && k < len(a.run) {
				at = fmt.Sprintf(": the real VM went from slot:height %s to %s", a.run[k-1], a.run[k])
			}
			dep = append(dep, fmt.Sprintf("code %s (frame %d): step %d of the observed run is not a step of the model machine%s", a.id, a.fp, k, at))
		}
		if f[2] != "neutral" {
			spec = append(spec, fmt.Sprintf("code %s (frame %d): one slot is visited at two heights in one activation (%s: slot, height, height)", a.id, a.fp, f[2]))
		}
		if f[3] == "reject" {
			spec = append(spec, "code "+a.id+": the verified checker rejects the real code object")
		} else if f[4] == "differs" && f[1] == "agree" {
			dep = append(dep, "code "+a.id+": the observed run agrees with the model machine but not with the accepted certificate")
		}
	}
	return
}

// ---------------------------------------------------------------------------------------------
// A. template strings

type tHole struct {
	src, post, val string
	isInt          bool
	n              int64
}

func tmplInt(r *RNG, d int, inFn bool) tHole {
	k := r.Intn(8)
	if d <= 0 && k >= 5 {
		k = r.Intn(5)
	}
	mk := func(s, p string, n int64) tHole { return tHole{s, p, strconv.FormatInt(n, 10), true, n} }
	switch k {
	case 0:
		return mk("gx", "g", 7)
	case 1:
		n := int64(r.Intn(10))
		return mk(strconv.FormatInt(n, 10), "c", n)
	case 2:
		if inFn {
			return mk("p", "l", 7)
		}
		return mk("gx", "g", 7)
	case 3:
		return mk("len(gw)", "ggk", 3)
	case 4:
		i := r.Intn(2)
		return mk(fmt.Sprintf("gl[%d]", i), "gci", int64(4+i))
	case 5:
		a := tmplInt(r, d-1, inFn)
		return mk("-("+a.src+")", a.post+"n", -a.n)
	case 6:
		a, b := tmplInt(r, d-1, inFn), tmplInt(r, d-1, inFn)
		return mk("("+a.src+" + "+b.src+")", a.post+b.post+"b", a.n+b.n)
	default:
		a, b := tmplInt(r, d-1, inFn), tmplInt(r, d-1, inFn)
		return mk("("+a.src+" * "+b.src+")", a.post+b.post+"b", a.n*b.n)
	}
}

type tmplCase struct {
	lit   string // the single-quoted template
	spec  string // fragments for the oracle
	val   string // its value
	nE    int
	nFrag int
}

var tmplTexts = []struct{ src, val string }{
	{"a", "a"}, {"tail", "tail"}, {" ", " "}, {"x=", "x="}, {"{{", "{"}, {"}}", "}"}, {"$", "$"}, {"b c", "b c"}, {"{{}}", "{}"},
}

func tmplGen(r *RNG, inFn bool) tmplCase {
	n := 1 + r.Intn(6)
	if r.Chance(10) {
		n = 7 + r.Intn(12)
	}
	var c tmplCase
	var lit, val strings.Builder
	var spec []string
	prevText := false
	hasBrace := false
	for i := 0; i < n; i++ {
		k := r.Intn(10)
		switch {
		case k < 3 && !prevText:
			t := Pick(r, tmplTexts)
			lit.WriteString(t.src)
			val.WriteString(t.val)
			spec = append(spec, "T")
			prevText = true
			if strings.Contains(t.src, "{") {
				hasBrace = true
			}
		case k < 6:
			lit.WriteString("{" + strings.Repeat(" ", r.Intn(3)) + "}")
			spec = append(spec, "E")
			c.nE++
			prevText = false
			hasBrace = true
		default:
			var h tHole
			if r.Chance(20) {
				h = tHole{src: "gw", post: "g", val: "abc"}
			} else {
				h = tmplInt(r, 2, inFn)
			}
			pad := strings.Repeat(" ", r.Intn(2))
			lit.WriteString("{" + pad + h.src + pad + "}")
			val.WriteString(h.val)
			spec = append(spec, "H"+h.post)
			prevText = false
			hasBrace = true
		}
	}
	if !hasBrace { // a text-only string is a template only if it holds an (escaped) brace
		if prevText {
			lit.WriteString("{}")
			spec = append(spec, "E")
			c.nE++
		} else {
			lit.WriteString("{{")
			val.WriteString("{")
			spec = append(spec, "T")
		}
	}
	c.lit = "'" + lit.String() + "'"
	c.spec = strings.Join(spec, ",")
	c.val = val.String()
	c.nFrag = len(spec)
	return c
}

// the expression context of the template: src with %s, and the value as a function of the template's
var tmplCtx = []struct {
	src string
	val func(string) string
}{
	{"%s", func(s string) string { return strconv.Quote(s) }},
	{"\"<\" + %s + \">\"", func(s string) string { return strconv.Quote("<" + s + ">") }},
	{"[1, %s, 2][1]", func(s string) string { return strconv.Quote(s) }},
	{"len(%s)", func(s string) string { return strconv.Itoa(len([]rune(s))) }},
	{"gx + len(%s) * 2", func(s string) string { return strconv.Itoa(7 + 2*len([]rune(s))) }},
	{"[gx, [%s, %s]][1][0]", nil},
}

const tmplDecls = "gx := 7\ngw := \"abc\"\ngl := [4, 5]\n"

// tmplProgram builds the program for a placement; `t` is the text standing for the template
// (the template itself, or the plain string of the differential twin).
func tmplProgram(place int, ctx string, t string, k int) string {
	expr := strings.ReplaceAll(ctx, "%s", t)
	switch place {
	case 0:
		return tmplDecls + "s := " + expr + "\ns"
	case 1:
		return tmplDecls + fmt.Sprintf("s := 0\nfor i := 0; i < %d; i++ {\n  s = %s\n}\ns", k, expr)
	case 2:
		return tmplDecls + "func f(p) {\n  s := " + expr + "\n  return s\n}\nf(7)"
	case 3:
		return tmplDecls + fmt.Sprintf("func f(p, k) {\n  s := 0\n  for i := 0; i < k; i++ {\n    s = %s\n  }\n  return s\n}\nf(7, %d)", expr, k)
	case 4:
		return tmplDecls + fmt.Sprintf("s := 0\nfor range %d {\n  %s\n  s = %s\n}\ns", k, t, expr)
	default:
		return tmplDecls + fmt.Sprintf("s := 0\nc := 0\nfor c < %d {\n  c++\n  if c %% 2 == 0 {\n    continue\n  }\n  s = %s\n}\ns", k, expr)
	}
}

type tmplWin struct {
	id         string
	start, end int // slots: first instruction of the window, slot after BUILD_STRING
	text       string
}

// tmplWindows cuts the windows of the template out of the real code: P (with the template) and
// its twin (the template replaced by a plain string: ONE LOAD_CONST) differ by exactly the windows.
func tmplWindows(code, twin *compiler.Code, copies int) (ws []tmplWin, err string) {
	a, b := code.Flatten(), twin.Flatten()
	if len(a) != len(b) {
		return nil, "the program and its twin have different numbers of code objects"
	}
	for i := range a {
		x, y := mvDecode(a[i]), mvDecode(b[i])
		if len(x) == len(y) {
			same := true
			for j := range x {
				if x[j].name != y[j].name {
					same = false
				}
			}
			if same {
				continue
			}
		}
		// walk both from the front; where the twin has its LOAD_CONST and P departs or grows, a window starts
		extra := len(x) - len(y)
		if copies == 0 || extra%copies != 0 {
			return nil, fmt.Sprintf("code %s: %d instructions more than the twin for %d copies of the template", a[i].ID(), extra, copies)
		}
		per := extra/copies + 1
		// common suffix by opcode name
		s := 0
		for s < len(y) && s < len(x) && x[len(x)-1-s].name == y[len(y)-1-s].name {
			s++
		}
		if copies == 1 {
			endI := len(x) - s
			startI := endI - per
			if startI < 0 || endI > len(x) {
				return nil, "window out of range"
			}
			ws = append(ws, tmplMkWin(a[i], x, startI, endI))
			continue
		}
		// several copies: every window ends at a BUILD_STRING; take `per` instructions up to each
		n := 0
		for j := range x {
			if x[j].name == "BUILD_STRING" {
				if j+1-per < 0 {
					return nil, "window out of range"
				}
				ws = append(ws, tmplMkWin(a[i], x, j+1-per, j+1))
				n++
			}
		}
		if n != copies {
			return nil, fmt.Sprintf("code %s: %d BUILD_STRING for %d copies of the template", a[i].ID(), n, copies)
		}
	}
	if len(ws) == 0 {
		return nil, "the program and its twin compile to the same instructions"
	}
	return ws, ""
}

func tmplMkWin(cc *compiler.Code, x []mvIns, startI, endI int) tmplWin {
	var toks []string
	for _, in := range x[startI:endI] {
		t := in.name
		for _, o := range in.ops {
			t += ":" + strconv.Itoa(o)
		}
		toks = append(toks, t)
	}
	end := cc.InstructionCount()
	if endI < len(x) {
		end = x[endI].pos
	}
	return tmplWin{id: cc.ID(), start: x[startI].pos, end: end, text: strings.Join(toks, " ")}
}

// tmplHeights runs src and reads the real height before and after every execution of a window.
func tmplHeights(src string, ws []tmplWin, timeout time.Duration) (out EvalOut, deviation string, execs int) {
	type key struct {
		id string
		ip int
	}
	starts, ends := map[key]int{}, map[key]int{}
	for i, w := range ws {
		starts[key{w.id, w.start}] = i
		ends[key{w.id, w.end}] = i
	}
	type pend struct{ fp, sp, w int }
	var open []pend
	vm.VerifTrace = func(_ *vm.VirtualMachine, id string, ip int, opc op.Code, sp int, fp int) {
		if deviation != "" {
			return
		}
		if wi, ok := ends[key{id, ip}]; ok {
			if n := len(open); n > 0 && open[n-1].fp == fp && open[n-1].w == wi {
				p := open[n-1]
				open = open[:n-1]
				execs++
				if sp != p.sp+1 {
					deviation = fmt.Sprintf("the template whose code starts at slot %d of code %s began with sp=%d and is over at slot %d with sp=%d: it pushed %d value(s) instead of one",
						ws[wi].start, id, p.sp, ip, sp, sp-p.sp)
					return
				}
			}
		}
		if wi, ok := starts[key{id, ip}]; ok {
			open = append(open, pend{fp, sp, wi})
		}
	}
	out = EvalSrc(src, timeout)
	vm.VerifTrace = nil
	return
}

func c04TmplOne(e *Env, r *RNG) {
	place := r.Intn(6)
	inFn := place == 2 || place == 3
	t := tmplGen(r, inFn)
	ci := r.Intn(len(tmplCtx))
	ctx := tmplCtx[ci]
	copies := strings.Count(ctx.src, "%s")
	if place == 4 {
		copies++
	}
	small, bigK := 3+r.Intn(3), 2500
	src := tmplProgram(place, ctx.src, t.lit, small)
	want := ""
	if ctx.val != nil {
		want = ctx.val(t.val)
	} else {
		want = strconv.Quote(t.val)
	}
	if place == 5 && small < 1 {
		want = "0"
	}
	e.R.Case("tmpl "+src, t.nE > 0)
	e.R.H("tmpl_place", strconv.Itoa(place))
	e.R.H("tmpl_ctx", strconv.Itoa(ci))
	e.R.H("tmpl_empty_interpolations", strconv.Itoa(min(t.nE, 5)))
	e.R.H("tmpl_fragments", fmt.Sprintf("%02d", min(t.nFrag, 12)))
	code, err := CompileSrc(src)
	if err != nil {
		e.R.Mismatch(src, "does not compile: "+err.Error(), "compiles", "C04 template program")
		return
	}
	twin, err := CompileSrc(tmplProgram(place, ctx.src, "\"q\"", small))
	if err != nil {
		e.R.Mismatch(src, "the twin does not compile: "+err.Error(), "compiles", "C04 template program")
		return
	}
	var spec []string
	ws, werr := tmplWindows(code, twin, copies)
	if werr != "" {
		e.R.Mismatch(src, werr, "the template compiles to one window per copy, ending in BUILD_STRING", "C04 template window")
	}
	for _, w := range ws {
		rep := e.O.Ask("C04", "tmpl", t.spec, w.text)
		f := strings.Split(rep, "\t")
		if f[0] != "ok" || len(f) < 6 {
			e.R.Mismatch(src, w.text, rep, "C04 tmpl request")
			continue
		}
		e.R.H("tmpl_window", f[2])
		if f[2] != "same" {
			e.R.Mismatch(src, w.text, f[1], "the instructions the real compiler emits for the template "+t.lit+" vs the model's compileString (indices erased)")
		}
		if f[3] != "1" {
			spec = append(spec, fmt.Sprintf("the real instructions of the template %s (%s) take the height from h to h+%s: a template must push exactly one value (compileString_pushes_one)", t.lit, w.text, f[3]))
		}
	}
	bad, _, _ := c04CheckCode(e, code)
	if len(bad) > 0 {
		spec = append(spec, "the verified checker rejects the real bytecode: "+strings.Join(bad, "; "))
	}
	out, dev, execs := tmplHeights(src, ws, 10*time.Second)
	if dev != "" {
		spec = append(spec, "on the real VM: "+dev)
	}
	if execs > 0 {
		e.R.H("tmpl_real_heights", "read")
	} else {
		e.R.H("tmpl_real_heights", "not-reached")
	}
	if out.Err != "" || out.Value != want {
		e.R.Mismatch(src, "value "+out.Value+" error "+out.Err, want, "result of the template program vs the harness's own evaluation of the fragments")
	}
	if place != 0 && place != 2 {
		bsrc := tmplProgram(place, ctx.src, t.lit, bigK)
		big := EvalSrc(bsrc, 60*time.Second)
		e.R.H("tmpl_scaled", ErrClass(big.Err))
		if ErrClass(big.Err) == "panic" && ErrClass(out.Err) != "panic" {
			spec = append(spec, fmt.Sprintf("with the loop bound %d instead of %d the run fails: %s", bigK, small, big.Err))
		} else if big.Err != out.Err || big.Value != out.Value {
			e.R.Mismatch(bsrc, "value "+big.Value+" error "+big.Err, "value "+out.Value+" error "+out.Err, "the same template program with a larger loop bound")
		}
	}
	if len(spec) > 0 {
		e.R.Spec(src, strings.Join(spec, " | "), "")
	}
}

// ---------------------------------------------------------------------------------------------
// B. nested loops

type lpLoop struct {
	form  int // 0 for3, 1 cond, 2 forever, 3 range0, 4 range1, 5 range2, 6 forin
	cont  int // container kind for range/forin: 0 int, 1 list, 2 string, 3 map
	n     int
	mode  int // 0 exhaustion, 1 break at j, 2 continue at j, 3 return at j (function only)
	j     int
	id    int
	kids  []*lpLoop
	leafs int // number of `total++` before the children
}

var lpForms = []string{"for3", "cond", "forever", "range0", "range1", "range2", "forin"}

func lpGen(r *RNG, depth int, inFn bool, outer bool, id *int) *lpLoop {
	*id++
	l := &lpLoop{id: *id, n: r.Intn(5), leafs: r.Intn(2)}
	l.form = r.Intn(7)
	if r.Chance(35) {
		l.form = 3 // the loop without loop variables
	}
	l.cont = r.Intn(4)
	if l.form == 6 && l.cont == 0 {
		l.cont = 1
	}
	if outer {
		l.n = 2 + r.Intn(3)
		l.cont = 0
	}
	switch r.Intn(6) {
	case 0:
		l.mode = 1
	case 1:
		l.mode = 2
	case 2:
		if inFn && !outer {
			l.mode = 3
		}
	}
	if outer && l.mode == 1 {
		l.mode = 0
	}
	l.j = r.Intn(l.n + 1)
	if depth > 0 {
		nk := 1
		if r.Chance(30) {
			nk = 2
		}
		for i := 0; i < nk; i++ {
			l.kids = append(l.kids, lpGen(r, depth-1, inFn, false, id))
		}
	} else {
		l.leafs = 1
	}
	return l
}

func (l *lpLoop) container(n int) string {
	switch l.cont {
	case 0:
		return strconv.Itoa(n)
	case 1:
		var xs []string
		for i := 0; i < n; i++ {
			xs = append(xs, strconv.Itoa(i+1))
		}
		return "[" + strings.Join(xs, ", ") + "]"
	case 2:
		return strconv.Quote(strings.Repeat("z", n))
	default:
		var xs []string
		for i := 0; i < n; i++ {
			xs = append(xs, fmt.Sprintf("\"k%d\": %d", i, i))
		}
		return "{" + strings.Join(xs, ", ") + "}"
	}
}

// lines renders the loop; `n` overrides the bound (scaling the outermost loop).
func (l *lpLoop) lines(n int, retVar string) []string {
	k := fmt.Sprintf("k%d", l.id)
	var out []string
	out = append(out, k+" := 0")
	if l.form >= 3 && l.cont == 3 { // a map literal cannot stand in the loop header
		out = append(out, fmt.Sprintf("m%d := %s", l.id, l.container(n)))
	}
	cont := l.container(n)
	if l.form >= 3 && l.cont == 3 {
		cont = fmt.Sprintf("m%d", l.id)
	}
	head := ""
	var pre []string
	switch l.form {
	case 0:
		head = fmt.Sprintf("for i%d := 0; i%d < %d; i%d++ {", l.id, l.id, n, l.id)
	case 1:
		out = append(out, fmt.Sprintf("c%d := 0", l.id))
		head = fmt.Sprintf("for c%d < %d {", l.id, n)
		pre = append(pre, fmt.Sprintf("c%d++", l.id))
	case 2:
		out = append(out, fmt.Sprintf("c%d := 0", l.id))
		head = "for {"
		pre = append(pre, fmt.Sprintf("if c%d >= %d {", l.id, n), "  break", "}", fmt.Sprintf("c%d++", l.id))
	case 3:
		head = "for range " + cont + " {"
	case 4:
		head = fmt.Sprintf("for i%d := range %s {", l.id, cont)
	case 5:
		head = fmt.Sprintf("for i%d, v%d := range %s {", l.id, l.id, cont)
	default:
		head = fmt.Sprintf("for v%d in %s {", l.id, cont)
	}
	out = append(out, head)
	body := append([]string{}, pre...)
	body = append(body, k+"++")
	switch l.mode {
	case 1:
		body = append(body, fmt.Sprintf("if %s == %d {", k, l.j+1), "  break", "}")
	case 2:
		body = append(body, fmt.Sprintf("if %s == %d {", k, l.j+1), "  continue", "}")
	case 3:
		body = append(body, fmt.Sprintf("if %s == %d {", k, l.j+1), "  return "+retVar, "}")
	}
	for i := 0; i < l.leafs; i++ {
		body = append(body, "total++")
	}
	for _, c := range l.kids {
		body = append(body, c.lines(c.n, retVar)...)
	}
	for _, b := range body {
		out = append(out, "  "+b)
	}
	out = append(out, "}")
	return out
}

// sim computes what the loop adds to total; returned = a `return` was executed.
func (l *lpLoop) sim(n int, total *int64) (returned bool) {
	for t := 0; t < n; t++ {
		switch {
		case l.mode == 1 && t == l.j:
			return false
		case l.mode == 2 && t == l.j:
			continue
		case l.mode == 3 && t == l.j:
			return true
		}
		*total += int64(l.leafs)
		for _, c := range l.kids {
			if c.sim(c.n, total) {
				return true
			}
		}
	}
	return false
}

func (l *lpLoop) describe() string {
	s := lpForms[l.form]
	if l.form >= 3 {
		s += []string{"/int", "/list", "/string", "/map"}[l.cont]
	}
	s += []string{"", "+break", "+continue", "+return"}[l.mode]
	return s
}

func (l *lpLoop) walk(f func(*lpLoop, int), d int) {
	f(l, d)
	for _, c := range l.kids {
		c.walk(f, d+1)
	}
}

func lpProgram(l *lpLoop, inFn bool, calls int, n int) (string, string) {
	var total int64
	l.sim(n, &total)
	if !inFn {
		lines := append([]string{"total := 0"}, l.lines(n, "total")...)
		lines = append(lines, "total")
		return strings.Join(lines, "\n") + "\n", strconv.FormatInt(total, 10)
	}
	lines := []string{"func f() {", "  total := 0"}
	for _, b := range l.lines(n, "total") {
		lines = append(lines, "  "+b)
	}
	lines = append(lines, "  return total", "}")
	if calls <= 1 {
		lines = append(lines, "f()")
		return strings.Join(lines, "\n") + "\n", strconv.FormatInt(total, 10)
	}
	lines = append(lines, "r := 0", fmt.Sprintf("for q := 0; q < %d; q++ {", calls), "  r += f()", "}", "r")
	return strings.Join(lines, "\n") + "\n", strconv.FormatInt(total*int64(calls), 10)
}

func c04LoopsOne(e *Env, r *RNG) {
	inFn := r.Chance(40)
	calls := 1
	if inFn && r.Bool() {
		calls = 3
	}
	id := 0
	l := lpGen(r, 1+r.Intn(2), inFn, true, &id)
	src, want := lpProgram(l, inFn, calls, l.n)
	namelessInside := false
	l.walk(func(x *lpLoop, d int) {
		e.R.H("loops_form", x.describe())
		if d > 0 && x.form == 3 && x.mode != 1 {
			namelessInside = true
		}
	}, 0)
	e.R.Case("loops "+src, namelessInside)
	e.R.H("loops_place", fmt.Sprintf("fn=%v calls=%d", inFn, calls))
	code, err := CompileSrc(src)
	if err != nil {
		e.R.Mismatch(src, "does not compile: "+err.Error(), "compiles", "C04 nested-loop program")
		return
	}
	out, acts := obsRun(src, 10*time.Second)
	spec, dep := obsJudge(e, code, acts)
	for _, d := range dep {
		e.R.Mismatch(src, d, "a run of the model machine (traceOk) that follows the certificate", "observed run of one frame activation on the real VM vs the model machine of check_sound")
	}
	if out.Err != "" || out.Value != want {
		e.R.Mismatch(src, "value "+out.Value+" error "+out.Err, want, "count of a nested-loop program vs the harness's own simulation of the loops")
	}
	bigN := 1500
	bsrc, bwant := lpProgram(l, inFn, calls, bigN)
	big := EvalSrc(bsrc, 60*time.Second)
	e.R.H("loops_scaled", ErrClass(big.Err))
	if ErrClass(big.Err) == "panic" && ErrClass(out.Err) != "panic" {
		spec = append(spec, fmt.Sprintf("with the outermost bound %d instead of %d the run fails: %s", bigN, l.n, big.Err))
	} else if big.Err != "" || big.Value != bwant {
		e.R.Mismatch(bsrc, "value "+big.Value+" error "+big.Err, bwant, "count of a nested-loop program with a large outermost bound vs the harness's own simulation")
	}
	if len(spec) > 0 {
		e.R.Spec(src, strings.Join(spec, " | "), "")
	}
}

func c04Obs(e *Env, rng *RNG) {
	nT, nL := 350, 300
	if !e.Quick {
		nT, nL = 6000, 5000
	}
	for i := 0; i < nT; i++ {
		c04TmplOne(e, rng.Fork())
	}
	for i := 0; i < nL; i++ {
		c04LoopsOne(e, rng.Fork())
	}
}
