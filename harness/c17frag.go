package main

// C17 on the modelled compiler fragments (lean/RisorModel/C17/FragWF.lean, FragWFProps.lean).
//
// FragWFProps proves WF — the hypothesis of C17's round-trip theorems — of the embedded output
// of C01's functional fragment compilers (`fragToC17 env (Frag.compF p)`, `funProg env p`) for
// every program of the fragments.  This stream makes the theorem's subject the REAL compiler's
// output: per program of C01's own fragment generators (c01fragProgram: F1–F3, c01funProgram and
// c01funDirected: F4 — no new generator) the real *compiler.Code tree is exported field by
// field (c17Export: ids, names, isNamed, parents, function ids, table ids, sources, instruction
// words, constants with their function->code links, the whole symbol-table tree) and the
// oracle (`C17 frag`) compares it with the embedding, whose free part (source texts, table
// contents, which child of the root table a function got) is read off the real tree.  Then the
// ordinary C17 check runs on the same source: real MarshalCode -> UnmarshalCode -> run, side
// by side with running the original, and the real tree / bytes / reloaded tree against the
// model (c17Check).

import (
	"strconv"
	"strings"
	"time"
)

func c17fragOne(e *Env, kind string, p *N, src string) {
	code, err := CompileSrc(src)
	if err != nil {
		e.R.H("fragwf_programs", kind+":does-not-compile")
		return
	}
	nodes, table, probs := c17Export(code)
	if len(probs) > 0 {
		e.R.Mismatch(src, strings.Join(probs, "; "), "-", "fragment embedding: representation assumption of the model broken on the real tree")
		return
	}
	rep := e.O.Ask("C17", "frag", kind, Sexp(p), c01Globals, nodes, table)
	f := strings.Split(rep, "\t")
	if f[0] == "out" {
		e.R.H("fragwf_programs", kind+":outside-the-fragment")
		return
	}
	if f[0] != "in" || len(f) != 9 {
		e.R.Mismatch(src, "-", rep, "C17 frag: malformed oracle reply")
		return
	}
	e.R.H("fragwf_programs", kind+":in")
	ncodes := len(code.Flatten())
	e.R.H("fragwf_code_objects", kind+":"+strconv.Itoa(ncodes))
	nodesEq, tableEq, globalsEq, wf, named, utf8, rt, diff := f[1], f[2], f[3], f[4], f[5], f[6], f[7], f[8]
	if nodesEq != "1" {
		e.R.Mismatch(src, nodes, diff, "fragment embedding: the real compiler's code tree is not "+kind+"ToC17 of the fragment compiler's output (code objects, field by field)")
	}
	if tableEq != "1" {
		e.R.Mismatch(src, table, "-", "fragment embedding: the root symbol table is not the table `root` (not a block) the embedding assumes")
	}
	if globalsEq != "1" {
		e.R.Mismatch(src, table, "-", "fragment embedding: the global names of the root table are not the host's followed by the program's declarations")
	}
	if wf != "1" {
		// frag_compile_wf / fun_compile_wf prove this cannot happen: the build would be inconsistent
		e.R.Mismatch(src, "-", rep, "fragment embedding: WF false on the embedded compiler output (proved true by "+kind+"_compile_wf)")
	}
	e.R.H("fragwf_guards", "named="+named+" utf8="+utf8)
	if named == "1" && utf8 == "1" && rt != "1" {
		e.R.Mismatch(src, "-", rep, "fragment embedding: model round trip differs under the guards (proved equal by "+kind+"_roundtrip)")
	}
	// the real code: marshal, reload, run side by side, compare with the model (c17.go)
	v := c17Check(e, src, true, true)
	c17Report(e, p, src, v)
	if v.compiled && v.mismatch == "" && len(v.viol) == 0 {
		e.R.H("fragwf_real_roundtrip", kind+":same-behaviour")
	} else if v.finding != "" {
		e.R.H("fragwf_real_roundtrip", kind+":"+v.finding)
	} else {
		e.R.H("fragwf_real_roundtrip", kind+":differs")
	}
	e.R.Case("fragwf:"+kind+":"+src, ncodes >= 2 || len(Kinds(p)) >= 6)
}

// c17Fragments is called once from c17_runC17.
func c17Fragments(e *Env) {
	e.R.Rule += ". Fragment embedding (c17frag.go): programs of C01's own generators for its proved compiler fragments (F1–F3 " +
		"c01fragProgram, F4 c01funProgram and the directed function programs); per program the real compiled tree is compared field by " +
		"field with fragToC17/funProg of the fragment compiler's output (oracle `C17 frag`), WF and the model round trip are evaluated, " +
		"and the real code is marshalled, reloaded and run side by side; a case is one program, distinct by kind and source, non-trivial " +
		"with ≥ 2 code objects or ≥ 6 node kinds"
	nFrag, nFun := 120, 160
	budget := 30 * time.Second
	if !e.Quick {
		nFrag, nFun = 3000, 4000
		budget = 5 * time.Minute
	}
	started := time.Now()
	rng := e.Rng.Fork().Fork()
	for _, p := range c01funDirected() {
		c17fragOne(e, "fun", p, c01funSrc(p))
	}
	for i := 0; i < nFrag+nFun; i++ {
		if time.Since(started) > budget {
			e.R.Note("fragment embedding: time budget of %v reached after %d of %d programs", budget, i, nFrag+nFun)
			break
		}
		r := rng.Fork()
		// alternate so that a budget cut leaves both kinds covered
		if i%2 == 0 && i/2 < nFrag {
			p := c01fragProgram(r)
			c17fragOne(e, "frag", p, c01fragSrc(p))
		} else {
			p := c01funProgram(r)
			c17fragOne(e, "fun", p, c01funSrc(p))
		}
	}
}
