package main

// C03 — directed "slot × expression form" sources.
//
// The compiler handles some syntactic slots by a type switch over the AST node it finds there
// (parameter defaults, map keys, assignment targets, pipe stages, case values, defer/go operands,
// import names, template parts).  Such switches are where unchecked type assertions live: a case
// added for one node kind that asserts a child to another kind panics for every other child
// (seeded change C03-r2m2: `func(x=-y){}`).  Every expression form is therefore placed in every
// such slot; on the unchanged tree each source is accepted or rejected with an error, never a
// Go panic.  The sources run through the same front-end / evaluation / error-rendering pipeline
// in child processes as all other C03 inputs.

import "fmt"

func init() {
	exprs := []struct{ name, src string }{
		{"int", "1"}, {"neg-int", "-1"}, {"neg-float", "-1.5"}, {"neg-id", "-y"}, {"neg-str", `-"s"`}, {"neg-neg", "- -1"},
		{"neg-nil", "-nil"}, {"neg-list", "-[1]"}, {"neg-paren", "-(1)"}, {"neg-call", "-f()"}, {"not-true", "!true"}, {"not-id", "!y"},
		{"not-not", "!!y"}, {"id", "y"}, {"str", `"s"`}, {"tmpl", "'a{y}b'"}, {"backtick", "`s`"}, {"nil", "nil"}, {"bool", "false"},
		{"float", "2.5"}, {"list", "[1, 2]"}, {"empty-list", "[]"}, {"map", `{"k": 1}`}, {"empty-map", "{}"}, {"set", "{1, 2}"},
		{"infix", "1 + 2"}, {"infix-id", "y * 2"}, {"cmp", "1 < 2"}, {"and", "true && y"}, {"tern", "y ? 1 : 2"}, {"call", "f(1)"},
		{"mcall", "y.f(1)"}, {"attr", "y.z"}, {"index", "y[0]"}, {"slice", "y[1:2]"}, {"in", "1 in y"}, {"not-in", "1 not in y"},
		{"func", "func() { return 1 }"}, {"func-call", "func() { return 1 }()"}, {"paren", "(1)"}, {"pipe", "1 | f"}, {"if", "if y { 1 } else { 2 }"},
		{"switch", "switch y { case 1: 2 }"}, {"range", "range y"}, {"chan-recv", "<-y"}, {"spread", "y..."}, {"assign", "y = 1"}, {"walrus", "z := 1"},
	}
	slots := []struct{ name, tmpl string }{
		{"param-default", "func f(a=%s) { return a }\nf()"},
		{"param-default-2", "g := func(a, b=%s) { return [a, b] }\ng(1)"},
		{"param-default-method", "m := {\"k\": func(a=%s) { return a }}\nm.k()"},
		{"const", "const c = %s\nc"},
		{"map-key", "m := {%s: 1}\nm"},
		{"map-value", "m := {\"k\": %s}\nm"},
		{"set-item", "s := {%s, 1}\ns"},
		{"case-value", "switch 1 {\ncase %s:\n  2\n}"},
		{"switch-subject", "switch %s {\ncase 1:\n  2\n}"},
		{"pipe-stage", "1 | %s"},
		{"pipe-first", "%s | len"},
		{"assign-target", "%s = 1"},
		{"compound-target", "%s += 1"},
		{"postfix-target", "%s++"},
		{"index-target", "l := [1]\nl[%s] = 2"},
		{"defer-operand", "func h() { defer %s\n return 1 }\nh()"},
		{"go-operand", "go %s"},
		{"return-operand", "func h() { return %s }\nh()"},
		{"for-cond", "for %s { break }"},
		{"for-range", "for i := range %s { break }"},
		{"for-in", "for x in %s { break }"},
		{"for-init", "for %s; false; 1 { }"},
		{"for-post", "for i := 0; i < 1; %s { i++ }"},
		{"if-cond", "if %s { 1 }"},
		{"call-callee", "(%s)(1)"},
		{"call-arg", "len(%s)"},
		{"attr-base", "(%s).x"},
		{"index-base", "(%s)[0]"},
		{"slice-bound", "l := [1, 2]\nl[%s:]"},
		{"tmpl-part", "'a{%s}b'"},
		{"multi-assign", "a, b := %s"},
		{"in-right", "1 in %s"},
		{"send", "c := chan(1)\nc <- %s"},
		{"unary-neg", "-(%s)"},
		{"unary-not", "!(%s)"},
		{"from-import-name", "from %s import x"},
		{"import-name", "import %s"},
	}
	for _, s := range slots {
		for _, x := range exprs {
			src := fmt.Sprintf(s.tmpl, x.src)
			prelude := "y := 1\nfunc f(v) { return v }\n"
			c03Directed = append(c03Directed, struct{ name, src string }{"slot/" + s.name + "/" + x.name, prelude + src})
		}
	}
}
