package main

// C02, fifth stream — RECURSION: a function that calls ITSELF (or a partner that calls it back) and
// creates closures over its parameters and locals at every level.  "However the function is
// eventually invoked" includes by itself: every level's closures must read and write the bindings of
// THAT level (Lean: call_runs_in_new_activation, recursive_levels_have_own_bindings,
// call_starts_new_activation, recursion_levels_keep_their_values).
//
// A case is a program in the closure language of c02.go — so the Lean model evaluates it (Impl =
// positional, Spec = lexical) — extended by the conditional return `if c { return e }` (K "retif"),
// which makes terminating recursion expressible.  It has 1-2 recursive functions f(n, a, acc):
//
//   how f refers to itself   a named function (the self slot) | an anonymous function held in a global
//                            | a named function nested in another function (a closure with free variables)
//   per level                1-2 own int variables derived from the arguments (optionally more than 8 local
//                            slots), 1-2 closures over them and over the PARAMETERS (made by the level itself,
//                            or in a callee / a list.map callback one function level further in), owner writes
//                            and reads after the capture, calls of the own closure and of one handed down,
//                            the closures appended to the list `acc` handed to the next level, optionally
//                            also to the global list `keep`
//   the recursive call       `if n { return f(n + -1, …) }` (tail position inside the conditional)
//                            `if isz(n) { return … }; …; return f(n + -1, …)` (tail position, last statement)
//                            through a local alias `me := f; return me(…)`
//                            `r := f(…); …; return r + […]` / `return (f(…) + […])` (NOT in tail position)
//                            a partner function that calls back (mutual recursion, both in tail position)
//                            from inside a list.map callback / a try thunk
//   started                  by a plain call, through a wrapper function, inside try, on a spawned thread,
//                            or from Go by vm.Call (which also makes the later uses)
//
// then USES: the closures of the different levels are called in a generated order (several times: the
// writers accumulate), directly, through list.map, through the global `keep`, or from Go.

import (
	"fmt"
	"strconv"
	"time"
)

func c02_cRetIf(c, e *c02_ct) *c02_ct { return &c02_ct{K: "retif", C: []*c02_ct{c, e}} }

var c02RecForms = []struct {
	name string
	w    int
}{
	{"tail call inside `if n { return f(…) }`", 28},
	{"tail call as the last statement, base case first", 24},
	{"tail call through a local alias of the function", 8},
	{"not a tail call: the result is used after the call", 14},
	{"not a tail call: `return f(…) + […]`", 7},
	{"mutual recursion, both calls in tail position", 11},
	{"self call inside a list.map callback / try thunk", 8},
}

type c02RecFn struct {
	name    string
	form    int
	perLvl  int  // closures appended to acc per level
	extra   int  // closures appended on the way back (non-tail forms), per level above the base
	keeps   bool // every level also appends its first closure to the global `keep`
	partner *c02RecFn
	nested  bool
	entry   string // what the top level calls (the function itself, or the outer function of a nested one)
}

type c02RecGen struct {
	r   *RNG
	scn *c02Scn
	h   map[string]int
}

// the body of one recursive function; `self` is the expression that denotes the function inside it,
// `next` the one it calls for the next level (itself, or its partner)
func (g *c02RecGen) body(fn *c02RecFn, self, next string, outerVar string) []*c02_ct {
	r, s := g.r, g.scn
	V, I, D := c02_cV, c02_cI, c02_cD
	var body []*c02_ct
	if r.Chance(22) {
		g.h["levels with more than 8 local slots"]++
		for i := 0; i < 8; i++ {
			body = append(body, D(s.fresh("w"), I(int64(r.Intn(10)))))
		}
	} else {
		g.h["levels with at most 8 local slots"]++
	}
	xs := []string{s.fresh("x")}
	first := c02_cAdd(V("a"), V("n"))
	if outerVar != "" {
		first = c02_cAdd(first, V(outerVar)) // the recursive function is itself a closure: LoadFree
	}
	body = append(body, D(xs[0], first))
	if r.Chance(45) {
		xs = append(xs, s.fresh("x"))
		body = append(body, D(xs[1], c02_cAdd(c02_cAdd(V("n"), V("n")), s.lit())))
	}
	// closures over the level's variables and parameters
	nclo := 1 + r.Intn(2)
	var clos []string
	for i := 0; i < nclo; i++ {
		c := s.fresh("c")
		extra := []string{}
		switch r.Intn(3) {
		case 0:
			extra = append(extra, "n")
			g.h["closure over a parameter"]++
		case 1:
			extra = append(extra, "a")
			g.h["closure over a parameter"]++
		}
		switch v := r.Intn(100); {
		case v < 64:
			g.h["closure made by the level itself"]++
			body = append(body, D(c, s.inner(xs, extra...)))
		case v < 84:
			g.h["closure made in a callee of the level"]++
			body = append(body, D(c, c02_cCall(c02_cFn("_", []string{"p"}, c02_cRet(s.inner(xs, "p"))), s.lit())))
		default:
			g.h["closure made in a list.map callback of the level"]++
			body = append(body, D(c, c02_cX(c02_cR("map", c02_cL(s.lit()), c02_cFn("_", []string{"p"}, c02_cRet(s.inner(xs, "p")))), 0)))
		}
		clos = append(clos, c)
	}
	fn.perLvl = nclo
	// what the owner does after the captures
	aNext := c02_cAdd(V("a"), s.lit())
	for i, nops := 0, r.Intn(3); i < nops; i++ {
		switch v := r.Intn(100); {
		case v < 35:
			g.h["owner writes a variable after it was captured"]++
			body = append(body, s.write(xs[r.Intn(len(xs))], xs, s.lit()))
		case v < 60:
			g.h["owner calls its closure before the next level"]++
			t := s.fresh("t")
			body = append(body, D(t, c02_cCall(V(Pick(r, clos)), s.lit())))
			aNext = c02_cAdd(V("a"), V(t))
		case v < 80:
			g.h["level calls a closure handed down by the level above"]++
			t := s.fresh("t")
			body = append(body, D(t, c02_cCall(c02_cX(V("acc"), 0), s.lit())))
			aNext = c02_cAdd(aNext, V(t))
		default:
			g.h["owner writes a PARAMETER after it was captured"]++
			body = append(body, c02_cOp("+=", "a", s.lit()))
		}
	}
	if fn.keeps {
		body = append(body, c02_cA("keep", c02_cAdd(V("keep"), c02_cL(V(clos[0])))))
	}
	cl := make([]*c02_ct, len(clos))
	for i, c := range clos {
		cl[i] = V(c)
	}
	body = append(body, D("nx", c02_cAdd(V("acc"), c02_cL(cl...))))
	recCall := func(callee string) *c02_ct {
		return c02_cCall(V(callee), c02_cAdd(V("n"), I(-1)), aNext, V("nx"))
	}
	switch fn.form {
	case 0:
		body = append(body, c02_cRetIf(V("n"), recCall(next)), c02_cRet(V("nx")))
	case 1, 5:
		body = append(body, c02_cRetIf(c02_cCall(V("isz"), V("n")), V("nx")))
		if r.Chance(40) {
			body = append(body, s.write(xs[r.Intn(len(xs))], xs, s.lit()))
		}
		body = append(body, c02_cRet(recCall(next)))
	case 2:
		body = append(body, D("me", V(self)), c02_cRetIf(V("n"), recCall("me")), c02_cRet(V("nx")))
	case 3:
		fn.extra = 1
		late := s.fresh("c")
		body = append(body, c02_cRetIf(c02_cCall(V("isz"), V("n")), V("nx")),
			D("rr", recCall(next)),
			s.write(xs[0], xs, s.lit()),
			D(late, s.inner(xs, "n")),
			c02_cRet(c02_cAdd(V("rr"), c02_cL(V(late)))))
	case 4:
		fn.extra = 1
		body = append(body, c02_cRetIf(c02_cCall(V("isz"), V("n")), V("nx")),
			c02_cRet(c02_cAdd(recCall(next), c02_cL(V(clos[0])))))
	case 6:
		body = append(body, c02_cRetIf(c02_cCall(V("isz"), V("n")), V("nx")))
		if r.Bool() {
			body = append(body, c02_cRet(c02_cX(c02_cR("map", c02_cL(c02_cAdd(V("n"), I(-1))),
				c02_cFn("_", []string{"e"}, c02_cRet(c02_cCall(V(next), V("e"), aNext, V("nx"))))), 0)))
		} else {
			body = append(body, c02_cRet(c02_cR("try", c02_cFn("_", nil, c02_cRet(recCall(next))), I(-1))))
		}
	}
	return body
}

// the number of closures in the list a run of depth d returns (the dummy included)
func (fn *c02RecFn) resultLen(d int) int {
	n := 1
	cur := fn
	for lvl := d; lvl >= 0; lvl-- {
		n += cur.perLvl
		if lvl > 0 {
			n += cur.extra
		}
		if cur.partner != nil {
			cur = cur.partner
		}
	}
	return n
}

func (fn *c02RecFn) keepGrowth(d int) int {
	n := 0
	cur := fn
	for lvl := d; lvl >= 0; lvl-- {
		if cur.keeps {
			n++
		}
		if cur.partner != nil {
			cur = cur.partner
		}
	}
	return n
}

func c02GenRecursion(r *RNG) *c02Case {
	h := map[string]int{}
	g := &c02RecGen{r: r, scn: &c02Scn{r: r, h: h}, h: h}
	s := g.scn
	V, I, D := c02_cV, c02_cI, c02_cD
	dummy := func() *c02_ct { return c02_cFn("_", []string{"q"}, c02_cRet(I(0))) }
	main := []*c02_ct{
		c02_cFn("isz", []string{"v"}, c02_cRetIf(V("v"), I(0)), c02_cRet(I(1))),
		D("keep", c02_cL(dummy())),
		D("start", c02_cL(dummy())),
	}
	pickForm := func() int {
		tot := 0
		for _, f := range c02RecForms {
			tot += f.w
		}
		x := r.Intn(tot)
		for i, f := range c02RecForms {
			if x < f.w {
				return i
			}
			x -= f.w
		}
		return 0
	}
	var fns []*c02RecFn
	nf := 1
	if r.Chance(30) {
		nf = 2
	}
	for len(fns) < nf {
		idx := len(fns)
		fn := &c02RecFn{name: fmt.Sprintf("f%d", idx), form: pickForm(), keeps: r.Chance(35)}
		fn.entry = fn.name
		h["recursion form: "+c02RecForms[fn.form].name]++
		ps := []string{"n", "a", "acc"}
		if fn.form == 5 {
			// two functions held in globals that call each other
			p := &c02RecFn{name: fmt.Sprintf("f%dp", idx), form: 5, keeps: r.Chance(35), partner: fn}
			p.entry = p.name
			fn.partner = p
			h["self reference: anonymous functions in globals (mutual)"]++
			main = append(main, D(fn.name, I(0)), D(p.name, I(0)),
				c02_cA(fn.name, c02_cFn("_", ps, g.body(fn, fn.name, p.name, "")...)),
				c02_cA(p.name, c02_cFn("_", ps, g.body(p, p.name, fn.name, "")...)))
			fns = append(fns, fn)
			continue
		}
		switch v := r.Intn(100); {
		case v < 50:
			h["self reference: named function (self slot)"]++
			main = append(main, c02_cFn(fn.name, ps, g.body(fn, fn.name, fn.name, "")...))
		case v < 78:
			h["self reference: anonymous function in a global (LoadGlobal)"]++
			main = append(main, D(fn.name, I(0)), c02_cA(fn.name, c02_cFn("_", ps, g.body(fn, fn.name, fn.name, "")...)))
		default:
			h["self reference: named function nested in another function (a closure)"]++
			fn.nested = true
			fn.entry = fmt.Sprintf("o%d", idx)
			inner := "g" + fn.name
			main = append(main, c02_cFn(fn.entry, ps,
				D("b", c02_cAdd(V("a"), s.lit())),
				c02_cFn(inner, ps, g.body(fn, inner, inner, "b")...),
				c02_cRet(c02_cCall(V(inner), V("n"), V("a"), V("acc")))))
		}
		fns = append(fns, fn)
	}
	// wrappers
	// wrappers: `return f(n, a, acc)` is a call in tail position to ANOTHER function; half of the wrappers
	// first make a closure over a variable of their own and put it into the global list
	wrappers := map[*c02RecFn]string{}
	wrapKeeps := map[string]bool{}
	for i, fn := range fns {
		if r.Chance(35) {
			w := fmt.Sprintf("w%d", i)
			y := s.fresh("y")
			wb := []*c02_ct{D(y, c02_cAdd(V("a"), I(1)))}
			if r.Bool() {
				wc := s.fresh("c")
				wb = append(wb, D(wc, s.inner([]string{y}, "n")), c02_cA("keep", c02_cAdd(V("keep"), c02_cL(V(wc)))))
				wrapKeeps[w] = true
				h["wrapper makes a closure, then calls the recursive function in tail position"]++
			}
			main = append(main, c02_cFn(w, []string{"n", "a", "acc"}, append(wb, c02_cRet(c02_cCall(V(fn.entry), V("n"), V("a"), V("acc"))))...))
			wrappers[fn] = w
		}
	}
	c := &c02Case{gen: &c02Gen{routes: map[string]int{}}, scn: h}
	obs := []string{}
	hostMode := r.Chance(25)
	type run struct {
		name string
		n    int
	}
	var runs []run
	keepLen := 1
	add := func(host bool, st *c02_ct) {
		if host {
			c.host = append(c.host, st)
		} else {
			main = append(main, st)
		}
	}
	nRuns := 1 + r.Intn(3)
	hostFrom := nRuns + 1
	if hostMode {
		hostFrom = r.Intn(nRuns + 1)
	}
	for i := 0; i < nRuns; i++ {
		fn := Pick(r, fns)
		d := 1 + r.Intn(4)
		if r.Chance(8) {
			d = 0
		}
		h["recursion depth "+strconv.Itoa(d)]++
		name := s.fresh("r")
		host := i >= hostFrom
		callee := fn.entry
		if w, ok := wrappers[fn]; ok && r.Bool() {
			callee = w
			h["started through a wrapper function"]++
		}
		call := c02_cCall(V(callee), I(int64(d)), s.lit(), V("start"))
		switch v := r.Intn(100); {
		case host:
			h["started from Go (vm.Call)"]++
			add(true, D(name, call))
		case v < 55:
			h["started by a plain call"]++
			add(false, D(name, call))
		case v < 75:
			h["started inside try"]++
			add(false, D(name, c02_cR("try", c02_cFn("_", nil, c02_cRet(call)), I(-1))))
		case v < 88:
			h["started on a spawned thread"]++
			add(false, D(name, c02_cR("spawn", V(callee), I(int64(d)), s.lit(), V("start"))))
		default:
			h["started from a list.map callback"]++
			add(false, D(name, c02_cX(c02_cR("map", c02_cL(I(int64(d))), c02_cFn("_", []string{"e"}, c02_cRet(c02_cCall(V(callee), V("e"), s.lit(), V("start"))))), 0)))
		}
		runs = append(runs, run{name, fn.resultLen(d)})
		keepLen += fn.keepGrowth(d)
		if wrapKeeps[callee] {
			keepLen++
		}
		// uses right after the run, or later
	}
	nUses := 3 + r.Intn(7)
	for i := 0; i < nUses; i++ {
		// once the host has taken over, everything is done from Go
		host := len(c.host) > 0 || (hostMode && r.Chance(50))
		name := s.fresh("u")
		ru := Pick(r, runs)
		v := r.Intn(100)
		if host && v >= 85 {
			v = 0
		}
		switch {
		case v < 70:
			h["use: a closure of one level is called"]++
			add(host, D(name, c02_cCall(c02_cX(V(ru.name), r.Intn(ru.n)), s.lit())))
		case v < 85:
			h["use: a closure kept in the global list is called"]++
			add(host, D(name, c02_cCall(c02_cX(V("keep"), r.Intn(keepLen)), s.lit())))
		default:
			h["use: every level's closure is called through list.map"]++
			add(false, D(name, c02_cR("map", V(ru.name), c02_cFn("_", []string{"e"}, c02_cRet(c02_cCall(V("e"), I(1)))))))
		}
		if host {
			h["use made from Go (vm.Call)"]++
		}
		obs = append(obs, name)
	}
	c.main = main
	c.obs = obs
	return c
}

// directed cases: the shapes of the scenario, fixed (reported at once)
func c02DirectedRecursion() []*c02Case {
	V, I, D := c02_cV, c02_cI, c02_cD
	mk := func(label string, obs []string, host []*c02_ct, main ...*c02_ct) *c02Case {
		return &c02Case{main: main, host: host, obs: obs, label: label, forms: true, gen: &c02Gen{routes: map[string]int{}}}
	}
	g := func() *c02_ct {
		return c02_cFn("_", []string{"q"}, c02_cOp("+=", "x", V("q")), c02_cRet(c02_cAdd(V("x"), V("n"))))
	}
	rec := c02_cFn("rec", []string{"n", "acc"},
		D("x", c02_cAdd(V("n"), I(10))), D("g", g()),
		c02_cRetIf(V("n"), c02_cCall(V("rec"), c02_cAdd(V("n"), I(-1)), c02_cAdd(V("acc"), c02_cL(V("g"))))),
		c02_cRet(c02_cAdd(V("acc"), c02_cL(V("g")))))
	recLast := c02_cFn("rec", []string{"n", "acc"},
		D("x", c02_cAdd(V("n"), I(10))), D("g", g()),
		c02_cRetIf(c02_cCall(V("isz"), V("n")), c02_cAdd(V("acc"), c02_cL(V("g")))),
		c02_cRet(c02_cCall(V("rec"), c02_cAdd(V("n"), I(-1)), c02_cAdd(V("acc"), c02_cL(V("g"))))))
	isz := c02_cFn("isz", []string{"v"}, c02_cRetIf(V("v"), I(0)), c02_cRet(I(1)))
	uses := func() []*c02_ct {
		return []*c02_ct{D("u0", c02_cCall(c02_cX(V("r"), 0), I(1))), D("u1", c02_cCall(c02_cX(V("r"), 1), I(1))),
			D("u2", c02_cCall(c02_cX(V("r"), 2), I(1))), D("u3", c02_cCall(c02_cX(V("r"), 0), I(1)))}
	}
	obs := []string{"u0", "u1", "u2", "u3"}
	return []*c02Case{
		mk("self tail call in `if n { return rec(…) }`, a closure per level", obs, nil,
			append([]*c02_ct{rec, D("r", c02_cCall(V("rec"), I(2), c02_cL()))}, uses()...)...),
		mk("self tail call as the last statement, a closure per level", obs, nil,
			append([]*c02_ct{isz, recLast, D("r", c02_cCall(V("rec"), I(2), c02_cL()))}, uses()...)...),
		mk("self tail call started and used from Go", obs,
			append([]*c02_ct{D("r", c02_cCall(V("rec"), I(2), V("start")))}, uses()...),
			rec, D("start", c02_cL())),
	}
}

// c02RecursionCases runs the stream; failing cases are shrunk and reported like those of the other streams
func c02RecursionCases(e *Env, rng *RNG, n int, budget time.Duration) {
	start := time.Now()
	bad, shrunk := 0, 0
	for i := 0; i < n; i++ {
		if bad >= 15 {
			e.R.Note("recursion stream stopped after %d cases: %d cases already disagree with the model or the specification", i, bad)
			break
		}
		if time.Since(start) > budget {
			e.R.Note("recursion stream stopped after %d of %d cases: wall budget of the tier used up", i, n)
			break
		}
		c := c02GenRecursion(rng.Fork())
		v := c02RunCase(e, c, true)
		for k, cnt := range c.scn {
			for j := 0; j < cnt; j++ {
				e.R.H("recursion_ops", k)
			}
		}
		switch {
		case c02HasAnyPrefix(v.impl, "ok"):
			e.R.H("recursion_model_outcome", "every use returns a value")
		case c02HasAnyPrefix(v.impl, "err"):
			e.R.H("recursion_model_outcome", v.impl)
		default:
			e.R.H("recursion_model_outcome", "not modelled")
		}
		failing := v.mismatch != "" || (v.spec != "" && v.finding == "")
		if failing {
			bad++
		}
		if failing && shrunk < 3 {
			shrunk++
			wantMis := v.spec == "" || v.finding != ""
			small := c02Shrink(c, func(q *c02Case) bool {
				w := c02RunCase(e, q, false)
				if wantMis {
					return w.mismatch != "" && !c02HasAnyPrefix(w.mismatch, "oracle reply", "the real compiler")
				}
				return w.spec != "" && w.finding == ""
			})
			w := c02RunCase(e, small, false)
			e.R.Note("shrunk failing recursion case #%d:\n%s\n=> mismatch=%q spec=%q", i, c02Key(small), w.mismatch, w.spec)
			if w.spec != "" && w.finding == "" {
				e.R.Spec(c02Key(small), "(shrunk from recursion case #"+strconv.Itoa(i)+") "+w.spec, "")
			}
			if w.mismatch != "" {
				e.R.Mismatch(c02Key(small), "(shrunk from recursion case #"+strconv.Itoa(i)+")", w.impl, w.mismatch)
			}
		}
		c02Flush()
	}
}

// c02ChainCases: recursion chains on the frame machine (oracle request `frames`): n nested calls (few / many
// locals), each level stores its value in local 0 and makes a cell for it; every level returns; the cells are
// read in the order they were made.  `recursion_levels_keep_their_values` proves the loads are the levels'
// values for every chain; the run shows the executable machines (frame machine, variable machine) say so.
func c02ChainCases(e *Env, rng *RNG, n int) {
	for ci := 0; ci < n; ci++ {
		r := rng.Fork()
		depth := 1 + r.Intn(12)
		var ops, want, lvls []string
		wides := 0
		for i := 0; i < depth; i++ {
			w := 0
			if r.Chance(30) {
				w = 1
				wides++
			}
			v := int64(100*(ci%50) + i + 1)
			ops = append(ops, fmt.Sprintf("c:%d", w), fmt.Sprintf("sf:0:%d", v), "m:0:0")
			want = append(want, strconv.FormatInt(v, 10))
			lvls = append(lvls, fmt.Sprintf("%d:%d", v, w))
		}
		for i := 0; i < depth; i++ {
			ops = append(ops, "r")
		}
		for i := 0; i < depth; i++ {
			ops = append(ops, fmt.Sprintf("lF:%d", i))
		}
		key := "frames (recursion chain) " + c02Join(ops, " ")
		reply := e.O.Ask(append([]string{"C02", "frames"}, ops...)...)
		e.R.Case(key, depth >= 2)
		e.R.H("recursion_chain_depth", strconv.Itoa(depth))
		f := c02SplitTabs(reply)
		wantS := c02Join(want, ",")
		if len(f) != 4 || f[0] != "ok" {
			e.R.Mismatch(key, wantS, reply, "oracle reply to the frames request (a recursion chain is a valid sequence)")
			continue
		}
		if f[1] != wantS {
			e.R.Mismatch(key, wantS, f[1], "loads of the frame machine on a recursion chain vs the values the levels stored (recursion_levels_keep_their_values)")
		}
		if f[2] != wantS {
			e.R.Mismatch(key, wantS, f[2], "loads of the variable machine on a recursion chain vs the values the levels stored")
		}
		// the same chain as Lean's `recChain` builds it (the sequence the theorem is stated about)
		g := c02SplitTabs(e.O.Ask(append([]string{"C02", "chain"}, lvls...)...))
		if len(g) != 4 || g[0] != "ok" || g[1] != wantS || g[2] != wantS || g[3] != strconv.Itoa(len(ops)) {
			e.R.Mismatch(key, wantS+" in "+strconv.Itoa(len(ops))+" operations", c02Join(g, " | "), "oracle request chain (Lean's recChain) vs the sequence and the loads built here")
		}
	}
}
