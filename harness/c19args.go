package main

// C19, part 5 — argument KINDS and argument REUSE.
//
// The wrapped Go functions take values (string, []byte); the wrappers are handed OBJECTS, and
// object/typeconv.go accepts more kinds than string and byte_slice wherever bytes or a string
// are expected: a buffer (object.Buffer = *bytes.Buffer, with a read offset) for AsString and
// AsBytes, and any other io.Reader (object.File) for AsBytes.  Parts 1-4 only ever pass
// strings and byte_slices and use every argument object once.  Here a "use session" is a small
// heap of argument objects of EVERY bytes-like kind (string, byte_slice, buffer made from
// bytes / built by writes / partly read, in-memory file, and an ill-typed value now and then)
// and a sequence of wrapper calls over it in which the same object is used again and again
// (also twice within one call).  Checked, through the object API on live objects after every
// step and as one script in one VM:
//
//   - Spec: every call returns what the Go function returns on the contents the objects had at
//     the START (arguments are values: the Go function does not change them), every object
//     shows afterwards the contents it showed before, decode(encode(x)) equals the contents x
//     shows AFTER the call.  A file is a stream: its Spec is Go's (io.ReadAll reads it to the end).
//   - Impl: the Lean model (`convRefs .peek`, oracle request `uses`) says what each call hands
//     to the Go function and what every object holds at the end; real = model (Mismatch).

import (
	"bytes"
	"compress/gzip"
	"crypto/md5"
	"crypto/sha256"
	"encoding/json"
	"fmt"
	"io"
	"strconv"
	"strings"

	"github.com/risor-io/risor"
	"github.com/risor-io/risor/builtins"
	"github.com/risor-io/risor/object"
	ros "github.com/risor-io/risor/os"
)

// ------------------------------------------------------------------ argument objects

type c19_aobj struct {
	kind  byte // 's' string, 'b' byte_slice, 'B' buffer, 'F' file (io.Reader), 'x' another value
	data  []byte
	off   int  // B, F: bytes already read when the session starts
	how   byte // B: 'n' NewBufferFromBytes, 'w' two writes into an empty buffer
	other int  // x: index into c19_otherObjs
}

var c19_otherObjs = []func() object.Object{
	func() object.Object { return object.Nil },
	func() object.Object { return object.NewInt(3) },
	func() object.Object { return object.NewFloat(1.5) },
	func() object.Object { return object.True },
	func() object.Object { return object.NewList([]object.Object{object.NewString("a")}) },
	func() object.Object { return object.NewMap(map[string]object.Object{"a": object.NewInt(1)}) },
}

func (a c19_aobj) stateful() bool { return a.kind == 'B' || a.kind == 'F' }

func (a c19_aobj) visible() []byte {
	if a.stateful() {
		return a.data[a.off:]
	}
	return a.data
}

// text: the object in the case key; oracleTok: the object for the Lean model
func (a c19_aobj) text() string {
	switch a.kind {
	case 'B':
		return "B" + string(a.how) + ":" + c19_hx(string(a.data)) + ":" + strconv.Itoa(a.off)
	case 'F':
		return "F:" + c19_hx(string(a.data)) + ":" + strconv.Itoa(a.off)
	case 'x':
		return c19_tokOf(c19_otherObjs[a.other]())
	}
	return string(a.kind) + ":" + c19_hx(string(a.data))
}

func (a c19_aobj) oracleTok() string {
	switch a.kind {
	case 'B', 'F':
		return string(a.kind) + c19_hx(string(a.data)) + ":" + strconv.Itoa(a.off)
	case 'x':
		return c19_tokOf(c19_otherObjs[a.other]())
	}
	return string(a.kind) + c19_hx(string(a.data))
}

// words: the object as a script a reader can retype
func (a c19_aobj) words() string {
	q := func(b []byte) string {
		s := strconv.Quote(string(b))
		if len(s) > 48 {
			s = s[:45] + `..."`
		}
		return s
	}
	switch a.kind {
	case 's':
		return q(a.data)
	case 'b':
		return "byte_slice(" + q(a.data) + ")"
	case 'B':
		s := "buffer(" + q(a.data) + ")"
		if a.how == 'w' {
			h := len(a.data) / 2
			s = "buffer() with .write(" + q(a.data[:h]) + ") and .write(" + q(a.data[h:]) + ")"
		}
		if a.off > 0 {
			s += " after .read(" + strconv.Itoa(a.off) + ")"
		}
		return s
	case 'F':
		s := "an open in-memory file holding " + q(a.data)
		if a.off > 0 {
			s += " after reading " + strconv.Itoa(a.off) + " bytes"
		}
		return s
	}
	return c19_otherObjs[a.other]().Inspect()
}

type c19_alive struct {
	obj   object.Object
	peek  func() string // token of the contents the object shows NOW; looks, never reads
	close func()
}

func (a c19_aobj) make() c19_alive {
	cp := append([]byte(nil), a.data...)
	switch a.kind {
	case 's':
		o := object.NewString(string(cp))
		return c19_alive{o, func() string { return "s" + c19_hx(o.Value()) }, nil}
	case 'b':
		o := object.NewByteSlice(cp)
		return c19_alive{o, func() string { return "b" + c19_hx(string(o.Value())) }, nil}
	case 'B':
		var o *object.Buffer
		if a.how == 'w' {
			o = object.NewBuffer(nil)
			h := len(cp) / 2
			o.Value().Write(cp[:h])
			o.Value().Write(cp[h:])
		} else {
			o = object.NewBufferFromBytes(cp)
		}
		if a.off > 0 {
			o.Value().Next(a.off)
		}
		return c19_alive{o, func() string { return "B" + c19_hx(string(o.Value().Bytes())) }, nil}
	case 'F':
		bf := ros.NewBufferFile(cp)
		o := object.NewFile(c19ctx, bf, "c19-in-memory")
		if a.off > 0 {
			io.ReadFull(o, make([]byte, a.off))
		}
		return c19_alive{o, func() string { return "F" + c19_hx(string(bf.Bytes())) }, func() { o.Close() }}
	}
	o := c19_otherObjs[a.other]()
	return c19_alive{o, func() string { return c19_tokOf(o) }, nil}
}

// ------------------------------------------------------------------ the functions that take bytes-like arguments

type c19_useFn struct {
	label string
	short string // the label without the receiver literal (histograms); "" = label
	convs string // one converter per bytes-like parameter: 'b' AsBytes, 's' AsString
	// strict: the function is not built on AsBytes/AsString (string(x), byte_slice(x)): only
	// bytes-like objects are passed to it
	strict  bool
	badType string // outcome demanded for an unaccepted argument type ("err" unless stated)
	call    func(a []object.Object) object.Object
	src     func(v []string) string
	gofn    func(p [][]byte) string // the Go function on the values handed over: "val …" or "err"
	prep    func(raw []byte) []byte // turns raw data into a (mostly) well-formed argument; nil: as is
	roundtr bool                    // decode(encode(x)): the result must equal what x shows afterwards
}

func c19_b(name string) *object.Builtin {
	switch name {
	case "encode":
		return object.NewBuiltin("encode", builtins.Encode)
	case "decode":
		return object.NewBuiltin("decode", builtins.Decode)
	case "string":
		return object.NewBuiltin("string", builtins.String)
	case "byte_slice":
		return object.NewBuiltin("byte_slice", builtins.ByteSlice)
	}
	return nil
}

func c19_gzipBytes(b []byte) []byte {
	var buf bytes.Buffer
	w := gzip.NewWriter(&buf)
	w.Write(b)
	w.Close()
	return buf.Bytes()
}

func c19_gunzip(t []byte) ([]byte, error) {
	zr, err := gzip.NewReader(bytes.NewReader(t))
	if err != nil {
		return nil, err
	}
	return io.ReadAll(zr)
}

func c19_modFn(mod, name string) func(a ...object.Object) object.Object {
	return func(a ...object.Object) object.Object {
		fn, ok := c19Module(mod).GetAttr(name)
		if !ok {
			return object.Errorf("no such function %s.%s", mod, name)
		}
		return fn.(*object.Builtin).Call(c19ctx, a...)
	}
}

func c19_method(recv object.Object, name string, a ...object.Object) object.Object {
	fn, ok := recv.GetAttr(name)
	if !ok {
		return object.Errorf("no such method %s", name)
	}
	b, ok := fn.(*object.Builtin)
	if !ok {
		return object.Errorf("not a builtin: %s", name)
	}
	return b.Call(c19ctx, a...)
}

const c19_recvMark = "\u00a7recv"

// useFns: every function of the property's scope that takes a bytes-like argument.  recv is
// the receiver literal of the string / byte_slice methods of this session.
func c19UseFns(recv []byte) []c19_useFn {
	var fns []c19_useFn
	enc, dec := c19_b("encode"), c19_b("decode")
	q := strconv.Quote
	// --- codec registry and the base64 module
	for _, cd := range c19CodecDefs() {
		cd := cd
		conv := "b"
		if cd.name == "urlquery" {
			conv = "s"
		}
		decOut := func(t []byte) string {
			r, err := cd.dec(string(t))
			if err != nil {
				return "err"
			}
			if cd.name == "urlquery" {
				return c19_vS(string(r))
			}
			return c19_vBy(r)
		}
		prep := func(raw []byte) []byte { return []byte(cd.enc(raw)) }
		if cd.name != "" {
			name := object.NewString(cd.name)
			fns = append(fns,
				c19_useFn{label: "encode:" + cd.name, convs: conv,
					call: func(a []object.Object) object.Object { return enc.Call(c19ctx, a[0], name) },
					src:  func(v []string) string { return "encode(" + v[0] + ", " + q(cd.name) + ")" },
					gofn: func(p [][]byte) string { return c19_vS(cd.enc(p[0])) }},
				c19_useFn{label: "decode:" + cd.name, convs: conv, prep: prep,
					call: func(a []object.Object) object.Object { return dec.Call(c19ctx, a[0], name) },
					src:  func(v []string) string { return "decode(" + v[0] + ", " + q(cd.name) + ")" },
					gofn: func(p [][]byte) string { return decOut(p[0]) }},
				c19_useFn{label: "roundtrip:" + cd.name, convs: conv, roundtr: true,
					call: func(a []object.Object) object.Object {
						e := enc.Call(c19ctx, a[0], name)
						if _, isErr := e.(*object.Error); isErr {
							return e
						}
						return dec.Call(c19ctx, e, name)
					},
					src:  func(v []string) string { return "decode(encode(" + v[0] + ", " + q(cd.name) + "), " + q(cd.name) + ")" },
					gofn: func(p [][]byte) string { return decOut([]byte(cd.enc(p[0]))) }})
		} else {
			pad := object.NewBool(cd.pad)
			ps := strconv.FormatBool(cd.pad)
			fe, fd := c19_modFn("base64", cd.mod), c19_modFn("base64", cd.modDec)
			fns = append(fns,
				c19_useFn{label: "base64." + cd.mod + ":" + ps, convs: "b",
					call: func(a []object.Object) object.Object { return fe(a[0], pad) },
					src:  func(v []string) string { return "base64." + cd.mod + "(" + v[0] + ", " + ps + ")" },
					gofn: func(p [][]byte) string { return c19_vS(cd.enc(p[0])) }},
				c19_useFn{label: "base64." + cd.modDec + ":" + ps, convs: "s", prep: prep, // the module's decoders take AsString
					call: func(a []object.Object) object.Object { return fd(a[0], pad) },
					src:  func(v []string) string { return "base64." + cd.modDec + "(" + v[0] + ", " + ps + ")" },
					gofn: func(p [][]byte) string { return decOut(p[0]) }})
		}
	}
	// --- gzip
	gz := object.NewString("gzip")
	gunz := func(t []byte) string {
		r, err := c19_gunzip(t)
		if err != nil {
			return "err"
		}
		return c19_vBy(r)
	}
	fns = append(fns,
		c19_useFn{label: "encode:gzip", convs: "b",
			call: func(a []object.Object) object.Object { return enc.Call(c19ctx, a[0], gz) },
			src:  func(v []string) string { return `encode(` + v[0] + `, "gzip")` },
			gofn: func(p [][]byte) string { return c19_vBy(c19_gzipBytes(p[0])) }},
		c19_useFn{label: "decode:gzip", convs: "b", prep: c19_gzipBytes,
			call: func(a []object.Object) object.Object { return dec.Call(c19ctx, a[0], gz) },
			src:  func(v []string) string { return `decode(` + v[0] + `, "gzip")` },
			gofn: func(p [][]byte) string { return gunz(p[0]) }},
		c19_useFn{label: "roundtrip:gzip", convs: "b", roundtr: true,
			call: func(a []object.Object) object.Object {
				e := enc.Call(c19ctx, a[0], gz)
				if _, isErr := e.(*object.Error); isErr {
					return e
				}
				return dec.Call(c19ctx, e, gz)
			},
			src:  func(v []string) string { return `decode(encode(` + v[0] + `, "gzip"), "gzip")` },
			gofn: func(p [][]byte) string { return gunz(c19_gzipBytes(p[0])) }})
	// --- json text as bytes-like input
	jsn := object.NewString("json")
	unm := func(p []byte) string {
		var v interface{}
		if err := json.Unmarshal(p, &v); err != nil {
			return "err"
		}
		return c19_outcomeOf(object.FromGoType(v))
	}
	jprep := func(raw []byte) []byte {
		t, err := json.Marshal(map[string]any{"k": string(raw), "n": len(raw), "l": []any{true, nil, 1.5}})
		if err != nil {
			return []byte("null")
		}
		return t
	}
	ju, jv := c19_modFn("json", "unmarshal"), c19_modFn("json", "valid")
	fns = append(fns,
		c19_useFn{label: "decode:json", convs: "b", prep: jprep,
			call: func(a []object.Object) object.Object { return dec.Call(c19ctx, a[0], jsn) },
			src:  func(v []string) string { return `decode(` + v[0] + `, "json")` },
			gofn: func(p [][]byte) string { return unm(p[0]) }},
		c19_useFn{label: "json.unmarshal", convs: "b", prep: jprep,
			call: func(a []object.Object) object.Object { return ju(a[0]) },
			src:  func(v []string) string { return `json.unmarshal(` + v[0] + `)` },
			gofn: func(p [][]byte) string { return unm(p[0]) }},
		c19_useFn{label: "json.valid", convs: "b", prep: jprep,
			call: func(a []object.Object) object.Object { return jv(a[0]) },
			src:  func(v []string) string { return `json.valid(` + v[0] + `)` },
			gofn: func(p [][]byte) string { return c19_vB(json.Valid(p[0])) }})
	// --- conversions
	fns = append(fns,
		c19_useFn{label: "string", convs: "b", strict: true,
			call: func(a []object.Object) object.Object { return c19_b("string").Call(c19ctx, a[0]) },
			src:  func(v []string) string { return "string(" + v[0] + ")" },
			gofn: func(p [][]byte) string { return c19_vS(string(p[0])) }},
		c19_useFn{label: "byte_slice", convs: "s", strict: true, // accepts string, byte_slice, buffer (looks, like AsString); refuses a file
			call: func(a []object.Object) object.Object { return c19_b("byte_slice").Call(c19ctx, a[0]) },
			src:  func(v []string) string { return "byte_slice(" + v[0] + ")" },
			gofn: func(p [][]byte) string { return c19_vBy(p[0]) }})
	// --- hash(x [, alg]) (AsBytes; crypto/sha256, crypto/md5 are the reference)
	hashB := object.NewBuiltin("hash", builtins.Hash)
	md5Name := object.NewString("md5")
	fns = append(fns,
		c19_useFn{label: "hash:sha256", convs: "b",
			call: func(a []object.Object) object.Object { return hashB.Call(c19ctx, a[0]) },
			src:  func(v []string) string { return "hash(" + v[0] + ")" },
			gofn: func(p [][]byte) string { h := sha256.Sum256(p[0]); return c19_vBy(h[:]) }},
		c19_useFn{label: "hash:md5", convs: "b",
			call: func(a []object.Object) object.Object { return hashB.Call(c19ctx, a[0], md5Name) },
			src:  func(v []string) string { return `hash(` + v[0] + `, "md5")` },
			gofn: func(p [][]byte) string { h := md5.Sum(p[0]); return c19_vBy(h[:]) }})
	// --- strings module (the regenerated inventory: AsString on every parameter)
	type sfn struct {
		name string
		n    int
		f    func(p [][]byte) string
	}
	S := func(b []byte) string { return string(b) }
	sfns := []sfn{
		{"to_upper", 1, func(p [][]byte) string { return c19_vS(strings.ToUpper(S(p[0]))) }},
		{"to_lower", 1, func(p [][]byte) string { return c19_vS(strings.ToLower(S(p[0]))) }},
		{"trim_space", 1, func(p [][]byte) string { return c19_vS(strings.TrimSpace(S(p[0]))) }},
		{"fields", 1, func(p [][]byte) string { return c19_vL(strings.Fields(S(p[0]))) }},
		{"contains", 2, func(p [][]byte) string { return c19_vB(strings.Contains(S(p[0]), S(p[1]))) }},
		{"has_prefix", 2, func(p [][]byte) string { return c19_vB(strings.HasPrefix(S(p[0]), S(p[1]))) }},
		{"has_suffix", 2, func(p [][]byte) string { return c19_vB(strings.HasSuffix(S(p[0]), S(p[1]))) }},
		{"index", 2, func(p [][]byte) string { return c19_vInt(strings.Index(S(p[0]), S(p[1]))) }},
		{"last_index", 2, func(p [][]byte) string { return c19_vInt(strings.LastIndex(S(p[0]), S(p[1]))) }},
		{"count", 2, func(p [][]byte) string { return c19_vInt(strings.Count(S(p[0]), S(p[1]))) }},
		{"compare", 2, func(p [][]byte) string { return c19_vInt(strings.Compare(S(p[0]), S(p[1]))) }},
		{"split", 2, func(p [][]byte) string { return c19_vL(strings.Split(S(p[0]), S(p[1]))) }},
		{"trim", 2, func(p [][]byte) string { return c19_vS(strings.Trim(S(p[0]), S(p[1]))) }},
		{"trim_prefix", 2, func(p [][]byte) string { return c19_vS(strings.TrimPrefix(S(p[0]), S(p[1]))) }},
		{"trim_suffix", 2, func(p [][]byte) string { return c19_vS(strings.TrimSuffix(S(p[0]), S(p[1]))) }},
		{"replace_all", 3, func(p [][]byte) string { return c19_vS(strings.ReplaceAll(S(p[0]), S(p[1]), S(p[2]))) }},
	}
	for _, sf := range sfns {
		sf := sf
		f := c19_modFn("strings", sf.name)
		fns = append(fns, c19_useFn{label: "strings." + sf.name, convs: strings.Repeat("s", sf.n),
			call: func(a []object.Object) object.Object { return f(a...) },
			src:  func(v []string) string { return "strings." + sf.name + "(" + strings.Join(v, ", ") + ")" },
			gofn: sf.f})
	}
	// --- string and byte_slice methods on the session's receiver literal; modules/bytes functions
	rq := c19_recvMark // the receiver literal: a global in scripts (source text is not a safe carrier for arbitrary bytes), quoted in words()
	type mfn struct {
		name    string
		n       int
		badType string
		fs      func(r string, p [][]byte) string // string receiver (AsString operands); nil: none
		fb      func(r []byte, p [][]byte) string // byte_slice receiver (AsBytes operands); nil: none
	}
	mfns := []mfn{
		{"contains", 1, "val f", func(r string, p [][]byte) string { return c19_vB(strings.Contains(r, S(p[0]))) },
			func(r []byte, p [][]byte) string { return c19_vB(bytes.Contains(r, p[0])) }},
		{"has_prefix", 1, "", func(r string, p [][]byte) string { return c19_vB(strings.HasPrefix(r, S(p[0]))) },
			func(r []byte, p [][]byte) string { return c19_vB(bytes.HasPrefix(r, p[0])) }},
		{"has_suffix", 1, "", func(r string, p [][]byte) string { return c19_vB(strings.HasSuffix(r, S(p[0]))) },
			func(r []byte, p [][]byte) string { return c19_vB(bytes.HasSuffix(r, p[0])) }},
		{"index", 1, "", func(r string, p [][]byte) string { return c19_vInt(strings.Index(r, S(p[0]))) },
			func(r []byte, p [][]byte) string { return c19_vInt(bytes.Index(r, p[0])) }},
		{"count", 1, "", func(r string, p [][]byte) string { return c19_vInt(strings.Count(r, S(p[0]))) },
			func(r []byte, p [][]byte) string { return c19_vInt(bytes.Count(r, p[0])) }},
		{"replace_all", 2, "", func(r string, p [][]byte) string { return c19_vS(strings.ReplaceAll(r, S(p[0]), S(p[1]))) },
			func(r []byte, p [][]byte) string { return c19_vBy(bytes.ReplaceAll(r, p[0], p[1])) }},
		{"trim_prefix", 1, "", func(r string, p [][]byte) string { return c19_vS(strings.TrimPrefix(r, S(p[0]))) }, nil},
		{"split", 1, "", func(r string, p [][]byte) string { return c19_vL(strings.Split(r, S(p[0]))) }, nil},
	}
	for _, mf := range mfns {
		mf := mf
		if mf.fs != nil {
			fns = append(fns, c19_useFn{label: "string(" + c19_hx(string(recv)) + ")." + mf.name, short: "string." + mf.name, convs: strings.Repeat("s", mf.n), badType: mf.badType,
				call: func(a []object.Object) object.Object { return c19_method(object.NewString(string(recv)), mf.name, a...) },
				src:  func(v []string) string { return rq + "." + mf.name + "(" + strings.Join(v, ", ") + ")" },
				gofn: func(p [][]byte) string { return mf.fs(string(recv), p) }})
		}
		if mf.fb != nil {
			newRecv := func() object.Object { return object.NewByteSlice(append([]byte(nil), recv...)) }
			fns = append(fns, c19_useFn{label: "byte_slice(" + c19_hx(string(recv)) + ")." + mf.name, short: "byte_slice." + mf.name, convs: strings.Repeat("b", mf.n), badType: mf.badType,
				call: func(a []object.Object) object.Object { return c19_method(newRecv(), mf.name, a...) },
				src:  func(v []string) string { return "byte_slice(" + rq + ")." + mf.name + "(" + strings.Join(v, ", ") + ")" },
				gofn: func(p [][]byte) string { return mf.fb(recv, p) }})
			f := c19_modFn("bytes", mf.name)
			fns = append(fns, c19_useFn{label: "bytes." + mf.name + "(" + c19_hx(string(recv)) + ")", short: "bytes." + mf.name, convs: strings.Repeat("b", mf.n), badType: mf.badType,
				call: func(a []object.Object) object.Object { return f(append([]object.Object{newRecv()}, a...)...) },
				src:  func(v []string) string { return "bytes." + mf.name + "(byte_slice(" + rq + "), " + strings.Join(v, ", ") + ")" },
				gofn: func(p [][]byte) string { return mf.fb(recv, p) }})
		}
	}
	return fns
}

// ------------------------------------------------------------------ use sessions

type c19_useStep struct {
	fn   int
	refs []int
}

type c19_useSess struct {
	recv  []byte
	objs  []c19_aobj
	steps []c19_useStep
}

func (us *c19_useSess) text(fns []c19_useFn) string {
	os := make([]string, len(us.objs))
	for i, o := range us.objs {
		os[i] = o.text()
	}
	ss := make([]string, len(us.steps))
	for i, st := range us.steps {
		rs := make([]string, len(st.refs))
		for j, r := range st.refs {
			rs[j] = strconv.Itoa(r)
		}
		ss[i] = fns[st.fn].label + "(" + strings.Join(rs, ",") + ")"
	}
	return "[" + strings.Join(os, " ") + "] " + strings.Join(ss, " ; ")
}

func (us *c19_useSess) words(fns []c19_useFn) string {
	var parts []string
	for i, o := range us.objs {
		parts = append(parts, "x"+strconv.Itoa(i)+" := "+o.words())
	}
	for _, st := range us.steps {
		v := make([]string, len(st.refs))
		for j, r := range st.refs {
			v[j] = "x" + strconv.Itoa(r)
		}
		parts = append(parts, strings.ReplaceAll(fns[st.fn].src(v), c19_recvMark, strconv.Quote(string(us.recv))))
	}
	return strings.Join(parts, "; ")
}

// accepted: does the converter accept the object kind
func c19_convAccepts(conv byte, kind byte) bool {
	switch kind {
	case 's', 'b', 'B':
		return true
	case 'F':
		return conv == 'b'
	}
	return false
}

// spec evaluates the session on VALUES with the Go functions: per step the demanded outcome,
// and per step the contents every object must show afterwards (a value keeps its contents for
// ever; a stream that was read is at its end).
func (us *c19_useSess) spec(fns []c19_useFn) (outs []string, states [][]string) {
	vis := make([][]byte, len(us.objs))
	for i, o := range us.objs {
		vis[i] = o.visible()
	}
	show := func() []string {
		s := make([]string, len(us.objs))
		for i, o := range us.objs {
			switch o.kind {
			case 'x':
				s[i] = o.text()
			default:
				s[i] = string(o.kind) + c19_hx(string(vis[i]))
			}
		}
		return s
	}
	for _, st := range us.steps {
		fn := &fns[st.fn]
		p := make([][]byte, len(st.refs))
		out := ""
		for j, r := range st.refs {
			o := us.objs[r]
			if !c19_convAccepts(fn.convs[j], o.kind) {
				out = "err"
				if fn.badType != "" {
					out = fn.badType
				}
				break
			}
			p[j] = vis[r]
			if o.kind == 'F' {
				vis[r] = nil // io.ReadAll: the stream is at its end
			}
		}
		if out == "" {
			out = c19_guarded(func() string { return fn.gofn(p) })
		}
		outs = append(outs, out)
		states = append(states, show())
	}
	return
}

// runAPI: object API on live objects; after every step every object is looked at again.
func (us *c19_useSess) runAPI(fns []c19_useFn) (outs []string, states [][]string) {
	live := make([]c19_alive, len(us.objs))
	for i, o := range us.objs {
		live[i] = o.make()
	}
	defer func() {
		for _, l := range live {
			if l.close != nil {
				l.close()
			}
		}
	}()
	for _, st := range us.steps {
		a := make([]object.Object, len(st.refs))
		for j, r := range st.refs {
			a[j] = live[r].obj
		}
		fn := &fns[st.fn]
		res := c19_guardedObj(func() object.Object { return fn.call(a) })
		outs = append(outs, c19_outcomeOf(res))
		s := make([]string, len(live))
		for i, l := range live {
			s[i] = l.peek()
		}
		states = append(states, s)
	}
	return
}

// runScript: the whole session as one program in one VM (objects are the globals a0, a1, …);
// the results of all steps and the objects' contents at the end.
func (us *c19_useSess) runScript(fns []c19_useFn) (outs []string, final []string, fail string) {
	live := make([]c19_alive, len(us.objs))
	g := map[string]any{}
	for i, o := range us.objs {
		live[i] = o.make()
		g["a"+strconv.Itoa(i)] = live[i].obj
	}
	g["k"] = object.NewString(string(us.recv))
	defer func() {
		for _, l := range live {
			if l.close != nil {
				l.close()
			}
		}
	}()
	var sb strings.Builder
	names := make([]string, len(us.steps))
	for i, st := range us.steps {
		v := make([]string, len(st.refs))
		for j, r := range st.refs {
			v[j] = "a" + strconv.Itoa(r)
		}
		names[i] = "r" + strconv.Itoa(i)
		sb.WriteString(names[i] + " := " + strings.ReplaceAll(fns[st.fn].src(v), c19_recvMark, "k") + "\n")
	}
	sb.WriteString("[" + strings.Join(names, ", ") + "]")
	var res object.Object
	var err error
	func() {
		defer func() {
			if r := recover(); r != nil {
				err = fmt.Errorf("panic: %v", r)
			}
		}()
		res, err = risor.Eval(c19ctx, sb.String(), risor.WithGlobals(g))
	}()
	final = make([]string, len(live))
	for i, l := range live {
		final[i] = l.peek()
	}
	if err != nil {
		return nil, final, "the script failed with " + strconv.Quote(err.Error())
	}
	l, ok := res.(*object.List)
	if !ok || len(l.Value()) != len(us.steps) {
		return nil, final, "the script did not return the list of its results"
	}
	for _, o := range l.Value() {
		outs = append(outs, c19_outcomeOf(o))
	}
	return outs, final, ""
}

func (us *c19_useSess) oracleReq(fns []c19_useFn) string {
	os := make([]string, len(us.objs))
	for i, o := range us.objs {
		os[i] = o.oracleTok()
	}
	ss := make([]string, len(us.steps))
	for i, st := range us.steps {
		rs := make([]string, len(st.refs))
		for j, r := range st.refs {
			rs[j] = strconv.Itoa(r)
		}
		ss[i] = fns[st.fn].convs + ":" + strings.Join(rs, ",")
	}
	return "C19\tuses\t" + strings.Join(os, "|") + "\t" + strings.Join(ss, "|")
}

// modelOuts turns the oracle's reply (what each call hands to the Go function) into predicted
// outcomes, and returns the contents the model says every object holds at the end.
func (us *c19_useSess) modelOuts(fns []c19_useFn, rep string) (outs []string, final []string, ok bool) {
	parts := strings.Split(rep, "\t")
	if len(parts) != 2 {
		return nil, nil, false
	}
	steps := strings.Split(parts[0], "|")
	if len(steps) != len(us.steps) {
		return nil, nil, false
	}
	for i, s := range steps {
		fn := &fns[us.steps[i].fn]
		if s == "typeErr" {
			if fn.badType != "" {
				outs = append(outs, fn.badType)
			} else {
				outs = append(outs, "err")
			}
			continue
		}
		toks := strings.Fields(s)
		p := make([][]byte, len(toks))
		for j, t := range toks {
			if len(t) < 2 || (t[0] != 's' && t[0] != 'b') {
				return nil, nil, false
			}
			p[j] = []byte(UnHex(t[1:]))
		}
		if len(p) != len(fn.convs) {
			return nil, nil, false
		}
		outs = append(outs, c19_guarded(func() string { return fn.gofn(p) }))
	}
	return outs, strings.Split(parts[1], "|"), true
}

// ------------------------------------------------------------------ generation

func c19_genAObj(r *RNG, data []byte) c19_aobj {
	x := r.Intn(100)
	switch {
	case x < 14:
		return c19_aobj{kind: 's', data: data}
	case x < 28:
		return c19_aobj{kind: 'b', data: data}
	case x < 83:
		o := c19_aobj{kind: 'B', data: data, how: 'n'}
		if r.Chance(25) {
			o.how = 'w'
		}
		if r.Chance(35) { // partly read: junk in front of the contents, already consumed
			junk := c19_randBytes(r)
			if len(junk) > 6 {
				junk = junk[:6]
			}
			o.data = append(append([]byte(nil), junk...), data...)
			o.off = len(junk)
		}
		return o
	case x < 95:
		o := c19_aobj{kind: 'F', data: data}
		if r.Chance(30) {
			o.data = append([]byte("skip"), data...)
			o.off = 4
		}
		return o
	}
	return c19_aobj{kind: 'x', other: r.Intn(len(c19_otherObjs))}
}

func c19_genUseSess(r *RNG) (*c19_useSess, []c19_useFn) {
	base := c19_randBytes(r)
	if r.Chance(60) {
		base = []byte(c19Str(r) + c19Str(r))
	}
	us := &c19_useSess{recv: base}
	fns := c19UseFns(base)
	focus := r.Intn(len(fns))
	pick := func() int {
		if r.Chance(60) {
			return focus
		}
		return r.Intn(len(fns))
	}
	rel := func() []byte { // a relative of the receiver / base value
		switch r.Intn(6) {
		case 0:
			return base
		case 1:
			return []byte(c19Sub(r, string(base)))
		case 2:
			return []byte{}
		case 3:
			return c19_randBytes(r)
		default:
			return []byte(c19Sub(r, string(base)))
		}
	}
	nObj := 1 + r.Intn(3)
	for i := 0; i < nObj; i++ {
		d := rel()
		if p := fns[focus].prep; p != nil && r.Chance(75) {
			d = p(d)
		}
		us.objs = append(us.objs, c19_genAObj(r, d))
	}
	nSteps := 2 + r.Intn(5)
	hot := r.Intn(nObj)
	for n := 0; n < nSteps; n++ {
		f := pick()
		fn := &fns[f]
		refs := make([]int, len(fn.convs))
		for j := range refs {
			if r.Chance(65) {
				refs[j] = hot
			} else {
				refs[j] = r.Intn(nObj)
			}
			if fn.strict && us.objs[refs[j]].kind == 'x' {
				refs = nil
				break
			}
		}
		if refs == nil {
			continue
		}
		us.steps = append(us.steps, c19_useStep{f, refs})
	}
	if len(us.steps) == 0 {
		us.steps = append(us.steps, c19_useStep{0, []int{hot}})
	}
	return us, fns
}

// directed sessions: every function × every bytes-like kind, the same object used three times
// (two-parameter functions: the same object in both positions as well)
func c19_directedUseSess() ([]*c19_useSess, []c19_useFn) {
	recv := []byte("hi there, hi")
	fns := c19UseFns(recv)
	kinds := []c19_aobj{
		{kind: 'B', how: 'n'}, {kind: 'B', how: 'w'}, {kind: 'B', how: 'n', off: 3}, {kind: 's'}, {kind: 'b'}, {kind: 'F'}, {kind: 'F', off: 2},
	}
	var out []*c19_useSess
	for f := range fns {
		fn := &fns[f]
		for _, k := range kinds {
			d := []byte("hi")
			if fn.prep != nil {
				d = fn.prep(d)
			}
			o := k
			o.data = append(bytes.Repeat([]byte("#"), k.off), d...)
			us := &c19_useSess{recv: recv, objs: []c19_aobj{o}}
			if len(fn.convs) > 1 {
				us.objs = append(us.objs, c19_aobj{kind: 's', data: []byte("h")})
			}
			refs := make([]int, len(fn.convs))
			refs2 := make([]int, len(fn.convs))
			for j := range refs2 {
				refs2[j] = min(j, len(us.objs)-1)
			}
			us.steps = []c19_useStep{{f, refs2}, {f, refs2}, {f, refs}, {f, refs2}}
			if len(fn.convs) == 1 {
				us.steps = us.steps[:3]
			}
			out = append(out, us)
		}
	}
	return out, fns
}

func c19ArgUses(e *Env, rng *RNG) {
	n := 3000
	if !e.Quick {
		n = 60000
	}
	type pend struct {
		c     string
		us    *c19_useSess
		fns   []c19_useFn
		real  []string
		final []string
	}
	var reqs []string
	var pends []pend
	nSpec := 0
	specReport := func(c, detail string) {
		nSpec++
		if nSpec <= 40 { // every session over a changed converter fails: a handful of cases says it all
			e.R.Spec(c, detail, "")
		} else {
			e.R.H("uses-unreported-spec-violations", "beyond the first 40")
		}
	}
	runOne := func(us *c19_useSess, fns []c19_useFn, origin string, script bool) {
		text := us.text(fns)
		c := "uses " + text
		// how often is each object used, and is a stateful one reused
		useCount := make([]int, len(us.objs))
		reused, aliased := false, false
		for _, st := range us.steps {
			seen := map[int]bool{}
			for j, r := range st.refs {
				o := us.objs[r]
				useCount[r]++
				k := useCount[r]
				if o.stateful() && (k > 1) {
					reused = true
				}
				if seen[r] && o.stateful() {
					aliased = true
				}
				seen[r] = true
				kind := string(o.kind)
				if o.kind == 'B' {
					kind = "B" + string(o.how)
					if o.off > 0 {
						kind += "+read"
					}
				}
				short := fns[st.fn].short
				if short == "" {
					short = fns[st.fn].label
				}
				e.R.H("uses-function-kind", short+" "+string(fns[st.fn].convs[j])+"<-"+kind)
				e.R.H("uses-kind-use#", kind+" use#"+strconv.Itoa(min(k, 4)))
			}
		}
		e.R.Case(c, reused || aliased)
		e.R.H("uses-origin", origin)
		e.R.H("uses-steps", strconv.Itoa(len(us.steps)))
		if aliased {
			e.R.H("uses-shape", "one stateful object in two parameters of one call")
		}
		if reused {
			e.R.H("uses-shape", "a stateful object used by more than one call")
		}
		want, wantStates := us.spec(fns)
		got, gotStates := us.runAPI(fns)
		e.R.H("uses-route", "object-api")
		bad := ""
		for i := range us.steps {
			fn := &fns[us.steps[i].fn]
			e.R.H("uses-outcome", strings.SplitN(c19_coarse(got[i]), " ", 2)[0])
			if c19_coarse(got[i]) != c19_coarse(want[i]) {
				bad = fmt.Sprintf("call %d, %s, returned %s; the Go function on the value the argument held gives %s", i+1, fn.label, got[i], want[i])
				if i > 0 {
					bad += " (an earlier call on the same objects ran before it)"
				}
			}
			for j := range us.objs {
				if bad == "" && gotStates[i][j] != wantStates[i][j] {
					bad = fmt.Sprintf("after call %d, %s, object x%d shows %s; it showed %s before and a wrapper must not change its argument", i+1, fn.label, j, gotStates[i][j], wantStates[i][j])
				}
			}
			if bad == "" && fn.roundtr && strings.HasPrefix(got[i], "val ") && us.objs[us.steps[i].refs[0]].kind != 'F' {
				// decode(encode(x)) against the LIVE argument as it is after the call
				now := gotStates[i][us.steps[i].refs[0]]
				if len(now) > 0 && got[i][5:] != now[1:] {
					bad = fmt.Sprintf("call %d: decode(encode(x)) = %s but x now shows %s", i+1, got[i], now)
				}
			}
			if bad != "" {
				// what the changed argument does to the calls that follow
				for k := i + 1; k < len(us.steps); k++ {
					if c19_coarse(got[k]) != c19_coarse(want[k]) {
						bad += fmt.Sprintf("; call %d, %s, then returned %s where the Go function on the value the argument held gives %s", k+1, fns[us.steps[k].fn].label, got[k], want[k])
						break
					}
				}
				break
			}
		}
		if bad != "" {
			specReport(c+" via object-api", bad+" — "+us.words(fns))
		}
		if script {
			hasErr := false
			for _, w := range want {
				hasErr = hasErr || !strings.HasPrefix(w, "val ")
			}
			if !hasErr {
				e.R.H("uses-route", "script")
				souts, sfinal, fail := us.runScript(fns)
				sbad := fail
				if sbad == "" {
					for i := range souts {
						if souts[i] != want[i] {
							sbad = fmt.Sprintf("call %d, %s, returned %s; the Go function on the value the argument held gives %s", i+1, fns[us.steps[i].fn].label, souts[i], want[i])
							break
						}
					}
				}
				if sbad == "" {
					last := wantStates[len(wantStates)-1]
					for j := range sfinal {
						if sfinal[j] != last[j] {
							sbad = fmt.Sprintf("at the end of the script object x%d shows %s; it must show %s", j, sfinal[j], last[j])
							break
						}
					}
				}
				if sbad != "" {
					specReport(c+" via script", sbad+" — "+us.words(fns))
				}
			}
		}
		reqs = append(reqs, us.oracleReq(fns))
		pends = append(pends, pend{c, us, fns, got, gotStates[len(gotStates)-1]})
	}
	dir, dfns := c19_directedUseSess()
	for _, us := range dir {
		runOne(us, dfns, "directed", true)
	}
	for i := 0; i < n; i++ {
		us, fns := c19_genUseSess(rng)
		runOne(us, fns, "generated", i%3 == 0)
	}
	for i, rep := range e.O.AskBatch(reqs) {
		p := pends[i]
		mouts, mfinal, ok := p.us.modelOuts(p.fns, rep)
		if !ok {
			e.R.Mismatch(p.c, strings.Join(p.real, " | "), rep, "uses: the oracle's reply could not be read")
			continue
		}
		for k := range mouts {
			if c19_coarse(mouts[k]) != c19_coarse(p.real[k]) {
				e.R.Mismatch(p.c, fmt.Sprintf("call %d returned %s", k+1, p.real[k]), fmt.Sprintf("call %d: the Go function on what convRefs hands over gives %s", k+1, mouts[k]),
					"wrapper on argument objects vs C19.convRefs .peek (argument-object model)")
				break
			}
		}
		if strings.Join(mfinal, "|") != strings.Join(p.final, "|") {
			e.R.Mismatch(p.c, "objects at the end: "+strings.Join(p.final, " "), "objects at the end: "+strings.Join(mfinal, " "),
				"contents of the argument objects after the session vs C19.convRefs .peek (argument-object model)")
		}
	}
	e.R.H("uses-model", "use sessions compared with the Lean argument-object model: "+strconv.Itoa(len(reqs)))
}
